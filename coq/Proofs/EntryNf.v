(* EntryNf.v — the generated entry point in normal form: for an analysis in normal form (Proofs/EntryAn.v) the
   output of gen_entry is written out position by position, and its def statement is resolved. *)
From Coq Require Import ZArith List Bool Arith Lia.
Import ListNotations.
From OvldV Require Import Model.Entry Spec.EntrySpec Proofs.EntryLists Proofs.EntryAn.

Lemma seq_add_map : forall n a, seq a n = map (Nat.add a) (seq 0 n).
Proof.
  induction n as [|n IH]; intro a; simpl; auto. f_equal; [lia|].
  rewrite (IH (S a)), <- seq_shift, map_map. apply map_ext. intro j. lia.
Qed.

Lemma firstn_seq : forall m n a, m <= n -> firstn m (seq a n) = seq a m.
Proof.
  induction m as [|m IH]; intros n a H; simpl; auto.
  destruct n as [|n]; [lia|]. simpl. f_equal. apply IH. lia.
Qed.

Lemma firstn_app_le : forall {X} m (l1 l2 : list X), m <= length l1 -> firstn m (l1 ++ l2) = firstn m l1.
Proof.
  intros X m l1 l2 H. rewrite firstn_app. replace (m - length l1) with 0 by lia. simpl. apply app_nil_r.
Qed.

(* ---------- the normal form ---------- *)
Definition nf_lf (f : nform) (c : canon) : lk := lookup_for (nf_analysis f) c.
Definition nf_parg (f : nform) (p : nat) : pitem := PArg (nf_pid f p) (negb (p <? nf_r f)).
Definition nf_npo (f : nform) : nat := nf_n f - Nat.max (nf_r f) (nf_sl f).
Definition nf_slash1 (f : nform) : bool := (nf_npo f <=? 1) && negb (nf_sl f =? 0).
Definition nf_slash2 (f : nform) : bool := 1 <? nf_npo f.
Definition nf_star (f : nform) : bool := negb (is_nil (nf_kr f ++ nf_ko f)).
Definition nf_hasko (f : nform) : bool := negb (is_nil (nf_ko f)).
Definition nf_selfp (f : nform) : list pitem := if nf_self f then [PArg ISelf false] else [].
Definition nf_selfa (f : nform) : list aitem := if nf_self f then [APosI ISelf] else [].
Definition nf_kwp (f : nform) : list pitem :=
  map (fun n => PArg (IUser n) false) (nf_kr f) ++ map (fun n => PArg (IUser n) true) (nf_ko f).
Definition nf_params (f : nform) : list pitem :=
  nf_selfp f ++ map (nf_parg f) (seq 0 (nf_sl f)) ++ (if nf_slash1 f then [PSlash] else [])
  ++ map (nf_parg f) (seq (nf_sl f) (nf_n f - nf_sl f)) ++ (if nf_slash2 f then [PSlash] else [])
  ++ (if nf_star f then [PStar] else []) ++ nf_kwp f.

Definition nf_kpos (f : nform) (p : nat) : kitem := KPosI (nf_lf f (CPos p)) (nf_pid f p).
Definition nf_knamed (f : nform) (n : nat) : kitem := KNamedI n (nf_lf f (CName n)) (IUser n).
Definition nf_kwkeys (f : nform) : list kitem :=
  map (nf_knamed f) (nf_kr f) ++ (if nf_hasko f then [KTargs] else []).
Definition nf_lookup (f : nform) : list kitem := map (nf_kpos f) (seq 0 (nf_n f)) ++ nf_kwkeys f.
Definition nf_apos (f : nform) (p : nat) : aitem := APosI (nf_pid f p).
Definition nf_kwitems (f : nform) : list aitem :=
  map (fun n => AKwI n (IUser n)) (nf_kr f) ++ (if nf_hasko f then [AKwargs] else []).
Definition nf_posargs (f : nform) : list aitem := map (nf_apos f) (seq 0 (nf_n f)) ++ nf_kwitems f.
(* the call on the first m positionals and all the keyword parts; m = nf_n f is the final call *)
Definition nf_call (f : nform) (m : nat) : call :=
  mkCall (map (nf_kpos f) (seq 0 m) ++ nf_kwkeys f) (nf_selfa f ++ map (nf_apos f) (seq 0 m) ++ nf_kwitems f).
Definition nf_exit (f : nform) (m : nat) : stmt := SExit (nf_pid f m) (nf_call f m).
Definition nf_kwopt (f : nform) (n : nat) : stmt := SKwOpt (IUser n) n (IUser n) n (nf_lf f (CName n)) (IUser n).
Definition nf_final (f : nform) : call := nf_call f (nf_n f).
Definition nf_body (f : nform) : list stmt :=
  (if nf_hasko f then [SInitK; SInitT] else []) ++ map (nf_kwopt f) (nf_ko f)
  ++ map (nf_exit f) (seq (nf_r f) (nf_n f - nf_r f)) ++ [SCall (nf_final f)].

(* ---------- membership of a generated identifier in the required lists ---------- *)
Lemma pid_strict : forall f p, p < nf_sl f -> nf_pid f p = IArg (S p).
Proof. intros f p H. unfold nf_pid. apply Nat.ltb_lt in H. rewrite H. reflexivity. Qed.

Lemma pid_named : forall f p, nf_sl f <= p -> nf_pid f p = IUser (nf_nm f p).
Proof. intros f p H. unfold nf_pid. apply Nat.ltb_ge in H. rewrite H. reflexivity. Qed.

Lemma pid_inj : forall f p1 p2, nf_ok f -> p1 < nf_n f -> p2 < nf_n f -> nf_pid f p1 = nf_pid f p2 -> p1 = p2.
Proof.
  intros f p1 p2 Hok H1 H2 E.
  destruct (Nat.lt_ge_cases p1 (nf_sl f)) as [A|A], (Nat.lt_ge_cases p2 (nf_sl f)) as [B|B].
  - rewrite !pid_strict in E by auto. injection E. lia.
  - rewrite pid_strict, pid_named in E by auto. discriminate.
  - rewrite pid_named, pid_strict in E by auto. discriminate.
  - rewrite !pid_named in E by auto. injection E as E. apply (ok_inj f Hok); auto.
Qed.

Lemma memb_pid_seq : forall f p a len, nf_ok f -> p < nf_n f -> a + len <= nf_n f ->
  memb ident_eqb (nf_pid f p) (map (nf_pid f) (seq a len)) = (a <=? p) && (p <? a + len).
Proof.
  intros f p a len Hok Hp Hlen.
  destruct ((a <=? p) && (p <? a + len)) eqn:E.
  - apply andb_true_iff in E. destruct E as [E1 E2]. apply Nat.leb_le in E1. apply Nat.ltb_lt in E2.
    apply (memb_In ident_eqb ident_eqb_eq). apply in_map. apply in_seq. lia.
  - apply (memb_false ident_eqb ident_eqb_eq). intro Hin. apply in_map_iff in Hin.
    destruct Hin as [p' [Ep Hp']]. apply in_seq in Hp'.
    assert (p' = p) by (apply (pid_inj f); auto; lia). subst p'.
    apply andb_false_iff in E. destruct E as [E|E]; [apply Nat.leb_gt in E|apply Nat.ltb_ge in E]; lia.
Qed.

(* ---------- gen_entry on a normal-form analysis ---------- *)
Lemma gen_nf : forall f, nf_ok f -> gen_entry (nf_analysis f) = mkEntry (nf_params f) (nf_body f).
Proof.
  intros f Hok. pose proof (ok_r f Hok) as Hr. pose proof (ok_sl f Hok) as Hsl.
  set (n := nf_n f) in *. set (r := nf_r f) in *. set (sl := nf_sl f) in *.
  set (a := Nat.min r sl). set (b := Nat.max r sl).
  assert (Ha : a <= sl) by (unfold a; lia). assert (Hb1 : sl <= b) by (unfold b; lia).
  assert (Hb2 : b <= n) by (unfold b; lia).
  unfold gen_entry. cbn [nf_analysis an_self an_spr an_spo an_pr an_po an_kr an_ko]. fold n r sl a b.
  (* s1, s2 *)
  assert (E1 : map (nf_pid f) (seq 0 a) ++ map (nf_pid f) (seq a (sl - a)) = map (nf_pid f) (seq 0 sl)).
  { rewrite <- map_app. f_equal. replace sl with (a + (sl - a)) at 2 by lia. rewrite seq_app. reflexivity. }
  assert (E2 : map (nf_pid f) (seq sl (b - sl)) ++ map (nf_pid f) (seq b (n - b)) = map (nf_pid f) (seq sl (n - sl))).
  { rewrite <- map_app. f_equal. replace (n - sl) with ((b - sl) + (n - b)) by lia. rewrite seq_app.
    replace (sl + (b - sl)) with b by lia. reflexivity. }
  assert (E12 : map (nf_pid f) (seq 0 sl) ++ map (nf_pid f) (seq sl (n - sl)) = map (nf_pid f) (seq 0 n)).
  { rewrite <- map_app. f_equal. replace n with (sl + (n - sl)) at 2 by lia. rewrite seq_app. reflexivity. }
  rewrite E1, E2, E12.
  (* the parameter items *)
  assert (A1 : map (fun x => PArg x (negb (memb ident_eqb x (map (nf_pid f) (seq 0 a))))) (map (nf_pid f) (seq 0 sl))
               = map (nf_parg f) (seq 0 sl)).
  { rewrite map_map. apply map_ext_in. intros p Hp. apply in_seq in Hp. unfold nf_parg. f_equal. f_equal.
    rewrite memb_pid_seq by (auto; fold n; lia). fold r. simpl.
    unfold a. destruct (p <? r) eqn:E; [apply Nat.ltb_lt in E|apply Nat.ltb_ge in E].
    - apply Nat.ltb_lt. lia.
    - apply Nat.ltb_ge. lia. }
  assert (A2 : map (fun x => PArg x (negb (memb ident_eqb x (map (nf_pid f) (seq sl (b - sl)))))) (map (nf_pid f) (seq sl (n - sl)))
               = map (nf_parg f) (seq sl (n - sl))).
  { rewrite map_map. apply map_ext_in. intros p Hp. apply in_seq in Hp. unfold nf_parg. f_equal. f_equal.
    rewrite memb_pid_seq by (auto; fold n; lia). fold r.
    replace (sl <=? p) with true by (symmetry; apply Nat.leb_le; lia). simpl.
    replace (sl + (b - sl)) with b by lia.
    unfold b. destruct (p <? r) eqn:E; [apply Nat.ltb_lt in E|apply Nat.ltb_ge in E].
    - apply Nat.ltb_lt. lia.
    - apply Nat.ltb_ge. lia. }
  rewrite A1, A2.
  (* lookup / posargs *)
  assert (L1 : mapi_from 0 (fun i x => KPosI (lookup_for (nf_analysis f) (CPos i)) x) (map (nf_pid f) (seq 0 n))
               = map (nf_kpos f) (seq 0 n)).
  { rewrite mapi_from_map, mapi_from_seq. apply map_ext. intro j. reflexivity. }
  rewrite L1.
  assert (Lpo : length (map (nf_pid f) (seq b (n - b))) = nf_npo f).
  { rewrite map_length, seq_length. reflexivity. }
  rewrite Lpo.
  assert (S1 : negb (match map (nf_pid f) (seq 0 sl) with [] => true | _ :: _ => false end) = negb (sl =? 0)).
  { destruct sl; reflexivity. }
  rewrite S1.
  assert (Lreq : length (map (nf_pid f) (seq 0 a) ++ map (nf_pid f) (seq sl (b - sl))) = r).
  { rewrite app_length, !map_length, !seq_length. unfold a, b. lia. }
  rewrite Lreq.
  assert (E3 : map (nf_pid f) (seq a (sl - a)) ++ map (nf_pid f) (seq b (n - b)) = map (nf_pid f) (seq r (n - r))).
  { rewrite <- map_app. f_equal. destruct (Nat.le_ge_cases r sl) as [Hle|Hge].
    - unfold a, b. rewrite Nat.min_l, Nat.max_r by lia.
      replace (n - r) with ((sl - r) + (n - sl)) by lia. rewrite seq_app. replace (r + (sl - r)) with sl by lia. reflexivity.
    - unfold a, b. rewrite Nat.min_r, Nat.max_l by lia. rewrite Nat.sub_diag. reflexivity. }
  rewrite E3.
  fold (nf_selfp f) (nf_selfa f) (nf_slash1 f) (nf_slash2 f).
  change (negb match nf_ko f with [] => true | _ :: _ => false end) with (nf_hasko f).
  change (negb match nf_kr f ++ nf_ko f with [] => true | _ :: _ => false end) with (nf_star f).
  change (map (fun n0 => PArg (IUser n0) false) (nf_kr f) ++ map (fun n0 => PArg (IUser n0) true) (nf_ko f)) with (nf_kwp f).
  change (map (nf_kpos f) (seq 0 n) ++ map (fun n0 => KNamedI n0 (lookup_for (nf_analysis f) (CName n0)) (IUser n0)) (nf_kr f)
          ++ (if nf_hasko f then [KTargs] else [])) with (nf_lookup f).
  change (map APosI (map (nf_pid f) (seq 0 n))) with (map APosI (map (nf_pid f) (seq 0 (nf_n f)))).
  assert (P1 : map APosI (map (nf_pid f) (seq 0 (nf_n f))) ++ map (fun n0 => AKwI n0 (IUser n0)) (nf_kr f)
               ++ (if nf_hasko f then [AKwargs] else []) = nf_posargs f).
  { unfold nf_posargs, nf_kwitems. rewrite map_map. reflexivity. }
  rewrite P1.
  (* exits *)
  assert (Lnp : length (map (nf_pid f) (seq 0 n)) = n) by (rewrite map_length, seq_length; reflexivity).
  rewrite Lnp.
  assert (SK1 : skipn n (nf_lookup f) = nf_kwkeys f).
  { unfold nf_lookup. rewrite skipn_app, skipn_all2 by (rewrite map_length, seq_length; fold n; lia).
    rewrite map_length, seq_length. fold n. rewrite Nat.sub_diag. reflexivity. }
  assert (SK2 : skipn n (nf_posargs f) = nf_kwitems f).
  { unfold nf_posargs. rewrite skipn_app, skipn_all2 by (rewrite map_length, seq_length; fold n; lia).
    rewrite map_length, seq_length. fold n. rewrite Nat.sub_diag. reflexivity. }
  rewrite SK1, SK2.
  assert (X : mapi_from 0 (fun i x => SExit x (mkCall (firstn (r + i) (nf_lookup f) ++ nf_kwkeys f)
                                                      (nf_selfa f ++ firstn (r + i) (nf_posargs f) ++ nf_kwitems f)))
                (map (nf_pid f) (seq r (n - r))) = map (nf_exit f) (seq r (n - r))).
  { rewrite mapi_from_map, mapi_from_seq. rewrite (seq_add_map (n - r) r), map_map.
    apply map_ext_in. intros j Hj. apply in_seq in Hj. simpl. unfold nf_exit, nf_call. f_equal. f_equal.
    - f_equal. unfold nf_lookup. rewrite firstn_app_le by (rewrite map_length, seq_length; fold n; lia).
      rewrite firstn_map, firstn_seq by (fold n; lia). reflexivity.
    - f_equal. f_equal. unfold nf_posargs. rewrite firstn_app_le by (rewrite map_length, seq_length; fold n; lia).
      rewrite firstn_map, firstn_seq by (fold n; lia). reflexivity. }
  rewrite X. reflexivity.
Qed.

(* ---------- the def statement of the normal form ---------- *)
Definition pargs (l : list (ident * bool)) : list pitem := map (fun xd => PArg (fst xd) (snd xd)) l.

Lemma take_args_pargs : forall l, take_args (pargs l) = (l, []).
Proof.
  induction l as [|[x d] l IH]; [reflexivity|].
  change (take_args (pargs ((x, d) :: l))) with (let (a, t) := take_args (pargs l) in ((x, d) :: a, t)).
  rewrite IH. reflexivity.
Qed.

Lemma take_args_slash : forall l rest, take_args (pargs l ++ PSlash :: rest) = (l, PSlash :: rest).
Proof.
  induction l as [|[x d] l IH]; intro rest; [reflexivity|].
  change (take_args (pargs ((x, d) :: l) ++ PSlash :: rest))
    with (let (a, t) := take_args (pargs l ++ PSlash :: rest) in ((x, d) :: a, t)).
  rewrite IH. reflexivity.
Qed.

Lemma take_args_star : forall l rest, take_args (pargs l ++ PStar :: rest) = (l, PStar :: rest).
Proof.
  induction l as [|[x d] l IH]; intro rest; [reflexivity|].
  change (take_args (pargs ((x, d) :: l) ++ PStar :: rest))
    with (let (a, t) := take_args (pargs l ++ PStar :: rest) in ((x, d) :: a, t)).
  rewrite IH. reflexivity.
Qed.

Lemma pargs_app : forall l1 l2, pargs l1 ++ pargs l2 = pargs (l1 ++ l2).
Proof. intros. unfold pargs. rewrite map_app. reflexivity. Qed.

Lemma with_kind_app : forall k l1 l2, with_kind k (l1 ++ l2) = with_kind k l1 ++ with_kind k l2.
Proof. intros. unfold with_kind. apply map_app. Qed.

Lemma is_nil_false : forall {X} (l : list X), l <> [] -> is_nil l = false.
Proof. intros X [|x l] H; [contradiction|reflexivity]. Qed.

Lemma split_build : forall A1 A2 A3 b1 b2 b3,
  (b1 = true -> A1 <> []) -> (b2 = true -> A1 ++ A2 <> []) -> b1 && b2 = false -> b3 = negb (is_nil A3) ->
  split_params (pargs A1 ++ (if b1 then [PSlash] else []) ++ pargs A2 ++ (if b2 then [PSlash] else [])
                ++ (if b3 then [PStar] else []) ++ pargs A3)
  = Some (with_kind (if b1 || b2 then PosOnly else PosKw) A1 ++ with_kind (if b2 then PosOnly else PosKw) A2,
          with_kind KwOnly A3).
Proof.
  intros A1 A2 A3 b1 b2 b3 H1 H2 H12 H3.
  assert (HA3 : b3 = false -> A3 = []).
  { intro E. rewrite E in H3. destruct A3; [reflexivity|discriminate]. }
  assert (HA3' : b3 = true -> is_nil A3 = false).
  { intro E. rewrite E in H3. destruct A3; [discriminate|reflexivity]. }
  unfold split_params.
  destruct b1, b2; try discriminate; cbn [app orb].
  - (* slash after A1 *)
    rewrite take_args_slash. rewrite (is_nil_false A1 (H1 eq_refl)).
    destruct b3; cbn [app].
    + rewrite take_args_star, take_args_pargs, (HA3' eq_refl). reflexivity.
    + rewrite (HA3 eq_refl). cbn [pargs map]. rewrite app_nil_r, take_args_pargs. reflexivity.
  - (* slash after A1 ++ A2 *)
    rewrite app_assoc, pargs_app. rewrite take_args_slash. rewrite (is_nil_false _ (H2 eq_refl)).
    destruct b3; cbn [app].
    + cbn [take_args]. rewrite take_args_pargs, (HA3' eq_refl).
      cbn [orb negb is_nil with_kind map]. rewrite app_nil_r. fold (with_kind PosOnly (A1 ++ A2)).
      rewrite with_kind_app. reflexivity.
    + rewrite (HA3 eq_refl). cbn [pargs map take_args with_kind]. rewrite app_nil_r.
      fold (with_kind PosOnly (A1 ++ A2)). rewrite with_kind_app. reflexivity.
  - (* no slash *)
    rewrite app_assoc, pargs_app.
    destruct b3; cbn [app].
    + rewrite take_args_star, take_args_pargs, (HA3' eq_refl). rewrite with_kind_app. reflexivity.
    + rewrite (HA3 eq_refl). cbn [pargs map]. rewrite app_nil_r. fold (pargs (A1 ++ A2)).
      rewrite take_args_pargs, with_kind_app. reflexivity.
Qed.

Definition nf_poskind (f : nform) (p : nat) : pkind :=
  if nf_slash2 f then PosOnly else if p <? nf_sl f then PosOnly else PosKw.
Definition nf_selfkind (f : nform) : pkind := if nf_slash1 f || nf_slash2 f then PosOnly else PosKw.
Definition nf_selfe (f : nform) : list eparam := if nf_self f then [mkEP (nf_selfkind f) ISelf false] else [].
Definition nf_posep (f : nform) (p : nat) : eparam := mkEP (nf_poskind f p) (nf_pid f p) (negb (p <? nf_r f)).
Definition nf_pose (f : nform) : list eparam := map (nf_posep f) (seq 0 (nf_n f)).
Definition nf_kwe (f : nform) : list eparam :=
  map (fun n => mkEP KwOnly (IUser n) false) (nf_kr f) ++ map (fun n => mkEP KwOnly (IUser n) true) (nf_ko f).
Definition nf_eparams (f : nform) : list eparam := nf_selfe f ++ nf_pose f ++ nf_kwe f.

Lemma defaults_ok_thr : forall (kd : nat -> pkind) (idf : nat -> ident) r len a seen,
  (seen = true -> r <= a) ->
  defaults_ok seen (map (fun p => mkEP (kd p) (idf p) (negb (p <? r))) (seq a len)) = true.
Proof.
  intros kd idf r. induction len as [|len IH]; intros a seen H; simpl; auto.
  destruct (a <? r) eqn:E; simpl.
  - apply Nat.ltb_lt in E. destruct seen.
    + specialize (H eq_refl). lia.
    + simpl. apply IH. discriminate.
  - apply Nat.ltb_ge in E. apply IH. intros _. lia.
Qed.

Lemma NoDup_map_inj_in : forall {X Y} (g : X -> Y) l,
  (forall x y, In x l -> In y l -> g x = g y -> x = y) -> NoDup l -> NoDup (map g l).
Proof.
  intros X Y g. induction l as [|x l IH]; simpl; intros Hinj Hnd.
  - constructor.
  - inversion Hnd; subst. constructor.
    + intro Hin. apply in_map_iff in Hin. destruct Hin as [y [E Hy]].
      assert (y = x) by (apply Hinj; auto). subst. contradiction.
    + apply IH; auto.
Qed.

Lemma nf_ids : forall f, map ep_id (nf_eparams f)
  = (if nf_self f then [ISelf] else []) ++ map (nf_pid f) (seq 0 (nf_n f)) ++ map IUser (nf_kr f ++ nf_ko f).
Proof.
  intro f. unfold nf_eparams, nf_selfe, nf_pose, nf_kwe. rewrite !map_app, !map_map. simpl.
  destruct (nf_self f); reflexivity.
Qed.

Lemma nf_ids_NoDup : forall f, nf_ok f -> NoDup (map ep_id (nf_eparams f)).
Proof.
  intros f Hok. rewrite nf_ids.
  assert (Hp : NoDup (map (nf_pid f) (seq 0 (nf_n f)))).
  { apply NoDup_map_inj_in; [|apply seq_NoDup].
    intros x y Hx Hy E. apply in_seq in Hx, Hy. apply (pid_inj f); auto; lia. }
  assert (Hk : NoDup (map IUser (nf_kr f ++ nf_ko f))).
  { apply NoDup_map_inj_in; [|apply (ok_kw f Hok)]. intros x y _ _ E. injection E. auto. }
  assert (Hpk : NoDup (map (nf_pid f) (seq 0 (nf_n f)) ++ map IUser (nf_kr f ++ nf_ko f))).
  { apply NoDup_app_iff. repeat split; auto. intros x Hx Hx'.
    apply in_map_iff in Hx. destruct Hx as [p [<- Hp']]. apply in_seq in Hp'.
    apply in_map_iff in Hx'. destruct Hx' as [m [E Hm]].
    destruct (Nat.lt_ge_cases p (nf_sl f)) as [A|A].
    - rewrite pid_strict in E by auto. discriminate.
    - rewrite pid_named in E by auto. injection E as ->. apply (ok_disj f Hok p); auto. lia. }
  destruct (nf_self f); simpl; auto. constructor; auto.
  rewrite in_app_iff. intros [H|H]; apply in_map_iff in H; destruct H as [p [E _]].
  - unfold nf_pid in E. destruct (p <? nf_sl f); discriminate.
  - discriminate.
Qed.

Lemma resolve_nf : forall f, nf_ok f -> resolve_params (nf_params f) = Some (nf_eparams f).
Proof.
  intros f Hok. pose proof (ok_r f Hok) as Hr. pose proof (ok_sl f Hok) as Hsl.
  set (pp := fun p => (nf_pid f p, negb (p <? nf_r f))).
  set (A1 := (if nf_self f then [(ISelf, false)] else []) ++ map pp (seq 0 (nf_sl f))).
  set (A2 := map pp (seq (nf_sl f) (nf_n f - nf_sl f))).
  set (A3 := map (fun n => (IUser n, false)) (nf_kr f) ++ map (fun n => (IUser n, true)) (nf_ko f)).
  assert (E : nf_params f = pargs A1 ++ (if nf_slash1 f then [PSlash] else []) ++ pargs A2
                            ++ (if nf_slash2 f then [PSlash] else []) ++ (if nf_star f then [PStar] else []) ++ pargs A3).
  { unfold nf_params, A1, A2, A3, pargs, nf_selfp, nf_kwp. rewrite !map_app, !map_map. rewrite <- !app_assoc.
    destruct (nf_self f); reflexivity. }
  unfold resolve_params. rewrite E, split_build.
  - assert (Epos : with_kind (if nf_slash1 f || nf_slash2 f then PosOnly else PosKw) A1
                   ++ with_kind (if nf_slash2 f then PosOnly else PosKw) A2 = nf_selfe f ++ nf_pose f).
    { unfold A1, A2, nf_selfe, nf_pose, nf_selfkind. rewrite with_kind_app. unfold with_kind. rewrite !map_map.
      assert (Hseq : seq 0 (nf_n f) = seq 0 (nf_sl f) ++ seq (nf_sl f) (nf_n f - nf_sl f)).
      { replace (nf_n f) with (nf_sl f + (nf_n f - nf_sl f)) at 1 by lia. rewrite seq_app. reflexivity. }
      rewrite Hseq, map_app.
      rewrite <- app_assoc. f_equal; [destruct (nf_self f); reflexivity|]. f_equal.
      - apply map_ext_in. intros p Hp. apply in_seq in Hp. unfold nf_posep, nf_poskind. simpl. f_equal.
        replace (p <? nf_sl f) with true by (symmetry; apply Nat.ltb_lt; lia).
        unfold nf_slash1, nf_slash2. destruct (1 <? nf_npo f) eqn:E2; [rewrite orb_true_r; reflexivity|].
        apply Nat.ltb_ge in E2. replace (nf_npo f <=? 1) with true by (symmetry; apply Nat.leb_le; lia).
        replace (nf_sl f =? 0) with false by (symmetry; apply Nat.eqb_neq; lia). reflexivity.
      - apply map_ext_in. intros p Hp. apply in_seq in Hp. unfold nf_posep, nf_poskind. simpl. f_equal.
        replace (p <? nf_sl f) with false by (symmetry; apply Nat.ltb_ge; lia). reflexivity. }
    assert (Ekw : with_kind KwOnly A3 = nf_kwe f).
    { unfold A3, nf_kwe, with_kind. rewrite map_app, !map_map. reflexivity. }
    rewrite Epos, Ekw.
    assert (D : defaults_ok false (nf_selfe f ++ nf_pose f) = true).
    { unfold nf_selfe, nf_pose, nf_posep. destruct (nf_self f); simpl; apply defaults_ok_thr; discriminate. }
    rewrite D. rewrite <- app_assoc. fold (nf_eparams f).
    rewrite (proj2 (nodupb_NoDup ident_eqb ident_eqb_eq _) (nf_ids_NoDup f Hok)). reflexivity.
  - intros H1 HA. unfold nf_slash1 in H1. apply andb_true_iff in H1. destruct H1 as [_ H1].
    apply negb_true_iff, Nat.eqb_neq in H1. unfold A1 in HA. apply app_eq_nil in HA. destruct HA as [_ HA].
    destruct (nf_sl f); [lia|discriminate].
  - intros H2 HA. unfold nf_slash2, nf_npo in H2. apply Nat.ltb_lt in H2. apply app_eq_nil in HA. destruct HA as [_ HA].
    unfold A2 in HA. destruct (nf_n f - nf_sl f) eqn:E2; [lia|discriminate].
  - unfold nf_slash1, nf_slash2. destruct (nf_npo f <=? 1) eqn:E1; simpl; auto.
    apply Nat.leb_le in E1. rewrite andb_false_iff. right. apply Nat.ltb_ge. exact E1.
  - unfold nf_star, A3. f_equal. destruct (nf_kr f), (nf_ko f); reflexivity.
Qed.
