(* EntryRun.v — the interpreter of the mini-AST on the generated body (normal form), for a bound call shape. *)
From Coq Require Import ZArith List Bool Arith Lia.
Import ListNotations.
From OvldV Require Import Model.Entry Spec.EntrySpec Proofs.EntryLists Proofs.EntryAn Proofs.EntryNf Proofs.EntryBind.

Lemma flat_map_map : forall {X Y Z} (g : Y -> list Z) (h : X -> Y) l, flat_map g (map h l) = flat_map (fun x => g (h x)) l.
Proof. intros X Y Z g h. induction l as [|x l IH]; simpl; try rewrite IH; reflexivity. Qed.

Lemma flat_map_single : forall {X Y} (h : X -> Y) l, flat_map (fun x => [h x]) l = map h l.
Proof. intros X Y h. induction l as [|x l IH]; simpl; try rewrite IH; reflexivity. Qed.

Lemma flat_map_nil : forall {X Y} (l : list X), flat_map (fun _ => @nil Y) l = [].
Proof. intros X Y. induction l; simpl; auto. Qed.

Lemma find_seq_some : forall (g : nat -> bool) len a m, find g (seq a len) = Some m ->
  a <= m < a + len /\ g m = true /\ forall p, a <= p < m -> g p = false.
Proof.
  intros g. induction len as [|len IH]; intros a m H; simpl in H.
  - discriminate.
  - destruct (g a) eqn:E.
    + injection H as <-. repeat split; auto; try lia.
    + apply IH in H. destruct H as [H1 [H2 H3]]. repeat split; auto; try lia.
      intros p Hp. destruct (Nat.eq_dec p a) as [->|Hne]; auto. apply H3. lia.
Qed.

Lemma find_seq_none : forall (g : nat -> bool) len a, find g (seq a len) = None -> forall p, a <= p < a + len -> g p = false.
Proof.
  intros g. induction len as [|len IH]; intros a H p Hp; simpl in H.
  - lia.
  - destruct (g a) eqn:E; [discriminate|]. destruct (Nat.eq_dec p a) as [->|Hne]; auto. apply (IH (S a)); auto. lia.
Qed.

(* ---------- sources of the parameters ---------- *)
Definition supplied (f : nform) (k : nat) (K : list nat) (p : nat) : bool :=
  match nf_posval f k K p with Some _ => true | None => false end.
Definition nf_psrc (f : nform) (k : nat) (p : nat) : src := if p <? k then SPos p else SKw (nf_nm f p).

Lemma posval_cases : forall f k K p,
  nf_posval f k K p = if p <? k then Some (SPos p)
                      else if negb (nf_slash2 f) && negb (p <? nf_sl f) && memb Nat.eqb (nf_nm f p) K
                           then Some (SKw (nf_nm f p)) else None.
Proof.
  intros f k K p. unfold nf_posval. destruct (p <? k); auto.
  rewrite posep_by_kw. unfold nf_pid. destruct (p <? nf_sl f) eqn:E; simpl.
  - rewrite andb_false_r. reflexivity.
  - rewrite andb_true_r. destruct (nf_slash2 f); simpl; auto. apply kw_find_caller.
Qed.

Lemma posval_psrc : forall f k K p, supplied f k K p = true -> nf_posval f k K p = Some (nf_psrc f k p).
Proof.
  intros f k K p H. unfold supplied in H. rewrite posval_cases in *. unfold nf_psrc.
  destruct (p <? k); auto.
  destruct (negb (nf_slash2 f) && negb (p <? nf_sl f) && memb Nat.eqb (nf_nm f p) K); auto. discriminate.
Qed.

Lemma supplied_iff : forall f k K p, p < nf_n f ->
  (supplied f k K p = true <-> p < k \/ (nf_kwpos f (nf_nm f p) p /\ In (nf_nm f p) K)).
Proof.
  intros f k K p Hp. unfold supplied. rewrite posval_cases. unfold nf_kwpos.
  destruct (p <? k) eqn:Ek.
  - apply Nat.ltb_lt in Ek. split; auto.
  - apply Nat.ltb_ge in Ek.
    destruct (negb (nf_slash2 f) && negb (p <? nf_sl f) && memb Nat.eqb (nf_nm f p) K) eqn:E.
    + split; auto. intros _. right. apply andb_true_iff in E. destruct E as [E E3]. apply andb_true_iff in E. destruct E as [E1 E2].
      apply negb_true_iff in E1, E2. apply Nat.ltb_ge in E2. apply (memb_In Nat.eqb Nat.eqb_eq) in E3. repeat split; auto.
    + split; [discriminate|]. intros [H|[[[A B] [C _]] D]]; [lia|]. exfalso.
      rewrite C in E. replace (p <? nf_sl f) with false in E by (symmetry; apply Nat.ltb_ge; lia).
      simpl in E. apply (memb_false Nat.eqb Nat.eqb_eq) in E. contradiction.
Qed.

Lemma psrc_not_missing : forall f k p, src_eqb (nf_psrc f k p) SMissing = false.
Proof. intros f k p. unfold nf_psrc. destruct (p <? k); reflexivity. Qed.

Lemma env_pos_missing : forall f k K p, nf_ok f -> p < nf_n f ->
  is_missing (nf_env f k K) (nf_pid f p) = negb (supplied f k K p).
Proof.
  intros f k K p Hok Hp. unfold is_missing. rewrite nf_env_pos by auto.
  destruct (supplied f k K p) eqn:E.
  - rewrite (posval_psrc f k K p E). simpl. apply psrc_not_missing.
  - unfold supplied in E. destruct (nf_posval f k K p); [discriminate|reflexivity].
Qed.

Lemma env_pos_src : forall f k K p, nf_ok f -> p < nf_n f -> supplied f k K p = true ->
  env_get (nf_env f k K) (nf_pid f p) = nf_psrc f k p.
Proof. intros f k K p Hok Hp H. rewrite nf_env_pos by auto. rewrite (posval_psrc f k K p H). reflexivity. Qed.

Lemma env_kw_get : forall f k K m, nf_ok f -> In m (nf_kr f ++ nf_ko f) ->
  env_get (nf_env f k K) (IUser m) = if memb Nat.eqb m K then SKw m else SMissing.
Proof.
  intros f k K m Hok Hm. rewrite nf_env_kw by auto. unfold nf_kwval. rewrite kw_find_caller.
  destruct (memb Nat.eqb m K); reflexivity.
Qed.

(* ---------- running the statements ---------- *)
Definition kwacc (e : env) (l : list nat) : list (nat * src) :=
  flat_map (fun m => if is_missing e (IUser m) then [] else [(m, env_get e (IUser m))]) l.
Definition tgacc (f : nform) (e : env) (l : list nat) : list keyent :=
  flat_map (fun m => if is_missing e (IUser m) then [] else [mkKE (Some m) (nf_lf f (CName m)) (env_get e (IUser m))]) l.

Lemma run_kwopts : forall f e l kw tg rest,
  run_stmts e (mkSt (Some kw) (Some tg)) (map (nf_kwopt f) l ++ rest)
  = run_stmts e (mkSt (Some (kw ++ kwacc e l)) (Some (tg ++ tgacc f e l))) rest.
Proof.
  intros f e. induction l as [|m l IH]; intros kw tg rest.
  - simpl. rewrite !app_nil_r. reflexivity.
  - cbn [map app run_stmts nf_kwopt kwacc tgacc flat_map st_kwargs st_targs].
    destruct (is_missing e (IUser m)).
    + rewrite IH. reflexivity.
    + rewrite IH. unfold kwacc, tgacc. rewrite <- !app_assoc. reflexivity.
Qed.

Lemma run_exits : forall f e st c len a,
  run_stmts e st (map (nf_exit f) (seq a len) ++ [SCall c])
  = match find (fun p => is_missing e (nf_pid f p)) (seq a len) with
    | Some m => eval_call e st (nf_call f m)
    | None => eval_call e st c
    end.
Proof.
  intros f e st c. induction len as [|len IH]; intro a.
  - reflexivity.
  - cbn [seq map app run_stmts nf_exit find]. destruct (is_missing e (nf_pid f a)); auto.
Qed.

Lemma existsb_map_false : forall {X Y} (P : Y -> bool) (g : X -> Y) l, (forall x, P (g x) = false) -> existsb P (map g l) = false.
Proof. intros X Y P g l H. induction l as [|x l IH]; simpl; auto. rewrite H, IH. reflexivity. Qed.

Lemma no_targs_kpos : forall f l, existsb (fun k => match k with KTargs => true | _ => false end) (map (nf_kpos f) l) = false.
Proof. intros f. induction l; simpl; auto. Qed.

Lemma no_kwargs_apos : forall f l, existsb (fun a => match a with AKwargs => true | _ => false end) (nf_selfa f ++ map (nf_apos f) l) = false.
Proof.
  intros f l. rewrite existsb_app. assert (E : existsb (fun a => match a with AKwargs => true | _ => false end) (map (nf_apos f) l) = false) by (induction l; simpl; auto).
  rewrite E. unfold nf_selfa. destruct (nf_self f); reflexivity.
Qed.

Definition selfs (f : nform) : list src := if nf_self f then [SSelf] else [].

Lemma eval_selfa_pos : forall f k K, flat_map (fun a => match a with APosI x => [env_get (nf_env f k K) x] | _ => [] end) (nf_selfa f) = selfs f.
Proof. intros f k K. unfold nf_selfa, selfs. destruct (nf_self f) eqn:E; simpl; auto. rewrite nf_env_self by auto. reflexivity. Qed.

Lemma eval_selfa_kw : forall f e (kwargs : list (nat * src)),
  flat_map (fun a => match a with APosI _ => [] | AKwI n x => [(n, env_get e x)] | AKwargs => kwargs end) (nf_selfa f) = [].
Proof. intros f e kwargs. unfold nf_selfa. destruct (nf_self f); reflexivity. Qed.

Definition kw_supplied (f : nform) (K : list nat) : list nat := nf_kr f ++ filter (fun m => memb Nat.eqb m K) (nf_ko f).

(* the call on the first M positionals and every supplied keyword *)
Definition out_M (f : nform) (k : nat) (K : list nat) (M : nat) : outcome :=
  OCall (map (fun p => mkKE None (nf_lf f (CPos p)) (nf_psrc f k p)) (seq 0 M)
         ++ map (fun m => mkKE (Some m) (nf_lf f (CName m)) (SKw m)) (kw_supplied f K))
        (selfs f ++ map (nf_psrc f k) (seq 0 M))
        (map (fun m => (m, SKw m)) (kw_supplied f K)).
Definition out_exit (f : nform) (k : nat) (K : list nat) (m : nat) : outcome := out_M f k K m.
Definition out_full (f : nform) (k : nat) (K : list nat) : outcome := out_M f k K (nf_n f).

Lemma kwacc_nf : forall f k K l, nf_ok f -> incl l (nf_ko f) ->
  kwacc (nf_env f k K) l = map (fun m => (m, SKw m)) (filter (fun m => memb Nat.eqb m K) l).
Proof.
  intros f k K l Hok. induction l as [|m l IH]; intro Hl; simpl; auto.
  assert (Hm : In m (nf_kr f ++ nf_ko f)) by (apply in_app_iff; right; apply Hl; left; reflexivity).
  unfold is_missing. rewrite (env_kw_get f k K m Hok Hm).
  rewrite IH by (intros x Hx; apply Hl; right; exact Hx).
  destruct (memb Nat.eqb m K); reflexivity.
Qed.

Lemma tgacc_nf : forall f k K l, nf_ok f -> incl l (nf_ko f) ->
  tgacc f (nf_env f k K) l = map (fun m => mkKE (Some m) (nf_lf f (CName m)) (SKw m)) (filter (fun m => memb Nat.eqb m K) l).
Proof.
  intros f k K l Hok. induction l as [|m l IH]; intro Hl; simpl; auto.
  assert (Hm : In m (nf_kr f ++ nf_ko f)) by (apply in_app_iff; right; apply Hl; left; reflexivity).
  unfold is_missing. rewrite (env_kw_get f k K m Hok Hm).
  rewrite IH by (intros x Hx; apply Hl; right; exact Hx).
  destruct (memb Nat.eqb m K); reflexivity.
Qed.

(* the state before the exits: KWARGS / TARGS hold the supplied optional keywords (or are unbound when there are none) *)
Definition st_after (f : nform) (k : nat) (K : list nat) : state :=
  if nf_hasko f then mkSt (Some (kwacc (nf_env f k K) (nf_ko f))) (Some (tgacc f (nf_env f k K) (nf_ko f)))
  else mkSt None None.

Lemma run_prefix : forall f k K rest,
  run_stmts (nf_env f k K) (mkSt None None) ((if nf_hasko f then [SInitK; SInitT] else []) ++ map (nf_kwopt f) (nf_ko f) ++ rest)
  = run_stmts (nf_env f k K) (st_after f k K) rest.
Proof.
  intros f k K rest. unfold st_after, nf_hasko. destruct (nf_ko f) as [|m l] eqn:E.
  - reflexivity.
  - cbn [is_nil negb app run_stmts st_kwargs st_targs]. rewrite run_kwopts. reflexivity.
Qed.

Lemma eval_call_M : forall f k K M, nf_ok f -> bound f k K -> M <= nf_n f ->
  (forall p, p < M -> supplied f k K p = true) ->
  eval_call (nf_env f k K) (st_after f k K) (nf_call f M) = out_M f k K M.
Proof.
  intros f k K M Hok Hb HM Hall. unfold eval_call, nf_call, out_M. cbn [c_key c_args].
  assert (Ekr : forall m, In m (nf_kr f) -> env_get (nf_env f k K) (IUser m) = SKw m).
  { intros m Hm. rewrite env_kw_get by (auto; apply in_app_iff; auto).
    replace (memb Nat.eqb m K) with true; auto. symmetry. apply (memb_In Nat.eqb Nat.eqb_eq). apply (b_kr f k K Hb). exact Hm. }
  assert (Epos : forall p, In p (seq 0 M) -> env_get (nf_env f k K) (nf_pid f p) = nf_psrc f k p).
  { intros p Hp. apply in_seq in Hp. apply env_pos_src; auto; try lia. apply Hall. lia. }
  unfold nf_kwkeys, nf_kwitems, st_after.
  destruct (nf_hasko f) eqn:Eh; cbn [st_kwargs st_targs].
  - rewrite !existsb_app. cbn [existsb orb]. rewrite !orb_true_r.
    rewrite !flat_map_app, !flat_map_map. cbn [nf_kpos nf_knamed nf_apos flat_map app].
    rewrite eval_selfa_pos, eval_selfa_kw.
    rewrite !flat_map_single, !flat_map_nil, !app_nil_r. cbn [app].
    rewrite kwacc_nf, tgacc_nf by (auto; apply incl_refl).
    unfold kw_supplied. rewrite !map_app. f_equal.
    + f_equal.
      * apply map_ext_in. intros p Hp. rewrite Epos by auto. reflexivity.
      * f_equal. apply map_ext_in. intros m Hm. rewrite Ekr by auto. reflexivity.
    + f_equal. apply map_ext_in. intros p Hp. apply Epos. exact Hp.
    + f_equal. apply map_ext_in. intros m Hm. rewrite Ekr by auto. reflexivity.
  - assert (Eko : nf_ko f = []).
    { unfold nf_hasko in Eh. destruct (nf_ko f); [reflexivity|discriminate]. }
    rewrite !existsb_app. cbn [existsb orb]. rewrite !orb_false_r.
    assert (N1 : existsb (fun k0 => match k0 with KTargs => true | _ => false end) (map (nf_knamed f) (nf_kr f)) = false)
      by (apply existsb_map_false; reflexivity).
    assert (N2 : existsb (fun a => match a with AKwargs => true | _ => false end) (map (fun n => AKwI n (IUser n)) (nf_kr f)) = false)
      by (apply existsb_map_false; reflexivity).
    assert (N3 : existsb (fun a => match a with AKwargs => true | _ => false end) (map (nf_apos f) (seq 0 M)) = false)
      by (apply existsb_map_false; reflexivity).
    assert (N4 : existsb (fun a => match a with AKwargs => true | _ => false end) (nf_selfa f) = false)
      by (unfold nf_selfa; destruct (nf_self f); reflexivity).
    rewrite no_targs_kpos, N1, N2, N3, N4. cbn [orb].
    rewrite !flat_map_app, !flat_map_map. cbn [nf_kpos nf_knamed nf_apos flat_map app].
    rewrite eval_selfa_pos, eval_selfa_kw.
    rewrite !flat_map_single, !flat_map_nil, !app_nil_r. cbn [app].
    unfold kw_supplied. rewrite Eko. cbn [filter]. rewrite !app_nil_r. f_equal.
    + f_equal.
      * apply map_ext_in. intros p Hp. rewrite Epos by auto. reflexivity.
      * apply map_ext_in. intros m Hm. rewrite Ekr by auto. reflexivity.
    + f_equal. apply map_ext_in. intros p Hp. apply Epos. exact Hp.
    + apply map_ext_in. intros m Hm. rewrite Ekr by auto. reflexivity.
Qed.

(* ---------- the outcome of the generated body on a bound shape ---------- *)
Definition first_missing (f : nform) (k : nat) (K : list nat) : option nat :=
  find (fun p => negb (supplied f k K p)) (seq (nf_r f) (nf_n f - nf_r f)).

Lemma first_missing_some : forall f k K m, nf_ok f -> bound f k K -> first_missing f k K = Some m ->
  nf_r f <= m < nf_n f /\ supplied f k K m = false /\ forall p, p < m -> supplied f k K p = true.
Proof.
  intros f k K m Hok Hb H. unfold first_missing in H. apply find_seq_some in H. destruct H as [H1 [H2 H3]].
  pose proof (ok_r f Hok). repeat split; try lia.
  - apply negb_true_iff in H2. exact H2.
  - intros p Hp. destruct (Nat.lt_ge_cases p (nf_r f)) as [A|A].
    + pose proof (b_req f k K Hb p A) as Hq. unfold supplied. destruct (nf_posval f k K p); [reflexivity|contradiction].
    + specialize (H3 p ltac:(lia)). apply negb_false_iff in H3. exact H3.
Qed.

Lemma first_missing_none : forall f k K, nf_ok f -> bound f k K -> first_missing f k K = None ->
  forall p, p < nf_n f -> supplied f k K p = true.
Proof.
  intros f k K Hok Hb H p Hp. unfold first_missing in H. pose proof (ok_r f Hok).
  destruct (Nat.lt_ge_cases p (nf_r f)) as [A|A].
  - pose proof (b_req f k K Hb p A) as Hq. unfold supplied. destruct (nf_posval f k K p); [reflexivity|contradiction].
  - pose proof (find_seq_none _ _ _ H p ltac:(lia)) as Hn. apply negb_false_iff in Hn. exact Hn.
Qed.

Theorem run_nf : forall f k K, nf_ok f -> bound f k K ->
  run_stmts (nf_env f k K) (mkSt None None) (nf_body f)
  = match first_missing f k K with Some m => out_exit f k K m | None => out_full f k K end.
Proof.
  intros f k K Hok Hb. unfold nf_body. rewrite run_prefix, run_exits.
  assert (Ef : find (fun p => is_missing (nf_env f k K) (nf_pid f p)) (seq (nf_r f) (nf_n f - nf_r f)) = first_missing f k K).
  { unfold first_missing. pose proof (ok_r f Hok).
    assert (G : forall l, (forall p, In p l -> p < nf_n f) ->
                find (fun p => is_missing (nf_env f k K) (nf_pid f p)) l = find (fun p => negb (supplied f k K p)) l).
    { induction l as [|x l IH]; intro Hl; simpl; auto. rewrite env_pos_missing by (auto; apply Hl; left; reflexivity).
      destruct (negb (supplied f k K x)); auto. apply IH. intros p Hp. apply Hl. right. exact Hp. }
    apply G. intros p Hp. apply in_seq in Hp. lia. }
  rewrite Ef. destruct (first_missing f k K) as [m|] eqn:E.
  - destruct (first_missing_some f k K m Hok Hb E) as [Hm [_ Hlt]].
    unfold out_exit. apply eval_call_M; auto. lia.
  - unfold out_full, nf_final. apply eval_call_M; auto. apply (first_missing_none f k K Hok Hb E).
Qed.
