(* C04 — caching is invisible: a call's outcome never depends on earlier calls.
   Theorems only.  Model: Model/Cache.v (the MultiTypeMap dict, errors, all as a state machine over getitem). *)
From Coq Require Import ZArith List Bool Arith.
Import ListNotations.
From OvldV Require Import Model.Order Model.Ty Model.Codec Model.Resolve Model.Cache Proofs.CacheFacts Proofs.CacheFull Gen.Leaf Proofs.LeafMissing.

(* FULL STATEMENT, PROVED: for every list of handlers with distinct code objects and every finite history of
   dictionary accesses -- plain keys and continuation keys (caller code, *types), in any order, with repeats, failing
   and ambiguous ones -- interleaved with registrations of further handlers, each access returns exactly what a
   brand-new table over the handlers registered so far returns (`expected` recomputes `fresh` at every access). *)
Theorem C04_history_free : forall sub hasm chk fresh ms ops st' outs,
  NoDup (map m_id (ms ++ regs ops)) ->
  crun sub hasm chk fresh (cinit ms) ops = (st', outs) -> outs_of outs = expected sub hasm chk fresh ms ops.
Proof. exact history_free. Qed.
Print Assumptions C04_history_free.

(* one access from any state satisfying the invariant: same answer as a fresh table, invariant kept *)
Theorem C04_access_step : forall sub hasm chk fresh ms, NoDup (map m_id ms) -> forall st q st' out r,
  FInv sub hasm chk fresh ms st -> getitem sub hasm chk fresh st q = (st', out, r) ->
  FInv sub hasm chk fresh ms st' /\ out = Cache.fresh sub hasm chk fresh ms q.
Proof. exact getitem_full. Qed.
Print Assumptions C04_access_step.

(* second tie to the source: the decision chain of MultiTypeMap.__missing__ for a key with a leading code object, as
   regenerated from /repo's current text (Gen/Leaf.v), is the chain the state machine's getitem follows *)
Theorem C04_leaf_missing : forall foreign remembered stored,
  missing_code_src foreign remembered stored = code_action_of foreign remembered stored.
Proof. exact code_action_agree. Qed.
Print Assumptions C04_leaf_missing.

Theorem C04_getitem_follows_chain : forall sub hasm chk fresh st c k st1 h r cands,
  assoc_q (mkQ (Some c) k) (cs_dict st) = None ->
  get_plain sub hasm chk fresh st k = (st1, ORun h, r) ->
  assoc_k k (cs_all st1) = Some cands ->
  getitem sub hasm chk fresh st (mkQ (Some c) k) =
    (st1, run_action st1 (mkQ (Some c) k) h
            (code_action_of (negb (memb c cands)) (is_some (assoc_q (mkQ (Some c) k) (cs_err st1)))
                            (is_some (assoc_q (mkQ (Some c) k) (cs_dict st1)))), r).
Proof. exact getitem_follows_action. Qed.
Print Assumptions C04_getitem_follows_chain.

(* the earlier statement for plain accesses only, without the distinctness hypothesis *)
Theorem C04_history_free_partial : forall sub hasm chk fresh ms ops,
  forallb plain_op ops = true ->
  Forall2 (op_fresh sub hasm chk fresh ms) ops (snd (crun sub hasm chk fresh (cinit ms) ops)).
Proof. intros; apply plain_history_free; [apply PInv_init|assumption]. Qed.
Print Assumptions C04_history_free_partial.

(* the invariant behind it: in every reachable state, whatever is stored under a plain key -- a handler or a
   remembered ambiguity -- is what a fresh table would answer *)
Theorem C04_invariant_reachable : forall sub hasm chk fresh ms ops,
  forallb plain_op ops = true -> PInv sub hasm chk fresh ms (fst (crun sub hasm chk fresh (cinit ms) ops)).
Proof. intros; apply plain_history_free; [apply PInv_init|assumption]. Qed.
Print Assumptions C04_invariant_reachable.

(* non-vacuity: a reachable state with a stored handler and a remembered ambiguity *)
Definition wh : hier :=   (* 0 object, 1 A, 2 B, 3 C(A,B) *)
  {| h_supers := [[0]; [0; 1]; [0; 2]; [0; 1; 2; 3]]; h_meths := []; h_preds := []; h_fresh := [0] |}.
Definition wms : list meth := [ mkMeth 0 [Cls 1] [] 1 [] 0 0; mkMeth 1 [Cls 2] [] 1 [] 0 0 ].
Example C04_reachable_nontrivial :
  let st := fst (crun (hsub wh) (hhasm wh) (hchk wh) (hfresh wh) (cinit wms)
                      [CGet (mkQ None (mkKey [Cls 1] [])); CGet (mkQ None (mkKey [Cls 3] []))]) in
  length (cs_dict st) = 1 /\ length (cs_err st) = 1.
Proof. vm_compute. split; reflexivity. Qed.

(* non-vacuity of the full statement: a history with a continuation access that finds a next handler *)
Definition wms2 : list meth := [ mkMeth 0 [Cls 0] [] 1 [] 0 0; mkMeth 1 [Cls 1] [] 1 [] 0 0 ].
Example C04_full_nontrivial_distinct : NoDup (map m_id wms2).
Proof. repeat constructor; simpl; intuition discriminate. Qed.
Example C04_full_nontrivial :
  outs_of (snd (crun (hsub wh) (hhasm wh) (hchk wh) (hfresh wh) (cinit wms2)
                      [CGet (mkQ (Some 1) (mkKey [Cls 1] [])); CGet (mkQ None (mkKey [Cls 1] []))]))
  = [Some (ORun 0); Some (ORun 1)].
Proof. vm_compute. reflexivity. Qed.
