(* GraphLock.v — the (transitive) lock, propagation along linkback derivations, and freshness of used nodes *)
From Coq Require Import ZArith List Bool Arith Lia.
Import ListNotations.
From OvldV Require Import Model.Graph Spec.Overlay Proofs.GraphTab Proofs.GraphBase Proofs.GraphUpd Proofs.GraphInv Proofs.GraphProps.

(* ================= lock ================= *)
(* IA: the direct non-linkback parents of a used node are locked.   IB: a locked node has all its mixins locked. *)
Definition LockInv (g : graph) : Prop :=
  forall c y m z, g_get g c = Some y -> n_compiled y = true -> n_linkback y = false ->
                  In m (n_mixins y) -> g_get g m = Some z -> n_locked z = true.

Definition NoE : nat -> Prop := fun _ => False.
Definition LockClosed (g : graph) : Prop := LC NoE g.

Definition lk_rel (x y : node) : Prop :=
  n_mixins y = n_mixins x /\ n_linkback y = n_linkback x /\ (n_compiled y = true -> n_compiled x = true) /\
  (n_locked x = true -> n_locked y = true).

Lemma LockInv_rel : forall g g',
  (forall k y, g_get g' k = Some y -> exists x, g_get g k = Some x /\ lk_rel x y) -> LockInv g -> LockInv g'.
Proof.
  intros g g' R Lg c y m z Ec Cy Ly Im Em.
  destruct (R _ _ Ec) as [x [Ex (R1 & R2 & R3 & _)]]. destruct (R _ _ Em) as [w [Ew (_ & _ & _ & R4)]].
  apply R4. eapply (Lg c x m w); eauto; congruence.
Qed.

(* same mixins and same lock flag everywhere: LC is inherited *)
Lemma LC_rel : forall E g g',
  (forall k y, g_get g' k = Some y -> exists x, g_get g k = Some x /\ n_mixins y = n_mixins x /\ n_locked y = n_locked x) ->
  LC E g -> LC E g'.
Proof.
  intros E g g' R H k y q z Ek Lk NE Iq Eq.
  destruct (R _ _ Ek) as [x [Ex [M1 L1]]]. destruct (R _ _ Eq) as [w [Ew [_ L2]]].
  rewrite L2. eapply (H k x q w); eauto; congruence.
Qed.

Lemma gkeep_back : forall g g' k y, gkeep g g' -> g_get g' k = Some y -> exists x, g_get g k = Some x /\ keep x y.
Proof.
  intros g g' k y [L K] E. assert (k < length g) as Lk by (rewrite L; eapply g_get_lt; eauto).
  destruct (g_get_some _ _ Lk) as [x Ex]. destruct (K _ _ Ex) as [y' [Ey' Ky]]. rewrite E in Ey'. injection Ey' as <-. eauto.
Qed.

Lemma LockInv_upd : forall f g n g', upd f g n = Some g' -> LockInv g -> LockInv g'.
Proof.
  intros f g n g' U. destruct (upd_spec _ _ _ _ U) as [(K & C & _) _].
  apply LockInv_rel. intros k y Ey. destruct (gkeep_back _ _ _ _ K Ey) as [x [Ex Kx]]. exists x. split; auto.
  destruct Kx as (_ & K2 & _ & K4 & K5 & _). repeat split; auto.
  intros Cy. pose proof (C k) as Ck. rewrite (compiled_b_get _ _ _ Ey), (compiled_b_get _ _ _ Ex) in Ck. congruence.
Qed.

Lemma set_own_back : forall g n t k y, g_get (g_mod g n (set_own t)) k = Some y ->
  exists x, g_get g k = Some x /\ n_mixins y = n_mixins x /\ n_linkback y = n_linkback x /\
            n_compiled y = n_compiled x /\ n_locked y = n_locked x.
Proof.
  intros g n t k y Ey. rewrite g_get_mod in Ey. destruct (Nat.eqb k n) eqn:Ek.
  - apply Nat.eqb_eq in Ek. subst. destruct (g_get g n) as [x0|]; [|discriminate]. cbn in Ey. injection Ey as <-.
    exists x0. cbn. repeat split; reflexivity.
  - exists y. repeat split; auto.
Qed.

Lemma LockInv_set_own : forall g n t, LockInv g -> LockInv (g_mod g n (set_own t)).
Proof.
  intros g n t. apply LockInv_rel. intros k y Ey. destruct (set_own_back _ _ _ _ _ Ey) as (x & Ex & A & B & C & D).
  exists x. split; auto. unfold lk_rel. repeat split; auto; congruence.
Qed.

Lemma LC_set_own : forall E g n t, LC E g -> LC E (g_mod g n (set_own t)).
Proof.
  intros E g n t. apply LC_rel. intros k y Ey. destruct (set_own_back _ _ _ _ _ Ey) as (x & Ex & A & B & C & D). eauto.
Qed.

Lemma inv_mixin_lt : forall g c y m, Inv g -> g_get g c = Some y -> In m (n_mixins y) -> m < length g.
Proof.
  intros g c y m I E Im. pose proof (inv_mterm g c I (g_get_lt _ _ _ E)) as T.
  destruct (length g) as [|f] eqn:L; [discriminate|]. rewrite mterm_S, E in T. rewrite forallb_forall in T.
  specialize (T _ Im). apply mterm_lt in T. lia.
Qed.

Lemma inv_ChildLb : forall g, Inv g -> ChildLb g.
Proof.
  intros g I p x c y Ep Ic Ec. destruct (inv_child _ I _ _ _ Ep Ic) as (y' & Ey' & _ & L). congruence.
Qed.

(* --- create --- *)
Lemma LockInv_create : forall g ms lb, Inv g -> LockInv g -> LockInv (created g ms lb).
Proof.
  intros g ms lb I Lg c y m z Ec Cy Ly Im Em.
  destruct (created_old g ms lb) as (L & Enew & Old).
  destruct (Nat.lt_ge_cases c (length g)) as [Lc|Lc].
  - destruct (g_get_some _ _ Lc) as [x Ex]. destruct (Old _ _ Ex) as [y' [Ey' R]]. rewrite Ec in Ey'. injection Ey' as <-.
    destruct R as (_ & R2 & R3 & _ & R5 & _). rewrite R2 in Im.
    pose proof (inv_mixin_lt _ _ _ _ I Ex Im) as Lm. destruct (g_get_some _ _ Lm) as [w Ew].
    destruct (Old _ _ Ew) as [z' [Ez' Rz]]. rewrite Em in Ez'. injection Ez' as <-.
    destruct Rz as (_ & _ & _ & R4 & _). rewrite R4. eapply (Lg c x m w); eauto; congruence.
  - assert (c = length g) as -> by (apply g_get_lt in Ec; lia). rewrite Enew in Ec. injection Ec as <-. discriminate.
Qed.

Lemma LC_create : forall g ms lb, Inv g -> LockClosed g -> LockClosed (created g ms lb).
Proof.
  intros g ms lb I H k y q z Ek Lk _ Iq Eq.
  destruct (created_old g ms lb) as (L & Enew & Old).
  destruct (Nat.lt_ge_cases k (length g)) as [Lk'|Lk'].
  - destruct (g_get_some _ _ Lk') as [x Ex]. destruct (Old _ _ Ex) as [y' [Ey' R]]. rewrite Ek in Ey'. injection Ey' as <-.
    destruct R as (_ & R2 & _ & R4 & _). rewrite R2 in Iq. rewrite R4 in Lk.
    pose proof (inv_mixin_lt _ _ _ _ I Ex Iq) as Lq. destruct (g_get_some _ _ Lq) as [w Ew].
    destruct (Old _ _ Ew) as [z' [Ez' Rz]]. rewrite Eq in Ez'. injection Ez' as <-.
    destruct Rz as (_ & _ & _ & Rz4 & _). rewrite Rz4. eapply (H k x q w); eauto.
  - assert (k = length g) as -> by (apply g_get_lt in Ek; lia). rewrite Enew in Ek. injection Ek as <-. discriminate.
Qed.

(* --- add_mixins: the graph with the new edges, before _update --- *)
Lemma mixed_back : forall g n x ms k y, g_get g n = Some x -> g_get (mixed g n x ms) k = Some y ->
  exists z, g_get g k = Some z /\ n_linkback y = n_linkback z /\ n_locked y = n_locked z /\ n_compiled y = n_compiled z /\
            n_snap y = n_snap z /\ (k <> n -> n_mixins y = n_mixins z).
Proof.
  intros g n x ms k y E Ey. destruct (mixed_rel g n x ms E) as [L Old]. cbn zeta in Old.
  assert (k < length g) as Lk by (rewrite <- L; eapply g_get_lt; eauto).
  destruct (g_get_some _ _ Lk) as [z Ez]. destruct (Old _ _ Ez) as [y' [Ey' R]]. rewrite Ey in Ey'. injection Ey' as <-.
  destruct R as (_ & R2 & R3 & R4 & R5 & R6 & _). exists z. repeat split; auto.
  intros Ne. apply Nat.eqb_neq in Ne. rewrite Ne in R6. auto.
Qed.

Lemma LC_mixed : forall g n x ms, g_get g n = Some x -> n_locked x = false -> LockClosed g -> LockClosed (mixed g n x ms).
Proof.
  intros g n x ms E Lk H k y q z Ek Lky _ Iq Eq.
  destruct (mixed_back _ _ _ _ _ _ E Ek) as (y0 & Ey0 & _ & A3 & _ & _ & A6).
  destruct (mixed_back _ _ _ _ _ _ E Eq) as (z0 & Ez0 & _ & B3 & _).
  assert (k <> n) as Ne by (intros ->; rewrite E in Ey0; injection Ey0 as <-; congruence).
  rewrite A6 in Iq by auto. rewrite B3. eapply (H k y0 q z0); eauto; try congruence; try (unfold NoE; tauto).
Qed.

(* after add_mixins + _update *)
Lemma LockInv_mixed_upd : forall g n x ms g', Inv g -> g_get g n = Some x -> wf_b (mixed g n x ms) = true ->
  upd (length g) (mixed g n x ms) n = Some g' -> LockInv g -> LockInv g'.
Proof.
  intros g n x ms g' I E W U Lg c y m z Ec Cy Ly Im Em.
  set (g2 := mixed g n x ms) in *.
  pose proof (Inv_mixed g n x ms I E W) as I2. fold g2 in I2.
  destruct (upd_spec _ _ _ _ U) as [(K & C & _) _].
  destruct (Nat.eq_dec c n) as [->|Ne].
  - pose proof (upd_UL _ _ _ _ (inv_ChildLb _ I2) U) as UL1.
    eapply (UL1 n y m z); eauto. unfold visited. destruct (length g); cbn; rewrite Nat.eqb_refl; reflexivity.
  - destruct (gkeep_back _ _ _ _ K Ec) as [y2 [Ey2 Ky]]. destruct (gkeep_back _ _ _ _ K Em) as [z2 [Ez2 Kz]].
    destruct (mixed_back _ _ _ _ _ _ E Ey2) as (y0 & Ey0 & A2 & _ & A4 & _ & A6).
    destruct (mixed_back _ _ _ _ _ _ E Ez2) as (z0 & Ez0 & _ & B3 & _).
    destruct Ky as (_ & Km & _ & Kl & _). destruct Kz as (_ & _ & _ & _ & Klk & _).
    apply Klk. rewrite B3. eapply (Lg c y0 m z0); eauto.
    + pose proof (C c) as Cc. rewrite (compiled_b_get _ _ _ Ec), (compiled_b_get _ _ _ Ey2) in Cc. congruence.
    + rewrite <- A6 by auto. rewrite Km. auto.
Qed.

(* --- first use --- *)
Lemma LockInv_compile : forall g n g', Inv g -> compile g n = Some g' -> LockInv g -> LockInv g'.
Proof.
  intros g n g' I C Lg c y m z Ec Cy Ly Im Em.
  pose proof (compile_gkeep _ _ _ C) as K.
  destruct (gkeep_back _ _ _ _ K Ec) as [x [Ex Kx]]. destruct (gkeep_back _ _ _ _ K Em) as [w [Ew Kw]].
  destruct Kx as (_ & Kx2 & _ & Kx4 & _). destruct Kw as (_ & _ & _ & _ & Kw5 & _).
  destruct (Nat.eq_dec c n) as [->|Ne].
  - pose proof (compile_UL _ _ _ (inv_ChildLb _ I) C) as UL1. eapply (UL1 n y m z); eauto.
  - destruct (compile_other _ _ _ _ _ C Ne Ex) as (y' & Ey' & Cy' & _). rewrite Ec in Ey'. injection Ey' as <-.
    apply Kw5. eapply (Lg c x m w); eauto; congruence.
Qed.

Definition LK (g : graph) : Prop := LockInv g /\ LockClosed g.

Lemma LK_modify : forall g n t g', upd (length g) (g_mod g n (set_own t)) n = Some g' -> LK g -> LK g'.
Proof.
  intros g n t g' U [A B]. split.
  - eapply LockInv_upd; eauto. apply LockInv_set_own. auto.
  - eapply upd_LC; eauto. apply LC_set_own. auto.
Qed.

Lemma LK_step : forall g o, Inv g -> LK g -> LK (step_g g o).
Proof.
  intros g o I [A B]. unfold step_g. destruct o; cbn [step].
  - destruct (valid_ids g mixins) eqn:V; [rewrite do_create_eq by auto | rewrite do_create_invalid by auto; split; auto].
    split; [apply LockInv_create | apply LC_create]; auto.
  - destruct (valid_ids g (n :: mixins)) eqn:V; [rewrite do_create_eq by auto | rewrite do_create_invalid by auto; split; auto].
    split; [apply LockInv_create | apply LC_create]; auto.
  - destruct (valid_ids g (n :: mixins)) eqn:V; [|rewrite do_create_invalid by auto; split; auto].
    rewrite do_create_eq by auto. rewrite do_register_unfold.
    destruct (do_modify_cases (created g (n :: mixins) lb) (length g) (t_register sig l))
      as [(x & t & g' & E & Lk & F & U & ->)|[Nd Eq]].
    + cbn. eapply LK_modify; eauto. split; [apply LockInv_create | apply LC_create]; auto.
    + destruct (do_modify (created g (n :: mixins) lb) (length g) (t_register sig l)) as [g2 o2].
      cbn in *. destruct o2; cbn; try (split; auto; fail); congruence.
  - destruct (do_add_mixins_cases g n ms) as [(x & E & Lk & F & ->)|[(x & g' & E & V & Lk & F & W & U & ->)|(_ & -> & _)]];
      try (split; auto; fail).
    cbn. split.
    + eapply LockInv_mixed_upd; eauto.
    + eapply upd_LC; eauto. apply LC_mixed; auto.
  - rewrite do_register_unfold.
    destruct (do_modify_cases g n (t_register sig l)) as [(x & t & g' & E & Lk & F & U & ->)|[_ ->]]; [|split; auto].
    cbn. eapply LK_modify; eauto. split; auto.
  - unfold do_unregister.
    destruct (do_modify_cases g n (fun t => Some (t_remove l t))) as [(x & t & g' & E & Lk & F & U & ->)|[_ ->]]; [|split; auto].
    cbn. eapply LK_modify; eauto. split; auto.
  - unfold do_use. destruct (g_get g n) eqn:E; [|split; auto]. destruct (n_compiled n0); [split; auto|].
    destruct (compile g n) eqn:C; [|split; auto]. cbn. split.
    + eapply LockInv_compile; eauto.
    + eapply compile_LC; eauto.
Qed.

Lemma LK_run_from : forall ops g, Inv g -> LK g -> LK (run_from g ops).
Proof.
  induction ops as [|o r IH]; cbn; intros g I H; auto. apply IH; [apply Inv_step | apply LK_step]; auto.
Qed.

Lemma LK_nil : LK [].
Proof. split; intros c y; intros; destruct c; discriminate. Qed.

Lemma LK_run : forall ops, LK (run ops).
Proof. intros. apply LK_run_from; [apply Inv_nil | apply LK_nil]. Qed.

(* everything a locked node derives from is locked *)
Lemma locked_up : forall g a m, Inv g -> LockClosed g -> Anc g a m ->
  forall z, g_get g m = Some z -> n_locked z = true -> exists w, g_get g a = Some w /\ n_locked w = true.
Proof.
  intros g a m I H An. induction An as [|m x q Em Iq An IH]; intros z Ez Lz; eauto.
  rewrite Em in Ez. injection Ez as <-.
  pose proof (inv_mixin_lt _ _ _ _ I Em Iq) as Lq. destruct (g_get_some _ _ Lq) as [y Ey].
  apply (IH y Ey). eapply (H m x q y); eauto.
Qed.

(* the full lock statement: once c is in use, every function c derives from through a path whose first derivation is not
   a linkback one refuses modification (plain paths of any length, and plain-then-linkback paths) *)
Lemma lock_full : forall ops c y m a, let g := run ops in
  g_get g c = Some y -> n_compiled y = true -> n_linkback y = false -> In m (n_mixins y) -> Anc g a m ->
  exists w, g_get g a = Some w /\ n_locked w = true.
Proof.
  intros ops c y m a g Ec Cy Ly Im An. pose proof (Inv_run ops) as I. destruct (LK_run ops) as [A B]. fold g in I, A, B.
  pose proof (inv_mixin_lt _ _ _ _ I Ec Im) as Lm. destruct (g_get_some _ _ Lm) as [z Ez].
  eapply locked_up; eauto.
Qed.

(* ================= linkback: every later change of an ancestor is visible ================= *)
Lemma defns_none : forall f g k, g_get g k = None -> defns f g k = None.
Proof. intros. destruct f; auto. rewrite defns_S, H. reflexivity. Qed.

Lemma linkback_upd : forall g1 n g' k, Inv g1 -> n < length g1 ->
  upd (length g1) g1 n = Some g' -> Lb g1 n k -> obs g' k = defns (length g') g' k.
Proof.
  intros g1 n g' k I1 Ln U Hk.
  destruct (upd_spec _ _ _ _ U) as [(K & C & S) F].
  assert (length g' = length g1) as L' by (destruct K; congruence).
  assert (visited (length g1) g1 n k) as V.
  { unfold visited. apply lb_b_complete; auto. apply inv_cterm; auto. }
  unfold obs. destruct (g_get g' k) eqn:Ek.
  - destruct (n_compiled n0) eqn:Ck; auto.
    rewrite (F k n0 V Ek Ck). rewrite L'. apply gkeep_defns. auto.
  - symmetry. apply defns_none. auto.
Qed.

Lemma Lb_grow : forall g g', (forall a x, g_get g a = Some x -> exists y, g_get g' a = Some y /\ incl (n_children x) (n_children y)) ->
  forall a k, Lb g a k -> Lb g' a k.
Proof.
  intros g g' H a k L. induction L; [constructor|].
  destruct (H _ _ H0) as [y [Ey Inc]]. eapply lb_step; eauto.
Qed.

Lemma Lb_to_mixed : forall g n x ms a k, g_get g n = Some x -> Lb g a k -> Lb (mixed g n x ms) a k.
Proof.
  intros g n x ms a k E. apply Lb_grow. intros b z Ez.
  destruct (mixed_rel g n x ms E) as [L Old]. cbn zeta in Old. destruct (Old _ _ Ez) as [y [Ey R]].
  exists y. split; auto. destruct R as (_ & _ & _ & _ & _ & _ & Hc). intros c Ic. apply Hc. auto.
Qed.

Lemma linkback : forall ops o k, let g := run ops in
  is_modification o = true -> snd (step g o) = Done -> Lb g (target g o) k ->
  obs (step_g g o) k = defns (length (step_g g o)) (step_g g o) k \/
  (exists n ms, o = OAddMixins n ms /\ nself n ms = [] /\ step_g g o = g).
Proof.
  intros ops o k g Ho D Hk. pose proof (Inv_run ops) as I. fold g in I.
  unfold step_g in *. destruct o; try discriminate; cbn [step target] in *.
  - destruct (do_add_mixins_cases g n ms) as [(x & E & Lk & F & Q)|[(x & g' & E & V & Lk & F & W & U & Q)|(Nd & _ & _)]]; [| |congruence].
    + right. exists n, ms. rewrite Q. auto.
    + left. rewrite Q. cbn. destruct (mixed_rel g n x ms E) as [L _].
      eapply linkback_upd with (g1 := mixed g n x ms) (n := n).
      * apply Inv_mixed; auto. * rewrite L. eapply g_get_lt; eauto. * rewrite L. exact U. * apply Lb_to_mixed; auto.
  - left. rewrite do_register_unfold in *.
    destruct (do_modify_cases g n (t_register sig l)) as [(x & t & g' & E & Lk & F & U & Q)|[Nd _]]; [|congruence].
    rewrite Q. cbn. pose proof (length_g_mod g n (set_own t)) as L.
    eapply linkback_upd with (g1 := g_mod g n (set_own t)) (n := n).
    + apply Inv_set_own; auto. eapply register_nodup; eauto. eapply inv_nodup; eauto.
    + rewrite L. eapply g_get_lt; eauto. + rewrite L. exact U.
    + eapply Lb_same; [apply same_set_own | exact Hk].
  - left. unfold do_unregister in *.
    destruct (do_modify_cases g n (fun t => Some (t_remove l t))) as [(x & t & g' & E & Lk & F & U & Q)|[Nd _]]; [|congruence].
    rewrite Q. cbn. pose proof (length_g_mod g n (set_own t)) as L.
    eapply linkback_upd with (g1 := g_mod g n (set_own t)) (n := n).
    + apply Inv_set_own; auto. injection F as <-. apply nodup_t_remove. eapply inv_nodup; eauto.
    + rewrite L. eapply g_get_lt; eauto. + rewrite L. exact U.
    + eapply Lb_same; [apply same_set_own | exact Hk].
Qed.

(* ================= used nodes stay equal to the overlay in histories outside the finding class ================= *)
Definition Fresh (g : graph) : Prop :=
  forall n x, g_get g n = Some x -> n_compiled x = true -> Some (n_snap x) = defns (length g) g n.

Lemma filter_nil : forall A (f : A -> bool) l, filter f l = [] -> forall x, In x l -> f x = false.
Proof.
  induction l; cbn; intros; [contradiction|]. destruct (f a) eqn:E; [discriminate|].
  destruct H0 as [<-|H0]; auto.
Qed.

Lemma anc_b_new : forall g ms lb f c, Inv g -> c < length g -> anc_b f (created g ms lb) (length g) c = false.
Proof.
  intros g ms lb f c I. revert c. destruct (created_old g ms lb) as (L & Enew & Old).
  induction f; intros c Lc; cbn [anc_b].
  - rewrite orb_false_r. apply Nat.eqb_neq. lia.
  - apply orb_false_iff. split; [apply Nat.eqb_neq; lia|].
    destruct (g_get_some _ _ Lc) as [x Ex]. destruct (Old _ _ Ex) as [y [Ey R]]. rewrite Ey.
    destruct R as (_ & R2 & _). rewrite R2.
    destruct (existsb (anc_b f (created g ms lb) (length g)) (n_mixins x)) eqn:X; auto.
    apply existsb_exists in X. destruct X as [m [Im Am]]. rewrite IHf in Am; [discriminate|].
    eapply inv_mixin_lt; eauto.
Qed.

Lemma Anc_lt : forall g a n, Inv g -> Anc g a n -> n < length g -> a < length g.
Proof.
  intros g a n I H. induction H; auto. intros Ln. apply IHAnc. eapply inv_mixin_lt; eauto.
Qed.

Lemma Fresh_create : forall g ms lb, Inv g -> Fresh g -> Fresh (created g ms lb).
Proof.
  intros g ms lb I Fg n y Ey Cy. destruct (created_old g ms lb) as (L & Enew & Old).
  destruct (Nat.lt_ge_cases n (length g)) as [Ln|Ln].
  - destruct (g_get_some _ _ Ln) as [x Ex]. destruct (Old _ _ Ex) as [y' [Ey' R]]. rewrite Ey in Ey'. injection Ey' as <-.
    destruct R as (_ & _ & _ & _ & R5 & R6 & _). rewrite R6, (Fg n x Ex) by congruence.
    symmetry. apply iso_defns with (N := length g); auto; [apply iso_create|].
    destruct (anc_b (length g) g (length g) n) eqn:B; auto. apply anc_b_sound in B.
    pose proof (Anc_lt _ _ _ I B Ln). lia.
  - assert (n = length g) as -> by (apply g_get_lt in Ey; lia). rewrite Enew in Ey. injection Ey as <-. discriminate.
Qed.

Lemma Fresh_compile : forall g n g', Inv g -> compile g n = Some g' -> Fresh g -> Fresh g'.
Proof.
  intros g n g' I C Fg k y Ey Cy. pose proof (compile_gkeep _ _ _ C) as K.
  assert (length g' = length g) as L by (destruct K; auto). rewrite L, <- (gkeep_defns _ _ K).
  destruct (Nat.eq_dec k n) as [->|Ne].
  - destruct (compile_self _ _ _ C) as (y' & Ey' & _ & Sy). congruence.
  - destruct (gkeep_back _ _ _ _ K Ey) as [x [Ex _]].
    destruct (compile_other _ _ _ _ _ C Ne Ex) as (y' & Ey' & Cy' & Sy'). rewrite Ey in Ey'. injection Ey' as <-.
    rewrite Sy'. apply Fg; auto. congruence.
Qed.

(* a change at n (own table or new mixins), then _update: fresh again provided every used node deriving from n is
   reached by the propagation *)
Lemma Fresh_upd_gen : forall g n g1 g', Inv g -> Fresh g -> Inv g1 -> length g1 = length g ->
  (forall m, m <> n -> option_map dm (g_get g m) = option_map dm (g_get g1 m)) ->
  (forall k x1, g_get g1 k = Some x1 -> exists x0, g_get g k = Some x0 /\ n_compiled x0 = n_compiled x1 /\ n_snap x0 = n_snap x1) ->
  (forall a k, Lb g a k -> Lb g1 a k) ->
  upd (length g) g1 n = Some g' -> n < length g ->
  (forall c, c < length g -> compiled_b g c = true -> anc_b (length g) g n c = true -> lb_b (length g) g n c = true) ->
  Fresh g'.
Proof.
  intros g n g1 g' I Fg I1 L1 Hdm Hfl HLb U Ln Hexp k y Ey Cy.
  destruct (upd_spec _ _ _ _ U) as [(K & C & S) F].
  assert (length g' = length g) as L' by (destruct K; congruence).
  destruct (gkeep_back _ _ _ _ K Ey) as [x1 [Ex1 _]].
  assert (k < length g) as Lk by (rewrite <- L1; eapply g_get_lt; eauto).
  assert (n_compiled x1 = true) as Cx1.
  { pose proof (C k) as Ck. rewrite (compiled_b_get _ _ _ Ey), (compiled_b_get _ _ _ Ex1) in Ck. congruence. }
  destruct (Hfl _ _ Ex1) as (x0 & Ex0 & Cx0 & Sx0). rewrite Cx1 in Cx0.
  rewrite L', <- L1. rewrite <- (gkeep_defns _ _ K).
  destruct (lb_b (length g) g1 n k) eqn:V.
  - rewrite (F k y V Ey Cy). rewrite L1. reflexivity.
  - destruct (S _ _ _ Ex1 Ey) as [Q|(_ & V' & _)]; [|unfold visited in V'; congruence].
    rewrite Q, <- Sx0, (Fg k x0 Ex0 Cx0). rewrite L1.
    assert (anc_b (length g) g n k = false) as A.
    { destruct (anc_b (length g) g n k) eqn:A; auto.
      assert (lb_b (length g) g n k = true) as B by (apply Hexp; auto; unfold compiled_b; rewrite Ex0; auto).
      apply lb_b_sound in B. apply HLb in B.
      rewrite lb_b_complete in V; [discriminate | | exact B].
      rewrite <- L1. apply inv_cterm; auto. lia. }
    apply defns_local with (a := n); auto.
Qed.

Lemma Fresh_modify : forall g n x t g', Inv g -> Fresh g -> g_get g n = Some x -> NoDup (keys t) ->
  upd (length g) (g_mod g n (set_own t)) n = Some g' ->
  (forall c, c < length g -> compiled_b g c = true -> anc_b (length g) g n c = true -> lb_b (length g) g n c = true) ->
  Fresh g'.
Proof.
  intros g n x t g' I Fg E N U Hexp.
  eapply Fresh_upd_gen with (g1 := g_mod g n (set_own t)); eauto.
  - apply Inv_set_own; auto. - apply length_g_mod.
  - intros m Ne. rewrite g_get_mod_other; auto.
  - intros k x1 Ex1. rewrite g_get_mod in Ex1. destruct (Nat.eqb k n) eqn:Ekn.
    + apply Nat.eqb_eq in Ekn. subst. rewrite E in Ex1. cbn in Ex1. injection Ex1 as <-. eauto.
    + eauto.
  - intros a k. apply Lb_same. apply same_set_own.
  - eapply g_get_lt; eauto.
Qed.

Lemma Fresh_mixed_upd : forall g n x ms g', Inv g -> Fresh g -> g_get g n = Some x -> wf_b (mixed g n x ms) = true ->
  upd (length g) (mixed g n x ms) n = Some g' ->
  (forall c, c < length g -> compiled_b g c = true -> anc_b (length g) g n c = true -> lb_b (length g) g n c = true) ->
  Fresh g'.
Proof.
  intros g n x ms g' I Fg E W U Hexp. destruct (mixed_rel g n x ms E) as [L Old]. cbn zeta in Old.
  eapply Fresh_upd_gen with (g1 := mixed g n x ms); eauto.
  - apply Inv_mixed; auto.
  - intros m Ne. symmetry. apply (iso_dm _ _ _ (iso_mixed g n x ms E) m Ne).
  - intros k x1 Ex1. destruct (mixed_back _ _ _ _ _ _ E Ex1) as (z & Ez & _ & _ & A4 & A5 & _). eauto.
  - intros a k. apply Lb_to_mixed. auto.
  - eapply g_get_lt; eauto.
Qed.

Lemma exposed_mod_nil : forall g n, exposed_mod g n = [] ->
  forall c, c < length g -> compiled_b g c = true -> anc_b (length g) g n c = true -> lb_b (length g) g n c = true.
Proof.
  intros g n H c Lc Cc Ac. pose proof (filter_nil _ _ _ H c) as Q. cbv beta in Q.
  rewrite Cc, Ac in Q. cbn in Q. destruct (lb_b (length g) g n c); auto. discriminate Q. apply in_seq. lia.
Qed.

Lemma Fresh_step : forall g o, Inv g -> Fresh g -> (is_done (snd (step g o)) = false \/ exposed g o = []) -> Fresh (step_g g o).
Proof.
  intros g o I Fg H.
  destruct (is_done (snd (step g o))) eqn:D.
  2:{ rewrite refused_unchanged; auto. intros Q. rewrite Q in D. discriminate. }
  destruct H as [H|H]; [discriminate|].
  unfold step_g. destruct o; cbn [step exposed] in *.
  - destruct (valid_ids g mixins) eqn:V; [rewrite do_create_eq by auto; apply Fresh_create; auto | rewrite do_create_invalid by auto; auto].
  - destruct (valid_ids g (n :: mixins)) eqn:V; [rewrite do_create_eq by auto; apply Fresh_create; auto | rewrite do_create_invalid by auto; auto].
  - destruct (valid_ids g (n :: mixins)) eqn:V; [|rewrite do_create_invalid by auto; auto].
    rewrite do_create_eq by auto. rewrite do_register_unfold.
    pose proof (Inv_create g (n :: mixins) lb I V) as I1.
    destruct (created_old g (n :: mixins) lb) as (L1 & Enew & Old).
    destruct (do_modify_cases (created g (n :: mixins) lb) (length g) (t_register sig l))
      as [(x & t & g' & E & Lk & F & U & ->)|[Nd Eq]].
    + cbn. eapply Fresh_modify; eauto.
      * apply Fresh_create; auto.
      * eapply register_nodup; eauto. eapply inv_nodup; eauto.
      * intros c Lc Cc Ac. rewrite L1 in *.
        destruct (Nat.eq_dec c (length g)) as [->|Ne].
        -- unfold compiled_b in Cc. rewrite Enew in Cc. discriminate.
        -- rewrite anc_b_new in Ac; [discriminate | auto | lia].
    + destruct (do_modify (created g (n :: mixins) lb) (length g) (t_register sig l)) as [g2 o2].
      cbn in *. destruct o2; cbn; auto. congruence.
  - destruct (do_add_mixins_cases g n ms) as [(x & E & Lk & F & ->)|[(x & g' & E & V & Lk & F & W & U & ->)|(_ & -> & _)]]; auto.
    cbn. eapply Fresh_mixed_upd; eauto. apply exposed_mod_nil.
    fold (nself n ms) in H. destruct (nself n ms); [congruence|]. exact H.
  - rewrite do_register_unfold.
    destruct (do_modify_cases g n (t_register sig l)) as [(x & t & g' & E & Lk & F & U & ->)|[_ ->]]; auto.
    cbn. eapply Fresh_modify; eauto.
    + eapply register_nodup; eauto. eapply inv_nodup; eauto.
    + apply exposed_mod_nil. auto.
  - unfold do_unregister.
    destruct (do_modify_cases g n (fun t => Some (t_remove l t))) as [(x & t & g' & E & Lk & F & U & ->)|[_ ->]]; auto.
    cbn. eapply Fresh_modify; eauto.
    + injection F as <-. apply nodup_t_remove. eapply inv_nodup; eauto.
    + apply exposed_mod_nil. auto.
  - unfold do_use. destruct (g_get g n) eqn:E; auto. destruct (n_compiled n0); auto.
    destruct (compile g n) eqn:C; auto. cbn. eapply Fresh_compile; eauto.
Qed.

Lemma fresh_from : forall ops g, Inv g -> Fresh g -> stale_free_from g ops = true -> Fresh (run_from g ops).
Proof.
  induction ops as [|o r IH]; cbn; intros g I Fg H; auto.
  apply andb_true_iff in H. destruct H as [H1 H2]. apply IH; auto.
  - apply Inv_step; auto.
  - apply Fresh_step; auto. apply orb_true_iff in H1. destruct H1 as [H1|H1].
    + left. apply negb_true_iff. auto.
    + right. destruct (exposed g o); auto. discriminate.
Qed.

Lemma fresh_obs : forall g n, Fresh g -> n < length g -> obs g n = defns (length g) g n.
Proof.
  intros g n F Ln. unfold obs. destruct (g_get_some _ _ Ln) as [x E]. rewrite E.
  destruct (n_compiled x) eqn:C; auto.
Qed.

Lemma overlay_used : forall ops n x t, stale_free ops = true -> let g := run ops in
  g_get g n = Some x -> obs g n = Some t ->
  exists pts, Forall2 (fun m pt => obs g m = Some pt) (n_mixins x) pts /\
              forall k, t_get k t = overlay_get k pts (n_own x).
Proof.
  intros ops n x t SF g E O. pose proof (Inv_run ops) as I. fold g in I.
  assert (Fresh g) as Fg.
  { apply (fresh_from ops [] Inv_nil); auto. intros k y Ek. destruct k; discriminate. }
  rewrite fresh_obs in O; auto; [|eapply g_get_lt; eauto].
  destruct (overlay_defns g n x t I E O) as [pts [F2 Hk]]. exists pts. split; auto.
  assert (forall m, In m (n_mixins x) -> m < length g) as Lm by (intros; eapply inv_mixin_lt; eauto).
  clear -F2 Fg Lm. induction F2; constructor; auto.
  - rewrite fresh_obs; auto. apply Lm. left. auto.
  - apply IHF2. intros. apply Lm. right. auto.
Qed.

(* the all-plain special case of lock_full *)
Lemma NLPath_Anc : forall g c a, NLPath g c a ->
  exists y m, g_get g c = Some y /\ n_linkback y = false /\ In m (n_mixins y) /\ Anc g a m.
Proof.
  intros g c a H. induction H as [c y m Ec Ly Im | c y m a Ec Ly Im _ IH].
  - exists y, m. repeat split; auto. constructor.
  - exists y, m. repeat split; auto. destruct IH as (y' & m' & Ey' & _ & Im' & An). eapply anc_step; eauto.
Qed.

Lemma lock_nlpath : forall ops c y a, let g := run ops in
  g_get g c = Some y -> n_compiled y = true -> NLPath g c a -> exists w, g_get g a = Some w /\ n_locked w = true.
Proof.
  intros ops c y a g Ec Cy P. destruct (NLPath_Anc _ _ _ P) as (y' & m & Ey' & Ly & Im & An).
  fold g in Ey'. rewrite Ec in Ey'. injection Ey' as <-. eapply lock_full; eauto.
Qed.

Lemma lock_closed : forall ops a m z, let g := run ops in
  g_get g m = Some z -> n_locked z = true -> Anc g a m -> exists w, g_get g a = Some w /\ n_locked w = true.
Proof.
  intros ops a m z g Ez Lz An. eapply locked_up; eauto. - apply Inv_run. - apply (LK_run ops).
Qed.
