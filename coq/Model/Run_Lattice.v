(* Run_Lattice.v — executable entry points for the type lattice (C12, C13).
   A case is (opcode payload...).  The harness sends the same cases to the implementation. *)
(* OPCODE 1 run_pairs *)
(* OPCODE 2 run_lattice *)
From Coq Require Import ZArith List Bool Arith.
Import ListNotations.
From OvldV Require Import Model.Sx Model.Order Model.Ty Model.TyDom Spec.Denot Model.Codec.

(* opcode 1: (1 hier (t...) ) -> matrix of typeorder and subclasscheck over all ordered pairs of the listed types:
   ((ord11 ord12 ...) ...) ((sub11 ...) ...) *)
Definition run_pairs (s : sx) : sx :=
  let h := hier_of (sx_arg 0 s) in
  let ts := map ty_of (sx_list (sx_arg 1 s)) in
  L [ L (map (fun a => L (map (fun b => of_order (typeorder_h h a b)) ts)) ts);
      L (map (fun a => L (map (fun b => of_obool (subclasscheck_h h a b)) ts)) ts) ].

(* opcode 2: (2 hier (t...) nclasses) -> [typeorder matrix; subclasscheck matrix; msym matrix;
   per type: (down_closed (denot t c for each class c < nclasses))] *)
Definition run_lattice (s : sx) : sx :=
  let h := hier_of (sx_arg 0 s) in
  let ts := map ty_of (sx_list (sx_arg 1 s)) in
  let nc := sx_nat (sx_arg 2 s) in
  L [ L (map (fun a => L (map (fun b => of_order (typeorder_h h a b)) ts)) ts);
      L (map (fun a => L (map (fun b => of_obool (subclasscheck_h h a b)) ts)) ts);
      L (map (fun a => L (map (fun b => of_bool (msym a b)) ts)) ts);
      L (map (fun a => L [of_bool (down_closed a);
                          L (map (fun c => of_bool (denot (hsub h) (hhasm h) (hchk h) a c)) (seq 0 nc))]) ts) ].
