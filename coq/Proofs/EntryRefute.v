(* EntryRefute.v — C03: the full statement is false of the faithful model (known findings KF-31, KF-03; KF-02 is repaired). *)
From Coq Require Import ZArith List Bool Arith.
Import ListNotations.
From OvldV Require Import Model.Entry Spec.EntrySpec.

Definition compat_all : lk -> src -> nat -> bool := fun _ _ _ => true.

(* names: x = 0, y = 1, k = 4, u = 6; annotation 1 = int *)
(* KF-02 (repaired): def f(x: int, y: int = 7, *, k: int = 9) ; f(1, k=2) now forwards k and keys on it *)
Definition kf02_sig : msig :=
  mkSig false [mkParam PosKw 0 true 1 false; mkParam PosKw 1 false 1 false; mkParam KwOnly 4 false 1 false] 0%Z.

Example kf02_witness_passes :
  kf02_class [kf02_sig] 1 [4] = true /\ dom_fwd [kf02_sig] 1 [4] = true /\
  dispatch compat_all [kf02_sig] false 1 [4]
  = DRan [mkKE None LType (SPos 0); mkKE (Some 4) LType (SKw 4)] [SPos 0] [(4, SKw 4)] 0 [Some (SPos 0); None; Some (SKw 4)].
Proof. repeat split; vm_compute; reflexivity. Qed.

Definition kf02_sig_req : msig :=
  mkSig false [mkParam PosKw 0 true 1 false; mkParam PosKw 1 false 1 false; mkParam KwOnly 4 true 1 false] 0%Z.

Example kf02_required_witness_passes :
  dispatch compat_all [kf02_sig_req] false 1 [4]
  = DRan [mkKE None LType (SPos 0); mkKE (Some 4) LType (SKw 4)] [SPos 0] [(4, SKw 4)] 0 [Some (SPos 0); None; Some (SKw 4)].
Proof. vm_compute; reflexivity. Qed.

(* KF-31: def f(x: int, u: int = 1, /, y: int = 2) ; f(1, y=3): the method and the generated def accept the call, the
   early exit for the omitted u forwards only x: y is dropped and the method runs with its own default for y *)
Definition kf31_sig : msig :=
  mkSig false [mkParam PosOnly 0 true 1 false; mkParam PosOnly 6 false 1 false; mkParam PosKw 1 false 1 false] 0%Z.

Lemma refuted_hole :
  exists sigs self k K,
    forallb sig_wf sigs = true /\ (exists s, In s sigs /\ accepts s k K = true) /\
    (exists a, analyze sigs = inr a /\ kw_documented a K = true) /\ In 1 K /\
    exists key fpos fkw,
      run_entry sigs self k K = ROut (OCall key fpos fkw) /\
      fwd_ok sigs self k K key fpos fkw = false /\
      fpos = [SPos 0] /\ fkw = [] /\
      dispatch compat_all sigs self k K = DRan key fpos fkw 0 [Some (SPos 0); None; None].
Proof.
  exists [kf31_sig], false, 1, [1]. split; [reflexivity|]. split.
  - exists kf31_sig. split; [left; reflexivity|reflexivity].
  - split.
    + eexists. split; [vm_compute; reflexivity|reflexivity].
    + split; [left; reflexivity|]. eexists _, _, _. repeat split; vm_compute; reflexivity.
Qed.

(* KF-03: def f(x: int = 5) ; f() *)
Definition kf03_sig : msig := mkSig false [mkParam PosKw 0 false 1 false] 0%Z.

Lemma refuted_zero :
  exists sigs self k K s,
    forallb sig_wf sigs = true /\ In s sigs /\ accepts s k K = true /\
    (exists a, analyze sigs = inr a /\ kw_documented a K = true) /\ dom_fwd sigs k K = true /\
    run_entry sigs self k K = ROut (OCall [] [] []) /\       (* the entry point forwards nothing, correctly ... *)
    arity_ok s [] = true /\                                  (* ... the method passes the arity filter for the empty key ... *)
    dispatch compat_all sigs self k K = DNoMethod [].        (* ... but the empty-tuple branch answers "No method" *)
Proof.
  exists [kf03_sig], false, 0, [], kf03_sig. split; [reflexivity|]. split; [left; reflexivity|]. split; [reflexivity|].
  split.
  - eexists. split; [vm_compute; reflexivity|reflexivity].
  - repeat split; vm_compute; reflexivity.
Qed.

(* the domain of C03_forward_partial is inhabited by non-trivial shapes: a method with self, a required and an optional
   positional, a required and an optional keyword; called with both positionals (one by keyword) and both keywords *)
Definition ex_sig : msig :=
  mkSig true [mkParam PosKw 0 true 1 false; mkParam PosKw 1 false 1 false; mkParam KwOnly 4 true 1 false; mkParam KwOnly 5 false 2 true] 0%Z.

Example dom_fwd_inhabited :
  forallb sig_wf [ex_sig] = true /\ dom_fwd [ex_sig] 1 [1; 5; 4] = true /\
  run_entry [ex_sig] true 1 [1; 5; 4]
  = ROut (OCall [mkKE None LType (SPos 0); mkKE None LType (SKw 1); mkKE (Some 4) LType (SKw 4); mkKE (Some 5) LSubtler (SKw 5)]
                [SSelf; SPos 0; SKw 1] [(4, SKw 4); (5, SKw 5)]).
Proof. repeat split; vm_compute; reflexivity. Qed.

(* and contains shapes with an omitted optional positional, a keyword naming the leading positional and a keyword-only one *)
Example dom_fwd_inhabited_exit :
  dom_fwd [kf02_sig] 0 [0; 4] = true /\
  run_entry [kf02_sig] false 0 [0; 4] = ROut (OCall [mkKE None LType (SKw 0); mkKE (Some 4) LType (SKw 4)] [SKw 0] [(4, SKw 4)]).
Proof. split; vm_compute; reflexivity. Qed.
