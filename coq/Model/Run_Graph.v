(* Run_Graph.v — executable entry points of the Graph / ClassDict component (C16, C17). *)
(* OPCODE 50 run_graph *)
(* OPCODE 51 run_classes *)
From Coq Require Import ZArith List Bool Arith.
Import ListNotations.
From OvldV Require Import Model.Sx Model.Graph Model.ClassDict.

(* ---------- opcode 50: a history of graph operations ----------
   case: (50 (op ...)) with op =
     (0 lb m...)            Ovld(mixins=[m...], linkback=lb)
     (1 n lb m...)          n.copy(mixins=[m...], linkback=lb)
     (2 n lb sig l m...)    n.variant(fn, mixins=[m...], linkback=lb)
     (3 n m...)             n.add_mixins(m...)
     (4 n sig l)            n.register(fn)
     (5 n l)                n.unregister(fn)
     (6 n)                  first call of n
   outcome: one entry per step:
     (outcome (node...))  with outcome 0 Done | 1 Locked | 2 Invalid | 3 Stuck,
     node = (compiled locked fresh table) with table = ((sig tiebreak label)...) or 9 when the model has no answer
     (fresh = the observable is what a rebuild would give now; always 1 by C16_always_fresh) *)
Definition op_of (s : sx) : op :=
  let n i := sx_nat (sx_arg i s) in
  let rest k := map sx_nat (skipn k (sx_args s)) in
  match sx_tag s with
  | 0%Z => OCreate (rest 1) (sx_bool (sx_arg 0 s))
  | 1%Z => OCopy (n 0) (rest 2) (sx_bool (sx_arg 1 s))
  | 2%Z => OVariant (n 0) (rest 4) (sx_bool (sx_arg 1 s)) (n 2) (n 3)
  | 3%Z => OAddMixins (n 0) (rest 1)
  | 4%Z => ORegister (n 0) (n 1) (n 2)
  | 5%Z => OUnregister (n 0) (n 1)
  | _ => OUse (n 0)
  end.

Definition of_table (t : table) : sx :=
  L (map (fun kv => L [of_nat (fst (fst kv)); A (snd (fst kv)); of_nat (snd kv)]) t).
Definition of_otable (o : option table) : sx := match o with Some t => of_table t | None => A 9%Z end.
Definition of_outcome (o : outcome) : sx :=
  A (match o with Done => 0 | Locked => 1 | Invalid => 2 | Stuck => 3 end)%Z.

Definition of_node (g : graph) (n : nat) : sx :=
  match g_get g n with
  | Some x => L [of_bool (n_compiled x); of_bool (n_locked x); of_bool (fresh_b g n); of_otable (obs g n)]
  | None => A 9%Z
  end.
Definition of_graph (g : graph) : sx := L (map (of_node g) (seq 0 (length g))).

Fixpoint run_steps (g : graph) (ops : list op) : list sx :=
  match ops with
  | [] => []
  | o :: r =>
      let (g', out) := step g o in
      L [of_outcome out; of_graph g'] :: run_steps g' r
  end.

Definition run_graph (s : sx) : sx := L (run_steps [] (map op_of (sx_list (sx_arg 0 s)))).

(* ---------- opcode 51: a sequence of class statements ----------
   case: (51 nnames (stmt ...)) with stmt =
     (0 mc (name ...) (order ...)) a class statement (mc = 1: the class has the metaclass OvldMC, 0: a plain class);
                      order = for each definition of the body, in source order, the index of its name;
                      name = ((owner ...) (def ...)): for each base, in base order, the index of
                      the class in whose dictionary Python's getattr(base, name) finds the name (-1: nowhere), as
                      computed by CPython's MRO; def = (kind sig label), kind 0 plain | 1 @ovld | 2 @extend_super
     (1)              every overloaded method of every class is called once (first use: compile)
   outcome, per stmt: (status world (flags ...)) with status 0 ok | 1 EName | 2 ENotOvld | 3 ELocked | 4 EOther,
     world = per class, per name: (0) | (1 sig l) | (2 node mark table), flags per name = (kf41 kf42 prepared);
   a failing class statement leaves the graph as it was and occupies its index with an empty class. *)
Definition def_of (s : sx) : def :=
  mkDef (match sx_z (sx_nth 0 s) with 0%Z => DPlain | 1%Z => DOvld | _ => DExt end) (sx_nat (sx_nth 1 s)) (sx_nat (sx_nth 2 s)).

Definition world := list (list attr).

Definition lookup_attr (w : world) (name : nat) (owner : sx) : attr :=
  if Z.ltb (sx_z owner) 0 then ANone else nth name (nth (sx_nat owner) w []) ANone.

Definition of_attr (g : graph) (a : attr) : sx :=
  match a with
  | ANone => L [A 0%Z]
  | APlain s l => L [A 1%Z; of_nat s; of_nat l]
  | AOvld n mark => L [A 2%Z; of_nat n; of_bool mark; of_otable (obs g n)]
  end.
Definition of_world (g : graph) (w : world) : sx := L (map (fun c => L (map (of_attr g) c)) w).
Definition of_cerr (e : cerr) : sx := A (match e with EName => 1 | ENotOvld => 2 | ELocked => 3 | EOther => 4 end)%Z.

(* __prepare__ for every name (it runs before the body) *)
Fixpoint prepare_names (g : graph) (bases : list (list attr)) : cres (list attr) :=
  match bases with
  | [] => COk g []
  | b :: r => cbind (cd_prepare g b) (fun g1 a => cbind (prepare_names g1 r) (fun g2 rest => COk g2 (a :: rest)))
  end.

Fixpoint set_nth {A} (i : nat) (x : A) (l : list A) : list A :=
  match l, i with
  | [], _ => []
  | _ :: r, 0 => x :: r
  | y :: r, S i' => y :: set_nth i' x r
  end.

(* the body, definition by definition in source order ([order]: the name index of each definition), so that the
   first failing definition is the one that is reported; names do not interact otherwise *)
Fixpoint body_defs (mc : bool) (g : graph) (bases : list (list attr)) (curs : list attr) (defs : list (list def))
                   (order : list nat) : cres (list attr) :=
  match order with
  | [] => COk g curs
  | i :: r =>
      match nth i defs [] with
      | [] => body_defs mc g bases curs defs r
      | d :: ds =>
          cbind (if mc then cd_setitem g (nth i bases []) (nth i curs ANone) d else pd_setitem g (nth i curs ANone) d)
                (fun g1 a => body_defs mc g1 bases (set_nth i a curs) (set_nth i ds defs) r)
      end
  end.

Definition class_names (mc : bool) (g : graph) (w : world) (specs : list sx) (order : list nat) : cres (list attr) :=
  let bases := map (fun p => map (lookup_attr w (fst p)) (sx_list (sx_nth 0 (snd p)))) (combine (seq 0 (length specs)) specs) in
  let defs := map (fun sp => map def_of (sx_list (sx_nth 1 sp))) specs in
  cbind (if mc then prepare_names g bases else COk g (map (fun _ => ANone) specs))
        (fun g1 curs => body_defs mc g1 bases curs defs order).

Fixpoint name_flags (w : world) (name : nat) (specs : list sx) : list sx :=
  match specs with
  | [] => []
  | sp :: r =>
      let bases := map (lookup_attr w name) (sx_list (sx_nth 0 sp)) in
      let body := map def_of (sx_list (sx_nth 1 sp)) in
      let prepared := prepared_b bases in
      L [of_bool (cls_kf41 (if prepared then AOvld 0 false else ANone) body); of_bool (cls_kf42 body); of_bool prepared]
        :: name_flags w (S name) r
  end.

Definition use_all (g : graph) (w : world) : graph :=
  fold_left (fun acc c => fold_left (fun acc' a => match a with AOvld n _ => fst (do_use acc' n) | _ => acc' end) c acc) w g.

Fixpoint run_stmts (g : graph) (w : world) (stmts : list sx) : list sx :=
  match stmts with
  | [] => []
  | st :: r =>
      match sx_tag st with
      | 0%Z =>
          let mc := sx_bool (sx_arg 0 st) in
          let specs := sx_list (sx_arg 1 st) in
          let order := map sx_nat (sx_list (sx_arg 2 st)) in
          let flags := if mc then L (name_flags w 0 specs) else L [] in
          match class_names mc g w specs order with
          | COk g' attrs =>
              let w' := w ++ [attrs] in
              L [A 0%Z; of_world g' w'; flags] :: run_stmts g' w' r
          | CFail e =>
              let w' := w ++ [map (fun _ => ANone) specs] in
              L [of_cerr e; of_world g w'; flags] :: run_stmts g w' r
          end
      | _ =>
          let g' := use_all g w in
          L [A 0%Z; of_world g' w; L []] :: run_stmts g' w r
      end
  end.

Definition run_classes (s : sx) : sx := L (run_stmts [] [] (sx_list (sx_arg 0 s))).
