(* C13 — type-level matching agrees with the documented meaning of each type.
   Theorems only.  Model: Model/Ty.v (subck = subclasscheck with fuel).  Spec: Spec/Denot.v. *)
From Coq Require Import ZArith List Bool Arith.
Import ListNotations.
From OvldV Require Import Model.Order Model.Ty Model.TyDom Model.Codec Spec.Denot Proofs.TyEq Proofs.TyMono Proofs.TySub Proofs.TyTotal Proofs.TyMeaning.

Definition Refl (sub : nat -> nat -> bool) := forall c, sub c c = true.
Definition Antisym (sub : nat -> nat -> bool) := forall c d, sub c d = true -> sub d c = true -> c = d.
Definition Trans (sub : nat -> nat -> bool) := forall a b c, sub a b = true -> sub b c = true -> sub a c = true.

(* a method declared on T is applicable to a value of class c exactly when c satisfies T's documented meaning;
   any nesting depth; for value-dependent T the type-level meaning is that of its bound *)
Theorem C13_denot : forall sub hasm chk fresh, Refl sub ->
  forall n T c b, subck sub hasm chk fresh n (Cls c) T = Some b -> b = denot sub hasm chk T c.
Proof. exact subck_denot. Qed.
Print Assumptions C13_denot.

Theorem C13_total : forall sub hasm chk fresh t1 t2, subclasscheck sub hasm chk fresh t1 t2 <> None.
Proof. exact subclasscheck_total. Qed.
Print Assumptions C13_total.

Theorem C13_refl : forall sub hasm chk fresh n t, subck sub hasm chk fresh (S n) t t = Some true.
Proof. exact subck_refl. Qed.
Print Assumptions C13_refl.

Theorem C13_fuel_irrelevant : forall sub hasm chk fresh n m t1 t2 r1 r2,
  subck sub hasm chk fresh n t1 t2 = Some r1 -> subck sub hasm chk fresh m t1 t2 = Some r2 -> r1 = r2.
Proof. exact subck_det. Qed.
Print Assumptions C13_fuel_irrelevant.

Theorem C13_classes : forall sub hasm chk fresh, Refl sub ->
  forall n c d, subck sub hasm chk fresh (S n) (Cls c) (Cls d) = Some (sub c d).
Proof. exact subck_classes. Qed.
Print Assumptions C13_classes.

Theorem C13_generic_covariant : forall sub hasm chk fresh n o1 a1 o2 a2,
  ty_eqb (Gen o1 a1) (Gen o2 a2) = false ->
  subck sub hasm chk fresh (S n) (Gen o1 a1) (Gen o2 a2) =
    if sub o1 o2 then (if Nat.eqb (length a1) (length a2) then oforall2 (subck sub hasm chk fresh n) a1 a2 else Some false)
    else Some false.
Proof. exact subck_generic. Qed.
Print Assumptions C13_generic_covariant.

Theorem C13_alias_under_class : forall sub hasm chk fresh n o a d,
  subck sub hasm chk fresh (S n) (Gen o a) (Cls d) = Some (sub o d).
Proof. exact subck_alias_class. Qed.
Print Assumptions C13_alias_under_class.

(* at the public entry point (fuel chosen by the model, never exhausted): the answer IS the documented meaning *)
Theorem C13_entry_is_meaning : forall sub hasm chk fresh, Refl sub ->
  forall c T, subclasscheck sub hasm chk fresh (Cls c) T = Some (denot sub hasm chk T c).
Proof. exact subclasscheck_denot. Qed.
Print Assumptions C13_entry_is_meaning.

(* a class is under a union exactly when it is under some member; under an intersection exactly when under all;
   under a value-dependent type exactly when under its bound -- members of any nesting depth *)
Theorem C13_union_some_member : forall sub hasm chk fresh, Refl sub -> forall c ts,
  subclasscheck sub hasm chk fresh (Cls c) (Uni ts) = Some true <->
  exists t, In t ts /\ subclasscheck sub hasm chk fresh (Cls c) t = Some true.
Proof. exact subclasscheck_union. Qed.
Print Assumptions C13_union_some_member.

Theorem C13_inter_all_members : forall sub hasm chk fresh, Refl sub -> forall c ts,
  subclasscheck sub hasm chk fresh (Cls c) (Int ts) = Some true <->
  forall t, In t ts -> subclasscheck sub hasm chk fresh (Cls c) t = Some true.
Proof. exact subclasscheck_inter. Qed.
Print Assumptions C13_inter_all_members.

Theorem C13_dependent_is_bound : forall sub hasm chk fresh, Refl sub -> forall c T, is_dep T = true ->
  subclasscheck sub hasm chk fresh (Cls c) T = subclasscheck sub hasm chk fresh (Cls c) (dep_bound T).
Proof. exact subclasscheck_dep_bound. Qed.
Print Assumptions C13_dependent_is_bound.

(* FULL STATEMENT (false of the faithful model: C13_trans_refuted_...): the subtype test is transitive.
   PROVED: for class operands on the left and in the middle and a right operand whose meaning is closed under
   subclassing (no Exactly, no arbitrary class predicate inside), at any depth. *)
Theorem C13_trans_partial : forall sub hasm chk fresh, Refl sub -> Trans sub -> Antisym sub ->
  (forall c d m, sub c d = true -> hasm d m = true -> hasm c m = true) ->
  forall n1 n2 n3 x m T b, down_closed T = true ->
    subck sub hasm chk fresh n1 (Cls x) (Cls m) = Some true ->
    subck sub hasm chk fresh n2 (Cls m) T = Some true ->
    subck sub hasm chk fresh n3 (Cls x) T = Some b -> b = true.
Proof. exact subck_trans_classes. Qed.
Print Assumptions C13_trans_partial.

(* classes: 0 object, 1 A, 2 A' (subclass of A) *)
Definition wh : hier := {| h_supers := [[0]; [0; 1]; [0; 1; 2]]; h_meths := []; h_preds := []; h_fresh := [0] |}.

(* KF-22: object <= Union[object, A] <= StrictSubclass[object] but object is not <= StrictSubclass[object]
   (a constructed type on the left is treated as an ordinary class, a "proper subclass of object") *)
Theorem C13_trans_refuted_constructed :
  exists a m c, subclasscheck_h wh a m = Some true /\ subclasscheck_h wh m c = Some true /\ subclasscheck_h wh a c = Some false.
Proof. exists (Cls 0), (Uni [Cls 0; Cls 1]), (Strict 1 0). vm_compute. repeat split; reflexivity. Qed.
Print Assumptions C13_trans_refuted_constructed.

(* KF-25: A' <= A <= Exactly[A] but A' is not <= Exactly[A]: Exactly's documented meaning is not closed under
   subclassing, so the transitivity the property asks for cannot hold together with it *)
Theorem C13_trans_refuted_exactly :
  exists a m c, subclasscheck_h wh a m = Some true /\ subclasscheck_h wh m c = Some true /\ subclasscheck_h wh a c = Some false.
Proof. exists (Cls 2), (Cls 1), (Exa 1 1). vm_compute. repeat split; reflexivity. Qed.
Print Assumptions C13_trans_refuted_exactly.

Example C13_nonvacuous :
  subclasscheck_h wh (Cls 2) (Int [Cls 1; Uni [Strict 1 1; Cls 0]]) = Some true /\
  down_closed (Int [Cls 1; Uni [Strict 1 1; Cls 0]]) = true /\
  subclasscheck_h wh (Cls 2) (Cls 1) = Some true.
Proof. vm_compute. repeat split; reflexivity. Qed.

(* ---- leaf tie: the generic-alias branch of subclasscheck as regenerated from /repo's current source on every run
   (Gen/Leaf.v gen_sub_src: origin test, same number of arguments, argument-wise tests) IS the model's, with the calls it
   makes put back in ---- *)
From OvldV Require Import Gen.Leaf Proofs.LeafDep.

Theorem C13_leaf_generic_branch : forall sub hasm chk fresh (rec : ty -> ty -> option bool) t1 o2 a2,
  ty_eqb t1 (Gen o2 a2) = false ->
  subck_body sub hasm chk fresh rec t1 (Gen o2 a2) =
    let o1' := match t1 with Gen o _ => Cls o | _ => t1 end in
    let a1 := match t1 with Gen _ a => a | _ => [] end in
    match issub_cls sub fresh o1' o2 with
    | None => None
    | Some osub =>
        if osub && Nat.eqb (length a1) (length a2)
        then omap (fun ok => gen_sub_src osub false (length a1) (length a2) ok) (oforall2 rec a1 a2)
        else Some (gen_sub_src osub false (length a1) (length a2) false)
    end.
Proof. exact gen_branch_decides. Qed.
Print Assumptions C13_leaf_generic_branch.
