(* BuildM.v -- the lazy build, the rebuild and the cache-miss resolution of an overloaded function as
   sequences of ATOMIC STEPS over shared state, with threads (C18, C19).  Definitions only.

   Anchors: core.py bootstrap_dispatch.first_entry, Ovld.compile, _update, _register, unregister,
   register_signature; typemap.py MultiTypeMap.register, resolve (write loop), __missing__; recode.py recode
   (the ___MAP global of rewritten bodies).

   Resolution itself is abstracted: [chain regs k] is the list of ranks (one handler | an ambiguous set) that
   MultiTypeMap.mro computes for key [k] over the handlers registered so far -- a parameter of every function
   below (another component says what it is; [chain_rk] at the end is the executable instance used by
   the runner and the witnesses).  Handlers are method labels; a table filled twice holds a label twice.
   Every adaptation (adapt_function) creates a new function object: object ids are allocated from [s_next] and
   each table remembers which objects were registered in it ([t_obj]); a rewritten body that reaches, through the
   ___MAP global, a table in which its own code object is not registered is a foreign caller there (its continuation
   keys miss and __missing__ answers with a fresh lookup).

   Faithful points that matter (all confirmed on /repo):
   * the generated entry point reads OVLD.map at call time, so the table in service is [s_map], replaced by an
     empty one at the START of compile (line "self.map = MultiTypeMap(...)"), before analysis and swap;
   * compile never resets _compiled; _update rebuilds only when _compiled is set; first_entry always compiles;
   * register_signature reads self.map again for every method; MultiTypeMap.register clears the entry
     dictionary, the remembered errors and the candidate-code sets (since the repair of KF-04);
   * rewritten bodies reach the table through a module global set at adaptation time ([s_cnmap]);
   * resolve writes: candidate codes (inside mro); then the collected writes in REVERSE order of the ranks (since the
     repair of KF-20): remembered error at an ambiguous rank / continuation entries keyed by the caller bottom-up, the
     first-rank entry -- whose presence suppresses any later resolution -- last; one dictionary write per step. *)
From Coq Require Import List Bool Arith.
Import ListNotations.

Definition label := nat.
Definition key := nat.
Definition tid := nat.

Inductive err := EConfig | ENoMethod | EAmbig | EInternal.   (* EInternal: KeyError escaping from __missing__ *)
Inductive rank := ROne (h : label) | RAmb (hs : list label).
Inductive body := BRet | BNext.                       (* returns | returns after delegating to call_next(same argument) *)
Inductive dkind := DOk | DBadAnalysis | DBadAdapt.    (* valid | makes analyze_arguments raise | raises in adapt_function *)
Record minfo := { m_kind : dkind; m_recoded : bool; m_body : body }.

(* dictionary keys of a MultiTypeMap: (0, k) = the plain tuple k; (S h, k) = (code of caller h, *k) *)
Definition ckey := (nat * key)%type.
Definition ckey_eqb (a b : ckey) : bool := Nat.eqb (fst a) (fst b) && Nat.eqb (snd a) (snd b).

Section Assoc.
  Context {K V : Type} (eqb : K -> K -> bool).
  Fixpoint alookup (k : K) (l : list (K * V)) : option V :=
    match l with
    | [] => None
    | (k', v) :: r => if eqb k k' then Some v else alookup k r
    end.
  (* dictionary store: replaces in place, appends when absent (so storing an equal value changes nothing) *)
  Fixpoint aupd (k : K) (v : V) (l : list (K * V)) : list (K * V) :=
    match l with
    | [] => [(k, v)]
    | (k', v') :: r => if eqb k k' then (k', v) :: r else (k', v') :: aupd k v r
    end.
End Assoc.

Record table := { t_regs : list label;               (* registered handlers, in registration order *)
                  t_dict : list (ckey * label);      (* first-rank and continuation entries *)
                  t_errs : list (ckey * err);        (* remembered errors *)
                  t_all : list (key * list label);   (* candidate codes per resolved key *)
                  t_obj : list (label * nat) }.      (* (label, object id) of every function registered here *)
Definition empty_table : table := {| t_regs := []; t_dict := []; t_errs := []; t_all := []; t_obj := [] |}.

Inductive entry := Boot | Generated.
Record shared := { s_entry : entry;       (* code of the function returned by @ovld *)
                   s_compiled : bool;     (* Ovld._compiled *)
                   s_map : tid;           (* Ovld.map *)
                   s_cnmap : tid;         (* the ___MAP global of rewritten bodies *)
                   s_tables : list table; (* heap of MultiTypeMap objects *)
                   s_defs : list label;   (* Ovld._defns, in order *)
                   s_next : nat }.        (* next function object id *)

Definition init (defs : list label) : shared :=
  {| s_entry := Boot; s_compiled := false; s_map := 0; s_cnmap := 0; s_tables := []; s_defs := defs; s_next := 1 |}.

Definition tbl (s : shared) (t : tid) : table := nth t (s_tables s) empty_table.

Fixpoint set_nth {X} (n : nat) (x : X) (l : list X) : list X :=
  match l, n with
  | [], _ => []
  | _ :: r, 0 => x :: r
  | y :: r, S m => y :: set_nth m x r
  end.

Definition set_tbl (s : shared) (t : tid) (T : table) : shared :=
  {| s_entry := s_entry s; s_compiled := s_compiled s; s_map := s_map s; s_cnmap := s_cnmap s;
     s_tables := set_nth t T (s_tables s); s_defs := s_defs s; s_next := s_next s |}.

Inductive wr := WDict (c : ckey) (h : label) | WErr (c : ckey) (e : err).

Definition apply_wr (T : table) (w : wr) : table :=
  match w with
  | WDict c h => {| t_regs := t_regs T; t_dict := aupd ckey_eqb c h (t_dict T); t_errs := t_errs T; t_all := t_all T; t_obj := t_obj T |}
  | WErr c e => {| t_regs := t_regs T; t_dict := t_dict T; t_errs := aupd ckey_eqb c e (t_errs T); t_all := t_all T; t_obj := t_obj T |}
  end.

(* the writes resolve collects, top-down: [c] is 0 for the first rank, then S (the handler of the previous rank);
   they are applied in reverse ([rev], see PMro) *)
Fixpoint writes_from (k : key) (c : nat) (rs : list rank) : list wr :=
  match rs with
  | [] => []
  | ROne h :: rest => WDict (c, k) h :: writes_from k (S h) rest
  | RAmb _ :: _ => [WErr (c, k) EAmbig]
  end.

Fixpoint handlers (rs : list rank) : list label :=
  match rs with
  | [] => []
  | ROne h :: r => h :: handlers r
  | RAmb hs :: r => hs ++ handlers r
  end.

Inductive op := OCall (k : key) | OReg (l : label) | OUnreg (l : label).
Inductive after := ADispatch (k : key) | ADone.
Inductive cstep := CPrep | CNewMap | CAnalyze | CSwap | CSnap
                 | CAdapt (l : label) (rest : list label) | CReg (l : label) (o : nat) (rest : list label) | CFlag.
Inductive result := RRet | RErr (e : err).

Inductive pc :=
  | PStart (o : op)
  | PUpdate
  | PComp (c : cstep) (a : after)
  | PDispatch (k : key)
  | PMro (t : tid) (k : key) (cl : option (label * nat))   (* None: plain lookup; Some (h, o): inside the call_next miss of caller h (object o) *)
  | PWrite (t : tid) (k : key) (cl : option (label * nat)) (started : bool) (ws : list wr)
  | PAfter (t : tid) (k : key) (cl : option (label * nat))
  | PRun (h : label) (o : nat) (k : key)       (* the function object o (method h) runs *)
  | PNext (h : label) (o : nat) (k : key)
  | PN1 (t : tid) (h : label) (o : nat) (k : key)
  | PN2 (t : tid) (h : label) (o : nat) (k : key)
  | PDone (r : result).

Record local := { l_pc : pc; l_trace : list label }.
Definition start (o : op) : local := {| l_pc := PStart o; l_trace := [] |}.
Definition result_of (l : local) : option (list label * result) :=
  match l_pc l with PDone r => Some (l_trace l, r) | _ => None end.

Definition at_pc (l : local) (p : pc) : local := {| l_pc := p; l_trace := l_trace l |}.

Definition fill_next (rest : list label) (a : after) : pc :=
  match rest with [] => PComp CFlag a | l :: r => PComp (CAdapt l r) a end.

Definition remove_label (l : label) (ds : list label) : list label := filter (fun d => negb (Nat.eqb d l)) ds.
Definition mem (h : label) (hs : list label) : bool := existsb (Nat.eqb h) hs.
(* is the function object o (method h) registered in table T?  which object does a lookup returning h yield? *)
Definition registered (T : table) (h : label) (o : nat) : bool :=
  existsb (fun p => Nat.eqb (fst p) h && Nat.eqb (snd p) o) (t_obj T).
Fixpoint last_obj (h : label) (l : list (label * nat)) (d : nat) : nat :=
  match l with
  | [] => d
  | (h', o) :: r => last_obj h r (if Nat.eqb h' h then o else d)
  end.
Definition oid_of (T : table) (h : label) : nat := last_obj h (t_obj T) 0.

Section Machine.
  Variable chain : list label -> key -> list rank.
  Variable meth : label -> minfo.

  Definition is_bad_analysis (l : label) : bool := match m_kind (meth l) with DBadAnalysis => true | _ => false end.
  Definition is_bad_adapt (l : label) : bool := match m_kind (meth l) with DBadAdapt => true | _ => false end.

  (* one atomic step of one thread *)
  Definition tstep (s : shared) (l : local) : shared * local :=
    match l_pc l with
    | PStart (OCall k) =>                                  (* the call reads the function's current code *)
        match s_entry s with
        | Boot => (s, at_pc l (PComp CPrep (ADispatch k)))  (* first_entry: ov.compile(); ov.dispatch(...) *)
        | Generated => (s, at_pc l (PDispatch k))
        end
    | PStart (OReg d) =>                                   (* _register: self._defns[sig] = fn *)
        ({| s_entry := s_entry s; s_compiled := s_compiled s; s_map := s_map s; s_cnmap := s_cnmap s;
            s_tables := s_tables s; s_defs := s_defs s ++ [d]; s_next := s_next s |}, at_pc l PUpdate)
    | PStart (OUnreg d) =>
        ({| s_entry := s_entry s; s_compiled := s_compiled s; s_map := s_map s; s_cnmap := s_cnmap s;
            s_tables := s_tables s; s_defs := remove_label d (s_defs s); s_next := s_next s |}, at_pc l PUpdate)
    | PUpdate =>                                           (* _update: if self._compiled: self.compile() *)
        if s_compiled s then (s, at_pc l (PComp CPrep ADone)) else (s, at_pc l (PDone RRet))
    | PComp CPrep a => (s, at_pc l (PComp CNewMap a))      (* lock mixins, name *)
    | PComp CNewMap a =>                                   (* self.map = MultiTypeMap(...) *)
        ({| s_entry := s_entry s; s_compiled := s_compiled s; s_map := length (s_tables s); s_cnmap := s_cnmap s;
            s_tables := s_tables s ++ [empty_table]; s_defs := s_defs s; s_next := s_next s |}, at_pc l (PComp CAnalyze a))
    | PComp CAnalyze a =>                                  (* analyze_arguments + generate_dispatch *)
        if existsb is_bad_analysis (s_defs s) then (s, at_pc l (PDone (RErr EConfig)))
        else (s, at_pc l (PComp CSwap a))
    | PComp CSwap a =>                                     (* self.dispatch.__code__ = ... *)
        ({| s_entry := Generated; s_compiled := s_compiled s; s_map := s_map s; s_cnmap := s_cnmap s;
            s_tables := s_tables s; s_defs := s_defs s; s_next := s_next s |}, at_pc l (PComp CSnap a))
    | PComp CSnap a => (s, at_pc l (fill_next (s_defs s) a))   (* for key, fn in list(self.defns.items()) *)
    | PComp (CAdapt d rest) a =>                           (* adapt_function: a new function object *)
        if is_bad_adapt d then (s, at_pc l (PDone (RErr EConfig)))
        else ({| s_entry := s_entry s; s_compiled := s_compiled s; s_map := s_map s;
                 s_cnmap := if m_recoded (meth d) then s_map s else s_cnmap s;
                 s_tables := s_tables s; s_defs := s_defs s; s_next := S (s_next s) |},
              at_pc l (PComp (CReg d (s_next s) rest) a))
    | PComp (CReg d o rest) a =>                           (* self.map.register(sig, fn): clear(); add *)
        let t := s_map s in
        let T := tbl s t in
        (set_tbl s t {| t_regs := t_regs T ++ [d]; t_dict := []; t_errs := []; t_all := []; t_obj := t_obj T ++ [(d, o)] |},
         at_pc l (fill_next rest a))
    | PComp CFlag a =>                                     (* self._compiled = True *)
        ({| s_entry := s_entry s; s_compiled := true; s_map := s_map s; s_cnmap := s_cnmap s;
            s_tables := s_tables s; s_defs := s_defs s; s_next := s_next s |},
         at_pc l (match a with ADispatch k => PDispatch k | ADone => PDone RRet end))
    | PDispatch k =>                                       (* method = OVLD.map[(type(x),)] *)
        let t := s_map s in
        let T := tbl s t in
        match alookup ckey_eqb (0, k) (t_dict T) with
        | Some h => (s, at_pc l (PRun h (oid_of T h) k))
        | None => (s, at_pc l (PMro t k None))
        end
    | PMro t k cl =>                                       (* resolve: results = self.mro(k)  [writes self.all[k]] *)
        let T := tbl s t in
        let rs := chain (t_regs T) k in
        let s' := set_tbl s t {| t_regs := t_regs T; t_dict := t_dict T; t_errs := t_errs T;
                                 t_all := aupd Nat.eqb k (handlers rs) (t_all T); t_obj := t_obj T |} in
        match rs with
        | [] => (s', at_pc l (PDone (RErr ENoMethod)))
        | _ => (s', at_pc l (PWrite t k cl false (rev (writes_from k 0 rs))))   (* for ... in reversed(writes) *)
        end
    | PWrite t k cl st (w :: ws) => (set_tbl s t (apply_wr (tbl s t) w), at_pc l (PWrite t k cl true ws))
    | PWrite t k cl st [] => (s, at_pc l (PAfter t k cl))
    | PAfter t k cl =>                                     (* if k in self.errors: raise; return self[k] *)
        let T := tbl s t in
        match alookup ckey_eqb (0, k) (t_errs T) with
        | Some e => (s, at_pc l (PDone (RErr e)))
        | None =>
            match alookup ckey_eqb (0, k) (t_dict T) with
            | Some h => (s, at_pc l (match cl with None => PRun h (oid_of T h) k | Some (c, o) => PN2 t c o k end))
            | None => (s, at_pc l (PMro t k cl))
            end
        end
    | PRun h o k =>                                        (* the method body runs *)
        let l' := {| l_pc := l_pc l; l_trace := l_trace l ++ [h] |} in
        match m_body (meth h) with
        | BRet => (s, at_pc l' (PDone RRet))
        | BNext => (s, at_pc l' (PNext h o k))
        end
    | PNext h o k =>                                       (* ___MAP[(___CODE, type(x))] *)
        let t := s_cnmap s in
        let T := tbl s t in
        if registered T h o
        then match alookup ckey_eqb (S h, k) (t_dict T) with
             | Some h2 => (s, at_pc l (PRun h2 (oid_of T h2) k))
             | None => (s, at_pc l (PN1 t h o k))
             end
        else (s, at_pc l (PN1 t h o k))                     (* a code object this table has never seen: no such key *)
    | PN1 t h o k =>                                       (* __missing__ (code, *k): self[real_tup] *)
        match alookup ckey_eqb (0, k) (t_dict (tbl s t)) with
        | Some _ => (s, at_pc l (PN2 t h o k))
        | None => (s, at_pc l (PMro t k (Some (h, o))))
        end
    | PN2 t h o k =>
        let T := tbl s t in
        match alookup Nat.eqb k (t_all T) with
        | None => (s, at_pc l (PDone (RErr EInternal)))     (* self.all[real_tup] raises KeyError (cleared by a register) *)
        | Some cands =>
            if negb (mem h cands && registered T h o)      (* caller's code not among the candidates: fresh lookup *)
            then match alookup ckey_eqb (0, k) (t_dict T) with
                 | Some h' => (s, at_pc l (PRun h' (oid_of T h') k))
                 | None => (s, at_pc l (PMro t k None))
                 end
            else match alookup ckey_eqb (S h, k) (t_errs T) with
                 | Some e => (s, at_pc l (PDone (RErr e)))
                 | None =>
                     match alookup ckey_eqb (S h, k) (t_dict T) with
                     | Some h2 => (s, at_pc l (PRun h2 (oid_of T h2) k))
                     | None => (s, at_pc l (PDone (RErr ENoMethod)))
                     end
                 end
        end
    | PDone r => (s, l)
    end.

  (* a thread running alone for n steps; abandoning it there = an exception injected at that step boundary
     (the exception aborts the rest, the state keeps the writes made so far) *)
  Fixpoint run_alone (n : nat) (s : shared) (l : local) : shared * local :=
    match n with
    | 0 => (s, l)
    | S m => let '(s', l') := tstep s l in run_alone m s' l'
    end.

  Definition fail_after (n : nat) (s : shared) (o : op) : shared := fst (run_alone n s (start o)).

  (* sequential use: operation run to completion (fuel), result None = fuel exhausted *)
  Definition run_op (fuel : nat) (s : shared) (o : op) : shared * option (list label * result) :=
    let '(s', l') := run_alone fuel s (start o) in (s', result_of l').

  Fixpoint run_ops (fuel : nat) (s : shared) (os : list op) : shared * list (option (list label * result)) :=
    match os with
    | [] => (s, [])
    | o :: r => let '(s', x) := run_op fuel s o in let '(s'', xs) := run_ops fuel s' r in (s'', x :: xs)
    end.

  Definition probes (fuel : nat) (s : shared) (ks : list key) := snd (run_ops fuel s (map OCall ks)).

  (* ---- threads: a pool is a list of thread-local states; a schedule names the thread taking the next step ---- *)
  Definition sched_step (s : shared) (p : list local) (i : nat) : shared * list local :=
    match nth_error p i with
    | None => (s, p)
    | Some l => let '(s', l') := tstep s l in (s', set_nth i l' p)
    end.

  Fixpoint run_schedule (s : shared) (p : list local) (sch : list nat) : shared * list local :=
    match sch with
    | [] => (s, p)
    | i :: r => let '(s', p') := sched_step s p i in run_schedule s' p' r
    end.

  (* ---- specification: the outcome over the complete table, no tables involved ---- *)
  Fixpoint walk (rs : list rank) (tr : list label) : list label * result :=
    match rs with
    | [] => (tr, RErr ENoMethod)
    | RAmb _ :: _ => (tr, RErr EAmbig)
    | ROne h :: rest => match m_body (meth h) with
                        | BRet => (tr ++ [h], RRet)
                        | BNext => walk rest (tr ++ [h])
                        end
    end.
  Definition spec_call (defs : list label) (k : key) : list label * result := walk (chain defs k) [].

  Definition all_ok (defs : list label) : bool :=
    forallb (fun d => match m_kind (meth d) with DOk => true | _ => false end) defs.

  (* ---- domain predicates / classifiers (boolean, on the thread's position at the failure point) ---- *)
  (* the entry point has not been swapped and no table has been put in service by this thread's compile *)
  Definition before_newmap (l : local) : bool :=
    match l_pc l with
    | PStart _ | PUpdate | PComp CPrep _ | PComp CNewMap _ => true
    | _ => false
    end.
  Definition before_swap (l : local) : bool :=
    match l_pc l with
    | PStart _ | PUpdate | PComp CPrep _ | PComp CNewMap _ | PComp CAnalyze _ | PComp CSwap _ => true
    | _ => false
    end.
  Definition in_compile (l : local) : bool := match l_pc l with PComp _ _ => true | _ => false end.
  (* inside resolve's write loop, after the first write, before the last (was KF-20's window; harmless since the repair) *)
  Definition in_write_window (l : local) : bool :=
    match l_pc l with
    | PWrite _ _ _ true (_ :: _) => true
    | _ => false
    end.
  (* KF-19's window: a table that is not completely filled is in service *)
  Definition in_fill_window (l : local) : bool := in_compile l && negb (before_swap l).
  (* C18's proved domain: the points of a CALL at which abandoning it is harmless = outside KF-19's window
     (every point of resolve's write loop included) *)
  Definition safe_point (l : local) : bool := before_swap l || negb (in_compile l).
End Machine.

(* ---- an executable chain: per method and key an optional rank number; larger runs first, ties are ambiguous ---- *)
Fixpoint ins_group (l : label) (r : nat) (gs : list (nat * list label)) : list (nat * list label) :=
  match gs with
  | [] => [(r, [l])]
  | (r', ls) :: rest =>
      if Nat.eqb r r' then (r', ls ++ [l]) :: rest
      else if Nat.ltb r' r then (r, [l]) :: (r', ls) :: rest
      else (r', ls) :: ins_group l r rest
  end.

Definition chain_rk (rk : label -> key -> option nat) (regs : list label) (k : key) : list rank :=
  let gs := fold_left (fun gs l => match rk l k with Some r => ins_group l r gs | None => gs end) regs [] in
  map (fun g => match snd g with [h] => ROne h | hs => RAmb hs end) gs.

(* ---- C19: the domain of the concurrency theorem ---- *)
(* built, and the resolutions of the keys in K have completed: their first-rank entries are in the table in service *)
Definition warm (K : list key) (s : shared) : bool :=
  match s_entry s with Generated => true | Boot => false end
  && Nat.eqb (s_cnmap s) (s_map s)
  && forallb (fun k => match alookup ckey_eqb (0, k) (t_dict (tbl s (s_map s))) with Some _ => true | None => false end) K.
Definition call_in (K : list key) (o : op) : bool := match o with OCall k => mem k K | _ => false end.
