(* Resolve.v — typemap.py: TypeMap.__missing__ (levels from Kahn layers of sort_types), Candidate
   (sort_key, dominates), MultiTypeMap.mro (arity/keyword filter, candidate intersection, stable sort, _pull),
   resolve (rank chain, continuation entries) and __missing__ (lookup / lookup from a caller).
   Pure "fresh" semantics: what a lookup computes on an empty cache.  The cache state machine is Model/Cache.v.
   Iteration orders are explicit: registered types are visited in the order of the list [tys] handed in, candidates in
   the order of the method list. *)
From Coq Require Import ZArith List Bool Arith.
Import ListNotations.
From OvldV Require Import Model.Order Model.Ty.

(* ---------- methods and keys ---------- *)
Record meth : Type := mkMeth {
  m_id : nat;                    (* identity of the handler (its code object) *)
  m_pos : list ty;               (* declared types of the positional parameters *)
  m_kw : list (nat * ty);        (* keyword-only parameters: (name, declared type) *)
  m_req : nat;                   (* req_pos *)
  m_reqkw : list nat;            (* req_names *)
  m_prio : Z;
  m_tie : Z }.

Definition m_max (m : meth) : nat := length (m_pos m).

Record key : Type := mkKey {
  k_pos : list ty;               (* run-time type of each positional argument: Cls c or Gen TYPE [...] *)
  k_kw : list (nat * ty) }.      (* (name, run-time type) of each keyword argument, in call order *)

Inductive slot : Type := SPos (i : nat) | SKw (k : nat).

Definition slot_eqb (a b : slot) : bool :=
  match a, b with
  | SPos i, SPos j => Nat.eqb i j
  | SKw i, SKw j => Nat.eqb i j
  | _, _ => false
  end.

Fixpoint assoc_nat {X} (k : nat) (l : list (nat * X)) : option X :=
  match l with
  | [] => None
  | (a, x) :: r => if Nat.eqb a k then Some x else assoc_nat k r
  end.

(* the type a method registers at a slot (MultiTypeMap.register) *)
Definition slot_ty (m : meth) (s : slot) : option ty :=
  match s with
  | SPos i => nth_error (m_pos m) i
  | SKw k => assoc_nat k (m_kw m)
  end.

Definition key_slots (k : key) : list (slot * ty) :=
  (map (fun it => (SPos (fst it), snd it)) (combine (seq 0 (length (k_pos k))) (k_pos k)))
  ++ map (fun it => (SKw (fst it), snd it)) (k_kw k).

Definition memb (x : nat) (l : list nat) : bool := existsb (Nat.eqb x) l.
Definition mem_ty (t : ty) (l : list ty) : bool := existsb (ty_eqb t) l.

Fixpoint dedup_ty (l : list ty) : list ty :=
  match l with
  | [] => []
  | x :: r => let d := dedup_ty r in if mem_ty x r then d else x :: d
  end.

(* first-occurrence order *)
Definition dedup_first (l : list ty) : list ty := rev (dedup_ty (rev l)).

Fixpoint omap_filter {X Y} (f : X -> option Y) (l : list X) : list Y :=
  match l with
  | [] => []
  | x :: r => match f x with Some y => y :: omap_filter f r | None => omap_filter f r end
  end.

(* every declared type of every method, in registration order (methods in order, positional then keyword slots) *)
Definition all_types (ms : list meth) : list ty :=
  dedup_first (flat_map (fun m => m_pos m ++ map snd (m_kw m)) ms).

(* TypeMap.types of the map at slot s.  A Python set has no order of its own; the harness imposes (through the
   guarded hook) the order of first registration anywhere in the function, which is what this list is. *)
Definition slot_types (ms : list meth) (s : slot) : list ty :=
  let here := omap_filter (fun m => slot_ty m s) ms in
  filter (fun t => mem_ty t here) (all_types ms).

(* ---------- registration: Ovld._register._set push-down of an identical signature ---------- *)
Definition sig_eqb (a b : meth) : bool :=
  list_eqb ty_eqb (m_pos a) (m_pos b)
  && list_eqb (fun p q => Nat.eqb (fst p) (fst q) && ty_eqb (snd p) (snd q)) (m_kw a) (m_kw b)
  && Nat.eqb (m_req a) (m_req b)
  && list_eqb Nat.eqb (m_reqkw a) (m_reqkw b)
  && Z.eqb (m_prio a) (m_prio b).

Definition with_tie (m : meth) (t : Z) : meth :=
  mkMeth (m_id m) (m_pos m) (m_kw m) (m_req m) (m_reqkw m) (m_prio m) t.

Fixpoint replace_first (f : meth -> bool) (m : meth) (l : list meth) : list meth :=
  match l with
  | [] => []
  | x :: r => if f x then m :: r else x :: replace_first f m r
  end.

(* _set(sig, fn): if the key (signature, tiebreak) is taken, the holder is first pushed down to tiebreak-1
   (recursively), then the new function takes the holder's place in the dictionary order *)
Fixpoint defs_set (fuel : nat) (defs : list meth) (m : meth) : list meth :=
  let same x := sig_eqb x m && Z.eqb (m_tie x) (m_tie m) in
  match find same defs with
  | None => defs ++ [m]
  | Some old =>
      match fuel with
      | O => defs
      | S f => replace_first same m (defs_set f defs (with_tie old (m_tie old - 1)%Z))
      end
  end.

Definition defs_register (defs : list meth) (m : meth) : list meth :=
  defs_set (S (length defs)) defs (with_tie m 0%Z).

Definition defs_unregister (defs : list meth) (id : nat) : list meth :=
  filter (fun x => negb (Nat.eqb (m_id x) id)) defs.

(* ---------- Candidate.sort_key / dominates (hand-written reference; Gen/Leaf.v is regenerated from source) ---------- *)
Fixpoint sumn (l : list nat) : nat := match l with [] => 0 | x :: r => x + sumn r end.

Fixpoint all_ge (l1 l2 : list nat) : bool :=
  match l1, l2 with
  | x :: xs, y :: ys => Nat.leb y x && all_ge xs ys
  | _, _ => true
  end.

Record cand : Type := mkCand { c_m : meth; c_spec : list nat }.

Definition c_prio (c : cand) : Z := m_prio (c_m c).
Definition c_tie (c : cand) : Z := m_tie (c_m c).

(* lexicographic comparison of (priority, sum specificity, tiebreak): key a > key b *)
Definition key_gt (a b : cand) : bool :=
  if Z.ltb (c_prio b) (c_prio a) then true
  else if Z.ltb (c_prio a) (c_prio b) then false
  else if Nat.ltb (sumn (c_spec b)) (sumn (c_spec a)) then true
  else if Nat.ltb (sumn (c_spec a)) (sumn (c_spec b)) then false
  else Z.ltb (c_tie b) (c_tie a).

Definition dominates (a b : cand) : bool :=
  if Z.ltb (c_prio b) (c_prio a) then true
  else if negb (list_eqb Nat.eqb (c_spec a) (c_spec b)) then all_ge (c_spec a) (c_spec b)
  else Z.ltb (c_tie b) (c_tie a).

(* stable sort, descending key: list.sort(key=..., reverse=True) keeps equal keys in their original order:
   an element is inserted in front of the first element whose key is not strictly greater *)
Fixpoint insert_desc (c : cand) (l : list cand) : list cand :=
  match l with
  | [] => [c]
  | x :: r => if key_gt x c then x :: insert_desc c r else c :: l
  end.

Definition sort_desc (l : list cand) : list cand := fold_right insert_desc [] l.

(* ---------- outcomes ---------- *)
Inductive err : Type := ECycle | EFuel.

Inductive res (X : Type) : Type := Ok (x : X) | Err (e : err).
Arguments Ok {X} x.
Arguments Err {X} e.

Definition rbind {X Y} (r : res X) (f : X -> res Y) : res Y :=
  match r with Ok x => f x | Err e => Err e end.

Fixpoint rmapM {X Y} (f : X -> res Y) (l : list X) : res (list Y) :=
  match l with
  | [] => Ok []
  | x :: r => rbind (f x) (fun y => rbind (rmapM f r) (fun ys => Ok (y :: ys)))
  end.

Section Hier.
  Variable sub : nat -> nat -> bool.
  Variable hasm : nat -> nat -> bool.
  Variable chk : nat -> nat -> bool.
  Variable sub_fresh : nat -> bool.

  Notation typeorder := (typeorder sub hasm chk sub_fresh).
  Notation subclasscheck := (subclasscheck sub hasm chk sub_fresh).

  (* ---------- mro.sort_types as Kahn rounds ---------- *)
  (* avail: registered types the key type falls under, in iteration order *)
  Definition avail (tys : list ty) (k : ty) : res (list ty) :=
    rbind (rmapM (fun t => match subclasscheck k t with
                           | Some b => Ok (t, b)
                           | None => Err EFuel
                           end) tys)
          (fun l => Ok (map fst (filter snd l))).

  (* sort_types: what the comparison of the earlier type t1 with the later type t2 adds to the dependency graph --
     Some true: t2 waits for t1 (deps[t2].add(t1)), Some false: t1 waits for t2, None: nothing *)
  Definition edge_dir (o : order) : option bool :=
    match o with LESS => Some true | MORE => Some false | _ => None end.

  (* TypeMap.__missing__: the level given to the types of round r out of nr rounds (rounds counted from the last) *)
  Definition level_index (nr r : nat) : nat := nr - 1 - r.

  (* dependency edges among indexed nodes: (i, j) means node j must wait for node i (t_i LESS t_j).
     Only pairs i < j are compared, in one direction (mro.py L165-172). *)
  Fixpoint edges_from (i : nat) (ti : ty) (j : nat) (rest : list ty) : res (list (nat * nat)) :=
    match rest with
    | [] => Ok []
    | tj :: r =>
        match typeorder ti tj with
        | None => Err EFuel
        | Some o =>
            rbind (edges_from i ti (S j) r) (fun es =>
              Ok (match edge_dir o with
                  | Some true => (i, j) :: es
                  | Some false => (j, i) :: es
                  | None => es
                  end))
        end
    end.

  Fixpoint edges (i : nat) (l : list ty) : res (list (nat * nat)) :=
    match l with
    | [] => Ok []
    | t :: r => rbind (edges_from i t (S i) r) (fun e1 => rbind (edges (S i) r) (fun e2 => Ok (e1 ++ e2)))
    end.

  Definition preds (es : list (nat * nat)) (j : nat) : list nat :=
    map fst (filter (fun e => Nat.eqb (snd e) j) es).

  (* Kahn: rounds of ready nodes; None = a cycle (graphlib.CycleError) *)
  Fixpoint kahn (fuel : nat) (es : list (nat * nat)) (remaining done : list nat) : option (list (list nat)) :=
    match fuel with
    | O => match remaining with [] => Some [] | _ => None end
    | S f =>
        match remaining with
        | [] => Some []
        | _ =>
            let ready := filter (fun n => forallb (fun p => memb p done) (preds es n)) remaining in
            match ready with
            | [] => None
            | _ =>
                match kahn f es (filter (fun n => negb (memb n ready)) remaining) (done ++ ready) with
                | None => None
                | Some rs => Some (ready :: rs)
                end
            end
        end
    end.

  (* TypeMap.__missing__: level of every applicable registered type = index of its round counted from the last *)
  Definition levels (tys : list ty) (k : ty) : res (list (ty * nat)) :=
    rbind (avail tys k) (fun av =>
    rbind (edges 0 av) (fun es =>
      match kahn (length av) es (seq 0 (length av)) [] with
      | None => Err ECycle
      | Some rounds =>
          let nr := length rounds in
          Ok (concat (map (fun p : nat * list nat =>
                             let (r, grp) := p in
                             map (fun n => (nth n av (Cls 0), level_index nr r)) grp)
                          (combine (seq 0 nr) rounds)))
      end)).

  Fixpoint assoc_ty {X} (t : ty) (l : list (ty * X)) : option X :=
    match l with
    | [] => None
    | (a, x) :: r => if ty_eqb a t then Some x else assoc_ty t r
    end.

  (* classifier of KF-01 for arbitrary declared types: at some supplied slot two applicable registered types that
     the order leaves unrelated (NONE) nevertheless get different levels (layer indices order unrelated types) *)
  Definition level_artifact (ms : list meth) (k : key) : bool :=
    existsb (fun st : slot * ty =>
               match levels (slot_types ms (fst st)) (snd st) with
               | Ok tab =>
                   existsb (fun p1 : ty * nat =>
                     existsb (fun p2 : ty * nat =>
                       negb (Nat.eqb (snd p1) (snd p2)) &&
                       match typeorder (fst p1) (fst p2) with Some NONE => true | _ => false end) tab) tab
               | Err _ => true
               end) (key_slots k).

  (* ---------- MultiTypeMap.mro ---------- *)
  Definition arity_ok (m : meth) (nargs : nat) (names : list nat) : bool :=
    Nat.leb (m_req m) nargs && Nat.leb nargs (m_max m) && forallb (fun k => memb k names) (m_reqkw m).

  (* specificity of method m for the key, None if m is not a candidate *)
  Definition spec_of (lv : list (slot * list (ty * nat))) (m : meth) : option (list nat) :=
    (fix go (l : list (slot * list (ty * nat))) : option (list nat) :=
       match l with
       | [] => Some []
       | (s, tab) :: r =>
           match slot_ty m s with
           | None => None
           | Some t =>
               match assoc_ty t tab with
               | None => None
               | Some lvl => match go r with None => None | Some ls => Some (lvl :: ls) end
               end
           end
       end) lv.

  Definition candidates (ms : list meth) (k : key) : res (list cand) :=
    let nargs := length (k_pos k) in
    let names := map fst (k_kw k) in
    rbind (rmapM (fun st : slot * ty => let (s, t) := st in
                    rbind (levels (slot_types ms s) t) (fun tab => Ok (s, tab)))
                 (key_slots k)) (fun lv =>
      Ok (omap_filter (fun m => if arity_ok m nargs names
                                then match spec_of lv m with Some sp => Some (mkCand m sp) | None => None end
                                else None) ms)).

  (* _pull: the group led by the first candidate -- a later candidate joins it unless a member of the group (the
     leader or a candidate that joined before) dominates it (since the repair of KF-53; before it only the leader
     was asked, so a candidate dominated by another member stayed in the group) *)
  Fixpoint grp (kept : list cand) (rest : list cand) : list cand :=
    match rest with
    | [] => []
    | c2 :: r => if existsb (fun c => dominates c c2) kept then grp kept r else c2 :: grp (kept ++ [c2]) r
    end.

  Fixpoint pull (fuel : nat) (cs : list cand) (processed : list nat) : list (list cand) :=
    match fuel with
    | O => []
    | S f =>
        match filter (fun c => negb (memb (m_id (c_m c)) processed)) cs with
        | [] => []
        | c1 :: rest =>
            let nd := grp [c1] rest in
            (c1 :: nd) :: pull f rest (processed ++ map (fun c => m_id (c_m c)) nd)
        end
    end.

  Definition mro (ms : list meth) (k : key) : res (list (list cand)) :=
    rbind (candidates ms k) (fun cs =>
      let sorted := sort_desc cs in
      Ok (pull (S (length sorted)) sorted [])).

  (* ---------- resolve / __missing__ (static view: dependent ranks are handled in Model/DepDispatch.v) ---------- *)
  Inductive outcome : Type :=
  | ORun (m : nat)                 (* the handler that is returned *)
  | ONoMethod
  | OAmbig (ms : list nat)
  | OCycle
  | OFuel.

  Definition rank_outcome (g : list cand) : outcome :=
    match g with
    | [c] => ORun (m_id (c_m c))
    | _ => OAmbig (map (fun c => m_id (c_m c)) g)
    end.

  Definition of_err (e : err) : outcome := match e with ECycle => OCycle | EFuel => OFuel end.

  (* MultiTypeMap[key] on an empty cache *)
  Definition lookup (ms : list meth) (k : key) : outcome :=
    match mro ms k with
    | Err e => of_err e
    | Ok [] => ONoMethod
    | Ok (g :: _) => rank_outcome g
    end.

  (* continuation entries written by resolve: for consecutive ranks g_i, g_(i+1) while g_i is a single handler *)
  Fixpoint chain_next (ranks : list (list cand)) (caller : nat) : option outcome :=
    match ranks with
    | [] => None
    | g :: rest =>
        match g with
        | [c] =>
            if Nat.eqb (m_id (c_m c)) caller
            then match rest with
                 | [] => None                       (* no entry below the last rank *)
                 | g2 :: _ => Some (rank_outcome g2)
                 end
            else chain_next rest caller
        | _ => None                                 (* resolve stops writing at an ambiguous rank *)
        end
    end.

  (* MultiTypeMap[(caller_code, *key)] on an empty cache *)
  Definition lookup_next (ms : list meth) (caller : nat) (k : key) : outcome :=
    match mro ms k with
    | Err e => of_err e
    | Ok [] => ONoMethod
    | Ok (g :: rest) =>
        match rank_outcome g with
        | OAmbig l => OAmbig l                       (* self[real_tup] raises *)
        | fresh =>
            if negb (existsb (fun gr => existsb (fun c => Nat.eqb (m_id (c_m c)) caller) gr) (g :: rest))
            then fresh                               (* caller is not a candidate: behaves like a fresh lookup *)
            else match chain_next (g :: rest) caller with
                 | Some o => o
                 | None => ONoMethod
                 end
        end
    end.
End Hier.
