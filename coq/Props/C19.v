(* C19 -- concurrent calls behave like sequential calls.
   Theorems only.  Model: Model/BuildM.v -- a pool of threads (thread-local position + trace), a schedule = the list of
   thread ids taking the next atomic step ([run_schedule]); atomic = one dictionary operation / one source-line boundary.

   FULL STATEMENT  C19_concurrent_as_sequential (Spec/BuildSpec.v): valid definitions, any history, any pool of calls, ANY
   schedule: every finished call returned the outcome over the complete table and so do all probes afterwards.
   FALSE of the faithful model: C19_refuted (general), C19_refuted_build (KF-21: racing the first build).
   PROVED: C19_built -- once the function has been built by a completed call, ANY schedule over ANY number of threads
   calling with ANY keys (resolved or not: racing cache misses for equal and different keys, racing call_next chains)
   returns the outcomes over the complete table and leaves a state in which every later probe does too (invariant:
   every step of a call keeps the table consistent -- the first-rank entry is written last since the repair of KF-20 --
   and each thread's own invariant is stable under the other threads' steps, which only add entries with the values
   resolution determines; induction over the schedule).
   PROVED: C19_warm -- on the decidable domain [warm K s] (built; first-rank entries of the keys in K present, i.e. their
   resolutions have completed), for ANY chain/method parameters, ANY schedule over ANY number of threads calling with keys in
   K leaves the shared state untouched and puts every thread exactly where it would be running alone.
   NOT EXHIBITED by the model: atomicity inside one source line -- pre-emption inside a line is assumed equivalent to
   pre-emption at one of its boundaries; each dictionary operation is assumed atomic (GIL). *)
From Coq Require Import List Bool Arith.
Import ListNotations.
From OvldV Require Import Model.BuildM Spec.BuildSpec Proofs.BuildBase Proofs.BuildSeq Proofs.BuildPar Proofs.BuildWit.

Theorem C19_warm : forall chain meth K s, warm K s = true ->
  forall ops sch, forallb (call_in K) ops = true ->
  let r := run_schedule chain meth s (map start ops) sch in
  fst r = s /\
  forall i o, nth_error ops i = Some o ->
    nth_error (snd r) i = Some (snd (run_alone chain meth (count_occ Nat.eq_dec sch i) s (start o))) /\
    fst (run_alone chain meth (count_occ Nat.eq_dec sch i) s (start o)) = s.
Proof. exact warm_interleaving. Qed.
Print Assumptions C19_warm.

(* corollary: a call that finished under the schedule returned exactly what it returns alone, caches unchanged *)
Theorem C19_warm_results : forall chain meth K s, warm K s = true ->
  forall ops sch i o x, forallb (call_in K) ops = true -> nth_error ops i = Some o ->
  option_map result_of (nth_error (snd (run_schedule chain meth s (map start ops) sch)) i) = Some (Some x) ->
  forall fuel, count_occ Nat.eq_dec sch i <= fuel -> run_op chain meth fuel s o = (s, Some x).
Proof. exact warm_results. Qed.
Print Assumptions C19_warm_results.

Theorem C19_refuted : exists chain meth, ~ C19_concurrent_as_sequential chain meth.
Proof. exact (ex_intro _ wchain (ex_intro _ wmeth full_c19_false)). Qed.
Print Assumptions C19_refuted.

(* KF-21: two first callers of a(int) -> call_next, b(object) with an int.  [sch_empty]: the second caller enters through the
   swapped entry point over the still empty table: "no method".  [sch_double]: the second caller is already in the
   trampoline, builds a second table, the first registers its remaining methods into it: [a; b; b] -> spurious ambiguity. *)
Theorem C19_refuted_build :
  nth 1 (map result_of (snd (run_schedule wchain wmeth (init [0; 1]) [start (OCall 0); start (OCall 0)] sch_empty))) None
    = Some ([], RErr ENoMethod) /\
  nth 0 (map result_of (snd (run_schedule wchain wmeth (init [0; 1]) [start (OCall 0); start (OCall 0)] sch_double))) None
    = Some ([0], RErr EAmbig) /\
  map (fun t => t_regs t) (s_tables (fst (run_schedule wchain wmeth (init [0; 1]) [start (OCall 0); start (OCall 0)] sch_double)))
    = [[0]; [0; 1; 1]] /\
  spec_call wchain wmeth [0; 1] 0 = ([0; 1], RRet).
Proof. exact wit_build_race. Qed.
Print Assumptions C19_refuted_build.

(* the full statement restricted to functions that have been built: hypotheses on the parameters as in C18
   (candidates are registered handlers, each once; bodies using call_next are rewritten) *)
Theorem C19_built : forall chain meth,
  ((forall regs k, NoDup regs -> NoDup (handlers (chain regs k))) /\ (forall regs k h, In h (handlers (chain regs k)) -> In h regs)) ->
  (forall l, m_body (meth l) = BNext -> m_recoded (meth l) = true) ->
  forall D, NoDup D -> all_ok meth D = true ->
  forall k0 ks0 fuel0 xs0, snd (run_ops chain meth fuel0 (init D) (map OCall (k0 :: ks0))) = map Some xs0 ->
  let s := fst (run_ops chain meth fuel0 (init D) (map OCall (k0 :: ks0))) in
  forall ks sch, let r := run_schedule chain meth s (map (fun k => start (OCall k)) ks) sch in
  (forall i k x, nth_error ks i = Some k -> option_map result_of (nth_error (snd r) i) = Some (Some x) ->
     x = spec_call chain meth D k) /\
  forall ps fuel xs, probes chain meth fuel (fst r) ps = map Some xs -> xs = map (spec_call chain meth D) ps.
Proof. exact (fun chain meth HC HM => built_threads chain meth (proj1 HC) (proj2 HC) HM). Qed.
Print Assumptions C19_built.

(* the former KF-20 window observed by another thread (repaired): thread 0 is pre-empted after its first write, thread 1
   resolves the same key itself; both return the complete-table outcome *)
Theorem C19_chain_window_safe :
  map result_of (snd (run_schedule wchain wmeth s_built1 [start (OCall 0); start (OCall 0)] sch_chain))
    = [Some ([0; 1], RRet); Some ([0; 1], RRet)] /\
  all_ok wmeth (s_defs s_built1) = true /\ spec_call wchain wmeth (s_defs s_built1) 0 = ([0; 1], RRet).
Proof. exact wit_chain_window. Qed.
Print Assumptions C19_chain_window_safe.

Example C19_warm_inhabited :
  let s := fst (run_ops wchain wmeth 100 (init [0; 1; 2]) [OCall 0; OCall 1]) in
  warm [0; 1] s = true /\ warm [0; 1; 2] s = false /\
  map result_of (snd (run_schedule wchain wmeth s [start (OCall 0); start (OCall 1); start (OCall 0)] [2; 0; 1; 0; 2; 2; 1; 0; 0; 1; 2; 2; 0; 1; 2; 0]))
    = [Some ([0; 1], RRet); Some ([2], RRet); Some ([0; 1], RRet)].
Proof. exact warm_inhabited. Qed.
