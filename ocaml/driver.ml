(* driver.ml — generic driver for the extracted model: one s-expression case per input line,
   one s-expression outcome per output line.  Only conversions int <-> Z and the reader/printer live here. *)
open Model

let rec pos_of_int n = if n = 1 then XH else if n land 1 = 0 then XO (pos_of_int (n lsr 1)) else XI (pos_of_int (n lsr 1))
let z_of_int n = if n = 0 then Z0 else if n > 0 then Zpos (pos_of_int n) else Zneg (pos_of_int (-n))
let rec int_of_pos = function XH -> 1 | XO p -> 2 * int_of_pos p | XI p -> 2 * int_of_pos p + 1
let int_of_z = function Z0 -> 0 | Zpos p -> int_of_pos p | Zneg p -> - (int_of_pos p)

let parse (s : string) : sx =
  let n = String.length s in
  let pos = ref 0 in
  let rec skip () = if !pos < n && (s.[!pos] = ' ' || s.[!pos] = '\t' || s.[!pos] = '\r') then (incr pos; skip ()) in
  let rec item () : sx =
    skip ();
    if !pos >= n then failwith "eof"
    else if s.[!pos] = '(' then begin
      incr pos;
      let acc = ref [] in
      let rec loop () =
        skip ();
        if !pos >= n then failwith "unclosed"
        else if s.[!pos] = ')' then incr pos
        else (acc := item () :: !acc; loop ()) in
      loop ();
      L (List.rev !acc)
    end else begin
      let st = !pos in
      while !pos < n && s.[!pos] <> ' ' && s.[!pos] <> ')' && s.[!pos] <> '(' do incr pos done;
      A (z_of_int (int_of_string (String.sub s st (!pos - st))))
    end in
  item ()

let rec print buf (x : sx) =
  match x with
  | A z -> Buffer.add_string buf (string_of_int (int_of_z z))
  | L l ->
      Buffer.add_char buf '(';
      List.iteri (fun i y -> if i > 0 then Buffer.add_char buf ' '; print buf y) l;
      Buffer.add_char buf ')'

let () =
  let buf = Buffer.create 65536 in
  (try
     while true do
       let line = input_line stdin in
       if String.length line > 0 then begin
         Buffer.clear buf;
         (try print buf (run (parse line)) with Stack_overflow -> Buffer.add_string buf "-998");
         Buffer.add_char buf '\n';
         print_string (Buffer.contents buf)
       end
     done
   with End_of_file -> ());
  flush stdout
