(* TySub.v — facts about the model's subclasscheck (C13): agreement with the documented meaning [denot],
   reflexivity, issubclass on classes, covariance on generics, transitivity on the down-closed fragment. *)
From Coq Require Import ZArith List Bool Arith Lia.
Import ListNotations.
From OvldV Require Import Model.Order Model.Ty Model.TyDom Spec.Denot Proofs.TyEq Proofs.TyMono.

Lemma oexists_spec {X} (f : X -> option bool) (g : X -> bool) l b :
  (forall x r, f x = Some r -> r = g x) -> oexists f l = Some b -> b = existsb g l.
Proof.
  intros H. induction l as [|x xs IH]; simpl; [congruence|].
  destruct (f x) as [[|]|] eqn:E; try discriminate; rewrite <- (H _ _ E); simpl; auto. congruence.
Qed.

Lemma oforall_spec {X} (f : X -> option bool) (g : X -> bool) l b :
  (forall x r, f x = Some r -> r = g x) -> oforall f l = Some b -> b = forallb g l.
Proof.
  intros H. induction l as [|x xs IH]; simpl; [congruence|].
  destruct (f x) as [[|]|] eqn:E; try discriminate; rewrite <- (H _ _ E); simpl; auto. congruence.
Qed.

Section Hier.
  Variable sub : nat -> nat -> bool.
  Variable hasm : nat -> nat -> bool.
  Variable chk : nat -> nat -> bool.
  Variable sub_fresh : nat -> bool.

  Notation subck := (subck sub hasm chk sub_fresh).
  Notation subck_body := (subck_body sub hasm chk sub_fresh).
  Notation denot := (denot sub hasm chk).

  Lemma subck_S n : subck (S n) = subck_body (subck n).
  Proof. reflexivity. Qed.

  Theorem subck_refl n t : subck (S n) t t = Some true.
  Proof. rewrite subck_S. unfold subck_body. now rewrite ty_eqb_refl. Qed.

  Hypothesis sub_refl : forall c, sub c c = true.

  (* applicable <-> documented meaning, for types of any nesting depth *)
  Theorem subck_denot : forall n T c b, subck n (Cls c) T = Some b -> b = denot T c.
  Proof.
    induction n as [|n IH]; intros T c b H; [discriminate|].
    rewrite subck_S in H. unfold subck_body in H.
    destruct (ty_eqb (Cls c) T) eqn:Eeq.
    { apply ty_eqb_eq in Eeq. subst T. injection H as <-. simpl. now rewrite sub_refl. }
    destruct T; cbn [supck is_dep omap] in H.
    - injection H as <-. reflexivity.
    - cbn [issub_cls] in H. destruct (sub c o) eqn:Es; cbn [denot]; rewrite Es; [|now injection H as <-].
      destruct args; cbn [length Nat.eqb oforall2 is_nil andb] in *; now injection H as <-.
    - destruct (oexists _ ts) as [r|] eqn:E; [|discriminate]. cbn [omap] in H. injection H as <-.
      eapply oexists_spec; [|exact E]. intros x r0. apply IH.
    - destruct (oforall _ ts) as [r|] eqn:E; [|discriminate]. cbn [omap] in H. injection H as <-.
      eapply oforall_spec; [|exact E]. intros x r0. apply IH.
    - injection H as <-. reflexivity.
    - injection H as <-. reflexivity.
    - injection H as <-. reflexivity.
    - injection H as <-. reflexivity.
    - destruct (subck n (Cls c) T) as [r|] eqn:E; [|discriminate]. cbn [omap] in H. injection H as <-. cbn [denot]. now apply IH.
    - destruct (subck n (Cls c) T) as [r|] eqn:E; [|discriminate]. cbn [omap] in H. injection H as <-. cbn [denot]. now apply IH.
    - destruct (subck n (Cls c) T) as [r|] eqn:E; [|discriminate]. cbn [omap] in H. injection H as <-. cbn [denot]. now apply IH.
    - destruct (subck n (Cls c) T) as [r|] eqn:E; [|discriminate]. cbn [omap] in H. injection H as <-. cbn [denot]. now apply IH.
  Qed.

  (* on plain classes the test is issubclass *)
  Theorem subck_classes n c d : subck (S n) (Cls c) (Cls d) = Some (sub c d).
  Proof.
    rewrite subck_S. unfold subck_body. cbn [ty_eqb supck issub_cls].
    destruct (Nat.eqb c d) eqn:E; [apply Nat.eqb_eq in E; subst; now rewrite sub_refl | reflexivity].
  Qed.

  (* parametrised generics: origin by subclassing, arguments covariantly *)
  Theorem subck_generic n o1 a1 o2 a2 :
    ty_eqb (Gen o1 a1) (Gen o2 a2) = false ->
    subck (S n) (Gen o1 a1) (Gen o2 a2) =
      if sub o1 o2 then (if Nat.eqb (length a1) (length a2) then oforall2 (subck n) a1 a2 else Some false)
      else Some false.
  Proof.
    intros He. rewrite subck_S. unfold subck_body. rewrite He. cbn [supck issub_cls].
    destruct (sub o1 o2); reflexivity.
  Qed.

  (* an alias is under its origin's superclasses *)
  Theorem subck_alias_class n o a d : subck (S n) (Gen o a) (Cls d) = Some (sub o d).
  Proof. rewrite subck_S. unfold subck_body. reflexivity. Qed.

  (* transitivity for class operands on the left and in the middle, right operand down-closed *)
  Hypothesis sub_trans : forall a b c, sub a b = true -> sub b c = true -> sub a c = true.
  Hypothesis sub_antisym : forall c d, sub c d = true -> sub d c = true -> c = d.
  Hypothesis hasm_inherit : forall c d m, sub c d = true -> hasm d m = true -> hasm c m = true.

  Lemma denot_down : forall T x m, down_closed T = true -> sub x m = true -> denot T m = true -> denot T x = true.
  Proof.
    induction T as [d|o a IH|a IH|a IH|i d|i d|i k|i p|vs b IHb|f ps b IHb|f a b IH IHb|a b IH IHb] using ty_ind';
      intros x m Hd Hs Hm; simpl in *; try discriminate; eauto.
    - apply andb_true_iff in Hm. destruct Hm as [H1 H2]. rewrite H2, (sub_trans _ _ _ Hs H1). reflexivity.
    - apply existsb_exists in Hm. destruct Hm as (t & Hin & Ht). apply existsb_exists. exists t. split; auto.
      rewrite Forall_forall in IH. rewrite forallb_forall in Hd. eapply IH; eauto.
    - rewrite forallb_forall in *. intros t Hin. rewrite Forall_forall in IH. eapply IH; eauto.
    - apply andb_true_iff in Hm. destruct Hm as [H1 H2]. rewrite (sub_trans _ _ _ Hs H1). simpl.
      apply negb_true_iff. apply Nat.eqb_neq. intros ->.
      apply negb_true_iff in H2. apply Nat.eqb_neq in H2. apply H2. apply sub_antisym; auto.
  Qed.

  Theorem subck_trans_classes n1 n2 n3 x m T b :
    down_closed T = true ->
    subck n1 (Cls x) (Cls m) = Some true -> subck n2 (Cls m) T = Some true ->
    subck n3 (Cls x) T = Some b -> b = true.
  Proof.
    intros Hd H1 H2 H3.
    apply subck_denot in H1. apply subck_denot in H2. apply subck_denot in H3. simpl in H1.
    rewrite H3. eapply denot_down; [exact Hd | symmetry; exact H1 | symmetry; exact H2].
  Qed.
End Hier.
