(* GraphNoop.v -- operations of the derivation-graph model that change no method set rebuild nothing. *)
From Coq Require Import ZArith List Bool Arith.
Import ListNotations.
From OvldV Require Import Model.Graph.

Lemma use_of_built_is_noop : forall g n x,
  g_get g n = Some x -> n_compiled x = true -> step g (OUse n) = (g, Done).
Proof. intros g n x H C. cbn [step]. unfold do_use. now rewrite H, C. Qed.

Lemma empty_add_mixins_is_noop : forall g n ms,
  (forall m, In m ms -> m = n) -> fst (step g (OAddMixins n ms)) = g.
Proof.
  intros g n ms H. cbn [step]. unfold do_add_mixins.
  destruct (g_get g n) as [x|]; [|reflexivity].
  destruct (negb (valid_ids g ms)); [reflexivity|].
  destruct (n_locked x); [reflexivity|].
  assert (E : filter (fun m => negb (Nat.eqb m n)) ms = []).
  { induction ms as [|m r IH]; [reflexivity|]. cbn [filter].
    rewrite (H m (or_introl eq_refl)), Nat.eqb_refl. cbn [negb]. apply IH. intros k Hk. apply H. now right. }
  now rewrite E.
Qed.

Example noop_premises_inhabited :
  let g := fst (step (fst (step [] (OCreate [] false))) (OUse 0)) in
  (exists x, g_get g 0 = Some x /\ n_compiled x = true) /\ fst (step g (OAddMixins 0 [0; 0])) = g.
Proof. vm_compute. split; [eexists; split; reflexivity | reflexivity]. Qed.
