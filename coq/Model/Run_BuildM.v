(* Run_BuildM.v -- executable entry points of the Build component (C18, C19).
   A scenario is (meths defs0 setup): meths = ((kind recoded body ((key rank) ...)) ...) indexed by label,
   kind 0 ok / 1 makes argument analysis fail / 2 fails in adapt_function; body 0 returns / 1 delegates to call_next;
   defs0 = labels registered before first use; setup = operations run sequentially to completion first.
   Operations: (0 k) call with key k, (1 l) register l, (2 l) unregister l.
   Outcomes: -1 = did not finish; ((trace...) r) with r 0 returned / 1 configuration error / 2 no method / 3 ambiguous / 4 internal KeyError. *)
(* OPCODE 60 run_inject *)
(* OPCODE 61 run_sched *)
(* OPCODE 62 run_reach *)
From Coq Require Import ZArith List Bool Arith.
Import ListNotations.
From OvldV Require Import Model.Sx Model.BuildM.

Definition kind_of (s : sx) : dkind := match sx_nat s with 0 => DOk | 1 => DBadAnalysis | _ => DBadAdapt end.
Definition body_of (s : sx) : body := match sx_nat s with 0 => BRet | _ => BNext end.

Record mrow := { r_info : minfo; r_ranks : list (key * nat) }.
Definition mrow_of (s : sx) : mrow :=
  {| r_info := {| m_kind := kind_of (sx_nth 0 s); m_recoded := sx_bool (sx_nth 1 s); m_body := body_of (sx_nth 2 s) |};
     r_ranks := map (fun p => (sx_nat (sx_nth 0 p), sx_nat (sx_nth 1 p))) (sx_list (sx_nth 3 s)) |}.
Definition default_row : mrow := {| r_info := {| m_kind := DOk; m_recoded := false; m_body := BRet |}; r_ranks := [] |}.

Definition meth_tab (rows : list mrow) (l : label) : minfo := r_info (nth l rows default_row).
Definition rk_tab (rows : list mrow) (l : label) (k : key) : option nat := alookup Nat.eqb k (r_ranks (nth l rows default_row)).
Definition chain_tab (rows : list mrow) := chain_rk (rk_tab rows).

Definition op_of (s : sx) : op :=
  match sx_nat (sx_nth 0 s) with
  | 0 => OCall (sx_nat (sx_nth 1 s))
  | 1 => OReg (sx_nat (sx_nth 1 s))
  | _ => OUnreg (sx_nat (sx_nth 1 s))
  end.

Definition of_result (r : result) : sx :=
  A (match r with RRet => 0 | RErr EConfig => 1 | RErr ENoMethod => 2 | RErr EAmbig => 3 | RErr EInternal => 4 end)%Z.
Definition of_outcome (o : option (list label * result)) : sx :=
  match o with None => A (-1)%Z | Some (tr, r) => L [of_nats tr; of_result r] end.

Definition of_cl (cl : option (label * nat)) : sx := match cl with None => of_nat 0 | Some (h, _) => of_nat (S h) end.
Definition of_pc (p : pc) : sx :=
  match p with
  | PStart _ => L [of_nat 0; of_nat 0]
  | PUpdate => L [of_nat 1; of_nat 0]
  | PComp CPrep _ => L [of_nat 10; of_nat 0]
  | PComp CNewMap _ => L [of_nat 11; of_nat 0]
  | PComp CAnalyze _ => L [of_nat 12; of_nat 0]
  | PComp CSwap _ => L [of_nat 13; of_nat 0]
  | PComp CSnap _ => L [of_nat 14; of_nat 0]
  | PComp (CAdapt l _) _ => L [of_nat 15; of_nat l]
  | PComp (CReg l _ _) _ => L [of_nat 16; of_nat l]
  | PComp CFlag _ => L [of_nat 17; of_nat 0]
  | PDispatch _ => L [of_nat 20; of_nat 0]
  | PMro _ _ cl => L [of_nat 21; of_cl cl]
  | PWrite _ _ cl st ws => L [of_nat 22; of_nat (length ws); of_bool st; of_cl cl]
  | PAfter _ _ cl => L [of_nat 23; of_cl cl]
  | PRun h _ _ => L [of_nat 24; of_nat h]
  | PNext h _ _ => L [of_nat 25; of_nat h]
  | PN1 _ h _ _ => L [of_nat 26; of_nat h]
  | PN2 _ h _ _ => L [of_nat 27; of_nat h]
  | PDone _ => L [of_nat 30; of_nat 0]
  end.

Definition is_done (l : local) : bool := match l_pc l with PDone _ => true | _ => false end.

Section Scn.
  Variable rows : list mrow.
  Let ch := chain_tab rows.
  Let mt := meth_tab rows.
  Definition FUEL := 400.

  Definition scn_state (defs0 : list label) (setup : list op) : shared := fst (run_ops ch mt FUEL (init defs0) setup).

  (* opcode 60: failure injected after every prefix of the trigger's steps.
     (60 meths defs0 setup trigger afterops) ->
       ( (pc flags (outcome of each after-op...)) for n = 0 .. steps(trigger) ;  last row = trigger completed ) *)
  Fixpoint inject_rows (n : nat) (s : shared) (l : local) (afterops : list op) : list sx :=
    let row := L [ of_pc (l_pc l);
                   L [of_bool (before_newmap l); of_bool (before_swap l); of_bool (in_fill_window l); of_bool (in_write_window l)];
                   L (map of_outcome (snd (run_ops ch mt FUEL s afterops)));
                   of_outcome (result_of l) ] in
    match n with
    | 0 => [row]
    | S m => if is_done l then [row] else let '(s', l') := tstep ch mt s l in row :: inject_rows m s' l' afterops
    end.
End Scn.

Definition run_inject (s : sx) : sx :=
  let rows := map mrow_of (sx_list (sx_arg 0 s)) in
  let defs0 := map sx_nat (sx_list (sx_arg 1 s)) in
  let setup := map op_of (sx_list (sx_arg 2 s)) in
  let trig := op_of (sx_arg 3 s) in
  let afterops := map op_of (sx_list (sx_arg 4 s)) in
  L (inject_rows rows FUEL (scn_state rows defs0 setup) (start trig) afterops).

(* opcode 61: (61 meths defs0 setup (threadop...) (schedule...) afterops) ->
     ((outcome per thread ...) (outcome per after-op ...) (pc of each thread when the schedule ended ...))
   threads the schedule left unfinished are then run to completion in index order. *)
Fixpoint finish_all (ch : list label -> key -> list rank) (mt : label -> minfo) (i n : nat) (s : shared) (p : list local) : shared * list local :=
  match n with
  | 0 => (s, p)
  | S m => match nth_error p i with
           | None => (s, p)
           | Some l => let '(s', l') := run_alone ch mt FUEL s l in finish_all ch mt (S i) m s' (set_nth i l' p)
           end
  end.

(* schedule elements: tid = one step of that thread; (tid kind n) = that thread runs until it has executed n more steps of
   the given kind or has finished: kind 0 any step, 1 the call itself (entry point read), 2 never (= run to the end),
   5 _defns update, 11 new table, 13 swap, 15 ___MAP re-pointed, 16 register, 17 flag, 21 candidate codes (mro), 22 one write *)
Definition step_kind (mt : label -> minfo) (l : local) : nat :=
  match l_pc l with
  | PStart (OCall _) => 1
  | PStart _ => 5
  | PComp CNewMap _ => 11
  | PComp CSwap _ => 13
  | PComp (CAdapt d _) _ => if negb (is_bad_adapt mt d) && m_recoded (mt d) then 15 else 0
  | PComp (CReg _ _ _) _ => 16
  | PComp CFlag _ => 17
  | PMro _ _ _ => 21
  | PWrite _ _ _ _ (_ :: _) => 22
  | _ => 0
  end.

Fixpoint run_seg (ch : list label -> key -> list rank) (mt : label -> minfo) (fuel : nat) (s : shared) (p : list local)
                 (tid kind n : nat) : shared * list local :=
  match fuel with
  | 0 => (s, p)
  | S f =>
      match n, nth_error p tid with
      | 0, _ => (s, p)
      | _, None => (s, p)
      | S m, Some l =>
          if is_done l then (s, p)
          else let k := step_kind mt l in
               let '(s', p') := sched_step ch mt s p tid in
               run_seg ch mt f s' p' tid kind (if Nat.eqb kind 0 || (Nat.eqb k kind && negb (Nat.eqb k 0)) then m else S m)
      end
  end.

Fixpoint run_segments (ch : list label -> key -> list rank) (mt : label -> minfo) (s : shared) (p : list local) (sch : list sx) : shared * list local :=
  match sch with
  | [] => (s, p)
  | A z :: r => let '(s', p') := sched_step ch mt s p (Z.to_nat z) in run_segments ch mt s' p' r
  | L l :: r => let '(s', p') := run_seg ch mt FUEL s p (sx_nat (nth 0 l (A 0%Z))) (sx_nat (nth 1 l (A 0%Z))) (sx_nat (nth 2 l (A 0%Z))) in
                run_segments ch mt s' p' r
  end.

Definition run_sched (s : sx) : sx :=
  let rows := map mrow_of (sx_list (sx_arg 0 s)) in
  let defs0 := map sx_nat (sx_list (sx_arg 1 s)) in
  let setup := map op_of (sx_list (sx_arg 2 s)) in
  let tops := map op_of (sx_list (sx_arg 3 s)) in
  let sch := sx_list (sx_arg 4 s) in
  let afterops := map op_of (sx_list (sx_arg 5 s)) in
  let ch := chain_tab rows in let mt := meth_tab rows in
  let s0 := scn_state rows defs0 setup in
  let '(s1, p1) := run_segments ch mt s0 (map start tops) sch in
  let '(s2, p2) := finish_all ch mt 0 (length p1) s1 p1 in
  L [ L (map (fun l => of_outcome (result_of l)) p2);
      L (map of_outcome (snd (run_ops ch mt FUEL s2 afterops)));
      L (map (fun l => of_pc (l_pc l)) p1) ].

(* opcode 62: (62 meths defs0 setup (threadop...) bound afterops) -> every (thread outcomes, after-op outcomes) reachable with
   at most [bound] pre-emptions (a switch away from a thread that has not finished); switches at thread end are free. *)
Section Reach.
  Variable ch : list label -> key -> list rank.
  Variable mt : label -> minfo.
  Variable afterops : list op.

  Definition leaf (s : shared) (p : list local) : sx :=
    L [ L (map (fun l => of_outcome (result_of l)) p); L (map of_outcome (snd (run_ops ch mt FUEL s afterops))) ].

  Definition unfinished (p : list local) : list nat :=
    map fst (filter (fun x => negb (is_done (snd x))) (combine (seq 0 (length p)) p)).

  Fixpoint reach (fuel : nat) (s : shared) (p : list local) (cur : nat) (pre : nat) : list sx :=
    match fuel with
    | 0 => []
    | S f =>
        match unfinished p with
        | [] => [leaf s p]
        | us =>
            let cur_live := existsb (Nat.eqb cur) us in
            flat_map (fun j =>
                        if Nat.eqb j cur then let '(s', p') := sched_step ch mt s p j in reach f s' p' j pre
                        else if cur_live
                             then match pre with
                                  | 0 => []
                                  | S q => let '(s', p') := sched_step ch mt s p j in reach f s' p' j q
                                  end
                             else let '(s', p') := sched_step ch mt s p j in reach f s' p' j pre) us
        end
    end.
End Reach.

Definition run_reach (s : sx) : sx :=
  let rows := map mrow_of (sx_list (sx_arg 0 s)) in
  let defs0 := map sx_nat (sx_list (sx_arg 1 s)) in
  let setup := map op_of (sx_list (sx_arg 2 s)) in
  let tops := map op_of (sx_list (sx_arg 3 s)) in
  let bound := sx_nat (sx_arg 4 s) in
  let afterops := map op_of (sx_list (sx_arg 5 s)) in
  let ch := chain_tab rows in let mt := meth_tab rows in
  let s0 := scn_state rows defs0 setup in
  let p0 := map start tops in
  L (flat_map (fun i => reach ch mt afterops 2000 s0 p0 i bound) (seq 0 (length p0))).
