(* ResolveKahn.v — facts about the Kahn layering that models mro.sort_types / graphlib.TopologicalSorter:
   every node lands in exactly one round, and a node's predecessors all land in strictly earlier rounds. *)
From Coq Require Import ZArith List Bool Arith Lia Permutation.
Import ListNotations.
From OvldV Require Import Model.Order Model.Ty Model.Resolve.

Lemma memb_In x l : memb x l = true <-> In x l.
Proof.
  unfold memb. rewrite existsb_exists. split.
  - intros (y & Hy & E). apply Nat.eqb_eq in E. now subst.
  - intros H. exists x. split; [exact H|apply Nat.eqb_refl].
Qed.

Lemma preds_In es p j : In p (preds es j) <-> In (p, j) es.
Proof.
  unfold preds. rewrite in_map_iff. split.
  - intros ([a b] & <- & H). apply filter_In in H. destruct H as [H E]. simpl in *. apply Nat.eqb_eq in E. now subst.
  - intros H. exists (p, j). split; [reflexivity|]. apply filter_In. split; [exact H|apply Nat.eqb_refl].
Qed.

Definition ready_of (es : list (nat * nat)) (rem done : list nat) : list nat :=
  filter (fun n => forallb (fun p => memb p done) (preds es n)) rem.

Lemma kahn_S f es a r done :
  kahn (S f) es (a :: r) done =
    let ready := ready_of es (a :: r) done in
    match ready with
    | [] => None
    | _ :: _ =>
        match kahn f es (filter (fun n => negb (memb n ready)) (a :: r)) (done ++ ready) with
        | None => None
        | Some rs => Some (ready :: rs)
        end
    end.
Proof. reflexivity. Qed.

Lemma kahn_nil fuel es done : kahn fuel es [] done = Some [].
Proof. destruct fuel; reflexivity. Qed.

(* every remaining node appears in some round, and only remaining nodes do *)
Lemma kahn_cover : forall fuel es rem done rounds,
  kahn fuel es rem done = Some rounds -> forall n, In n (concat rounds) <-> In n rem.
Proof.
  induction fuel as [|f IH]; intros es rem done rounds H n.
  - destruct rem; [|discriminate]. injection H as <-. simpl. tauto.
  - destruct rem as [|a r]; [rewrite kahn_nil in H; injection H as <-; simpl; tauto|].
    rewrite kahn_S in H. cbv zeta in H.
    destruct (ready_of es (a :: r) done) as [|x rd] eqn:Er; [discriminate|].
    destruct (kahn f es (filter (fun n0 => negb (memb n0 (x :: rd))) (a :: r)) (done ++ x :: rd)) as [rs|] eqn:Ek; [|discriminate].
    injection H as <-. rewrite concat_cons, in_app_iff, (IH _ _ _ _ Ek n), filter_In.
    split.
    + intros [Hin|[Hin _]]; [|exact Hin].
      rewrite <- Er in Hin. apply filter_In in Hin. tauto.
    + intros Hin. destruct (memb n (x :: rd)) eqn:Em.
      * left. now apply memb_In.
      * right. split; [exact Hin|reflexivity].
Qed.

Lemma NoDup_filter {X} (f : X -> bool) l : NoDup l -> NoDup (filter f l).
Proof.
  induction 1 as [|a r Hn Hd IH]; simpl; [constructor|].
  destruct (f a); [constructor; [rewrite filter_In; tauto|exact IH]|exact IH].
Qed.

Lemma NoDup_app_disj {X} (l1 l2 : list X) :
  NoDup l1 -> NoDup l2 -> (forall x, In x l1 -> In x l2 -> False) -> NoDup (l1 ++ l2).
Proof.
  induction 1 as [|a r Hn Hd IH]; simpl; intros H2 Hdisj; [exact H2|].
  constructor.
  - rewrite in_app_iff. intros [H|H]; [contradiction|]. eapply Hdisj; [now left|exact H].
  - apply IH; auto. intros x H1 H3. eapply Hdisj; [right; exact H1|exact H3].
Qed.

Lemma NoDup_app_inv {X} (l1 l2 : list X) :
  NoDup (l1 ++ l2) -> NoDup l1 /\ NoDup l2 /\ (forall x, In x l1 -> In x l2 -> False).
Proof.
  induction l1 as [|a r IH]; simpl; intros H.
  - repeat split; [constructor|exact H|intros x []].
  - inversion H as [|? ? Hn Hd]; subst. destruct (IH Hd) as (H1 & H2 & H3).
    repeat split; [constructor; [intros Hin; apply Hn; apply in_app_iff; now left|exact H1] | exact H2 |].
    intros x [<-|Hx] Hx2; [apply Hn; apply in_app_iff; now right | eapply H3; eauto].
Qed.

Lemma kahn_nodup : forall fuel es rem done rounds,
  kahn fuel es rem done = Some rounds -> NoDup rem -> NoDup (concat rounds).
Proof.
  induction fuel as [|f IH]; intros es rem done rounds H Hnd.
  - destruct rem; [|discriminate]. injection H as <-. constructor.
  - destruct rem as [|a r]; [rewrite kahn_nil in H; injection H as <-; constructor|].
    rewrite kahn_S in H. cbv zeta in H.
    destruct (ready_of es (a :: r) done) as [|x rd] eqn:Er; [discriminate|].
    destruct (kahn f es (filter (fun n0 => negb (memb n0 (x :: rd))) (a :: r)) (done ++ x :: rd)) as [rs|] eqn:Ek; [|discriminate].
    injection H as <-. rewrite concat_cons.
    assert (Hrd : NoDup (x :: rd)) by (rewrite <- Er; unfold ready_of; now apply NoDup_filter).
    pose proof (IH _ _ _ _ Ek (NoDup_filter _ _ Hnd)) as Hrs.
    apply NoDup_app_disj; auto.
    intros n Hn1 Hn2. apply (kahn_cover _ _ _ _ _ Ek) in Hn2. apply filter_In in Hn2. destruct Hn2 as [_ Hn2].
    apply negb_true_iff in Hn2. apply memb_In in Hn1. congruence.
Qed.

(* predecessors are done or sit in strictly earlier rounds *)
Lemma kahn_order : forall fuel es rem done rounds,
  kahn fuel es rem done = Some rounds ->
  forall r grp n p, nth_error rounds r = Some grp -> In n grp -> In p (preds es n) ->
    In p done \/ exists r' grp', r' < r /\ nth_error rounds r' = Some grp' /\ In p grp'.
Proof.
  induction fuel as [|f IH]; intros es rem done rounds H r grp n p Hr Hn Hp.
  - destruct rem; [|discriminate]. injection H as <-. destruct r; discriminate.
  - destruct rem as [|a rm]; [rewrite kahn_nil in H; injection H as <-; destruct r; discriminate|].
    rewrite kahn_S in H. cbv zeta in H.
    destruct (ready_of es (a :: rm) done) as [|x rd] eqn:Er; [discriminate|].
    destruct (kahn f es (filter (fun n0 => negb (memb n0 (x :: rd))) (a :: rm)) (done ++ x :: rd)) as [rs|] eqn:Ek; [|discriminate].
    injection H as <-.
    destruct r as [|r0]; simpl in Hr.
    + injection Hr as <-. left.
      rewrite <- Er in Hn. apply filter_In in Hn. destruct Hn as [_ Hf].
      rewrite forallb_forall in Hf. apply memb_In. now apply Hf.
    + destruct (IH _ _ _ _ Ek _ _ _ _ Hr Hn Hp) as [Hd|(r' & grp' & Hlt & Hnth & Hin)].
      * apply in_app_iff in Hd. destruct Hd as [Hd|Hd]; [now left|].
        right. exists 0, (x :: rd). repeat split; [lia|exact Hd].
      * right. exists (S r'), grp'. repeat split; [lia|exact Hnth|exact Hin].
Qed.

Lemma nodup_concat_unique {X} (l : list (list X)) i j a b x :
  NoDup (concat l) -> nth_error l i = Some a -> nth_error l j = Some b -> In x a -> In x b -> i = j.
Proof.
  revert i j. induction l as [|g r IH]; intros i j Hnd Hi Hj Ha Hb; [destruct i; discriminate|].
  simpl in Hnd. destruct (NoDup_app_inv _ _ Hnd) as (_ & Hr & Hdisj).
  destruct i as [|i]; destruct j as [|j]; simpl in *; auto.
  - injection Hi as ->. exfalso.
    assert (In x (concat r)) by (apply in_concat; exists b; split; [eapply nth_error_In; eauto|auto]).
    eapply Hdisj; eauto.
  - injection Hj as ->. exfalso.
    assert (In x (concat r)) by (apply in_concat; exists a; split; [eapply nth_error_In; eauto|auto]).
    eapply Hdisj; eauto.
Qed.
