(* EntryBind.v — binding a call shape to the generated parameter list (normal form), the environment it yields,
   and the interpretation of the generated body in that environment. *)
From Coq Require Import ZArith List Bool Arith Lia.
Import ListNotations.
From OvldV Require Import Model.Entry Spec.EntrySpec Proofs.EntryLists Proofs.EntryAn Proofs.EntryNf.

Lemma kw_find_caller : forall K n,
  kw_find n (caller_kws K) = if memb Nat.eqb n K then Some (SKw n) else None.
Proof.
  induction K as [|m K IH]; intro n; simpl; auto.
  destruct (Nat.eqb n m) eqn:E; simpl.
  - apply Nat.eqb_eq in E. subst. reflexivity.
  - apply IH.
Qed.

(* ---------- values of the parameters ---------- *)
Definition nf_posval (f : nform) (k : nat) (K : list nat) (p : nat) : option src :=
  if p <? k then Some (SPos p)
  else match nf_pid f p with
       | IUser n => if ep_by_kw (nf_posep f p) then kw_find n (caller_kws K) else None
       | _ => None
       end.
Definition nf_kwval (K : list nat) (n : nat) : option src := kw_find n (caller_kws K).

Lemma posep_positional : forall f p, ep_positional (nf_posep f p) = true.
Proof.
  intros f p. unfold ep_positional, nf_posep, nf_poskind. simpl.
  destruct (nf_slash2 f); [reflexivity|]. destruct (p <? nf_sl f); reflexivity.
Qed.

Lemma bind_vals_pos : forall f k K rest len a,
  bind_vals (map (nf_posep f) (seq a len) ++ rest) (map SPos (seq a (k - a))) (caller_kws K)
  = map (nf_posval f k K) (seq a len)
    ++ bind_vals rest (map SPos (seq (a + len) (k - (a + len)))) (caller_kws K).
Proof.
  intros f k K rest. induction len as [|len IH]; intro a.
  - simpl. rewrite Nat.add_0_r. reflexivity.
  - cbn [seq map app bind_vals]. rewrite posep_positional.
    destruct (Nat.lt_ge_cases a k) as [Hlt|Hge].
    + replace (k - a) with (S (k - S a)) by lia. cbn [seq map].
      rewrite IH.
      assert (Ev : nf_posval f k K a = Some (SPos a)).
      { unfold nf_posval. replace (a <? k) with true by (symmetry; apply Nat.ltb_lt; lia). reflexivity. }
      rewrite Ev. replace (S a + len) with (a + S len) by lia. reflexivity.
    + replace (k - a) with 0 by lia. cbn [seq map].
      replace (@nil src) with (map SPos (seq (S a) (k - S a))) at 1 by (replace (k - S a) with 0 by lia; reflexivity).
      rewrite IH.
      assert (Ev : nf_posval f k K a = match nf_pid f a with
                                       | IUser n => if ep_by_kw (nf_posep f a) then kw_find n (caller_kws K) else None
                                       | _ => None end).
      { unfold nf_posval. replace (a <? k) with false by (symmetry; apply Nat.ltb_ge; lia). reflexivity. }
      rewrite Ev. replace (S a + len) with (a + S len) by lia. cbn [ep_id nf_posep]. reflexivity.
Qed.

Lemma bind_vals_kw : forall (l : list nat) (d : bool) pos kws rest,
  bind_vals (map (fun n => mkEP KwOnly (IUser n) d) l ++ rest) pos kws
  = map (fun n => @kw_find src n kws) l ++ bind_vals rest pos kws.
Proof.
  induction l as [|n l IH]; intros d pos kws rest; simpl; auto.
  unfold ep_positional. simpl. rewrite IH. reflexivity.
Qed.

Definition nf_selfv (f : nform) : list (option src) := if nf_self f then [Some SSelf] else [].

Definition nf_vals (f : nform) (k : nat) (K : list nat) : list (option src) :=
  nf_selfv f ++ map (nf_posval f k K) (seq 0 (nf_n f)) ++ map (nf_kwval K) (nf_kr f ++ nf_ko f).

Lemma bind_vals_nf : forall f k K,
  bind_vals (nf_eparams f) (caller_pos (nf_self f) k) (caller_kws K) = nf_vals f k K.
Proof.
  intros f k K. unfold nf_eparams, nf_vals, caller_pos, nf_selfe, nf_selfv.
  assert (E : bind_vals (nf_pose f ++ nf_kwe f) (map SPos (seq 0 k)) (caller_kws K)
              = map (nf_posval f k K) (seq 0 (nf_n f)) ++ map (nf_kwval K) (nf_kr f ++ nf_ko f)).
  { unfold nf_pose. replace (seq 0 k) with (seq 0 (k - 0)) by (f_equal; lia).
    rewrite bind_vals_pos. f_equal. unfold nf_kwe. rewrite bind_vals_kw.
    rewrite <- (app_nil_r (map (fun n => mkEP KwOnly (IUser n) true) (nf_ko f))), bind_vals_kw.
    simpl. rewrite app_nil_r, map_app. reflexivity. }
  destruct (nf_self f); simpl.
  - unfold nf_selfkind. destruct (nf_slash1 f || nf_slash2 f); simpl; rewrite E; reflexivity.
  - exact E.
Qed.

(* ---------- the environment ---------- *)
Definition unwrap (o : option src) : src := match o with Some s => s | None => SMissing end.

Lemma env_get_app : forall (i1 i2 : list ident) (v1 v2 : list (option src)) x,
  length i1 = length v1 -> ~ In x i1 ->
  env_get (combine (i1 ++ i2) (v1 ++ v2)) x = env_get (combine i2 v2) x.
Proof.
  induction i1 as [|y i1 IH]; intros i2 v1 v2 x Hl Hx.
  - destruct v1; [reflexivity|discriminate].
  - destruct v1 as [|v v1]; [discriminate|]. simpl.
    replace (ident_eqb x y) with false.
    + apply IH; [simpl in Hl; lia|]. intro H. apply Hx. right. exact H.
    + symmetry. apply ident_eqb_neq. intro E. apply Hx. left. auto.
Qed.

Lemma env_get_app_l : forall (i1 i2 : list ident) (v1 v2 : list (option src)) x,
  length i1 = length v1 -> In x i1 ->
  env_get (combine (i1 ++ i2) (v1 ++ v2)) x = env_get (combine i1 v1) x.
Proof.
  induction i1 as [|y i1 IH]; intros i2 v1 v2 x Hl Hx.
  - contradiction.
  - destruct v1 as [|v v1]; [discriminate|]. simpl.
    destruct (ident_eqb x y) eqn:E; auto.
    apply IH; [simpl in Hl; lia|]. destruct Hx as [Hx|Hx]; auto.
    apply ident_eqb_neq in E. congruence.
Qed.

Lemma env_get_map : forall {X} (g : X -> ident) (h : X -> option src) l x,
  In x l -> (forall y, In y l -> g y = g x -> y = x) ->
  env_get (combine (map g l) (map h l)) (g x) = unwrap (h x).
Proof.
  intros X g h. induction l as [|y l IH]; intros x Hx Hinj.
  - contradiction.
  - simpl. destruct (ident_eqb (g x) (g y)) eqn:E.
    + apply ident_eqb_eq in E. assert (y = x) by (apply Hinj; [left; reflexivity|auto]). subst. reflexivity.
    + destruct Hx as [->|Hx].
      * rewrite ident_eqb_refl in E. discriminate.
      * apply IH; auto. intros z Hz. apply Hinj. right. exact Hz.
Qed.

Definition nf_env (f : nform) (k : nat) (K : list nat) : env := combine (map ep_id (nf_eparams f)) (nf_vals f k K).

Lemma nf_env_pos : forall f k K p, nf_ok f -> p < nf_n f ->
  env_get (nf_env f k K) (nf_pid f p) = unwrap (nf_posval f k K p).
Proof.
  intros f k K p Hok Hp. unfold nf_env, nf_vals. rewrite nf_ids.
  rewrite env_get_app.
  - rewrite env_get_app_l.
    + apply env_get_map.
      * apply in_seq. lia.
      * intros y Hy E. apply in_seq in Hy. apply (pid_inj f); auto. lia.
    + rewrite !map_length. reflexivity.
    + apply in_map. apply in_seq. lia.
  - unfold nf_selfv. destruct (nf_self f); reflexivity.
  - destruct (nf_self f); simpl; [|tauto]. intros [H|[]]. unfold nf_pid in H. destruct (p <? nf_sl f); discriminate.
Qed.

Lemma nf_env_kw : forall f k K m, nf_ok f -> In m (nf_kr f ++ nf_ko f) ->
  env_get (nf_env f k K) (IUser m) = unwrap (nf_kwval K m).
Proof.
  intros f k K m Hok Hm. unfold nf_env, nf_vals. rewrite nf_ids.
  rewrite env_get_app.
  - rewrite env_get_app.
    + apply (env_get_map IUser (nf_kwval K)); auto. intros y _ E. injection E. auto.
    + rewrite !map_length. reflexivity.
    + intro H. apply in_map_iff in H. destruct H as [p [E Hp]]. apply in_seq in Hp.
      destruct (Nat.lt_ge_cases p (nf_sl f)) as [A|A].
      * rewrite pid_strict in E by auto. discriminate.
      * rewrite pid_named in E by auto. injection E as E. apply (ok_disj f Hok p); [lia|]. rewrite E. exact Hm.
  - unfold nf_selfv. destruct (nf_self f); reflexivity.
  - destruct (nf_self f); simpl; [|tauto]. intros [H|[]]. discriminate.
Qed.

Lemma nf_env_self : forall f k K, nf_self f = true -> env_get (nf_env f k K) ISelf = SSelf.
Proof.
  intros f k K H. unfold nf_env, nf_vals, nf_selfv. rewrite nf_ids, H. reflexivity.
Qed.

(* ---------- when does bind succeed ---------- *)
Definition bind_c1 (ps : list eparam) (pos : list src) : bool := length pos <=? length (filter ep_positional ps).
Definition bind_c3 (ps : list eparam) (kws : list (nat * src)) : bool := forallb (fun nv => kw_param (fst nv) ps) kws.
Definition bind_c4 (ps : list eparam) (pos : list src) (kws : list (nat * src)) : bool :=
  negb (existsb (fun nv => match pos_index_of (fst nv) 0 ps with Some i => i <? length pos | None => false end) kws).
Definition bind_c5 (ps : list eparam) (vals : list (option src)) : bool :=
  forallb (fun pv => ep_dflt (fst pv) || match snd pv with Some _ => true | None => false end) (combine ps vals).

Lemma bind_spec : forall ps pos kws vals,
  bind ps pos kws = Some vals <->
  bind_c1 ps pos = true /\ nodupb Nat.eqb (map fst kws) = true /\ bind_c3 ps kws = true /\ bind_c4 ps pos kws = true
  /\ bind_c5 ps (bind_vals ps pos kws) = true /\ vals = bind_vals ps pos kws.
Proof.
  intros ps pos kws vals. unfold bind, bind_c1, bind_c3, bind_c4, bind_c5.
  destruct (length pos <=? length (filter ep_positional ps)); simpl; [|split; [discriminate|intros [? _]; discriminate]].
  destruct (nodupb Nat.eqb (map fst kws)); simpl; [|split; [discriminate|intros [_ [? _]]; discriminate]].
  destruct (forallb (fun nv => kw_param (fst nv) ps) kws); simpl; [|split; [discriminate|intros [_ [_ [? _]]]; discriminate]].
  destruct (existsb _ kws); simpl; [split; [discriminate|intros [_ [_ [_ [? _]]]]; discriminate]|].
  destruct (forallb _ (combine ps (bind_vals ps pos kws))); simpl.
  - split.
    + intro H. injection H as <-. repeat split; reflexivity.
    + intros [_ [_ [_ [_ [_ ->]]]]]. reflexivity.
  - split; [discriminate|intros [_ [_ [_ [_ [? _]]]]]; discriminate].
Qed.

(* ---------- the conditions on the normal form ---------- *)
Lemma nf_npp : forall f, length (filter ep_positional (nf_eparams f)) = (if nf_self f then 1 else 0) + nf_n f.
Proof.
  intro f. unfold nf_eparams. rewrite !filter_app, !app_length.
  assert (E1 : length (filter ep_positional (nf_selfe f)) = if nf_self f then 1 else 0).
  { unfold nf_selfe, nf_selfkind. destruct (nf_self f); auto. simpl. unfold ep_positional. simpl.
    destruct (nf_slash1 f || nf_slash2 f); reflexivity. }
  assert (E2 : filter ep_positional (nf_pose f) = nf_pose f).
  { apply filter_all. intros x Hx. unfold nf_pose in Hx. apply in_map_iff in Hx. destruct Hx as [p [<- _]]. apply posep_positional. }
  assert (E3 : filter ep_positional (nf_kwe f) = []).
  { apply filter_none. intros x Hx. unfold nf_kwe in Hx. apply in_app_iff in Hx.
    destruct Hx as [Hx|Hx]; apply in_map_iff in Hx; destruct Hx as [m [<- _]]; reflexivity. }
  rewrite E1, E2, E3. unfold nf_pose. rewrite map_length, seq_length. simpl. lia.
Qed.

Lemma caller_pos_length : forall self k, length (caller_pos self k) = (if self then 1 else 0) + k.
Proof. intros self k. unfold caller_pos. rewrite app_length, map_length, seq_length. destruct self; reflexivity. Qed.

Lemma caller_kws_fst : forall K, map fst (caller_kws K) = K.
Proof. intro K. unfold caller_kws. rewrite map_map. simpl. apply map_id. Qed.

(* a keyword m names parameter p of the generated def, which accepts keywords *)
Definition nf_kwpos (f : nform) (m p : nat) : Prop :=
  nf_sl f <= p < nf_n f /\ nf_slash2 f = false /\ nf_nm f p = m.

Lemma posep_by_kw : forall f p, ep_by_kw (nf_posep f p) = negb (nf_slash2 f) && negb (p <? nf_sl f).
Proof.
  intros f p. unfold ep_by_kw, nf_posep, nf_poskind. simpl.
  destruct (nf_slash2 f); [reflexivity|]. destruct (p <? nf_sl f); reflexivity.
Qed.

Lemma posep_matches : forall f m p, p < nf_n f ->
  (ep_by_kw (nf_posep f p) && ident_eqb (ep_id (nf_posep f p)) (IUser m) = true <-> nf_kwpos f m p).
Proof.
  intros f m p Hp. rewrite posep_by_kw. unfold nf_kwpos. simpl. split.
  - intro H. apply andb_true_iff in H. destruct H as [H1 H2]. apply andb_true_iff in H1. destruct H1 as [Ha Hb].
    apply negb_true_iff in Ha, Hb. apply Nat.ltb_ge in Hb. rewrite pid_named in H2 by auto.
    apply ident_eqb_eq in H2. injection H2 as H2. repeat split; auto.
  - intros [[A B] [C D]]. rewrite C. simpl. replace (p <? nf_sl f) with false by (symmetry; apply Nat.ltb_ge; lia).
    simpl. rewrite pid_named by auto. rewrite D. apply ident_eqb_refl.
Qed.

Lemma kw_param_nf : forall f m,
  kw_param m (nf_eparams f) = true <-> (exists p, nf_kwpos f m p) \/ In m (nf_kr f ++ nf_ko f).
Proof.
  intros f m. unfold kw_param, nf_eparams. rewrite !existsb_app, !orb_true_iff. split.
  - intros [H|[H|H]].
    + unfold nf_selfe in H. destruct (nf_self f); simpl in H; [|discriminate].
      rewrite orb_false_r in H. apply andb_true_iff in H. destruct H as [_ H]. discriminate.
    + left. apply existsb_exists in H. destruct H as [x [Hx H]]. unfold nf_pose in Hx.
      apply in_map_iff in Hx. destruct Hx as [p [<- Hp]]. apply in_seq in Hp. exists p.
      apply posep_matches; auto. lia.
    + right. apply existsb_exists in H. destruct H as [x [Hx H]]. unfold nf_kwe in Hx.
      apply in_app_iff. apply in_app_iff in Hx.
      destruct Hx as [Hx|Hx]; apply in_map_iff in Hx; destruct Hx as [m' [<- Hm']]; simpl in H;
        apply Nat.eqb_eq in H; subst; auto.
  - intros [[p Hp]|H].
    + right. left. apply existsb_exists. exists (nf_posep f p). split.
      * unfold nf_pose. apply in_map. apply in_seq. destruct Hp as [[A B] _]. lia.
      * apply posep_matches; auto. destruct Hp as [[A B] _]. lia.
    + right. right. apply existsb_exists. apply in_app_iff in H. destruct H as [H|H].
      * exists (mkEP KwOnly (IUser m) false). split.
        -- unfold nf_kwe. apply in_app_iff. left. apply in_map_iff. exists m. auto.
        -- simpl. apply Nat.eqb_refl.
      * exists (mkEP KwOnly (IUser m) true). split.
        -- unfold nf_kwe. apply in_app_iff. right. apply in_map_iff. exists m. auto.
        -- simpl. apply Nat.eqb_refl.
Qed.

Lemma pos_index_pose : forall f m p rest len a i, nf_ok f -> nf_kwpos f m p -> a <= p < a + len -> a + len <= nf_n f ->
  pos_index_of m i (map (nf_posep f) (seq a len) ++ rest) = Some (i + (p - a)).
Proof.
  intros f m p rest len. induction len as [|len IH]; intros a i Hok Hk Hp Hn.
  - lia.
  - cbn [seq map app pos_index_of]. rewrite posep_positional.
    destruct (ep_by_kw (nf_posep f a) && ident_eqb (ep_id (nf_posep f a)) (IUser m)) eqn:E.
    + apply posep_matches in E; [|lia].
      assert (a = p).
      { destruct Hk as [[A B] [_ C]], E as [[A' B'] [_ C']]. apply (ok_inj f Hok); [lia|lia|congruence]. }
      subst. f_equal. lia.
    + assert (a <> p).
      { intro Ea. subst a. apply (posep_matches f m p) in Hk; [congruence|lia]. }
      rewrite IH by (auto; lia). f_equal. lia.
Qed.

Lemma pos_index_kwe : forall (l : list nat) d m i rest,
  pos_index_of m i (map (fun n => mkEP KwOnly (IUser n) d) l ++ rest) = pos_index_of m i rest.
Proof. induction l as [|n l IH]; intros; simpl; auto. Qed.

Lemma pos_index_none_pose : forall f m rest len a i,
  (forall p, a <= p < a + len -> a + len <= nf_n f -> ~ nf_kwpos f m p) -> a + len <= nf_n f ->
  pos_index_of m i (map (nf_posep f) (seq a len) ++ rest) = pos_index_of m (i + len) rest.
Proof.
  intros f m rest. induction len as [|len IH]; intros a i H Hn.
  - simpl. rewrite Nat.add_0_r. reflexivity.
  - cbn [seq map app pos_index_of]. rewrite posep_positional.
    destruct (ep_by_kw (nf_posep f a) && ident_eqb (ep_id (nf_posep f a)) (IUser m)) eqn:E.
    + apply posep_matches in E; [|lia]. exfalso. apply (H a); auto. lia.
    + rewrite IH.
      * f_equal. lia.
      * intros p Hp Hn'. apply H; lia.
      * lia.
Qed.

Lemma pos_index_nf : forall f m, nf_ok f ->
  (forall p, nf_kwpos f m p -> pos_index_of m 0 (nf_eparams f) = Some ((if nf_self f then 1 else 0) + p)) /\
  ((forall p, ~ nf_kwpos f m p) -> pos_index_of m 0 (nf_eparams f) = None).
Proof.
  intros f m Hok. unfold nf_eparams.
  assert (Hs : forall rest, pos_index_of m 0 (nf_selfe f ++ rest) = pos_index_of m (if nf_self f then 1 else 0) rest).
  { intro rest. unfold nf_selfe, nf_selfkind. destruct (nf_self f); auto. simpl.
    rewrite andb_false_r. unfold ep_positional. simpl. destruct (nf_slash1 f || nf_slash2 f); reflexivity. }
  split.
  - intros p Hp. rewrite Hs. unfold nf_pose. rewrite (pos_index_pose f m p) with (a := 0); auto.
    + f_equal. lia.
    + destruct Hp as [[A B] _]. lia.
  - intro H. rewrite Hs. unfold nf_pose. rewrite pos_index_none_pose.
    + unfold nf_kwe. rewrite pos_index_kwe.
      rewrite <- (app_nil_r (map (fun n => mkEP KwOnly (IUser n) true) (nf_ko f))), pos_index_kwe. reflexivity.
    + intros p _ _. apply H.
    + simpl. lia.
Qed.

(* ---------- a call shape bound by the generated def ---------- *)
Record bound (f : nform) (k : nat) (K : list nat) : Prop := mkBound {
  b_k : k <= nf_n f;
  b_nd : NoDup K;
  b_kw : forall m, In m K -> (exists p, nf_kwpos f m p) \/ In m (nf_kr f ++ nf_ko f);
  b_ge : forall m p, In m K -> nf_kwpos f m p -> k <= p;
  b_req : forall p, p < nf_r f -> nf_posval f k K p <> None;
  b_kr : forall m, In m (nf_kr f) -> In m K }.

Lemma combine_map2 : forall {X Y Z} (g : X -> Y) (h : X -> Z) l,
  combine (map g l) (map h l) = map (fun x => (g x, h x)) l.
Proof. intros X Y Z g h. induction l as [|x l IH]; simpl; auto. rewrite IH. reflexivity. Qed.

Lemma combine_app_eq : forall {X Y} (a1 a2 : list X) (b1 b2 : list Y), length a1 = length b1 ->
  combine (a1 ++ a2) (b1 ++ b2) = combine a1 b1 ++ combine a2 b2.
Proof.
  intros X Y. induction a1 as [|x a1 IH]; intros a2 b1 b2 H.
  - destruct b1; [reflexivity|discriminate].
  - destruct b1 as [|y b1]; [discriminate|]. simpl. f_equal. apply IH. simpl in H. lia.
Qed.

Lemma c5_nf : forall f k K, nf_ok f ->
  (bind_c5 (nf_eparams f) (nf_vals f k K) = true <->
  (forall p, p < nf_r f -> nf_posval f k K p <> None) /\ (forall m, In m (nf_kr f) -> In m K)).
Proof.
  intros f k K Hok. unfold bind_c5, nf_eparams, nf_vals.
  rewrite combine_app_eq by (unfold nf_selfe, nf_selfv; destruct (nf_self f); reflexivity).
  rewrite combine_app_eq by (unfold nf_pose; rewrite !map_length; reflexivity).
  rewrite !forallb_app.
  assert (E1 : forallb (fun pv : eparam * option src => ep_dflt (fst pv) || match snd pv with Some _ => true | None => false end)
                 (combine (nf_selfe f) (nf_selfv f)) = true).
  { unfold nf_selfe, nf_selfv. destruct (nf_self f); reflexivity. }
  rewrite E1. cbn [andb]. unfold nf_pose, nf_kwe. rewrite combine_map2, map_app.
  rewrite combine_app_eq by (rewrite !map_length; reflexivity).
  rewrite !combine_map2, forallb_app, !andb_true_iff, !forallb_forall.
  split.
  - intros [H1 [H2 _]]. split.
    + intros p Hp E. assert (Hn : p < nf_n f) by (pose proof (ok_r f Hok); lia).
      specialize (H1 (nf_posep f p, nf_posval f k K p)).
      rewrite in_map_iff in H1. specialize (H1 (ex_intro _ p (conj eq_refl (proj2 (in_seq _ _ _) (conj (Nat.le_0_l _) Hn))))).
      simpl in H1. rewrite E in H1. replace (p <? nf_r f) with true in H1 by (symmetry; apply Nat.ltb_lt; lia). discriminate.
    + intros m Hm. specialize (H2 (mkEP KwOnly (IUser m) false, nf_kwval K m)).
      rewrite in_map_iff in H2. specialize (H2 (ex_intro _ m (conj eq_refl Hm))). simpl in H2.
      unfold nf_kwval in H2. rewrite kw_find_caller in H2.
      destruct (memb Nat.eqb m K) eqn:E; [|discriminate]. apply (memb_In Nat.eqb Nat.eqb_eq). exact E.
  - intros [H1 H2]. repeat split.
    + intros [e v] Hx. apply in_map_iff in Hx. destruct Hx as [p [E Hp]]. injection E as <- <-. simpl.
      destruct (p <? nf_r f) eqn:Er; simpl; auto. apply Nat.ltb_lt in Er.
      specialize (H1 p Er). destruct (nf_posval f k K p); [reflexivity|contradiction].
    + intros [e v] Hx. apply in_map_iff in Hx. destruct Hx as [m [E Hm]]. injection E as <- <-. simpl.
      unfold nf_kwval. rewrite kw_find_caller.
      replace (memb Nat.eqb m K) with true; auto. symmetry. apply (memb_In Nat.eqb Nat.eqb_eq). auto.
    + intros [e v] Hx. apply in_map_iff in Hx. destruct Hx as [m [E Hm]]. injection E as <- <-. reflexivity.
Qed.

(* whether a keyword names a keyword-accepting positional parameter is decidable (bounded search) *)
Lemma classic_kwpos : forall f m, (exists p, nf_kwpos f m p) \/ (forall p, ~ nf_kwpos f m p).
Proof.
  intros f m. unfold nf_kwpos.
  destruct (nf_slash2 f) eqn:E2.
  - right. intros p [_ [H _]]. discriminate.
  - assert (G : forall len, (exists p, nf_sl f <= p < nf_sl f + len /\ nf_nm f p = m) \/
                           (forall p, nf_sl f <= p < nf_sl f + len -> nf_nm f p <> m)).
    { induction len as [|len [[p [Hp E]]|IH]].
      - right. intros p Hp. lia.
      - left. exists p. split; auto. lia.
      - destruct (Nat.eq_dec (nf_nm f (nf_sl f + len)) m) as [E|E].
        + left. exists (nf_sl f + len). split; auto. lia.
        + right. intros p Hp. destruct (Nat.eq_dec p (nf_sl f + len)) as [->|Hne]; auto. apply IH. lia. }
    destruct (G (nf_n f - nf_sl f)) as [[p [Hp E]]|H].
    + left. exists p. repeat split; auto; lia.
    + right. intros p [[A B] [_ E]]. apply (H p); auto. lia.
Qed.

Lemma bind_nf_iff : forall f k K vals, nf_ok f ->
  (bind (nf_eparams f) (caller_pos (nf_self f) k) (caller_kws K) = Some vals <-> bound f k K /\ vals = nf_vals f k K).
Proof.
  intros f k K vals Hok. rewrite bind_spec, bind_vals_nf, caller_kws_fst.
  unfold bind_c1. rewrite nf_npp, caller_pos_length.
  rewrite (nodupb_NoDup Nat.eqb Nat.eqb_eq), (c5_nf f k K Hok).
  assert (E3 : bind_c3 (nf_eparams f) (caller_kws K) = true <->
               forall m, In m K -> (exists p, nf_kwpos f m p) \/ In m (nf_kr f ++ nf_ko f)).
  { unfold bind_c3. rewrite forallb_forall. split.
    - intros H m Hm. apply kw_param_nf. apply (H (m, SKw m)). unfold caller_kws. apply in_map_iff. exists m. auto.
    - intros H [m v] Hx. unfold caller_kws in Hx. apply in_map_iff in Hx. destruct Hx as [m' [E Hm]].
      injection E as <- <-. simpl. apply kw_param_nf. auto. }
  assert (E4 : bind_c4 (nf_eparams f) (caller_pos (nf_self f) k) (caller_kws K) = true <->
               forall m p, In m K -> nf_kwpos f m p -> k <= p).
  { unfold bind_c4. rewrite negb_true_iff. rewrite caller_pos_length. split.
    - intros H m p Hm Hp. destruct (Nat.le_gt_cases k p) as [|Hlt]; auto. exfalso.
      assert (Hex : existsb (fun nv : nat * src => match pos_index_of (fst nv) 0 (nf_eparams f) with
                                     | Some i => i <? (if nf_self f then 1 else 0) + k | None => false end) (caller_kws K) = true).
      { apply existsb_exists. exists (m, SKw m). split.
        - unfold caller_kws. apply in_map_iff. exists m. auto.
        - simpl. rewrite (proj1 (pos_index_nf f m Hok) p Hp). apply Nat.ltb_lt. lia. }
      congruence.
    - intro H. destruct (existsb _ (caller_kws K)) eqn:Ex; auto. exfalso.
      apply existsb_exists in Ex. destruct Ex as [[m v] [Hx Hi]]. unfold caller_kws in Hx.
      apply in_map_iff in Hx. destruct Hx as [m' [E Hm]]. injection E as <- <-. simpl in Hi.
      destruct (pos_index_of m' 0 (nf_eparams f)) as [i|] eqn:Ei; [|discriminate].
      assert (Hex : exists p, nf_kwpos f m' p).
      { destruct (classic_kwpos f m') as [Hy|Hn]; auto. rewrite (proj2 (pos_index_nf f m' Hok) Hn) in Ei. discriminate. }
      destruct Hex as [p Hp]. rewrite (proj1 (pos_index_nf f m' Hok) p Hp) in Ei. injection Ei as <-.
      apply Nat.ltb_lt in Hi. specialize (H m' p Hm Hp). lia. }
  rewrite E3, E4. split.
  - intros [H1 [H2 [H3 [H4 [[H5 H6] H7]]]]]. split; auto. constructor; auto. apply Nat.leb_le in H1. lia.
  - intros [[B1 B2 B3 B4 B5 B6] ->]. repeat split; auto. apply Nat.leb_le. lia.
Qed.
