(* GraphUpd.v — exact description of lock_parents / compile, and the effect of _update (upd) *)
From Coq Require Import ZArith List Bool Arith Lia.
Import ListNotations.
From OvldV Require Import Model.Graph Proofs.GraphTab Proofs.GraphBase.

(* ---------- keep: what no compile / _update ever changes ---------- *)
Definition keep (x y : node) : Prop :=
  n_own x = n_own y /\ n_mixins x = n_mixins y /\ n_children x = n_children y /\ n_linkback x = n_linkback y /\
  (n_locked x = true -> n_locked y = true) /\ (n_compiled x = true -> n_compiled y = true).

Definition gkeep (g g' : graph) : Prop :=
  length g = length g' /\ forall n x, g_get g n = Some x -> exists y, g_get g' n = Some y /\ keep x y.

Lemma keep_refl : forall x, keep x x.
Proof. unfold keep. intuition. Qed.

Lemma keep_trans : forall x y z, keep x y -> keep y z -> keep x z.
Proof. unfold keep. intuition congruence. Qed.

Lemma gkeep_refl : forall g, gkeep g g.
Proof. split; auto. intros. eexists. split; eauto. apply keep_refl. Qed.

Lemma gkeep_trans : forall g1 g2 g3, gkeep g1 g2 -> gkeep g2 g3 -> gkeep g1 g3.
Proof.
  intros g1 g2 g3 [L1 H1] [L2 H2]. split; [congruence|]. intros n x E.
  destruct (H1 _ _ E) as [y [Ey K1]]. destruct (H2 _ _ Ey) as [z [Ez K2]]. exists z. split; auto.
  eapply keep_trans; eauto.
Qed.

Lemma gkeep_none : forall g g' n, gkeep g g' -> g_get g n = None -> g_get g' n = None.
Proof.
  intros g g' n [L H] E. unfold g_get in *. apply nth_error_None in E. apply nth_error_None. lia.
Qed.

Lemma gkeep_same_dm : forall g g', gkeep g g' -> same dm g g'.
Proof.
  intros g g' K n. destruct (g_get g n) eqn:E.
  - destruct K as [_ K]. destruct (K _ _ E) as [y [Ey Ky]]. rewrite Ey. cbn. unfold dm. unfold keep in Ky.
    destruct Ky as (A & B & _). rewrite A, B. reflexivity.
  - rewrite (gkeep_none _ _ _ K E). reflexivity.
Qed.

Lemma gkeep_same_sk : forall g g', gkeep g g' -> same sk g g'.
Proof.
  intros g g' K n. destruct (g_get g n) eqn:E.
  - destruct K as [_ K]. destruct (K _ _ E) as [y [Ey Ky]]. rewrite Ey. cbn. unfold sk. unfold keep in Ky.
    destruct Ky as (_ & B & C & _). rewrite B, C. reflexivity.
  - rewrite (gkeep_none _ _ _ K E). reflexivity.
Qed.

Lemma gkeep_defns : forall g g', gkeep g g' -> forall f n, defns f g n = defns f g' n.
Proof. intros. apply defns_same. apply gkeep_same_dm. auto. Qed.

(* a pointwise modification that satisfies keep *)
Lemma gkeep_pointwise : forall g g' (F : nat -> node -> node),
  (forall k, g_get g' k = option_map (F k) (g_get g k)) -> (forall k x, keep x (F k x)) -> gkeep g g'.
Proof.
  intros g g' F H K. split.
  - destruct (Nat.lt_trichotomy (length g) (length g')) as [L|[L|L]]; auto.
    + pose proof (H (length g)) as Q. unfold g_get in Q.
      rewrite (proj2 (nth_error_None g (length g))) in Q by lia. cbn in Q. apply nth_error_None in Q. lia.
    + pose proof (H (length g')) as Q. unfold g_get in Q.
      rewrite (proj2 (nth_error_None g' (length g'))) in Q by lia.
      destruct (nth_error g (length g')) eqn:E; [discriminate|]. apply nth_error_None in E. lia.
  - intros n x E. rewrite H, E. cbn. eauto.
Qed.

Lemma existsb_ext_all : forall A (f1 f2 : A -> bool) l, (forall x, f1 x = f2 x) -> existsb f1 l = existsb f2 l.
Proof. induction l; cbn; intros; auto. rewrite H, IHl; auto. Qed.

Lemma lb_b_same : forall g g', same sk g g' -> forall f a n, lb_b f g a n = lb_b f g' a n.
Proof.
  intros g g' S. induction f; intros; cbn; auto. f_equal.
  pose proof (S a) as Sa. destruct (g_get g a), (g_get g' a); cbn in Sa; try discriminate; auto.
  unfold sk in Sa. injection Sa as _ Sc. rewrite Sc. apply existsb_ext_all. intros. apply IHf.
Qed.

Lemma anc_b_same : forall g g', same sk g g' -> forall f a n, anc_b f g a n = anc_b f g' a n.
Proof.
  intros g g' S. induction f; intros; cbn; auto. f_equal.
  pose proof (S n) as Sa. destruct (g_get g n), (g_get g' n); cbn in Sa; try discriminate; auto.
  unfold sk in Sa. injection Sa as Sm _. rewrite Sm. apply existsb_ext_all. intros. apply IHf.
Qed.

(* ---------- lock: only lock flags change, and only upwards ---------- *)
Definition lkonly (g g' : graph) : Prop :=
  length g = length g' /\
  forall k x, g_get g k = Some x -> exists y, g_get g' k = Some y /\ (y = x \/ y = set_locked x).

Lemma lkonly_refl : forall g, lkonly g g.
Proof. split; auto. intros. eauto. Qed.

Lemma lkonly_trans : forall g1 g2 g3, lkonly g1 g2 -> lkonly g2 g3 -> lkonly g1 g3.
Proof.
  intros g1 g2 g3 [L1 H1] [L2 H2]. split; [congruence|]. intros k x E.
  destruct (H1 _ _ E) as [y [Ey Ry]]. destruct (H2 _ _ Ey) as [z [Ez Rz]]. exists z. split; auto.
  destruct Ry as [->| ->]; destruct Rz as [->| ->]; auto.
Qed.

Lemma lkonly_mod : forall g m, lkonly g (g_mod g m set_locked).
Proof.
  intros. split; [symmetry; apply length_g_mod|]. intros k x E. rewrite g_get_mod.
  destruct (Nat.eqb k m) eqn:Ek.
  - apply Nat.eqb_eq in Ek. subst. rewrite E. cbn. eauto.
  - eauto.
Qed.

Lemma keep_set_locked : forall x, keep x (set_locked x).
Proof. intros. unfold keep. cbn. intuition. Qed.

Lemma lkonly_gkeep : forall g g', lkonly g g' -> gkeep g g'.
Proof.
  intros g g' [L H]. split; auto. intros n x E. destruct (H _ _ E) as [y [Ey R]]. exists y. split; auto.
  destruct R as [->| ->]; [apply keep_refl | apply keep_set_locked].
Qed.

Lemma lkonly_back : forall g g' k y, lkonly g g' -> g_get g' k = Some y ->
  exists x, g_get g k = Some x /\ (y = x \/ y = set_locked x).
Proof.
  intros g g' k y [L H] E. assert (k < length g) as Lk by (rewrite L; eapply g_get_lt; eauto).
  destruct (g_get_some _ _ Lk) as [x Ex]. destruct (H _ _ Ex) as [y' [Ey' R]]. rewrite E in Ey'. injection Ey' as <-. eauto.
Qed.

(* LC E g: every locked node outside E has all its mixins locked *)
Definition LC (E : nat -> Prop) (g : graph) : Prop :=
  forall k x q y, g_get g k = Some x -> n_locked x = true -> ~ E k -> In q (n_mixins x) ->
                  g_get g q = Some y -> n_locked y = true.

Definition lfold (f : nat) (qs : list nat) (start : option graph) : option graph :=
  fold_left (fun acc q => match acc with
                          | Some a => match g_get a q with
                                      | Some y => if n_locked y then Some a else lock_rec f a q
                                      | None => None
                                      end
                          | None => None
                          end) qs start.

Lemma lock_rec_S : forall f g m,
  lock_rec (S f) g m = match g_get g m with
                       | None => None
                       | Some x => lfold f (n_mixins x) (Some (g_mod g m set_locked))
                       end.
Proof. reflexivity. Qed.

Lemma lfold_none : forall f qs, lfold f qs None = None.
Proof. unfold lfold. induction qs; cbn; auto. Qed.

Lemma lfold_cons : forall f q qs a,
  lfold f (q :: qs) (Some a) = lfold f qs (match g_get a q with
                                           | Some y => if n_locked y then Some a else lock_rec f a q
                                           | None => None end).
Proof. reflexivity. Qed.

Definition locked_at (g : graph) (k : nat) : Prop := exists y, g_get g k = Some y /\ n_locked y = true.

Lemma locked_at_mono : forall g g' k, lkonly g g' -> locked_at g k -> locked_at g' k.
Proof.
  intros g g' k [L H] (y & Ey & Ly). destruct (H _ _ Ey) as [z [Ez R]]. exists z. split; auto.
  destruct R as [->| ->]; auto.
Qed.

Lemma lock_rec_spec : forall f g m g', lock_rec f g m = Some g' ->
  lkonly g g' /\ locked_at g' m /\ forall E, LC E g -> LC E g'.
Proof.
  induction f; intros g m g' H; [discriminate|].
  rewrite lock_rec_S in H. destruct (g_get g m) as [x|] eqn:Em; [|discriminate].
  assert (forall qs a gb, lfold f qs (Some a) = Some gb ->
            lkonly a gb /\ (forall E, LC E a -> LC E gb) /\ (forall q, In q qs -> locked_at gb q)) as FOLD.
  { induction qs as [|q qs IHqs]; intros a gb Hf.
    - cbn in Hf. injection Hf as <-. split; [apply lkonly_refl|]. split; auto. intros q [].
    - rewrite lfold_cons in Hf. destruct (g_get a q) as [y|] eqn:Eq; [|rewrite lfold_none in Hf; discriminate].
      destruct (n_locked y) eqn:Ly.
      + destruct (IHqs _ _ Hf) as (K & C & Q). split; auto. split; auto.
        intros q' [<-|I]; auto. eapply locked_at_mono; eauto. exists y. auto.
      + destruct (lock_rec f a q) as [a1|] eqn:R; [|rewrite lfold_none in Hf; discriminate].
        destruct (IHf _ _ _ R) as (K1 & Q1 & C1). destruct (IHqs _ _ Hf) as (K2 & C2 & Q2).
        split; [eapply lkonly_trans; eauto|]. split; [intros E HE; apply C2; apply C1; auto|].
        intros q' [<-|I]; auto. eapply locked_at_mono; eauto. }
  destruct (FOLD _ _ _ H) as (K & C & Q).
  pose proof (lkonly_mod g m) as K0.
  assert (locked_at (g_mod g m set_locked) m) as Lm0 by (eexists; split; [apply g_get_mod_same; eauto | reflexivity]).
  split; [eapply lkonly_trans; eauto|]. split; [eapply locked_at_mono; eauto|].
  intros E HE.
  assert (LC (fun k => E k \/ k = m) (g_mod g m set_locked)) as HE0.
  { intros k xk q y Ek Lk NE Iq Eq.
    assert (k <> m) as Ne by (intros ->; apply NE; auto).
    rewrite g_get_mod_other in Ek by auto.
    rewrite g_get_mod in Eq. destruct (Nat.eqb q m) eqn:Eqm.
    - destruct (g_get g m); [|discriminate]. cbn in Eq. injection Eq as <-. reflexivity.
    - eapply (HE k xk q y); eauto. }
  pose proof (C _ HE0) as HE1.
  intros k xk q y Ek Lk NE Iq Eq.
  destruct (Nat.eq_dec k m) as [->|Ne].
  - destruct (lkonly_back _ _ _ _ (lkonly_trans _ _ _ K0 K) Ek) as [x0 [Ex0 R]]. rewrite Em in Ex0. injection Ex0 as <-.
    assert (n_mixins xk = n_mixins x) as Mx by (destruct R as [->| ->]; reflexivity).
    rewrite Mx in Iq. destruct (Q _ Iq) as (y' & Ey' & Ly'). congruence.
  - eapply (HE1 k xk q y); eauto. intros [F|F]; auto.
Qed.

Lemma lock_rec_some : forall f g m, mterm f g m = true -> exists g', lock_rec f g m = Some g'.
Proof.
  induction f; intros g m T; [discriminate|].
  rewrite mterm_S in T. rewrite lock_rec_S. destruct (g_get g m) as [x|] eqn:Em; [|discriminate].
  assert (forall qs a, lkonly g a -> forallb (mterm f g) qs = true -> exists gb, lfold f qs (Some a) = Some gb) as FOLD.
  { induction qs as [|q qs IHqs]; intros a K Tq.
    - cbn. eauto.
    - cbn in Tq. apply andb_true_iff in Tq. destruct Tq as [T1 T2]. rewrite lfold_cons.
      assert (mterm f a q = true) as Ta.
      { rewrite <- (mterm_same g a); auto. apply gkeep_same_sk. apply lkonly_gkeep. auto. }
      pose proof (mterm_lt _ _ _ Ta) as Lq. destruct (g_get_some _ _ Lq) as [y Ey]. rewrite Ey.
      destruct (n_locked y); [apply IHqs; auto|].
      destruct (IHf _ _ Ta) as [a1 R]. rewrite R. apply IHqs; auto.
      eapply lkonly_trans; [exact K|]. apply (lock_rec_spec _ _ _ _ R). }
  apply FOLD; auto. apply lkonly_mod.
Qed.

(* ---------- _lock_parents ---------- *)
Lemma lkonly_children : forall g g' k x y, lkonly g g' -> g_get g k = Some x -> g_get g' k = Some y ->
  n_children y = n_children x /\ n_mixins y = n_mixins x /\ n_compiled y = n_compiled x /\ n_snap y = n_snap x /\
  n_linkback y = n_linkback x /\ n_own y = n_own x /\ (n_locked x = true -> n_locked y = true).
Proof.
  intros g g' k x y [L H] Ex Ey. destruct (H _ _ Ex) as [y' [Ey' R]]. rewrite Ey in Ey'. injection Ey' as <-.
  destruct R as [->| ->]; cbn; repeat split; auto.
Qed.

Lemma Lb_sk : forall g g', same sk g g' -> forall a n, Lb g a n -> Lb g' a n.
Proof.
  intros g g' S a n H. induction H; [constructor|].
  pose proof (S a) as Sa. rewrite H in Sa. cbn in Sa. destruct (g_get g' a) as [y|] eqn:Ey; [|discriminate].
  cbn in Sa. unfold sk in Sa. injection Sa as _ Pc. eapply lb_step; eauto. rewrite <- Pc. auto.
Qed.

(* children list exactly the linkback derivations (part of the invariant of reachable graphs) *)
Definition ChildMix (g : graph) : Prop :=
  forall p x c, g_get g p = Some x -> In c (n_children x) ->
    exists y, g_get g c = Some y /\ In p (n_mixins y) /\ n_linkback y = true.

Lemma ChildMix_gkeep : forall g g', gkeep g g' -> ChildMix g -> ChildMix g'.
Proof.
  intros g g' K H p x' c Ep Ic.
  assert (forall k z', g_get g' k = Some z' -> exists z, g_get g k = Some z /\ keep z z') as Back.
  { intros k z' Ez'. destruct K as [L K]. assert (k < length g) as Lk by (rewrite L; eapply g_get_lt; eauto).
    destruct (g_get_some _ _ Lk) as [z Ez]. destruct (K _ _ Ez) as [z'' [Ez'' Kz]]. rewrite Ez' in Ez''. injection Ez'' as <-. eauto. }
  destruct (Back _ _ Ep) as [x [Ex Kx]]. destruct Kx as (_ & _ & Kc & _). rewrite <- Kc in Ic.
  destruct (H _ _ _ Ex Ic) as (y & Ey & Im & Ly). destruct (proj2 K _ _ Ey) as [y' [Ey' Ky]].
  exists y'. destruct Ky as (_ & Km & _ & Kl & _). rewrite <- Km, <- Kl. auto.
Qed.

Lemma Lb_last : forall g v n, Lb g v n ->
  v = n \/ exists m xm, g_get g m = Some xm /\ In n (n_children xm) /\ Lb g v m.
Proof.
  intros g v n H. induction H as [a | a x c n Ea Ic H IH].
  - left. reflexivity.
  - right. destruct IH as [->|(m & xm & Em & In' & L)].
    + exists a, x. repeat split; auto. constructor.
    + exists m, xm. repeat split; auto. eapply lb_step; eauto.
Qed.

Definition pfold (f F : nat) (n : nat) (ms : list nat) (start : option graph) : option graph :=
  fold_left (fun acc m => match acc with
                          | Some a => match g_get a m with
                                      | Some y => if mem n (n_children y) then lock_parents f a m else lock_rec F a m
                                      | None => None
                                      end
                          | None => None
                          end) ms start.

Lemma lock_parents_S : forall f g n,
  lock_parents (S f) g n = match g_get g n with
                           | None => None
                           | Some x => pfold f (length g) n (n_mixins x) (Some g)
                           end.
Proof. reflexivity. Qed.

Lemma pfold_none : forall f F n ms, pfold f F n ms None = None.
Proof. unfold pfold. induction ms; cbn; auto. Qed.

Lemma pfold_cons : forall f F n m ms a,
  pfold f F n (m :: ms) (Some a) = pfold f F n ms (match g_get a m with
                                                   | Some y => if mem n (n_children y) then lock_parents f a m else lock_rec F a m
                                                   | None => None end).
Proof. reflexivity. Qed.

Lemma lock_parents_spec : forall f g n g', lock_parents f g n = Some g' ->
  lkonly g g' /\ forall E, LC E g -> LC E g'.
Proof.
  induction f; intros g n g' H; [discriminate|].
  rewrite lock_parents_S in H. destruct (g_get g n) as [x|] eqn:En; [|discriminate].
  assert (forall ms a gb, pfold f (length g) n ms (Some a) = Some gb -> lkonly a gb /\ forall E, LC E a -> LC E gb) as FOLD.
  { induction ms as [|m ms IHms]; intros a gb Hf.
    - cbn in Hf. injection Hf as <-. split; [apply lkonly_refl | auto].
    - rewrite pfold_cons in Hf. destruct (g_get a m) as [y|] eqn:Em; [|rewrite pfold_none in Hf; discriminate].
      destruct (mem n (n_children y)).
      + destruct (lock_parents f a m) as [a1|] eqn:R; [|rewrite pfold_none in Hf; discriminate].
        destruct (IHf _ _ _ R) as (K1 & C1). destruct (IHms _ _ Hf) as (K2 & C2).
        split; [eapply lkonly_trans; eauto | intros E HE; apply C2; apply C1; auto].
      + destruct (lock_rec (length g) a m) as [a1|] eqn:R; [|rewrite pfold_none in Hf; discriminate].
        destruct (lock_rec_spec _ _ _ _ R) as (K1 & _ & C1). destruct (IHms _ _ Hf) as (K2 & C2).
        split; [eapply lkonly_trans; eauto | intros E HE; apply C2; apply C1; auto]. }
  apply FOLD in H. exact H.
Qed.

(* what gets locked: for every node v from which n derives through linkback derivations only (n itself included) and
   that is not itself a linkback derivation, all the mixins of v *)
Lemma lock_parents_locks : forall f g n g', ChildMix g -> lock_parents f g n = Some g' ->
  forall v y q, Lb g v n -> g_get g v = Some y -> n_linkback y = false -> In q (n_mixins y) -> locked_at g' q.
Proof.
  induction f; intros g n g' CM H; [discriminate|].
  rewrite lock_parents_S in H. destruct (g_get g n) as [x|] eqn:En; [|discriminate].
  assert (forall ms a gb, lkonly g a -> pfold f (length g) n ms (Some a) = Some gb ->
            lkonly a gb /\
            forall m, In m ms -> exists ym, g_get g m = Some ym /\
              (mem n (n_children ym) = false -> locked_at gb m) /\
              (mem n (n_children ym) = true -> forall v y q, Lb g v m -> g_get g v = Some y -> n_linkback y = false ->
                                               In q (n_mixins y) -> locked_at gb q)) as FOLD.
  { induction ms as [|m ms IHms]; intros a gb Ka Hf.
    - cbn in Hf. injection Hf as <-. split; [apply lkonly_refl|]. intros m [].
    - rewrite pfold_cons in Hf. destruct (g_get a m) as [y|] eqn:Em; [|rewrite pfold_none in Hf; discriminate].
      destruct (lkonly_back _ _ _ _ Ka Em) as [y0 [Ey0 R0]].
      assert (n_children y = n_children y0) as Cy by (destruct R0 as [->| ->]; reflexivity).
      rewrite Cy in Hf.
      destruct (mem n (n_children y0)) eqn:Mn.
      + destruct (lock_parents f a m) as [a1|] eqn:R; [|rewrite pfold_none in Hf; discriminate].
        destruct (lock_parents_spec _ _ _ _ R) as (K1 & _).
        destruct (IHms _ _ (lkonly_trans _ _ _ Ka K1) Hf) as (K2 & Q2).
        split; [eapply lkonly_trans; eauto|].
        intros m' [<-|I]; [|apply Q2; auto].
        exists y0. split; auto. split; [congruence|]. intros _ v yv q Lv Ev Lyv Iq.
        eapply locked_at_mono; [exact K2|].
        assert (gkeep g a) as Kg by (apply lkonly_gkeep; auto).
        destruct (proj2 Kg _ _ Ev) as [yv' [Evy' Kv]]. destruct Kv as (_ & Kvm & _ & Kvl & _).
        eapply (IHf a m a1 (ChildMix_gkeep _ _ Kg CM) R v yv' q); eauto; try congruence.
        eapply Lb_sk; [apply gkeep_same_sk; exact Kg | exact Lv].
      + destruct (lock_rec (length g) a m) as [a1|] eqn:R; [|rewrite pfold_none in Hf; discriminate].
        destruct (lock_rec_spec _ _ _ _ R) as (K1 & Q1 & _).
        destruct (IHms _ _ (lkonly_trans _ _ _ Ka K1) Hf) as (K2 & Q2).
        split; [eapply lkonly_trans; eauto|].
        intros m' [<-|I]; [|apply Q2; auto].
        exists y0. split; auto. split; [|congruence]. intros _. eapply locked_at_mono; eauto. }
  destruct (FOLD _ _ _ (lkonly_refl g) H) as (K & Q).
  intros v y q Lv Ev Lyv Iq. destruct (Lb_last _ _ _ Lv) as [->|(m & xm & Em & In' & Lm)].
  - rewrite En in Ev. injection Ev as <-.
    destruct (Q q Iq) as (yq & Eyq & Q1 & _). apply Q1.
    destruct (mem n (n_children yq)) eqn:M; auto. unfold mem in M. apply existsb_exists in M.
    destruct M as [n' [In'' En']]. apply Nat.eqb_eq in En'. subst n'.
    destruct (CM _ _ _ Eyq In'') as (yn & Eyn & _ & Ln). rewrite En in Eyn. injection Eyn as <-. congruence.
  - destruct (CM _ _ _ Em In') as (yn & Eyn & Imn & _). rewrite En in Eyn. injection Eyn as <-.
    destruct (Q m Imn) as (xm' & Em' & _ & Q2). rewrite Em in Em'. injection Em' as <-.
    eapply Q2; eauto. unfold mem. apply existsb_exists. exists n. split; auto. apply Nat.eqb_refl.
Qed.

Lemma lock_parents_some : forall f g n,
  (forall k, k < length g -> mterm (length g) g k = true) -> mterm f g n = true -> exists g', lock_parents f g n = Some g'.
Proof.
  induction f; intros g n M T; [discriminate|].
  rewrite mterm_S in T. rewrite lock_parents_S. destruct (g_get g n) as [x|] eqn:En; [|discriminate].
  assert (forall ms a, lkonly g a -> forallb (mterm f g) ms = true -> exists gb, pfold f (length g) n ms (Some a) = Some gb) as FOLD.
  { induction ms as [|m ms IHms]; intros a K Tm.
    - cbn. eauto.
    - cbn in Tm. apply andb_true_iff in Tm. destruct Tm as [T1 T2]. rewrite pfold_cons.
      assert (same sk g a) as Ssk by (apply gkeep_same_sk; apply lkonly_gkeep; auto).
      assert (length a = length g) as La by (destruct K; auto).
      pose proof (mterm_lt _ _ _ T1) as Lm. rewrite <- La in Lm. destruct (g_get_some _ _ Lm) as [y Ey]. rewrite Ey.
      destruct (mem n (n_children y)).
      + destruct (IHf a m) as [a1 R].
        * intros k Lk. rewrite La in *. rewrite <- (mterm_same g a); auto.
        * rewrite <- (mterm_same g a); auto.
        * rewrite R. apply IHms; auto. eapply lkonly_trans; [exact K|]. apply (lock_parents_spec _ _ _ _ R).
      + destruct (lock_rec_some (length g) a m) as [a1 R].
        * rewrite <- (mterm_same g a); auto. apply M. lia.
        * rewrite R. apply IHms; auto. eapply lkonly_trans; [exact K|]. apply (lock_rec_spec _ _ _ _ R). }
  apply FOLD; auto. apply lkonly_refl.
Qed.

(* ---------- compile ---------- *)
Lemma compile_inv : forall g n g', compile g n = Some g' ->
  exists x g1 t, g_get g n = Some x /\ lock_parents (length g) g n = Some g1 /\ defns (length g) g n = Some t /\
                 g' = g_mod g1 n (set_snap t).
Proof.
  unfold compile. intros g n g' H. destruct (g_get g n) as [x|] eqn:E; [|discriminate].
  destruct (lock_parents (length g) g n) as [g1|] eqn:P; [|discriminate].
  destruct (defns (length g) g n) as [t|] eqn:D; [|discriminate]. injection H as <-. eauto 8.
Qed.

Lemma keep_set_snap : forall t x, keep x (set_snap t x).
Proof. intros. unfold keep. cbn. intuition. Qed.

Lemma compile_gkeep : forall g n g', compile g n = Some g' -> gkeep g g'.
Proof.
  intros g n g' H. destruct (compile_inv _ _ _ H) as (x & g1 & t & E & P & D & ->).
  destruct (lock_parents_spec _ _ _ _ P) as (K & _).
  eapply gkeep_trans; [apply lkonly_gkeep; exact K|].
  eapply gkeep_pointwise with (F := fun k y => if Nat.eqb k n then set_snap t y else y).
  - intros k. rewrite g_get_mod. destruct (Nat.eqb k n) eqn:Ek.
    + apply Nat.eqb_eq in Ek. subst. reflexivity.
    + destruct (g_get g1 k); reflexivity.
  - intros k y. destruct (Nat.eqb k n); [apply keep_set_snap | apply keep_refl].
Qed.

Lemma compile_other : forall g n g' k x, compile g n = Some g' -> k <> n -> g_get g k = Some x ->
  exists y, g_get g' k = Some y /\ n_compiled y = n_compiled x /\ n_snap y = n_snap x.
Proof.
  intros g n g' k x H Ne Ex. destruct (compile_inv _ _ _ H) as (x0 & g1 & t & E & P & D & ->).
  destruct (lock_parents_spec _ _ _ _ P) as (K & _).
  destruct (proj2 K _ _ Ex) as [y [Ey R]]. exists y. rewrite g_get_mod_other by auto. split; auto.
  destruct R as [->| ->]; auto.
Qed.

Lemma compile_self : forall g n g', compile g n = Some g' ->
  exists y, g_get g' n = Some y /\ n_compiled y = true /\ Some (n_snap y) = defns (length g) g n.
Proof.
  intros g n g' H. destruct (compile_inv _ _ _ H) as (x0 & g1 & t & E & P & D & ->).
  destruct (lock_parents_spec _ _ _ _ P) as (K & _).
  destruct (proj2 K _ _ E) as [y [Ey R]]. exists (set_snap t y). split; [apply g_get_mod_same; auto|]. cbn. auto.
Qed.

(* compile locks, for every non-linkback node v from which n derives through linkback derivations only (n itself
   included), all the mixins of v *)
Lemma compile_locks : forall g n g' v y q, ChildMix g -> compile g n = Some g' ->
  Lb g v n -> g_get g v = Some y -> n_linkback y = false -> In q (n_mixins y) -> locked_at g' q.
Proof.
  intros g n g' v y q CM H Lv Ev Ly Iq. destruct (compile_inv _ _ _ H) as (x0 & g1 & t & E0 & P & D & ->).
  destruct (lock_parents_locks _ _ _ _ CM P v y q Lv Ev Ly Iq) as (y1 & Ey1 & Ly1).
  unfold locked_at. rewrite g_get_mod. destruct (Nat.eqb q n) eqn:Eqn.
  - apply Nat.eqb_eq in Eqn. subst q. rewrite Ey1. cbn. eexists. split; eauto.
  - eauto.
Qed.

Lemma compile_LC : forall g n g' E, compile g n = Some g' -> LC E g -> LC E g'.
Proof.
  intros g n g' E H HE. destruct (compile_inv _ _ _ H) as (x0 & g1 & t & E0 & P & D & ->).
  destruct (lock_parents_spec _ _ _ _ P) as (K & C).
  pose proof (C _ HE) as H1. intros k xk q y Ek Lk NE Iq Eq.
  assert (exists xk1, g_get g1 k = Some xk1 /\ n_locked xk1 = n_locked xk /\ n_mixins xk1 = n_mixins xk) as (xk1 & Ek1 & A1 & A2).
  { rewrite g_get_mod in Ek. destruct (Nat.eqb k n) eqn:Ekn.
    - apply Nat.eqb_eq in Ekn. subst k. destruct (g_get g1 n); [|discriminate]. cbn in Ek. injection Ek as <-. eauto.
    - eauto. }
  assert (exists y1, g_get g1 q = Some y1 /\ n_locked y1 = n_locked y) as (y1 & Ey1 & B1).
  { rewrite g_get_mod in Eq. destruct (Nat.eqb q n) eqn:Eqn.
    - apply Nat.eqb_eq in Eqn. subst q. destruct (g_get g1 n); [|discriminate]. cbn in Eq. injection Eq as <-. eauto.
    - eauto. }
  rewrite <- B1. eapply (H1 k xk1 q y1); eauto; congruence.
Qed.

(* ---------- _update ---------- *)
Definition ufold (f : nat) (cs : list nat) (start : option graph) : option graph :=
  fold_left (fun acc c => match acc with Some a => upd f a c | None => None end) cs start.

Lemma upd_S : forall f g n,
  upd (S f) g n = match g_get g n with
                  | None => None
                  | Some x => ufold f (n_children x) (if n_compiled x then compile g n else Some g)
                  end.
Proof. reflexivity. Qed.

Lemma ufold_none : forall f cs, ufold f cs None = None.
Proof. unfold ufold. induction cs; cbn; auto. Qed.

Lemma ufold_cons : forall f c cs g, ufold f (c :: cs) (Some g) = ufold f cs (upd f g c).
Proof. reflexivity. Qed.

(* UR V g g': g' keeps g; compiled flags are the same; a snapshot changed only at a visited used node, where it now
   is the current defns.   UF V g g': every visited used node's snapshot is the current defns. *)
Definition UR (V : nat -> Prop) (g g' : graph) : Prop :=
  gkeep g g' /\
  (forall k, compiled_b g' k = compiled_b g k) /\
  (forall k x y, g_get g k = Some x -> g_get g' k = Some y ->
     n_snap y = n_snap x \/ (n_compiled x = true /\ V k /\ Some (n_snap y) = defns (length g) g k)).

Definition UF (V : nat -> Prop) (g g' : graph) : Prop :=
  forall k y, V k -> g_get g' k = Some y -> n_compiled y = true -> Some (n_snap y) = defns (length g) g k.

Lemma UR_refl : forall V g, UR V g g.
Proof. intros. split; [apply gkeep_refl|]. split; auto. intros. rewrite H in H0. injection H0 as <-. auto. Qed.

Lemma UR_weaken : forall (V W : nat -> Prop) g g', (forall k, V k -> W k) -> UR V g g' -> UR W g g'.
Proof.
  intros V W g g' I (K & C & S). split; auto. split; auto. intros. destruct (S _ _ _ H H0) as [?|(?&?&?)]; auto.
Qed.

Lemma compiled_b_get : forall g k x, g_get g k = Some x -> compiled_b g k = n_compiled x.
Proof. intros. unfold compiled_b. rewrite H. reflexivity. Qed.

Lemma UR_trans : forall (V1 V2 : nat -> Prop) g1 g2 g3, UR V1 g1 g2 -> UR V2 g2 g3 -> UR (fun k => V1 k \/ V2 k) g1 g3.
Proof.
  intros V1 V2 g1 g2 g3 (K1 & C1 & S1) (K2 & C2 & S2). split; [eapply gkeep_trans; eauto|]. split.
  - intros. rewrite C2. apply C1.
  - intros k x z Ex Ez. destruct (proj2 K1 _ _ Ex) as [y [Ey _]].
    assert (length g1 = length g2) as L by apply K1.
    destruct (S2 _ _ _ Ey Ez) as [Q|(Cy & Vk & Q)].
    + destruct (S1 _ _ _ Ex Ey) as [P|(Cx & Vk & P)].
      * left. congruence.
      * right. repeat split; auto. rewrite Q. auto.
    + right. split; [|split; auto].
      * pose proof (C1 k) as Ck. rewrite (compiled_b_get _ _ _ Ey), (compiled_b_get _ _ _ Ex) in Ck. congruence.
      * rewrite Q, <- L. symmetry. apply gkeep_defns. auto.
Qed.

Lemma UF_later : forall (V V2 : nat -> Prop) g1 g2 g3, UF V g1 g2 -> UR V2 g2 g3 -> gkeep g1 g2 -> UF V g1 g3.
Proof.
  intros V V2 g1 g2 g3 F (K2 & C2 & S2) K1 k z Vk Ez Cz.
  assert (length g1 = length g2) as L by apply K1.
  destruct (g_get g2 k) eqn:Ey.
  - destruct (S2 _ _ _ Ey Ez) as [Q|(Cy & _ & Q)].
    + rewrite Q. apply (F k n); auto.
      pose proof (C2 k) as Ck. rewrite (compiled_b_get _ _ _ Ey), (compiled_b_get _ _ _ Ez) in Ck. congruence.
    + rewrite Q, <- L. symmetry. apply gkeep_defns. auto.
  - pose proof (gkeep_none _ _ _ K2 Ey). congruence.
Qed.

Lemma UF_transport : forall (V : nat -> Prop) g1 g2 g3, gkeep g1 g2 -> UF V g2 g3 -> UF V g1 g3.
Proof.
  intros V g1 g2 g3 K F k z Vk Ez Cz. rewrite (F k z Vk Ez Cz).
  replace (length g2) with (length g1) by apply K. symmetry. apply gkeep_defns. auto.
Qed.

Lemma UF_or : forall (V1 V2 : nat -> Prop) g g', UF V1 g g' -> UF V2 g g' -> UF (fun k => V1 k \/ V2 k) g g'.
Proof. intros V1 V2 g g' F1 F2 k y [Vk|Vk]; eauto. Qed.

Lemma UF_ext : forall (V W : nat -> Prop) g g', (forall k, W k -> V k) -> UF V g g' -> UF W g g'.
Proof. intros V W g g' I F k y Wk. apply F. auto. Qed.

Lemma compile_UR : forall g n g' x, g_get g n = Some x -> n_compiled x = true -> compile g n = Some g' ->
  UR (eq n) g g' /\ UF (eq n) g g'.
Proof.
  intros g n g' x E C H. split.
  - split; [eapply compile_gkeep; eauto|]. split.
    + intros k. destruct (Nat.eq_dec k n) as [->|Ne].
      * destruct (compile_self _ _ _ H) as (y & Ey & Cy & _).
        rewrite (compiled_b_get _ _ _ Ey), (compiled_b_get _ _ _ E). congruence.
      * destruct (g_get g k) eqn:Ek.
        -- destruct (compile_other _ _ _ _ _ H Ne Ek) as (y & Ey & Cy & _).
           rewrite (compiled_b_get _ _ _ Ey), (compiled_b_get _ _ _ Ek). auto.
        -- pose proof (gkeep_none _ _ _ (compile_gkeep _ _ _ H) Ek) as Q. unfold compiled_b. rewrite Ek, Q. reflexivity.
    + intros k x0 y Ex Ey. destruct (Nat.eq_dec k n) as [->|Ne].
      * right. destruct (compile_self _ _ _ H) as (y' & Ey' & _ & Sy). rewrite Ey in Ey'. injection Ey' as <-.
        rewrite E in Ex. injection Ex as <-. auto.
      * left. destruct (compile_other _ _ _ _ _ H Ne Ex) as (y' & Ey' & _ & Sy). congruence.
  - intros k y <- Ey Cy. destruct (compile_self _ _ _ H) as (y' & Ey' & _ & Sy). congruence.
Qed.

Definition visited (f : nat) (g : graph) (n k : nat) : Prop := lb_b f g n k = true.

Lemma upd_spec : forall f g n g', upd f g n = Some g' -> UR (visited f g n) g g' /\ UF (visited f g n) g g'.
Proof.
  induction f; intros g n g' H; [discriminate|].
  rewrite upd_S in H. destruct (g_get g n) eqn:E; [|discriminate].
  (* the fold over the children, from any graph ga that keeps g *)
  assert (forall cs ga gb, gkeep g ga -> ufold f cs (Some ga) = Some gb ->
            UR (fun k => exists c, In c cs /\ visited f g c k) ga gb /\
            UF (fun k => exists c, In c cs /\ visited f g c k) ga gb) as FOLD.
  { induction cs as [|c cs IHcs]; intros ga gb K Hf.
    - cbn in Hf. injection Hf as <-. split; [apply UR_refl|]. intros k y [c [[] _]].
    - rewrite ufold_cons in Hf. destruct (upd f ga c) as [g1|] eqn:U; [|rewrite ufold_none in Hf; discriminate].
      destruct (IHf _ _ _ U) as [R1 F1].
      assert (gkeep g g1) as K1 by (eapply gkeep_trans; [exact K | apply R1]).
      destruct (IHcs _ _ K1 Hf) as [R2 F2].
      assert (forall k, visited f ga c k <-> visited f g c k) as VV.
      { intros k. unfold visited. rewrite (lb_b_same g ga); [tauto|]. apply gkeep_same_sk. auto. }
      split.
      + eapply UR_weaken; [|eapply UR_trans; [exact R1 | exact R2]].
        intros k [V|[c' [I V]]]; [exists c; split; [left; auto | apply VV; auto] | exists c'; split; [right; auto | auto]].
      + eapply UF_ext; [| apply UF_or; [eapply UF_later; [exact F1 | exact R2 | apply R1] | eapply UF_transport; [apply R1 | exact F2]]].
        intros k [c' [[<-|I] V]]; [left; apply VV; auto | right; eauto]. }
  assert (forall k, visited (S f) g n k <-> (n = k \/ exists c, In c (n_children n0) /\ visited f g c k)) as VS.
  { intros k. unfold visited. cbn [lb_b]. rewrite E, orb_true_iff, Nat.eqb_eq, existsb_exists. tauto. }
  destruct (n_compiled n0) eqn:C.
  - destruct (compile g n) as [g1|] eqn:CP; [|rewrite ufold_none in H; discriminate].
    destruct (compile_UR _ _ _ _ E C CP) as [R1 F1].
    destruct (FOLD _ _ _ (proj1 R1) H) as [R2 F2].
    split.
    + eapply UR_weaken; [|eapply UR_trans; [exact R1 | exact R2]]. intros k Q. apply VS. exact Q.
    + eapply UF_ext; [| apply UF_or; [eapply UF_later; [exact F1 | exact R2 | apply R1] | eapply UF_transport; [apply R1 | exact F2]]].
      intros k Q. apply VS in Q. exact Q.
  - destruct (FOLD _ _ _ (gkeep_refl g) H) as [R2 F2]. split.
    + eapply UR_weaken; [|exact R2]. intros k Q. apply VS. right. exact Q.
    + intros k y Q Ey Cy. apply VS in Q. destruct Q as [<-|Q]; [|eapply F2; eauto].
      exfalso. pose proof (proj1 (proj2 R2) n) as Cn.
      rewrite (compiled_b_get _ _ _ Ey), (compiled_b_get _ _ _ E) in Cn. congruence.
Qed.

(* _update terminates when the children tree does and every defns does *)
Lemma compile_some : forall g n, (forall k, k < length g -> mterm (length g) g k = true) -> n < length g ->
  exists g', compile g n = Some g'.
Proof.
  intros g n M L. unfold compile. destruct (mterm_defns _ _ _ (M n L)) as [t D].
  destruct (g_get_some _ _ L) as [x E]. rewrite E, D.
  destruct (lock_parents_some (length g) g n M (M n L)) as [g1 P]. rewrite P. eauto.
Qed.

Lemma upd_some : forall f g n,
  (forall k, k < length g -> mterm (length g) g k = true) -> cterm f g n = true -> exists g', upd f g n = Some g'.
Proof.
  induction f; intros g n M C; [discriminate|].
  rewrite cterm_S in C. rewrite upd_S. destruct (g_get g n) eqn:E; [|discriminate].
  assert (forall cs ga, gkeep g ga -> forallb (cterm f g) cs = true -> exists gb, ufold f cs (Some ga) = Some gb) as FOLD.
  { induction cs as [|c cs IHcs]; intros ga K Hc.
    - cbn. eauto.
    - cbn in Hc. apply andb_true_iff in Hc. destruct Hc as [Hc1 Hc2]. rewrite ufold_cons.
      destruct (IHf ga c) as [g1 U].
      + intros k Lk. replace (length ga) with (length g) in * by apply K.
        rewrite <- (mterm_same g ga); [apply M; auto | apply gkeep_same_sk; auto].
      + rewrite <- (cterm_same g ga); [auto | apply gkeep_same_sk; auto].
      + rewrite U. apply IHcs; auto. eapply gkeep_trans; [exact K|]. apply (upd_spec _ _ _ _ U). }
  destruct (n_compiled n0).
  - destruct (compile_some g n M) as [g1 CP]; [eapply g_get_lt; eauto|]. rewrite CP.
    apply FOLD; auto. eapply compile_gkeep; eauto.
  - apply FOLD; auto. apply gkeep_refl.
Qed.

(* _update keeps "every locked node has all its mixins locked" *)
Lemma upd_LC : forall f g n g' E, upd f g n = Some g' -> LC E g -> LC E g'.
Proof.
  induction f; intros g n g' E H HE; [discriminate|].
  rewrite upd_S in H. destruct (g_get g n) eqn:En; [|discriminate].
  assert (forall cs ga gb, ufold f cs (Some ga) = Some gb -> LC E ga -> LC E gb) as FOLD.
  { induction cs as [|c cs IHcs]; intros ga gb Hf Ha.
    - cbn in Hf. injection Hf as <-. auto.
    - rewrite ufold_cons in Hf. destruct (upd f ga c) as [g1|] eqn:U; [|rewrite ufold_none in Hf; discriminate].
      eapply IHcs; eauto. }
  destruct (n_compiled n0).
  - destruct (compile g n) as [g1|] eqn:C; [|rewrite ufold_none in H; discriminate].
    eapply FOLD; eauto. eapply compile_LC; eauto.
  - eapply FOLD; eauto.
Qed.

(* ---------- _update locks, for every node it rebuilds, what _lock_parents locks ---------- *)
Definition UL (V : nat -> Prop) (g' : graph) : Prop :=
  forall k yk v y m z, V k -> g_get g' k = Some yk -> n_compiled yk = true -> Lb g' v k -> g_get g' v = Some y ->
                       n_linkback y = false -> In m (n_mixins y) -> g_get g' m = Some z -> n_locked z = true.

Lemma gkeep_back0 : forall g g' k y, gkeep g g' -> g_get g' k = Some y -> exists x, g_get g k = Some x /\ keep x y.
Proof.
  intros g g' k y [L K] E. assert (k < length g) as Lk by (rewrite L; eapply g_get_lt; eauto).
  destruct (g_get_some _ _ Lk) as [x Ex]. destruct (K _ _ Ex) as [y' [Ey' Ky]]. rewrite E in Ey'. injection Ey' as <-. eauto.
Qed.

Lemma UL_later : forall (V V2 : nat -> Prop) g2 g3, UL V g2 -> UR V2 g2 g3 -> UL V g3.
Proof.
  intros V V2 g2 g3 H (K & C & _) k yk v y m z Vk Ek Ck Lv Ev Ly Im Ez.
  destruct (gkeep_back0 _ _ _ _ K Ek) as [yk2 [Ek2 Kk]]. destruct (gkeep_back0 _ _ _ _ K Ev) as [y2 [Ev2 Kv]].
  destruct (gkeep_back0 _ _ _ _ K Ez) as [z2 [Ez2 Kz]].
  destruct Kv as (_ & Km & _ & Kl & _). destruct Kz as (_ & _ & _ & _ & Klk & _).
  apply Klk. eapply (H k yk2 v y2 m z2); eauto; try congruence.
  - pose proof (C k) as Ck'. rewrite (compiled_b_get _ _ _ Ek), (compiled_b_get _ _ _ Ek2) in Ck'. congruence.
  - eapply Lb_sk; [apply same_sym; apply gkeep_same_sk; exact K | exact Lv].
Qed.

Lemma compile_UL : forall g n g', ChildMix g -> compile g n = Some g' -> UL (eq n) g'.
Proof.
  intros g n g' CM C k yk v y m z <- Ek Ck Lv Ev Ly Im Ez.
  pose proof (compile_gkeep _ _ _ C) as K.
  destruct (gkeep_back0 _ _ _ _ K Ev) as [y0 [Ev0 Kv]]. destruct Kv as (_ & Km & _ & Kl & _).
  assert (Lb g v n) as Lv0 by (eapply Lb_sk; [apply same_sym; apply gkeep_same_sk; exact K | exact Lv]).
  destruct (compile_locks g n g' v y0 m CM C Lv0 Ev0) as (z' & Ez' & Lz'); try congruence.
Qed.

Lemma UL_or : forall (V1 V2 : nat -> Prop) g, UL V1 g -> UL V2 g -> UL (fun k => V1 k \/ V2 k) g.
Proof. intros V1 V2 g H1 H2 k yk v y m z [Vk|Vk]; eauto. Qed.

Lemma UL_ext : forall (V W : nat -> Prop) g, (forall k, W k -> V k) -> UL V g -> UL W g.
Proof. intros V W g I H k yk v y m z Wk. apply H. auto. Qed.

Lemma upd_UL : forall f g n g', ChildMix g -> upd f g n = Some g' -> UL (visited f g n) g'.
Proof.
  induction f; intros g n g' CL H; [discriminate|].
  rewrite upd_S in H. destruct (g_get g n) eqn:E; [|discriminate].
  assert (forall cs ga gb, gkeep g ga -> ufold f cs (Some ga) = Some gb ->
            UL (fun k => exists c, In c cs /\ visited f g c k) gb /\ UR (fun _ => True) ga gb) as FOLD.
  { induction cs as [|c cs IHcs]; intros ga gb K Hf.
    - cbn in Hf. injection Hf as <-. split; [|apply UR_refl]. intros k yk v y m z [c [[] _]].
    - rewrite ufold_cons in Hf. destruct (upd f ga c) as [g1|] eqn:U; [|rewrite ufold_none in Hf; discriminate].
      pose proof (IHf _ _ _ (ChildMix_gkeep _ _ K CL) U) as L1.
      destruct (upd_spec _ _ _ _ U) as [R1 _].
      assert (gkeep g g1) as K1 by (eapply gkeep_trans; [exact K | apply R1]).
      destruct (IHcs _ _ K1 Hf) as [L2 R2].
      assert (forall k, visited f ga c k <-> visited f g c k) as VV.
      { intros k. unfold visited. rewrite (lb_b_same g ga); [tauto|]. apply gkeep_same_sk. auto. }
      split.
      + eapply UL_ext; [|apply UL_or; [eapply UL_later; [exact L1 | exact R2] | exact L2]].
        intros k [c' [[<- |I] V]]; [left; apply VV; auto | right; eauto].
      + eapply UR_weaken; [|eapply UR_trans; [exact R1 | exact R2]]. auto. }
  assert (forall k, visited (S f) g n k <-> (n = k \/ exists c, In c (n_children n0) /\ visited f g c k)) as VS.
  { intros k. unfold visited. cbn [lb_b]. rewrite E, orb_true_iff, Nat.eqb_eq, existsb_exists. tauto. }
  destruct (n_compiled n0) eqn:C.
  - destruct (compile g n) as [g1|] eqn:CP; [|rewrite ufold_none in H; discriminate].
    destruct (FOLD _ _ _ (compile_gkeep _ _ _ CP) H) as [L2 R2].
    eapply UL_ext; [|apply UL_or; [eapply UL_later; [apply (compile_UL _ _ _ CL CP) | exact R2] | exact L2]].
    intros k Q. apply VS in Q. exact Q.
  - destruct (FOLD _ _ _ (gkeep_refl g) H) as [L2 R2].
    intros k yk v y m z Q Ek Ck. apply VS in Q. destruct Q as [<- |Q]; [|eapply L2; eauto].
    exfalso. pose proof (proj1 (proj2 R2) n) as Cn.
    rewrite (compiled_b_get _ _ _ Ek), (compiled_b_get _ _ _ E) in Cn. congruence.
Qed.
