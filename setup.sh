#!/bin/sh
# Offline build of the verification framework (Coq development + extracted OCaml driver).
set -e
cd "$(dirname "$0")"
exec /venv/bin/python -m vlib.build
