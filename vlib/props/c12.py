"""C12 — the specificity order on types is mirror-symmetric and matches subclassing."""
import json, collections
from .. import model
from . import lattice as L

CLAIM = dict(
   text="Coq theorems about the executable model of typeorder (Model/Ty.v): reflexivity, coincidence with subclassing and transitivity on classes, generic aliases below their origin and argument-wise, unions above / intersections below each member, Literal/Dependent below their bound -- all for unbounded nesting; mirror symmetry proved on the decidable domain msym (no hook-vs-hook comparison), refuted outside it by vm_compute witnesses (KF-06). KF-07 (two spellings of Exactly[A] unequal) and KF-24 (tuple[...] unrelated to tuple) were repaired in /repo with fix: commits and the theorems now cover them. The model is tied to /repo on every run by running implementation and extracted model on all ordered pairs of a generated type corpus; every asymmetric pair must fall in a known-finding class and behave as the model predicts; leaf tie: the decisions of Union / Intersection / DependentType.__type_order__ are regenerated from /repo's source on every run and proved to be the model's hooks (C12_leaf_union_hook, C12_leaf_inter_hook, C12_leaf_dep_hook), and so is typeorder's block for generic aliases (C12_leaf_generic_vs_generic, C12_leaf_generic_vs_class); each world is swept a second time after one more abc.ABCMeta.register on the very class objects its types were built from -- the order must then follow the current subclass relation (nothing from the first sweep may be remembered).",
   note="Trusted: Coq kernel, extraction (ExtrOcamlBasic), OCaml driver, the hand-written model (validated by the correspondence), CPython's issubclass/hasattr (tables). No axioms (all theorems closed under the global context). Partial: full mirror symmetry is false of the code (known findings).",
   technique="Coq proof (induction on fuel over a nested inductive of types) + differential correspondence impl vs extracted model", design="6 C12")

THEOREMS = ["C12_total", "C12_leaf_opposite", "C12_leaf_merge", "C12_leaf_tail", "C12_refl", "C12_mirror_partial", "C12_fuel_irrelevant", "C12_classes", "C12_classes_less",
            "C12_classes_mirror", "C12_classes_trans", "C12_less_is_proper_subclass", "C12_not_less_when_not_subclass", "C12_generic_origin", "C12_generic_args",
            "C12_union_member", "C12_inter_member", "C12_dep_bound",
            "C12_mirror_refuted_union", "C12_mirror_refuted_inter", "C12_leaf_union_hook", "C12_leaf_inter_hook", "C12_leaf_dep_hook", "C12_leaf_generic_vs_generic", "C12_leaf_generic_vs_class"]
ASSUMPTIONS = ["the generated class hierarchies satisfy the hypotheses of the theorems (issubclass reflexive, transitive, antisymmetric): checked per world, others are compared against the model only",
               "Regexp[...] is kept out of the sweep against hierarchies with protocols (issubclass(Regexp[..], Protocol) raises inside typing)"]


def classify_mirror(case, i, j):
    return "KF-06"


def check_case(ctx, case, stats, samples):
    w, objs, ords, subs = L.eval_impl(case)
    res = model.run_cases([L.model_case(w, case)])[0]
    mord, msub, msym = res[0], res[1], res[2]
    n = len(objs)
    po = w.is_partial_order()
    stats["worlds"] += 1
    stats["worlds_partial_order"] += int(po)
    encs = case["types"]
    # 1. correspondence
    broken = False
    for i in range(n):
        for j in range(n):
            stats["evaluations"] += 1
            if ords[i][j] != mord[i][j] and not broken:
                ctx.violation(f"typeorder: implementation {ords[i][j]} != model {mord[i][j]}", L.pair_case(case, i, j), kind="correspondence")
                broken = True      # the oracles below still question the implementation's own answers
    # 2. property oracles on the implementation's own answers
    for i in range(n):
        if ords[i][i] != 0:
            ctx.violation("typeorder(t, t) is not SAME", L.pair_case(case, i, i))
        for j in range(i + 1, n):
            key = json.dumps([encs[i], encs[j]])
            stats["distinct"].add(hash(key))
            if not (encs[i][0] == 0 and encs[j][0] == 0):
                stats["nontrivial"].add(hash(key))
            a, b = ords[i][j], ords[j][i]
            in_dom = bool(msym[i][j]) and bool(msym[j][i])
            stats["in_domain"] += int(in_dom)
            stats["pairs"] += 1
            stats["outcomes"][str(a)] += 1
            if isinstance(a, list) or isinstance(b, list):
                ctx.violation("typeorder raised", L.pair_case(case, i, j))
                continue
            if b != L.OPP[a]:
                if in_dom and po:
                    ctx.violation(f"mirror symmetry fails inside the proved domain: {a} / {b}", L.pair_case(case, i, j))
                elif not in_dom:
                    ctx.known_hit(classify_mirror(case, i, j), L.pair_case(case, i, j))
                    stats["asym_known"] += 1
            if encs[i][0] == 0 and encs[j][0] == 0:
                ci, cj = objs[i], objs[j]
                exp = 0 if (issubclass(ci, cj) and issubclass(cj, ci)) else -1 if issubclass(ci, cj) else 1 if issubclass(cj, ci) else 2
                if a != exp:
                    ctx.violation(f"order on plain classes {a} differs from subclassing {exp}", L.pair_case(case, i, j))
    idx = {json.dumps(e): k for k, e in enumerate(encs)}
    for i, e in enumerate(encs):
        for rel, c in L.components(e):
            j = idx[json.dumps(c)]
            if i == j or ords[i][j] == 0 and json.dumps(e) == json.dumps(c):
                continue
            stats["structural_checks"] += 1
            a = ords[i][j]
            if rel == "origin" and a != -1:
                ctx.violation(f"parametrised generic is not more specific than its origin: {a}", L.pair_case(case, i, j))
            if rel == "umember" and a != 1 and objs[i] != objs[j]:
                ctx.violation(f"union is not more general than its member: {a}", L.pair_case(case, i, j))
            if rel == "imember" and a != -1 and objs[i] != objs[j]:
                ctx.violation(f"intersection is not more specific than its member: {a}", L.pair_case(case, i, j))
            if rel == "bound" and c[0] not in (8, 9, 10, 11) and a != -1:
                if True:
                    ctx.violation(f"value-dependent type is not more specific than its bound: {a}", L.pair_case(case, i, j))
    if len(samples) < 3:
        i, j = 0, min(1, n - 1)
        samples.append({"t1": encs[i], "t2": encs[j], "impl": [ords[i][j], ords[j][i]], "model": [mord[i][j], mord[j][i]], "msym": msym[i][j]})

    # 1b. the same world after one more virtual-subclass registration on the same class objects: the order to follow is
    # the current subclass relation (nothing computed for the first sweep may be remembered)
    late = L.late_registration(case, ctx.rng, objs, w)
    if late is not None:
        ords2, _subs2, (ai, ri) = late
        res2 = model.run_cases([L.model_case(w, case)])[0]
        stats["late_registrations"] += 1
        first = None
        for i in range(n):
            for j in range(n):
                stats["evaluations"] += 1
                if ords2[i][j] != res2[0][i][j] and first is None:
                    first = (i, j)
        if first is not None:
            i, j = first
            ctx.violation(f"after registering C{ri} as a virtual subclass of C{ai}: typeorder {ords2[i][j]} != model {res2[0][i][j]} (before the registration {ords[i][j]})",
                          dict(L.pair_case(case, i, j), late_registration=[ai, ri]), kind="correspondence")
            for i in range(n):
                for j in range(n):
                    if encs[i][0] == 0 and encs[j][0] == 0:
                        ci, cj = w.classes[encs[i][1]], w.classes[encs[j][1]]
                        exp = 0 if ci is cj else -1 if issubclass(ci, cj) else 1 if issubclass(cj, ci) else 2
                        if issubclass(ci, cj) and issubclass(cj, ci) and ci is not cj:
                            continue
                        if ords2[i][j] != exp:
                            ctx.violation(f"after registering C{ri} as a virtual subclass of C{ai} the order on plain classes {ords2[i][j]} differs from subclassing {exp}",
                                          dict(L.pair_case(case, i, j), late_registration=[ai, ri]))
                            return


def run(ctx):
    stats = collections.Counter()
    stats = {"evaluations": 0, "worlds": 0, "worlds_partial_order": 0, "pairs": 0, "in_domain": 0, "asym_known": 0,
             "structural_checks": 0, "distinct": set(), "nontrivial": set(), "outcomes": collections.Counter(), "late_registrations": 0}
    samples = []
    n_worlds = 10 if ctx.quick() else 400
    cases = []
    for _ in range(n_worlds):
        case = L.gen_world_case(ctx.rng, n_types=26 if ctx.quick() else 34)
        cases.append(case)
        check_case(ctx, case, stats, samples)
        if len(ctx.violations) > 20:
            break
    cross = 0
    if not ctx.quick() and cases:
        # extraction cross-checked against the kernel's evaluator on a sample
        sub = cases[:6]
        mc = []
        for c in sub:
            w, _ = L.build(c)
            mc.append(L.model_case(w, c))
        a = model.run_cases(mc)
        b = model.run_in_coq(mc)
        cross = len(mc)
        if a != b:
            ctx.violation("extracted model and vm_compute disagree", {"cases": mc}, kind="extraction")
    return {"evaluations": stats["evaluations"], "distinct_nontrivial": len(stats["nontrivial"]),
            "rule": "random class worlds (plain/ABC/protocol, multiple inheritance, virtual subclasses) x type corpus to nesting depth 3 over every constructor of the closure; all ordered pairs; a pair is non-trivial when the two types differ and are not both plain classes; distinct by encoding",
            "samples": samples, "worlds": stats["worlds"], "worlds_satisfying_theorem_hypotheses": stats["worlds_partial_order"],
            "unordered_pairs": stats["pairs"], "pairs_in_proved_domain_msym": stats["in_domain"],
            "asymmetric_pairs_attributed_to_known_findings": stats["asym_known"],
            "structural_relation_checks": stats["structural_checks"], "worlds_swept_again_after_a_late_virtual_subclass_registration": stats["late_registrations"], "outcome_histogram": dict(stats["outcomes"]),
            "vm_compute_crosscheck_cases": cross, "traces_validated_against_impl": stats["evaluations"]}


def replay(ctx, payload):
    case = payload["case"]
    w, objs, ords, subs = L.eval_impl(case)
    if case.get("late_registration"):
        ai, ri = case["late_registration"]
        w.user[ai].register(w.user[ri])
        n = len(objs)
        ords = [[L.impl_ord(objs[a], objs[b]) for b in range(n)] for a in range(n)]
    res = model.run_cases([L.model_case(w, case)])[0]
    print(json.dumps({"impl_typeorder": ords, "model_typeorder": res[0], "msym": res[2]}))
    n = len(objs)
    bad = any(ords[i][j] != res[0][i][j] for i in range(n) for j in range(n))
    bad = bad or any(isinstance(ords[i][j], list) or ords[j][i] != L.OPP[ords[i][j]] for i in range(n) for j in range(n))
    return bad


def replay_finding(ctx, e):
    wit = e["witness"]
    w, objs, ords, subs = L.eval_impl(wit)
    exp = wit["expect_typeorder"]
    return [ords[0][1], ords[1][0]] == exp and (e["status"] == "open" or objs[0] != objs[1] or exp != [0, 0])
