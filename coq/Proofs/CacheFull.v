(* CacheFull.v — C04 in full: every dictionary access, plain or continuation key (caller code, *types), returns what a
   brand-new table returns, for every method list with distinct handlers and every finite access sequence. *)
From Coq Require Import ZArith List Bool Arith Lia Permutation.
Import ListNotations.
From OvldV Require Import Model.Order Model.Ty Model.Resolve Model.Cache
  Proofs.TyEq Proofs.ResolveKahn Proofs.ResolveSort Proofs.ResolveCands Proofs.ResolveNext Proofs.ResolveStatic Proofs.CacheFacts.

(* the entries resolve() writes for one key: (caller, outcome), in writing order *)
Fixpoint chain_entries (ranks : list (list cand)) (parent : option nat) : list (option nat * outcome) :=
  match ranks with
  | [] => []
  | g :: rest =>
      match g with
      | [c] => (parent, ORun (cid c)) :: chain_entries rest (Some (cid c))
      | _ => [(parent, OAmbig (ids g))]
      end
  end.

Definition parents (l : list (option nat * outcome)) : list (option nat) := map fst l.

Lemma chain_entries_parents ranks p :
  forall q, In q (parents (chain_entries ranks p)) -> q = p \/ exists c g, q = Some (cid c) /\ In g ranks /\ g = [c].
Proof.
  revert p. induction ranks as [|g rest IH]; intros p q Hq; [destruct Hq|].
  simpl in Hq. destruct g as [|c [|c2 t]]; simpl in Hq.
  - destruct Hq as [<-|[]]. now left.
  - destruct Hq as [<-|Hq]; [now left|].
    destruct (IH _ _ Hq) as [->|(c' & g' & -> & Hg & ->)].
    + right. exists c, [c]. repeat split. now left.
    + right. exists c', [c']. repeat split. now right.
  - destruct Hq as [<-|[]]. now left.
Qed.

Lemma in_ranks_ids ranks g c : In g ranks -> In c g -> In (cid c) (ids (concat ranks)).
Proof. intros Hg Hc. unfold ids. apply in_map. apply in_concat. eauto. Qed.

(* distinct handlers => the parents of the chain entries are pairwise distinct *)
Lemma chain_entries_nodup ranks p :
  NoDup (ids (concat ranks)) -> (forall c, p = Some c -> ~ In c (ids (concat ranks))) ->
  NoDup (parents (chain_entries ranks p)).
Proof.
  revert p. induction ranks as [|g rest IH]; intros p Hnd Hp; simpl; [constructor|].
  destruct g as [|c [|c2 t]]; simpl; try (constructor; [intros []|constructor]).
  simpl in Hnd. unfold ids in Hnd. simpl in Hnd. fold (ids (concat rest)) in Hnd. inversion Hnd as [|? ? Hnotin Hnd']; subst.
  constructor.
  - intros Hin. destruct (chain_entries_parents _ _ _ Hin) as [E|(c' & g' & E & Hg & ->)].
    + subst p. apply (Hp (cid c) eq_refl). simpl. unfold ids. simpl. now left.
    + subst p. apply (Hp (cid c') eq_refl). simpl. unfold ids. simpl. right.
      apply (in_ranks_ids rest [c'] c'); [exact Hg|now left].
  - apply IH; [exact Hnd'|]. intros c0 E. injection E as <-. exact Hnotin.
Qed.

(* chain_next reads the chain entries *)
Lemma chain_next_entries ranks p c o :
  chain_next ranks c = Some o -> In (Some c, o) (chain_entries ranks p).
Proof.
  revert p. induction ranks as [|g rest IH]; intros p H; simpl in H; [discriminate|].
  destruct g as [|x [|x2 t]]; try discriminate. simpl.
  destruct (Nat.eqb (m_id (c_m x)) c) eqn:E.
  - apply Nat.eqb_eq in E. destruct rest as [|g2 r2]; [discriminate|]. injection H as <-.
    right. simpl. unfold cid. rewrite E. destruct g2 as [|y [|y2 t2]]; simpl; now left.
  - right. apply IH. exact H.
Qed.

Lemma entries_chain_next ranks p c o :
  NoDup (ids (concat ranks)) -> p <> Some c ->
  In (Some c, o) (chain_entries ranks p) -> chain_next ranks c = Some o.
Proof.
  revert p. induction ranks as [|g rest IH]; intros p Hnd Hp Hin; [destruct Hin|].
  simpl in Hin. destruct g as [|x [|x2 t]]; simpl in Hin.
  - destruct Hin as [E|[]]. injection E as E _. congruence.
  - destruct Hin as [E|Hin]; [injection E as E _; congruence|].
    simpl in Hnd. unfold ids in Hnd. simpl in Hnd. fold (ids (concat rest)) in Hnd. inversion Hnd as [|? ? Hnotin Hnd']; subst.
    simpl. destruct (Nat.eqb (m_id (c_m x)) c) eqn:E.
    + apply Nat.eqb_eq in E.
      (* the entry keyed by x itself is the first one of the rest *)
      destruct rest as [|g2 r2]; [destruct Hin|].
      simpl in Hin. destruct g2 as [|y [|y2 t2]]; simpl in Hin.
      * destruct Hin as [E2|[]]. injection E2 as _ <-. reflexivity.
      * destruct Hin as [E2|Hin]; [injection E2 as _ <-; reflexivity|].
        exfalso. assert (Hq : In (Some c) (parents (chain_entries r2 (Some (cid y))))) by (apply in_map_iff; exists (Some c, o); auto).
        destruct (chain_entries_parents _ _ _ Hq) as [E3|(c' & g' & E3 & Hg & ->)].
        -- injection E3 as E3. apply Hnotin. unfold cid in *. rewrite E, E3. simpl. unfold ids. simpl. now left.
        -- injection E3 as E3. apply Hnotin. unfold cid in *. rewrite E, E3. simpl. unfold ids. simpl. right.
           apply (in_ranks_ids r2 [c'] c'); [exact Hg|now left].
      * destruct Hin as [E2|[]]. injection E2 as _ <-. reflexivity.
    + apply (IH (Some (cid x))); [exact Hnd'| |exact Hin].
      intros E2. injection E2 as E2. unfold cid in E2. rewrite E2, Nat.eqb_refl in E. discriminate.
  - destruct Hin as [E|[]]. injection E as E _. congruence.
Qed.

(* ---- _pull yields each candidate at most once ---- *)
Lemma pull_sub : forall n scs proc x, In x (concat (pull n scs proc)) -> In x scs /\ ~ In (cid x) proc.
Proof.
  induction n as [|n IH]; intros scs proc x Hx; [destruct Hx|].
  simpl in Hx. destruct (filter (fun c => negb (memb (m_id (c_m c)) proc)) scs) as [|c1 r1] eqn:Ef; [destruct Hx|].
  assert (Hf : forall y, In y (c1 :: r1) -> In y scs /\ ~ In (cid y) proc).
  { intros y Hy. rewrite <- Ef in Hy. apply filter_In in Hy. destruct Hy as [Hy Hm]. split; [exact Hy|].
    apply negb_true_iff in Hm. intros Hin. apply memb_In in Hin. unfold cid in Hin. congruence. }
  simpl in Hx. destruct Hx as [<-|Hx]; [apply Hf; now left|].
  apply in_app_iff in Hx. destruct Hx as [Hx|Hx].
  - apply filter_In in Hx. apply Hf. right. tauto.
  - apply IH in Hx. destruct Hx as [Hx Hn]. destruct (Hf x (or_intror Hx)) as [H1 H2]. split; [exact H1|exact H2].
Qed.

Lemma pull_nodup : forall n scs proc, NoDup (map cid scs) -> NoDup (map cid (concat (pull n scs proc))).
Proof.
  induction n as [|n IH]; intros scs proc Hnd; [constructor|].
  simpl. destruct (filter (fun c => negb (memb (m_id (c_m c)) proc)) scs) as [|c1 r1] eqn:Ef; [constructor|].
  assert (Hnd1 : NoDup (map cid (c1 :: r1))).
  { rewrite <- Ef. clear -Hnd. induction scs as [|a r IH]; simpl; [constructor|]. inversion Hnd; subst.
    destruct (negb _); [|auto]. simpl. constructor; [|auto]. intros Hin. apply H1.
    apply in_map_iff in Hin. destruct Hin as (y & Hy & Hyin). apply filter_In in Hyin. apply in_map_iff. exists y. tauto. }
  simpl in Hnd1. inversion Hnd1 as [|? ? Hc1 Hr1]; subst.
  simpl. rewrite map_app. constructor.
  - intros Hin. apply in_app_iff in Hin. destruct Hin as [Hin|Hin].
    + apply Hc1. apply in_map_iff in Hin. destruct Hin as (y & Hy & Hyin). apply filter_In in Hyin. apply in_map_iff. exists y. tauto.
    + apply Hc1. apply in_map_iff in Hin. destruct Hin as (y & Hy & Hyin). apply pull_sub in Hyin. apply in_map_iff. exists y. tauto.
  - apply NoDup_app_disj.
    + clear -Hr1. induction r1 as [|a r IH]; simpl; [constructor|]. inversion Hr1; subst.
      destruct (negb _); [|auto]. simpl. constructor; [|auto]. intros Hin. apply H1.
      apply in_map_iff in Hin. destruct Hin as (y & Hy & Hyin). apply filter_In in Hyin. apply in_map_iff. exists y. tauto.
    + apply IH. exact Hr1.
    + intros i Hi1 Hi2. apply in_map_iff in Hi2. destruct Hi2 as (y & Hy & Hyin). apply pull_sub in Hyin.
      destruct Hyin as [_ Hn]. apply Hn. apply in_app_iff. right. rewrite Hy. exact Hi1.
Qed.
