(* RewriteSim.v — the simulation: evaluating the rewritten expression (as registered) and evaluating the original
   (with recurse / call_next bound to callables of the documented meaning) give related outcomes from related
   states, with the same fuel.  Mutual induction on the expression; closure calls by induction on the fuel. *)
From Coq Require Import ZArith List Bool Arith Lia.
Import ListNotations.
From OvldV Require Import Model.Rewrite Spec.RewriteRel Proofs.RewriteSyn Proofs.RewriteFoot Proofs.RewriteSimA.

Section Sim.
  Variable W : Type.
  Variable p : rwp.
  Variable typeof : bool -> sval -> nat.
  Variable tbl : nat -> list kpart -> option sval.
  Variable callv : sval -> list sval -> list (nat * sval) -> W -> outcome sval * W * list event.
  Variable binop : nat -> sval -> sval -> outcome sval.
  Variable getattr : sval -> nat -> outcome sval.
  Variable getitem : sval -> sval -> outcome sval.
  Variable truthy : sval -> bool.
  Variable fmt : list sval -> sval.
  Variable ugl : nat -> option sval.
  Variable mself : sval.

  Notation state := (state W).
  Notation frames := (s_frames W).
  Notation gvars := (s_gvars W).
  Notation vrel := (vrel p).
  Notation srel := (srel W p).
  Notation rsim := (rsim W p).
  Notation EV := (ev W p typeof tbl callv binop getattr getitem truthy fmt ugl mself).
  Notation EVL := (ev_list W p typeof tbl callv binop getattr getitem truthy fmt ugl mself).
  Notation EVB := (ev_bool W p typeof tbl callv binop getattr getitem truthy fmt ugl mself).
  Notation EVC := (ev_conds W p typeof tbl callv binop getattr getitem truthy fmt ugl mself).
  Notation EVA := (ev_args W p typeof tbl callv binop getattr getitem truthy fmt ugl mself).
  Notation EVK := (ev_kws W p typeof tbl callv binop getattr getitem truthy fmt ugl mself).
  Notation APPLY := (apply_val W p typeof tbl callv mself).
  Notation LC := (lookup_chain W p ugl mself).
  Notation TGET := (tget W).
  Notation FIXED := (tgt_fixed W).

  Lemma rsim_bind : forall A A' B B' (R : A -> A' -> Prop) (R2 : B -> B' -> Prop)
      (m : option (outcome A * state)) (m' : option (outcome A' * state)) k k',
    rsim R m m' ->
    (forall a a' s1 s1', m = Some (Val a, s1) -> m' = Some (Val a', s1') -> R a a' -> srel s1 s1' -> rsim R2 (k a s1) (k' a' s1')) ->
    rsim R2 (obind W m k) (obind W m' k').
  Proof.
    intros A A' B B' R R2 m m' k k' H Hk.
    destruct m as [[[a|x] s1]|], m' as [[[a'|x'] s1']|]; simpl in *; try tauto.
    destruct H. apply Hk; auto.
  Qed.

  Lemma rsim_ret : forall A A' (R : A -> A' -> Prop) a a' s s', out_rel R a a' -> srel s s' -> rsim R (Some (a, s)) (Some (a', s')).
  Proof. intros. simpl. auto. Qed.

  (* ---- unfolding equations of the evaluator *)
  Section Unfold.
    Variable reg : bool.
    Variable c : evalT W.
    Lemma ev_EAttr : forall rho e a s, EV reg c rho (EAttr e a) s = obind W (EV reg c rho e s) (fun v s1 => Some (lift (getattr (shape v) a), s1)).
    Proof. reflexivity. Qed.
    Lemma ev_EBin : forall rho op a b s, EV reg c rho (EBin op a b) s =
      obind W (EV reg c rho a s) (fun va s1 => obind W (EV reg c rho b s1) (fun vb s2 => Some (lift (binop op (shape va) (shape vb)), s2))).
    Proof. reflexivity. Qed.
    Lemma ev_EBool : forall rho o es s, EV reg c rho (EBool o es) s = EVB reg c o rho es s.
    Proof. reflexivity. Qed.
    Lemma ev_EIf : forall rho x a b s, EV reg c rho (EIf x a b) s =
      obind W (EV reg c rho x s) (fun vc s1 => if truthy (shape vc) then EV reg c rho a s1 else EV reg c rho b s1).
    Proof. reflexivity. Qed.
    Lemma ev_ECall : forall rho f ar kw s, EV reg c rho (ECall f ar kw) s =
      obind W (EV reg c rho f s) (fun vf s1 =>
      obind W (EVA reg c rho ar s1) (fun vs s2 =>
      obind W (EVK reg c rho kw s2) (fun ks s3 => APPLY c vf vs ks s3))).
    Proof. reflexivity. Qed.
    Lemma ev_ENamed : forall rho x e s, EV reg c rho (ENamed x e) s = obind W (EV reg c rho e s) (fun v s1 => Some (Val v, assign W s1 rho x v)).
    Proof. reflexivity. Qed.
    Lemma ev_EFstr : forall rho es s, EV reg c rho (EFstr es) s = obind W (EVL reg c rho es s) (fun vs s1 => Some (Val (inj (fmt (map shape vs))), s1)).
    Proof. reflexivity. Qed.
    Lemma ev_EEffect : forall rho t e s, EV reg c rho (EEffect t e) s =
      obind W (EV reg c rho e s) (fun v s1 => Some (Val v, log W s1 [(t, shape v)] (s_world W s1))).
    Proof. reflexivity. Qed.
    Lemma ev_ETuple : forall rho es s, EV reg c rho (ETuple es) s = obind W (EVL reg c rho es s) (fun vs s1 => Some (Val (VSeq 1 vs), s1)).
    Proof. reflexivity. Qed.
    Lemma ev_ESub : forall rho a i s, EV reg c rho (ESub a i) s =
      obind W (EV reg c rho a s) (fun va s1 => obind W (EV reg c rho i s1) (fun vi s2 => Some (subscript tbl getitem va vi, s2))).
    Proof. reflexivity. Qed.
    Lemma ev_EConst : forall rho k s, EV reg c rho (EConst k) s = Some (Val (vconst k), s).
    Proof. reflexivity. Qed.
    Lemma ev_ELam : forall rho ps b s, EV reg c rho (ELam ps b) s = Some (Val (VClos ps b rho), s).
    Proof. reflexivity. Qed.
    Lemma evl_nil : forall rho s, EVL reg c rho ENil s = Some (Val [], s).
    Proof. reflexivity. Qed.
    Lemma eva_nil : forall rho s, EVA reg c rho ANil s = Some (Val [], s).
    Proof. reflexivity. Qed.
    Lemma evk_nil : forall rho s, EVK reg c rho KNil s = Some (Val [], s).
    Proof. reflexivity. Qed.
    Lemma ev_EName : forall rho x s, EV reg c rho (EName x) s =
      Some (match LC reg s rho x with Some v => Val v | None => Raise (XName x) end, s).
    Proof. reflexivity. Qed.
    Definition comp_loop (rho : list nat) (elt : expr) (x : name) (conds : exprs) (fid : nat) :=
      fix loop (l : list val) (acc : list val) (s : state) {struct l} : option (res * state) :=
        match l with
        | [] => Some (Val (VSeq 0 (rev acc)), s)
        | v :: l' =>
            obind W (EVC reg c (fid :: rho) conds (bind_in W s fid x v)) (fun ok s' =>
              if (ok : bool)
              then obind W (EV reg c (fid :: rho) elt s') (fun ve s'' => loop l' (ve :: acc) s'')
              else loop l' acc s')
        end.
    Lemma ev_EComp : forall rho elt x it conds s, EV reg c rho (EComp elt x it conds) s =
      obind W (EV reg c rho it s) (fun vi s1 =>
        match items vi with
        | None => Some (Raise XType, s1)
        | Some l => comp_loop rho elt x conds (length (frames s1)) l [] (push W s1 {| f_comp := true; f_vars := [] |})
        end).
    Proof. reflexivity. Qed.
    Lemma evl_cons : forall rho e r s, EVL reg c rho (ECons e r) s =
      obind W (EV reg c rho e s) (fun v s1 => obind W (EVL reg c rho r s1) (fun vs s2 => Some (Val (v :: vs), s2))).
    Proof. reflexivity. Qed.
    Lemma evb_cons : forall o rho e r s, EVB reg c o rho (ECons e r) s =
      match r with
      | ENil => EV reg c rho e s
      | ECons _ _ => obind W (EV reg c rho e s) (fun v s1 =>
                       if Bool.eqb (truthy (shape v)) o then Some (Val v, s1) else EVB reg c o rho r s1)
      end.
    Proof. reflexivity. Qed.
    Lemma evc_cons : forall rho e r s, EVC reg c rho (ECons e r) s =
      obind W (EV reg c rho e s) (fun v s1 => if truthy (shape v) then EVC reg c rho r s1 else Some (Val false, s1)).
    Proof. reflexivity. Qed.
    Lemma eva_cons : forall rho st e r s, EVA reg c rho (ACons st e r) s =
      obind W (EV reg c rho e s) (fun v s1 =>
        if st
        then match items v with
             | None => Some (Raise XType, s1)
             | Some l => obind W (EVA reg c rho r s1) (fun vs s2 => Some (Val (l ++ vs), s2))
             end
        else obind W (EVA reg c rho r s1) (fun vs s2 => Some (Val (v :: vs), s2))).
    Proof. reflexivity. Qed.
    Lemma evk_cons : forall rho o e r s, EVK reg c rho (KCons o e r) s =
      obind W (EV reg c rho e s) (fun v s1 =>
        match o with
        | Some k => obind W (EVK reg c rho r s1) (fun ks s2 => Some (Val ((k, v) :: ks), s2))
        | None => match unpack_dict v with
                  | None => Some (Raise XType, s1)
                  | Some l => obind W (EVK reg c rho r s1) (fun ks s2 => Some (Val (l ++ ks), s2))
                  end
        end).
    Proof. reflexivity. Qed.
  End Unfold.

  Section WithCb.
    Variable cb cb' : evalT W.
    Hypothesis cb_sim : forall rho b k s s', dom p b = true -> srel s s' -> FIXED s' rho ->
                                             rsim vrel (cb rho b s) (cb' rho (fst (rw p k b)) s').
    Hypothesis cb_fp : forall rho b s r s1, FIXED s rho -> cb' rho b s = Some (r, s1) ->
                                            FP W (length (frames s)) (fun _ => true) rho s s1.

    Notation FOOT := (footprint_all W p typeof tbl callv binop getattr getitem truthy fmt ugl mself true cb' cb_fp).

    Lemma stepR : forall e rho s r s1, FIXED s rho -> EV true cb' rho e s = Some (r, s1) ->
      FIXED s1 rho /\ forall x, asg x e = false -> TGET s1 rho x = TGET s rho x.
    Proof.
      intros e rho s r s1 Ht H. pose proof (proj1 FOOT e rho s r s1 Ht H) as F. split.
      - eapply FPE_step_fixed; eauto.
      - apply F.
    Qed.
    Lemma stepRL : forall es rho s r s1, FIXED s rho -> EVL true cb' rho es s = Some (r, s1) ->
      FIXED s1 rho /\ forall x, asg_list x es = false -> TGET s1 rho x = TGET s rho x.
    Proof.
      intros es rho s r s1 Ht H. pose proof (proj1 (proj1 (proj2 FOOT) es) rho s r s1 Ht H) as F. split.
      - eapply FPE_step_fixed; eauto.
      - apply F.
    Qed.
    Lemma stepRB : forall es o rho s r s1, FIXED s rho -> EVB true cb' o rho es s = Some (r, s1) -> FIXED s1 rho.
    Proof.
      intros es o rho s r s1 Ht H. pose proof (proj1 (proj2 (proj1 (proj2 FOOT) es)) o rho s r s1 Ht H) as F.
      eapply FPE_step_fixed; eauto.
    Qed.
    Lemma stepRC : forall es rho s r s1, FIXED s rho -> EVC true cb' rho es s = Some (r, s1) -> FIXED s1 rho.
    Proof.
      intros es rho s r s1 Ht H. pose proof (proj2 (proj2 (proj1 (proj2 FOOT) es)) rho s r s1 Ht H) as F.
      eapply FPE_step_fixed; eauto.
    Qed.
    Lemma stepRA : forall a rho s r s1, FIXED s rho -> EVA true cb' rho a s = Some (r, s1) -> FIXED s1 rho.
    Proof.
      intros a rho s r s1 Ht H. pose proof (proj1 (proj2 (proj2 FOOT)) a rho s r s1 Ht H) as F.
      eapply FPE_step_fixed; eauto.
    Qed.
    Lemma stepRK : forall a rho s r s1, FIXED s rho -> EVK true cb' rho a s = Some (r, s1) -> FIXED s1 rho.
    Proof.
      intros a rho s r s1 Ht H. pose proof (proj2 (proj2 (proj2 FOOT)) a rho s r s1 Ht H) as F.
      eapply FPE_step_fixed; eauto.
    Qed.

    (* ---- applying related callables to related arguments *)
    Lemma combine_rel : forall ps ar ar', Forall2 vrel ar ar' -> forallb (binder_ok p) ps = true ->
      vars_rel p (combine ps ar) (combine ps ar') /\ vars_clean p (combine ps ar) /\ vars_clean p (combine ps ar').
    Proof.
      induction ps as [|x ps IH]; intros ar ar' Ha Hb; simpl.
      - repeat split; intros y Hy; simpl; auto.
      - simpl in Hb. apply andb_true_iff in Hb. destruct Hb as [Hx Hps].
        destruct Ha as [|v v' l l' Hv Hl]; simpl.
        + repeat split; intros y Hy; simpl; auto.
        + destruct (IH _ _ Hl Hps) as (I1 & I2 & I3).
          destruct (binder_ok_user _ _ Hx) as (i & -> & _ & _).
          assert (Hsp : special p (NUser i) = false).
          { simpl in Hx |- *. bsplit. rewrite H, H1. simpl in H0. rewrite H0. reflexivity. }
          repeat split.
          * apply vars_rel_cons; auto.
          * apply vars_clean_cons; auto.
          * apply vars_clean_cons; auto.
    Qed.

    Lemma apply_rel : forall f f' ar ar' kw kw' s s', vrel f f' -> Forall2 vrel ar ar' -> kw_rel p kw kw' -> srel s s' ->
      rsim vrel (APPLY cb f ar kw s) (APPLY cb' f' ar' kw' s').
    Proof.
      intros f f' ar ar' kw kw' s s' Hf Ha Hk Hs.
      assert (Hu : forall c c', shape c = shape c' ->
                 rsim vrel (Some (call_user W callv (shape c) ar kw s)) (Some (call_user W callv (shape c') ar' kw' s'))).
      { intros c c' ->. pose proof (call_user_rel W p callv (shape c') ar ar' kw kw' s s' Ha Hk Hs) as [H1 H2].
        destruct (call_user W callv (shape c') ar kw s), (call_user W callv (shape c') ar' kw' s'). simpl in *. auto. }
      assert (Hp : forall q, rsim vrel (Some (call_prim W p typeof tbl callv mself q ar kw s)) (Some (call_prim W p typeof tbl callv mself q ar' kw' s'))).
      { intros q. pose proof (call_prim_rel W p typeof tbl callv mself q ar ar' kw kw' s s' Ha Hk Hs) as [H1 H2].
        destruct (call_prim W p typeof tbl callv mself q ar kw s), (call_prim W p typeof tbl callv mself q ar' kw' s'). simpl in *. auto. }
      destruct Hf as [z|z| |z|z|z|k l l' Hl|ps b fr k0 Hd Hb|q|Hm]; unfold apply_val; cbv iota beta; try (apply (Hu _ _ eq_refl)); auto.
      - apply (Hu (VSeq k l) (VSeq k l')). simpl. f_equal. apply (shapes_rel p). assumption.
      - (* closures *)
        destruct Hk; [|simpl; auto].
        assert (Hl : length ar = length ar') by (clear -Ha; induction Ha; simpl; auto). rewrite <- Hl.
        destruct (Nat.eqb (length ps) (length ar)); [|simpl; auto].
        rewrite <- (frames_len W p s s' Hs).
        destruct (combine_rel ps ar ar' Ha Hb) as (I1 & I2 & I3).
        apply cb_sim; auto.
        + apply push_rel; auto. repeat split; simpl; auto. discriminate.
        + simpl. rewrite (frames_len W p s s' Hs). rewrite nth_error_app2 by lia. rewrite Nat.sub_diag. simpl. exact I.
      - (* recurse as a bare name in a function *)
        rewrite (call_rec_ovld W p typeof tbl callv mself Hm). apply Hp.
    Qed.

    (* ---- the pieces of a rewritten call site *)
    Fixpoint tyvals (i : nat) (vs : list val) : list val :=
      match vs with [] => [] | v :: r => VTy (typeof (subtle (an p) (KPos i)) (shape v)) :: tyvals (S i) r end.
    Definition kwvals (ks : list (nat * val)) : list val :=
      map (fun kv => VSeq 1 [VStr (fst kv); VTy (typeof (subtle (an p) (KKw (Some (fst kv)))) (shape (snd kv)))]) ks.

    Lemma key_of_app : forall a b ka kb, key_of a = Some ka -> key_of b = Some kb -> key_of (a ++ b) = Some (ka ++ kb).
    Proof.
      induction a as [|v a IH]; simpl; intros b ka kb Ha Hb.
      - injection Ha as <-. assumption.
      - destruct (key_part v); [|discriminate]. destruct (key_of a) eqn:E; [|discriminate]. injection Ha as <-.
        rewrite (IH b l kb eq_refl Hb). reflexivity.
    Qed.
    Lemma key_of_tyvals : forall vs i, key_of (tyvals i vs) = Some (pos_key p typeof i vs).
    Proof. induction vs; intros i; simpl; auto. rewrite IHvs. reflexivity. Qed.
    Lemma key_of_kwvals : forall ks, key_of (kwvals ks) = Some (kw_key p typeof ks).
    Proof. induction ks as [|[k v] ks IH]; [reflexivity|]. unfold kwvals, kw_key in *. simpl. rewrite IH. reflexivity. Qed.

    Lemma ev_list_app : forall reg c rho a b s,
      EVL reg c rho (eapp a b) s =
      obind W (EVL reg c rho a s) (fun va s1 => obind W (EVL reg c rho b s1) (fun vb s2 => Some (Val (va ++ vb), s2))).
    Proof.
      induction a as [|e a IH]; intros b s.
      - simpl. destruct (EVL reg c rho b s) as [[[vb|x] s2]|]; reflexivity.
      - change (eapp (ECons e a) b) with (ECons e (eapp a b)). rewrite !evl_cons.
        destruct (EV reg c rho e s) as [[[v|x] s1]|]; simpl; auto.
        rewrite IH. destruct (EVL reg c rho a s1) as [[[va|x] s2]|]; simpl; auto.
        destruct (EVL reg c rho b s2) as [[[vb|x] s3]|]; simpl; auto.
    Qed.

    Definition site_pos_sim (n i : nat) (a : args) (rho : list nat)
        (m m' : option (outcome (list val) * state)) : Prop :=
      match m, m' with
      | None, None => True
      | Some (Raise x, s1), Some (Raise x', s1') => x = x' /\ srel s1 s1'
      | Some (Val vs, s1), Some (Val ts, s1') =>
          srel s1 s1' /\ exists vs', Forall2 vrel vs vs' /\ ts = tyvals i vs' /\ length vs' = args_len a /\
            forall j v', nth_error vs' j = Some v' -> TGET s1' rho (NTmp n (KPos (i + j))) = Some v'
      | _, _ => False
      end.

    Definition site_kw_sim (n : nat) (a : kws) (rho : list nat)
        (m : option (outcome (list (nat * val)) * state)) (m' : option (outcome (list val) * state)) : Prop :=
      match m, m' with
      | None, None => True
      | Some (Raise x, s1), Some (Raise x', s1') => x = x' /\ srel s1 s1'
      | Some (Val ks, s1), Some (Val ts, s1') =>
          srel s1 s1' /\ exists ks', kw_rel p ks ks' /\ ts = kwvals ks' /\ map (fun kv => Some (fst kv)) ks' = kw_keys a /\
            forall k v', In (k, v') ks' -> TGET s1' rho (NTmp n (KKw (Some k))) = Some v'
      | _, _ => False
      end.

    Lemma lc_special : forall s s' rho x reg, srel s s' -> special p x = true ->
      LC reg s rho x = genv p ugl mself reg x /\ LC reg s' rho x = genv p ugl mself reg x.
    Proof. intros. destruct (lookup_special W p ugl mself s s' rho x H H0) as [A B]. auto. Qed.

    Lemma ev_tmp_args : forall a n i vs' rho s s0, srel s0 s -> FIXED s rho -> length vs' = args_len a ->
      (forall j v', nth_error vs' j = Some v' -> TGET s rho (NTmp n (KPos (i + j))) = Some v') ->
      EVA true cb' rho (tmp_args n i a) s = Some (Val vs', s).
    Proof.
      induction a as [|st e a IH]; intros n i vs' rho s s0 Hs Ht Hl Hg.
      - simpl in Hl. destruct vs'; [reflexivity | discriminate].
      - simpl in Hl. destruct vs' as [|v vs']; [discriminate|]. injection Hl as Hl.
        pose proof (Hg 0 v eq_refl) as H0. rewrite Nat.add_0_r in H0.
        change (tmp_args n i (ACons st e a)) with (ACons false (EName (NTmp n (KPos i))) (tmp_args n (S i) a)).
        rewrite eva_cons, ev_EName.
        rewrite (tget_lookup W p ugl mself true s0 s rho n (KPos i) v Hs Ht H0). cbn [obind].
        rewrite (IH n (S i) vs' rho s s0 Hs Ht Hl); [reflexivity|].
        intros j v' Hj. replace (S i + j) with (i + S j) by lia. apply Hg. exact Hj.
    Qed.

    Lemma ev_tmp_kws : forall a n ks' rho s s0, srel s0 s -> FIXED s rho ->
      map (fun kv => Some (fst kv)) ks' = kw_keys a ->
      (forall k v', In (k, v') ks' -> TGET s rho (NTmp n (KKw (Some k))) = Some v') ->
      EVK true cb' rho (tmp_kws n a) s = Some (Val ks', s).
    Proof.
      induction a as [|o e a IH]; intros n ks' rho s s0 Hs Ht Hm Hg.
      - simpl in Hm. destruct ks'; [reflexivity | discriminate].
      - simpl in Hm. destruct ks' as [|[k v] ks']; [discriminate|]. simpl in Hm. injection Hm as <- Hm.
        change (tmp_kws n (KCons (Some k) e a)) with (KCons (Some k) (EName (NTmp n (KKw (Some k)))) (tmp_kws n a)).
        rewrite evk_cons, ev_EName.
        rewrite (tget_lookup W p ugl mself true s0 s rho n (KKw (Some k)) v Hs Ht (Hg k v (or_introl eq_refl))). cbn [obind].
        rewrite (IH n ks' rho s s0 Hs Ht Hm); [reflexivity|].
        intros k0 v0 Hin. apply Hg. right. exact Hin.
    Qed.

    Lemma take_kw_none : forall k kw, ~ In k (map fst kw) -> take_kw k kw = None.
    Proof.
      induction kw as [|[j v] kw IH]; simpl; intros H; auto.
      destruct (Nat.eqb j k) eqn:E; [apply Nat.eqb_eq in E; subst; exfalso; apply H; auto|].
      rewrite IH; auto.
    Qed.
    Lemma mem_okey_skipn : forall k n l, mem_okey k (skipn n l) = true -> mem_okey k l = true.
    Proof.
      induction n; intros l H; simpl in H; auto. destruct l; simpl in *; auto.
      rewrite (IHn _ H). apply orb_true_r.
    Qed.
    Lemma entry_bind_id : forall ar kw, (forall k, In k (map fst kw) -> mem_okey (Some k) (a_posnames (an p)) = false) ->
      entry_bind p ar kw = Some (ar, kw).
    Proof.
      intros ar kw H. unfold entry_bind.
      assert (Hb : bind_more (skipn (length ar) (a_posnames (an p))) ar kw = (ar, kw)).
      { destruct (skipn (length ar) (a_posnames (an p))) as [|[k|] names] eqn:E; simpl; auto.
        rewrite take_kw_none; auto. intros Hin. specialize (H k Hin).
        assert (mem_okey (Some k) (a_posnames (an p)) = true).
        { apply (mem_okey_skipn _ (length ar)). rewrite E. simpl. rewrite Nat.eqb_refl. reflexivity. }
        congruence. }
      rewrite Hb.
      assert (He : existsb (fun kv => mem_okey (Some (fst kv)) (a_posnames (an p))) kw = false).
      { clear Hb. induction kw as [|[k v] kw IH]; simpl; auto. rewrite (H k (or_introl eq_refl)). simpl.
        apply IH. intros k0 Hk. apply H. right. exact Hk. }
      rewrite He. reflexivity.
    Qed.

    Lemma apply_inj : forall c0 c ar kw s, APPLY c0 (inj c) ar kw s = Some (call_user W callv c ar kw s).
    Proof.
      intros c0 c ar kw s. assert (H : APPLY c0 (inj c) ar kw s = Some (call_user W callv (shape (inj c)) ar kw s)) by (destruct c; reflexivity).
      rewrite H, (shape_inj c). reflexivity.
    Qed.

    Lemma site_sym : forall f cn, site p f = Some cn ->
      exists i, f = EName (NUser i) /\ special p (NUser i) = true /\
                forall reg, genv p ugl mself reg (NUser i) = Some (VPrim (if cn then PCallNext else PRecurse)).
    Proof.
      intros f cn H. destruct f; try discriminate. destruct x; try discriminate. simpl in H. exists i.
      destruct (is_sym (p_cs p) i) eqn:Ec.
      - injection H as <-. repeat split; simpl; rewrite Ec; auto. apply orb_true_iff. left. apply orb_true_r.
      - destruct (is_sym (p_rs p) i) eqn:Er; [|discriminate]. injection H as <-. repeat split; simpl; rewrite Er; auto.
        rewrite Ec. reflexivity.
    Qed.

    Lemma kw_keys_named : forall kw, forallb (kw_named_ok p) (kw_keys kw) = true ->
      forall ks : list (nat * val), map (fun kv => Some (fst kv)) ks = kw_keys kw ->
      forall k, In k (map fst ks) -> mem_okey (Some k) (a_posnames (an p)) = false.
    Proof.
      intros kw H ks Hm k Hin. rewrite forallb_forall in H.
      assert (Hk : In (Some k) (kw_keys kw)).
      { rewrite <- Hm. apply in_map_iff in Hin. destruct Hin as ([k0 v0] & <- & Hin). apply in_map_iff. exists (k0, v0). auto. }
      specialize (H _ Hk). simpl in H. apply negb_true_iff in H. exact H.
    Qed.

    Lemma site_case : forall f ar kw cn k rho s s',
      site p f = Some cn -> has_star ar = false ->
      dom_kws p kw = true -> forallb (kw_named_ok p) (kw_keys kw) = true ->
      srel s s' -> FIXED s' rho ->
      site_pos_sim k 0 ar rho (EVA false cb rho ar s) (EVL true cb' rho (fst (rw_pos p k 0 (S k) ar)) s') ->
      (forall s2 s2', srel s2 s2' -> FIXED s2' rho ->
          site_kw_sim k kw rho (EVK false cb rho kw s2)
                      (EVL true cb' rho (fst (rw_kwparts p k (snd (rw_pos p k 0 (S k) ar)) kw)) s2')) ->
      rsim vrel (EV false cb rho (ECall f ar kw) s)
                (EV true cb' rho
                    (ECall (ESub (EName (NMap (p_id p)))
                                 (ETuple (code_part p cn (eapp (fst (rw_pos p k 0 (S k) ar))
                                                             (fst (rw_kwparts p k (snd (rw_pos p k 0 (S k) ar)) kw))))))
                           (self_arg p (tmp_args k 0 ar)) (tmp_kws k kw)) s').
    Proof.
      intros f ar kw cn k rho s s' Hsite Hstar Hdk Hnamed Hs Ht Hpos Hkw.
      destruct (site_sym f cn Hsite) as (i & -> & Hsp & Hgenv).
      set (pparts := fst (rw_pos p k 0 (S k) ar)) in *.
      set (k1 := snd (rw_pos p k 0 (S k) ar)) in *.
      set (kparts := fst (rw_kwparts p k k1 kw)) in *.
      rewrite !ev_ECall, ev_ESub, !ev_EName.
      destruct (lc_special s s' rho (NUser i) false Hs Hsp) as [-> _]. rewrite Hgenv.
      destruct (lc_special s s' rho (NMap (p_id p)) true Hs eq_refl) as [_ ->]. simpl genv. cbn [obind].
      rewrite ev_ETuple.
      (* the key tuple: code object first for call_next *)
      assert (Hparts : EVL true cb' rho (code_part p cn (eapp pparts kparts)) s' =
                       obind W (EVL true cb' rho (eapp pparts kparts) s')
                             (fun vs s1 => Some (Val ((if cn then [VPrim (PCode (p_code p))] else []) ++ vs), s1))).
      { destruct cn; simpl code_part.
        - rewrite evl_cons, ev_EName. destruct (lc_special s s' rho (NCode (p_code p)) true Hs eq_refl) as [_ ->]. simpl genv. cbn [obind].
          destruct (EVL true cb' rho (eapp pparts kparts) s') as [[[v|x] s1]|]; reflexivity.
        - destruct (EVL true cb' rho (eapp pparts kparts) s') as [[[v|x] s1]|]; reflexivity. }
      rewrite Hparts, ev_list_app. clear Hparts.
      destruct (EVA false cb rho ar s) as [[[vs|x] s1]|] eqn:EA;
        destruct (EVL true cb' rho pparts s') as [[[ts|x'] s1']|] eqn:EP; simpl in Hpos; try contradiction; cbn [obind]; auto.
      destruct Hpos as (Hs1 & vs' & Hvs & -> & Hlen & Hget).
      destruct (stepRL _ _ _ _ _ Ht EP) as [Ht1 _].
      specialize (Hkw s1 s1' Hs1 Ht1).
      destruct (EVK false cb rho kw s1) as [[[ks|x] s2]|] eqn:EK;
        destruct (EVL true cb' rho kparts s1') as [[[ts|x'] s2']|] eqn:EKP; simpl in Hkw; try contradiction; cbn [obind]; auto.
      destruct Hkw as (Hs2 & ks' & Hks & -> & Hkeys & Hgetk).
      destruct (stepRL _ _ _ _ _ Ht1 EKP) as [Ht2 Hstab].
      (* the positional temporaries survive the evaluation of the keyword parts *)
      assert (Hget2 : forall j v', nth_error vs' j = Some v' -> TGET s2' rho (NTmp k (KPos (0 + j))) = Some v').
      { intros j v' Hj. rewrite Hstab; [apply Hget; exact Hj|].
        unfold kparts. destruct (proj2 (proj2 (proj2 (asg_small_all p))) kw Hdk k1 k (KPos (0 + j))) as [_ Hx].
        - unfold k1. pose proof (rw_pos_mono p ar k 0 (S k)). lia.
        - apply Hx. intros _ Hin. apply in_map_iff in Hin. destruct Hin as (o & Ho & _). discriminate. }
      (* the table lookup *)
      unfold subscript.
      assert (Hkey : key_of ((if cn then [VPrim (PCode (p_code p))] else []) ++ tyvals 0 vs' ++ kwvals ks') =
                     Some ((if cn then [KC (p_code p)] else []) ++ pos_key p typeof 0 vs' ++ kw_key p typeof ks')).
      { apply key_of_app; [destruct cn; reflexivity|]. apply key_of_app; [apply key_of_tyvals | apply key_of_kwvals]. }
      rewrite Hkey.
      (* the original: the documented callable *)
      assert (Hfst : map fst ks = map fst ks') by (apply (kw_rel_fsts p); exact Hks).
      assert (Hkeys0 : map (fun kv => Some (fst kv)) ks = kw_keys kw).
      { rewrite <- Hkeys. clear -Hfst. revert ks' Hfst. induction ks as [|[a b] ks IH]; intros [|[a' b'] ks'] H; simpl in *; try discriminate; auto.
        injection H as -> H. rewrite (IH _ H). reflexivity. }
      assert (Hbind : entry_bind p vs ks = Some (vs, ks)).
      { apply entry_bind_id. apply (kw_keys_named kw Hnamed ks Hkeys0). }
      assert (Hl : APPLY cb (VPrim (if cn then PCallNext else PRecurse)) vs ks s2 =
                   Some (match tbl (p_id p) ((if cn then [KC (p_code p)] else []) ++ pos_key p typeof 0 vs' ++ kw_key p typeof ks') with
                         | None => (Raise XNoMethod, s2)
                         | Some c => call_user W callv c (self_list p mself ++ vs) ks s2
                         end)).
      { unfold apply_val. rewrite <- (pos_key_rel p typeof vs vs' 0 Hvs), <- (kw_key_rel p typeof ks ks' Hks).
        destruct cn; simpl call_prim; unfold dispatch; rewrite Hbind; reflexivity. }
      rewrite Hl. clear Hl.
      destruct (tbl _) as [c|]; cbn [obind]; [|apply rsim_ret; simpl; auto].
      (* reading the temporaries back *)
      assert (Hargs : EVA true cb' rho (self_arg p (tmp_args k 0 ar)) s2' = Some (Val (self_list p mself ++ vs'), s2')).
      { unfold self_arg, self_list, an. destruct (a_method (p_anal p)) eqn:Em.
        - rewrite eva_cons, ev_EName.
          destruct (lc_special s2 s2' rho NSelf true Hs2 eq_refl) as [_ ->]. simpl genv. unfold an. rewrite Em. cbn [obind].
          rewrite (ev_tmp_args ar k 0 vs' rho s2' s2 Hs2 Ht2 Hlen Hget2). reflexivity.
        - apply (ev_tmp_args ar k 0 vs' rho s2' s2 Hs2 Ht2 Hlen Hget2). }
      rewrite Hargs. cbn [obind].
      rewrite (ev_tmp_kws kw k ks' rho s2' s2 Hs2 Ht2 Hkeys Hgetk). cbn [obind].
      rewrite apply_inj.
      pose proof (call_user_rel W p callv c (self_list p mself ++ vs) (self_list p mself ++ vs') ks ks' s2 s2'
                    (Forall2_app (self_list_rel p mself) Hvs) Hks Hs2) as [H1 H2].
      destruct (call_user W callv c (self_list p mself ++ vs) ks s2), (call_user W callv c (self_list p mself ++ vs') ks' s2').
      apply rsim_ret; assumption.
    Qed.

    (* ---- the simulation, by mutual induction on the syntax *)
    Definition SimE (e : expr) : Prop :=
      dom p e = true -> forall k rho s s', srel s s' -> FIXED s' rho ->
        rsim vrel (EV false cb rho e s) (EV true cb' rho (fst (rw p k e)) s').
    Definition SimL (es : exprs) : Prop :=
      dom_list p es = true -> forall k rho s s', srel s s' -> FIXED s' rho ->
        rsim (Forall2 vrel) (EVL false cb rho es s) (EVL true cb' rho (fst (rw_list p k es)) s') /\
        (forall o, rsim vrel (EVB false cb o rho es s) (EVB true cb' o rho (fst (rw_list p k es)) s')) /\
        rsim eq (EVC false cb rho es s) (EVC true cb' rho (fst (rw_list p k es)) s').
    Definition SimA (a : args) : Prop :=
      dom_args p a = true -> forall k rho s s', srel s s' -> FIXED s' rho ->
        rsim (Forall2 vrel) (EVA false cb rho a s) (EVA true cb' rho (fst (rw_args p k a)) s') /\
        (has_star a = false -> forall n i, n < k ->
           site_pos_sim n i a rho (EVA false cb rho a s) (EVL true cb' rho (fst (rw_pos p n i k a)) s')).
    Definition SimK (a : kws) : Prop :=
      dom_kws p a = true -> forall k rho s s', srel s s' -> FIXED s' rho ->
        rsim (kw_rel p) (EVK false cb rho a s) (EVK true cb' rho (fst (rw_kws p k a)) s') /\
        (forallb (kw_named_ok p) (kw_keys a) = true -> nodup_kwnames (kw_keys a) = true -> forall n, n < k ->
           site_kw_sim n a rho (EVK false cb rho a s) (EVL true cb' rho (fst (rw_kwparts p n k a)) s')).

    Lemma items_rel : forall v v', vrel v v' ->
      match items v, items v' with Some l, Some l' => Forall2 vrel l l' | None, None => True | _, _ => False end.
    Proof.
      intros v v' H. destruct H; simpl; auto. destruct k as [|[|k]]; simpl; auto.
    Qed.

    Lemma dict_item_rel : forall x x', vrel x x' ->
      match dict_item x, dict_item x' with
      | Some (k, v), Some (k', v') => k = k' /\ vrel v v'
      | None, None => True
      | _, _ => False
      end.
    Proof.
      intros x x' H. destruct H as [z|z| |z|z|z|k a a' Ha|? ? ? ? ? ?|q|Hm]; simpl; auto.
      destruct k as [|[|k]]; simpl; auto.
      destruct Ha as [|u u' r r' Hu Hr]; simpl; auto.
      destruct Hr as [|w w' r r' Hw Hr]; simpl; auto.
      destruct Hr; simpl; auto.
      rewrite (vrel_shape p _ _ Hu). destruct (shape u'); simpl; auto.
    Qed.

    Lemma dict_items_rel : forall l l', Forall2 vrel l l' ->
      match dict_items l, dict_items l' with Some a, Some b => kw_rel p a b | None, None => True | _, _ => False end.
    Proof.
      induction 1 as [|v v' l l' Hv Hl IH]; simpl; [constructor|].
      pose proof (dict_item_rel _ _ Hv) as Hi.
      destruct (dict_item v) as [[k a]|], (dict_item v') as [[k' a']|]; try contradiction; auto.
      destruct (dict_items l), (dict_items l'); try contradiction; auto.
      destruct Hi as [-> Ha]. constructor; auto.
    Qed.

    Lemma unpack_dict_rel : forall v v', vrel v v' ->
      match unpack_dict v, unpack_dict v' with Some a, Some b => kw_rel p a b | None, None => True | _, _ => False end.
    Proof.
      intros v v' H. destruct H; simpl; auto. destruct k as [|[|[|k]]]; simpl; auto. apply dict_items_rel. assumption.
    Qed.

    Lemma key_part_rel : forall v v', vrel v v' -> key_part v = key_part v'.
    Proof.
      intros v v' H. pose proof (vrel_shape p _ _ H) as Hsh. destruct H; try reflexivity.
      unfold key_part. rewrite Hsh. reflexivity.
    Qed.
    Lemma key_of_rel : forall l l', Forall2 vrel l l' -> key_of l = key_of l'.
    Proof. induction 1; simpl; auto. rewrite (key_part_rel _ _ H), IHForall2. reflexivity. Qed.

    Lemma subscript_rel : forall v v' i i', vrel v v' -> vrel i i' ->
      out_rel vrel (subscript tbl getitem v i) (subscript tbl getitem v' i').
    Proof.
      intros v v' i i' Hv Hi.
      assert (Hg : out_rel vrel (lift (getitem (shape v) (shape i))) (lift (getitem (shape v') (shape i')))).
      { rewrite (vrel_shape p _ _ Hv), (vrel_shape p _ _ Hi). apply orel_lift. }
      destruct Hv as [z|z| |z|z|z|k a a' Ha|? ? ? ? ? ?|q|Hm]; try exact Hg.
      destruct q; try exact Hg. unfold subscript.
      destruct Hi as [z|z| |z|z|z|k a a' Ha|? ? ? ? ? ?|q|Hm]; simpl; auto.
      destruct k as [|[|k]]; simpl; auto.
      rewrite (key_of_rel _ _ Ha). destruct (key_of a'); simpl; auto. destruct (tbl _ l); simpl; auto. apply vrel_inj.
    Qed.

    Lemma ev_lookup_call : forall n key e' rho s0 s', srel s0 s' ->
      EV true cb' rho (lookup_call p n key e') s' =
      obind W (EV true cb' rho e' s')
            (fun v' s1' => Some (Val (VTy (typeof (subtle (an p) key) (shape v'))), assign W s1' rho (NTmp n key) v')).
    Proof.
      intros n key e' rho s0 s' Hs. unfold lookup_call. rewrite ev_ECall, ev_EName.
      assert (Hsp : special p (type_name p key) = true) by (unfold type_name; destruct (subtle (p_anal p) key); reflexivity).
      destruct (lc_special s0 s' rho (type_name p key) true Hs Hsp) as [_ ->]. 
      assert (Hg : genv p ugl mself true (type_name p key) = Some (VPrim (if subtle (an p) key then PSubtler else PType))).
      { unfold type_name, an. destruct (subtle (p_anal p) key); reflexivity. }
      rewrite Hg. cbn [obind]. rewrite eva_cons, ev_ENamed.
      destruct (EV true cb' rho e' s') as [[[v|x] s1]|]; cbn [obind]; try reflexivity.
      rewrite eva_nil. cbn [obind]. rewrite evk_nil. cbn [obind].
      unfold apply_val. destruct (subtle (an p) key); reflexivity.
    Qed.

    Lemma ev_kwpart : forall n kn e' rho s0 s', srel s0 s' ->
      EV true cb' rho (ETuple (ECons (EConst (CStr kn)) (ECons (lookup_call p n (KKw (Some kn)) e') ENil))) s' =
      obind W (EV true cb' rho e' s')
            (fun v' s1' => Some (Val (VSeq 1 [VStr kn; VTy (typeof (subtle (an p) (KKw (Some kn))) (shape v'))]),
                                 assign W s1' rho (NTmp n (KKw (Some kn))) v')).
    Proof.
      intros n kn e' rho s0 s' Hs. rewrite ev_ETuple, evl_cons, ev_EConst. cbn [obind].
      rewrite evl_cons, (ev_lookup_call n (KKw (Some kn)) e' rho s0 s' Hs).
      destruct (EV true cb' rho e' s') as [[[v|x] s1]|]; cbn [obind]; try reflexivity.
      all: try (rewrite evl_nil; reflexivity).
    Qed.

    Lemma Forall2_rev : forall A B (R : A -> B -> Prop) l l', Forall2 R l l' -> Forall2 R (rev l) (rev l').
    Proof. induction 1; simpl; [constructor|]. apply Forall2_app; auto. Qed.

    Lemma binder_not_special : forall x, binder_ok p x = true -> special p x = false /\ is_tmp x = false /\ rw_name p x = x.
    Proof.
      intros x H. destruct (binder_ok_user _ _ H) as (i & -> & Hr & Ht). repeat split; auto.
      simpl in H |- *. bsplit. rewrite H, H1. simpl in H0. rewrite H0. reflexivity.
    Qed.

    Lemma mem_okey_in : forall k l, mem_okey k l = false -> ~ In (KKw k) (map KKw l).
    Proof.
      induction l; simpl; intros H Hin; auto. apply orb_false_iff in H. destruct H as [H1 H2].
      destruct Hin as [Heq|Hin]; [|apply (IHl H2 Hin)].
      injection Heq as ->. assert (okey_eqb k k = true) by (apply okey_eqb_eq; reflexivity). congruence.
    Qed.

    Lemma fixed_assign : forall s rho x v, FIXED s rho -> FIXED (assign W s rho x v) rho.
    Proof. intros. eapply tgt_fixed_ext; [apply (FP_assign W 0 rho s x v H) | exact H]. Qed.
    Lemma fixed_bind_in : forall s rho f x v, FIXED s rho -> FIXED (bind_in W s f x v) rho.
    Proof. intros. eapply tgt_fixed_ext; [apply ext_bind_in | assumption]. Qed.

    Ltac rwstep := cbn [rw rw_list rw_args rw_kws rw_pos rw_kwparts]; dlet; nrm; cbn [fst snd].

    Lemma comp_loop_sim : forall elt x conds rho ke kc fid,
      binder_ok p x = true ->
      (forall k rho s s', srel s s' -> FIXED s' rho -> rsim vrel (EV false cb rho elt s) (EV true cb' rho (fst (rw p k elt)) s')) ->
      (forall k rho s s', srel s s' -> FIXED s' rho -> rsim eq (EVC false cb rho conds s) (EVC true cb' rho (fst (rw_list p k conds)) s')) ->
      forall l l', Forall2 vrel l l' -> forall acc acc' sc sc', Forall2 vrel acc acc' -> srel sc sc' -> FIXED sc' (fid :: rho) ->
      rsim vrel (comp_loop false cb rho elt x conds fid l acc sc)
                (comp_loop true cb' rho (fst (rw p ke elt)) x (fst (rw_list p kc conds)) fid l' acc' sc').
    Proof.
      intros elt x conds rho ke kc fid Hx He Hc. destruct (binder_not_special x Hx) as (Hsp & Htmp & _).
      induction 1 as [|v v' l l' Hv Hl IH]; intros acc acc' sc sc' Hacc Hs Ht.
      - simpl. split; auto. simpl. constructor. apply Forall2_rev. assumption.
      - cbn [comp_loop].
        eapply rsim_bind; [apply Hc; [apply bind_in_rel; auto | apply fixed_bind_in; auto]|].
        intros ok ok' s1 s1' E E' <- Hs1.
        pose proof (stepRC _ _ _ _ _ (fixed_bind_in _ _ _ _ _ Ht) E') as Ht1.
        destruct ok.
        + eapply rsim_bind; [apply He; auto|].
          intros ve ve' s2 s2' E2 E2' Hve Hs2. destruct (stepR _ _ _ _ _ Ht1 E2') as [Ht2 _].
          apply IH; auto.
        + apply IH; auto.
    Qed.

    Lemma sim_all : (forall e, SimE e) /\ (forall es, SimL es) /\ (forall a, SimA a) /\ (forall a, SimK a).
    Proof.
      apply expr_mutind; unfold SimE, SimL, SimA, SimK.
      - (* EConst *) intros c Hd k rho s s' Hs Ht. cbn [rw fst]. rewrite !ev_EConst. apply rsim_ret; auto.
        destruct c; simpl; constructor.
      - (* EName *) intros x Hd k rho s s' Hs Ht. cbn [rw fst]. rewrite !ev_EName. apply rsim_ret; auto.
        simpl in Hd. unfold mention_ok in Hd. bsplit.
        assert (Hcase : rw_name p x = x \/ exists i, x = NUser i /\ is_sym (p_rs p) i = true /\ rw_name p x = NOvld (p_id p)).
        { destruct x; simpl; auto. destruct (is_sym (p_rs p) i) eqn:Er; eauto. }
        destruct Hcase as [-> | (i & -> & Er & ->)].
        + pose proof (lookup_chain_rel W p ugl mself s s' rho x Hs H H2) as Hl. unfold RewriteRel.orel in Hl.
          destruct (LC false s rho x), (LC true s' rho x); try contradiction; simpl; auto.
        + assert (Hm : a_method (p_anal p) = false).
          { simpl in H0. rewrite Er in H0. simpl in H0. rewrite ?Nat.eqb_refl, ?andb_true_r in H0. exact H0. }
          simpl in H1.
          assert (Hsp : special p (NUser i) = true) by (simpl; rewrite Er; reflexivity).
          destruct (lc_special s s' rho (NUser i) false Hs Hsp) as [-> _].
          destruct (lc_special s s' rho (NOvld (p_id p)) true Hs eq_refl) as [_ ->].
          simpl. rewrite H1, Er. simpl. apply vr_rec. exact Hm.
      - (* EAttr *) intros e IH a Hd k rho s s' Hs Ht. simpl in Hd. rwstep. rewrite !ev_EAttr.
        eapply rsim_bind; [apply IH; auto|]. intros v v' s1 s1' E E' Hv Hs1. apply rsim_ret; auto.
        rewrite (vrel_shape p _ _ Hv). apply orel_lift.
      - (* EBin *) intros op a IHa b IHb Hd k rho s s' Hs Ht. simpl in Hd. bsplit. rwstep. rewrite !ev_EBin.
        eapply rsim_bind; [apply IHa; auto|]. intros va va' s1 s1' E E' Hva Hs1.
        destruct (stepR _ _ _ _ _ Ht E') as [Ht1 _].
        eapply rsim_bind; [apply IHb; auto|]. intros vb vb' s2 s2' E2 E2' Hvb Hs2. apply rsim_ret; auto.
        rewrite (vrel_shape p _ _ Hva), (vrel_shape p _ _ Hvb). apply orel_lift.
      - (* EBool *) intros o es IH Hd k rho s s' Hs Ht. simpl in Hd. rwstep. rewrite !ev_EBool.
        apply (IH Hd); auto.
      - (* EIf *) intros c IHc a IHa b IHb Hd k rho s s' Hs Ht. simpl in Hd. bsplit. rwstep. rewrite !ev_EIf.
        eapply rsim_bind; [apply IHc; auto|]. intros vc vc' s1 s1' E E' Hvc Hs1.
        destruct (stepR _ _ _ _ _ Ht E') as [Ht1 _]. rewrite (vrel_shape p _ _ Hvc).
        destruct (truthy (shape vc')); [apply IHa | apply IHb]; auto.
      - (* ECall *) intros f IHf ar IHa kw IHk Hd k rho s s' Hs Ht. simpl in Hd.
        assert (Hgen : dom p f = true -> dom_args p ar = true -> dom_kws p kw = true ->
                       forall k1 k2, rsim vrel (EV false cb rho (ECall f ar kw) s)
                         (EV true cb' rho (ECall (fst (rw p k f)) (fst (rw_args p k1 ar)) (fst (rw_kws p k2 kw))) s')).
        { intros Hdf Hda Hdk k1 k2. rewrite !ev_ECall.
          eapply rsim_bind; [apply IHf; auto|]. intros vf vf' s1 s1' E E' Hvf Hs1.
          destruct (stepR _ _ _ _ _ Ht E') as [Ht1 _].
          eapply rsim_bind; [apply (IHa Hda); auto|]. intros vs vs' s2 s2' E2 E2' Hvs Hs2.
          pose proof (stepRA _ _ _ _ _ Ht1 E2') as Ht2.
          eapply rsim_bind; [apply (IHk Hdk); auto|]. intros ks ks' s3 s3' E3 E3' Hks Hs3.
          apply apply_rel; auto. }
        cbn [rw]. destruct (site p f) as [cn|] eqn:Es; [destruct (has_star ar) eqn:Est|]; bsplit; dlet; nrm; cbn [fst snd].
        + apply Hgen; auto.
        + apply site_case; auto.
          * apply (IHa ltac:(assumption) (S k) rho s s' Hs Ht); auto.
          * intros s2 s2' Hs2 Ht2. apply (IHk ltac:(assumption) _ rho s2 s2' Hs2 Ht2); auto.
            pose proof (rw_pos_mono p ar k 0 (S k)). lia.
        + apply Hgen; auto.
      - (* ENamed *) intros x e IH Hd k rho s s' Hs Ht. simpl in Hd. bsplit. rwstep.
        destruct (binder_not_special x H) as (Hsp & Htmp & ->). rewrite !ev_ENamed.
        eapply rsim_bind; [apply IH; auto|]. intros v v' s1 s1' E E' Hv Hs1. apply rsim_ret; auto.
        apply assign_rel; auto.
      - (* ELam *) intros ps b IH Hd k rho s s' Hs Ht. simpl in Hd. bsplit. rwstep. rewrite !ev_ELam.
        apply rsim_ret; auto. simpl. constructor; auto.
      - (* EComp *) intros elt IHe x it IHi conds IHc Hd k rho s s' Hs Ht. simpl in Hd. bsplit. rwstep.
        destruct (binder_not_special x H) as (Hsp & Htmp & ->). rewrite !ev_EComp.
        eapply rsim_bind; [apply IHi; auto|]. intros vi vi' s1 s1' E E' Hvi Hs1.
        destruct (stepR _ _ _ _ _ Ht E') as [Ht1 _].
        pose proof (items_rel _ _ Hvi) as Hit.
        destruct (items vi) as [l|], (items vi') as [l'|]; try contradiction; [|apply rsim_ret; simpl; auto].
        rewrite <- (frames_len W p s1 s1' Hs1).
        apply comp_loop_sim;
          [ assumption
          | intros; apply IHe; auto
          | intros k0 rho0 s0 s0' Hs0 Ht0; destruct (IHc ltac:(assumption) k0 rho0 s0 s0' Hs0 Ht0) as (_ & _ & Hc3); exact Hc3
          | assumption
          | constructor
          | apply push_rel; auto; repeat split; simpl; auto; intros y Hy; exact I
          | ].
        assert (Hn : nth_error (frames (push W s1' {| f_comp := true; f_vars := [] |})) (length (frames s1)) =
                     Some {| f_comp := true; f_vars := [] |}).
        { simpl. rewrite (frames_len W p s1 s1' Hs1). rewrite nth_error_app2 by lia. rewrite Nat.sub_diag. reflexivity. }
        cbn [tgt_fixed]. rewrite Hn. cbn [f_comp]. eapply tgt_fixed_ext; [apply ext_push | exact Ht1].
      - (* EFstr *) intros es IH Hd k rho s s' Hs Ht. simpl in Hd. rwstep. rewrite !ev_EFstr.
        eapply rsim_bind; [apply (IH Hd); auto|]. intros vs vs' s1 s1' E E' Hvs Hs1. apply rsim_ret; auto.
        simpl. rewrite (shapes_rel p _ _ Hvs). apply vrel_inj.
      - (* EEffect *) intros t e IH Hd k rho s s' Hs Ht. simpl in Hd. rwstep. rewrite !ev_EEffect.
        eapply rsim_bind; [apply IH; auto|]. intros v v' s1 s1' E E' Hv Hs1. apply rsim_ret; auto.
        rewrite (vrel_shape p _ _ Hv). replace (s_world W s1) with (s_world W s1') by (symmetry; apply Hs1).
        apply log_rel. assumption.
      - (* ETuple *) intros es IH Hd k rho s s' Hs Ht. simpl in Hd. rwstep. rewrite !ev_ETuple.
        eapply rsim_bind; [apply (IH Hd); auto|]. intros vs vs' s1 s1' E E' Hvs Hs1. apply rsim_ret; auto.
        simpl. constructor. assumption.
      - (* ESub *) intros a IHa i IHi Hd k rho s s' Hs Ht. simpl in Hd. bsplit. rwstep. rewrite !ev_ESub.
        eapply rsim_bind; [apply IHa; auto|]. intros va va' s1 s1' E E' Hva Hs1.
        destruct (stepR _ _ _ _ _ Ht E') as [Ht1 _].
        eapply rsim_bind; [apply IHi; auto|]. intros vb vb' s2 s2' E2 E2' Hvb Hs2. apply rsim_ret; auto.
        apply subscript_rel; auto.
      - (* ENil *) intros Hd k rho s s' Hs Ht. cbn [rw_list fst]. split; [|split].
        + rewrite !evl_nil. apply rsim_ret; auto. simpl. constructor.
        + intros o. simpl. split; auto. constructor.
        + simpl. split; auto.
      - (* ECons *) intros e IHe r IHr Hd k rho s s' Hs Ht. simpl in Hd. bsplit. rwstep. split; [|split].
        + rewrite !evl_cons. eapply rsim_bind; [apply IHe; auto|]. intros v v' s1 s1' E E' Hv Hs1.
          destruct (stepR _ _ _ _ _ Ht E') as [Ht1 _].
          eapply rsim_bind; [apply (IHr ltac:(assumption)); auto|]. intros vs vs' s2 s2' E2 E2' Hvs Hs2.
          apply rsim_ret; auto. simpl. constructor; auto.
        + intros o. rewrite !evb_cons.
          remember (fst (rw_list p (snd (rw p k e)) r)) as r' eqn:Er'.
          assert (Hshape : match r, r' with ENil, ENil => True | ECons _ _, ECons _ _ => True | _, _ => False end).
          { subst r'. destruct r; cbn [rw_list]; dlet; cbn [fst]; exact I. }
          destruct r as [|e2 r2], r' as [|e2' r2']; try contradiction.
          * apply IHe; auto.
          * eapply rsim_bind; [apply IHe; auto|]. intros v v' s1 s1' E E' Hv Hs1.
            destruct (stepR _ _ _ _ _ Ht E') as [Ht1 _]. rewrite (vrel_shape p _ _ Hv).
            destruct (Bool.eqb (truthy (shape v')) o); [apply rsim_ret; auto|].
            rewrite Er'. apply (IHr ltac:(assumption)); auto.
        + rewrite !evc_cons. eapply rsim_bind; [apply IHe; auto|]. intros v v' s1 s1' E E' Hv Hs1.
          destruct (stepR _ _ _ _ _ Ht E') as [Ht1 _]. rewrite (vrel_shape p _ _ Hv).
          destruct (truthy (shape v')); [apply (IHr ltac:(assumption)); auto | apply rsim_ret; simpl; auto].
      - (* ANil *) intros Hd k rho s s' Hs Ht. split.
        + cbn [rw_args fst]. rewrite !eva_nil. apply rsim_ret; auto. simpl. constructor.
        + intros _ n i Hn. cbn [rw_pos fst]. rewrite eva_nil, evl_nil. simpl. split; auto.
          exists []. repeat split; auto. intros j v' Hj. destruct j; discriminate.
      - (* ACons *) intros st e IHe r IHr Hd k rho s s' Hs Ht. simpl in Hd. bsplit. split.
        + rwstep. rewrite !eva_cons. eapply rsim_bind; [apply IHe; auto|]. intros v v' s1 s1' E E' Hv Hs1.
          destruct (stepR _ _ _ _ _ Ht E') as [Ht1 _].
          destruct st.
          * pose proof (items_rel _ _ Hv) as Hit.
            destruct (items v) as [l|], (items v') as [l'|]; try contradiction; [|apply rsim_ret; simpl; auto].
            eapply rsim_bind; [apply (IHr ltac:(assumption)); auto|]. intros vs vs' s2 s2' E2 E2' Hvs Hs2.
            apply rsim_ret; auto. simpl. apply Forall2_app; auto.
          * eapply rsim_bind; [apply (IHr ltac:(assumption)); auto|]. intros vs vs' s2 s2' E2 E2' Hvs Hs2.
            apply rsim_ret; auto. simpl. constructor; auto.
        + intros Hstar n i Hn. simpl in Hstar. apply orb_false_iff in Hstar. destruct Hstar as [-> Hstar].
          rwstep. rewrite eva_cons, evl_cons, (ev_lookup_call n (KPos i) _ rho s s' Hs).
          pose proof (IHe ltac:(assumption) k rho s s' Hs Ht) as He.
          destruct (EV false cb rho e s) as [[[v|x] s1]|] eqn:E1;
            destruct (EV true cb' rho (fst (rw p k e)) s') as [[[v'|x'] s1']|] eqn:E1'; simpl in He; try tauto; cbn [obind]; try (simpl; exact He); try (simpl; exact I).
          destruct He as [Hv Hs1]. destruct (stepR _ _ _ _ _ Ht E1') as [Ht1 _].
          set (sa' := assign W s1' rho (NTmp n (KPos i)) v').
          assert (Hsa : srel s1 sa') by (apply assign_tmp_rel; auto).
          assert (Hta : FIXED sa' rho) by (apply fixed_assign; auto).
          pose proof (rw_mono p e k) as Hmono.
          pose proof (proj2 (IHr ltac:(assumption) (snd (rw p k e)) rho s1 sa' Hsa Hta) Hstar n (S i) ltac:(lia)) as Hr.
          destruct (EVA false cb rho r s1) as [[[vs|x] s2]|] eqn:E2;
            destruct (EVL true cb' rho (fst (rw_pos p n (S i) (snd (rw p k e)) r)) sa') as [[[ts|x'] s2']|] eqn:E2';
            simpl in Hr; try tauto; cbn [obind]; simpl; auto.
          destruct Hr as (Hs2 & vs' & Hvs & -> & Hlen & Hget). split; auto.
          exists (v' :: vs'). repeat split; auto.
          * simpl. rewrite Hlen. reflexivity.
          * intros j w Hj. destruct (stepRL _ _ _ _ _ Hta E2') as [_ Hstab]. destruct j as [|j].
            -- simpl in Hj. injection Hj as <-. rewrite Nat.add_0_r. rewrite Hstab.
               ++ apply tget_assign. assumption.
               ++ destruct (proj1 (proj2 (proj2 (asg_small_all p))) r ltac:(assumption) (snd (rw p k e)) n (KPos i)) as [_ Hx]; [lia|].
                  apply Hx. intros _ j Hj Heq. injection Heq as Heq. lia.
            -- simpl in Hj. replace (i + S j) with (S i + j) by lia. apply Hget. assumption.
      - (* KNil *) intros Hd k rho s s' Hs Ht. split.
        + cbn [rw_kws fst]. rewrite !evk_nil. apply rsim_ret; auto. simpl. constructor.
        + intros _ _ n Hn. cbn [rw_kwparts fst]. rewrite evk_nil, evl_nil. simpl. split; auto.
          exists []. repeat split; auto. constructor. intros k0 v0 [].
      - (* KCons *) intros o e IHe r IHr Hd k rho s s' Hs Ht. simpl in Hd. bsplit. split.
        + rwstep. rewrite !evk_cons. eapply rsim_bind; [apply IHe; auto|]. intros v v' s1 s1' E E' Hv Hs1.
          destruct (stepR _ _ _ _ _ Ht E') as [Ht1 _].
          destruct o as [kn|].
          * eapply rsim_bind; [apply (IHr ltac:(assumption)); auto|]. intros ks ks' s2 s2' E2 E2' Hks Hs2.
            apply rsim_ret; auto. simpl. constructor; auto.
          * pose proof (unpack_dict_rel _ _ Hv) as Hit.
            destruct (unpack_dict v) as [l|], (unpack_dict v') as [l'|]; try contradiction; [|apply rsim_ret; simpl; auto].
            eapply rsim_bind; [apply (IHr ltac:(assumption)); auto|]. intros ks ks' s2 s2' E2 E2' Hks Hs2.
            apply rsim_ret; auto. simpl. apply Forall2_app; auto.
        + intros Hnamed Hnodup n Hn. simpl in Hnamed. apply andb_true_iff in Hnamed. destruct Hnamed as [Hko Hnamed].
          destruct o as [kn|]; [|discriminate]. simpl in Hnodup. apply andb_true_iff in Hnodup. destruct Hnodup as [Hfresh Hnodup].
          apply negb_true_iff in Hfresh.
          rwstep. rewrite evk_cons, evl_cons, (ev_kwpart n kn _ rho s s' Hs).
          pose proof (IHe ltac:(assumption) k rho s s' Hs Ht) as He.
          destruct (EV false cb rho e s) as [[[v|x] s1]|] eqn:E1;
            destruct (EV true cb' rho (fst (rw p k e)) s') as [[[v'|x'] s1']|] eqn:E1'; simpl in He; try tauto; cbn [obind]; try (simpl; exact He); try (simpl; exact I).
          destruct He as [Hv Hs1]. destruct (stepR _ _ _ _ _ Ht E1') as [Ht1 _].
          set (sa' := assign W s1' rho (NTmp n (KKw (Some kn))) v').
          assert (Hsa : srel s1 sa') by (apply assign_tmp_rel; auto).
          assert (Hta : FIXED sa' rho) by (apply fixed_assign; auto).
          pose proof (rw_mono p e k) as Hmono.
          pose proof (proj2 (IHr ltac:(assumption) (snd (rw p k e)) rho s1 sa' Hsa Hta) Hnamed Hnodup n ltac:(lia)) as Hr.
          destruct (EVK false cb rho r s1) as [[[ks|x] s2]|] eqn:E2;
            destruct (EVL true cb' rho (fst (rw_kwparts p n (snd (rw p k e)) r)) sa') as [[[ts|x'] s2']|] eqn:E2';
            simpl in Hr; try tauto; cbn [obind]; simpl; auto.
          destruct Hr as (Hs2 & ks' & Hks & -> & Hkeys & Hget). split; auto.
          exists ((kn, v') :: ks'). repeat split; auto.
          * constructor; auto.
          * simpl. rewrite Hkeys. reflexivity.
          * intros k0 w Hin. destruct (stepRL _ _ _ _ _ Hta E2') as [_ Hstab]. destruct Hin as [Heq|Hin].
            -- injection Heq as <- <-. rewrite Hstab.
               ++ apply tget_assign. assumption.
               ++ destruct (proj2 (proj2 (proj2 (asg_small_all p))) r ltac:(assumption) (snd (rw p k e)) n (KKw (Some kn))) as [_ Hx]; [lia|].
                  apply Hx. intros _. apply mem_okey_in. assumption.
            -- apply Hget. assumption.
    Qed.
  End WithCb.

  Notation EVAL := (eval W p typeof tbl callv binop getattr getitem truthy fmt ugl mself).
  Notation EXEC := (exec W p typeof tbl callv binop getattr getitem truthy fmt ugl mself).

  (* ---- every fuel level: same fuel on both sides *)
  Theorem eval_sim : forall n rho b k s s', dom p b = true -> srel s s' -> FIXED s' rho ->
    rsim vrel (EVAL false n rho b s) (EVAL true n rho (fst (rw p k b)) s').
  Proof.
    induction n; intros rho b k s s' Hd Hs Ht; simpl.
    - refine (proj1 (sim_all (fun _ _ _ => None) (fun _ _ _ => None) _ _) b Hd k rho s s' Hs Ht).
      + intros. exact I.
      + intros; discriminate.
    - refine (proj1 (sim_all (EVAL false n) (EVAL true n) _ _) b Hd k rho s s' Hs Ht).
      + intros. apply IHn; auto.
      + intros rho0 b0 s0 r0 s1 Ht0 H0. eapply FP_weaken; [eapply eval_fp; eauto | lia | intros; discriminate].
  Qed.

  Lemma eval_fixed : forall n rho e s r s1, FIXED s rho -> EVAL true n rho e s = Some (r, s1) -> FIXED s1 rho.
  Proof.
    intros n rho e s r s1 Ht H. eapply tgt_fixed_ext; [|exact Ht].
    apply (eval_fp W p typeof tbl callv binop getattr getitem truthy fmt ugl mself true n rho e s r s1 Ht H).
  Qed.

  (* ---- straight-line bodies *)
  Definition ores (a b : option val) : Prop := RewriteRel.orel p a b.

  Theorem exec_sim : forall n rho b k s s', forallb (dom_stmt p) b = true -> srel s s' -> FIXED s' rho ->
    rsim ores (EXEC false n rho b s) (EXEC true n rho (fst (rw_body p k b)) s').
  Proof.
    intros n rho b. induction b as [|st b IH]; intros k s s' Hd Hs Ht.
    - simpl. split; simpl; auto.
    - simpl in Hd. apply andb_true_iff in Hd. destruct Hd as [Hst Hb].
      cbn [rw_body]. destruct st as [e|x e|e]; cbn [rw_stmt]; dlet; nrm; cbn [fst snd]; cbn [exec].
      + unfold dom_stmt, in_domain in Hst. bsplit.
        eapply rsim_bind; [apply eval_sim; auto|]. intros v v' s1 s1' E E' Hv Hs1.
        apply IH; auto. eapply eval_fixed; eauto.
      + unfold dom_stmt, in_domain in Hst. bsplit.
        pose proof (binder_not_special x H) as Hx.
        destruct Hx as (Hsp & Htm & ->).
        eapply rsim_bind; [apply eval_sim; auto|]. intros v v' s1 s1' E E' Hv Hs1.
        apply IH; auto.
        * apply assign_rel; auto.
        * eapply tgt_fixed_ext; [apply (FP_assign W 0 rho s1' x v')|]; eapply eval_fixed; eauto.
      + unfold dom_stmt, in_domain in Hst. bsplit.
        eapply rsim_bind; [apply eval_sim; auto|]. intros v v' s1 s1' E E' Hv Hs1.
        apply rsim_ret; auto.
  Qed.

  (* ---- C08: which function a rewritten recurse call enters *)
  Notation BELOW := (below W p typeof tbl callv binop getattr getitem truthy fmt ugl mself).

  Lemma eval_below : forall reg n, EVAL reg n = EV reg (BELOW reg n).
  Proof. destruct n; reflexivity. Qed.

  Theorem recurse_is_call : forall r ar kw,
    p_rs p = Some r -> is_sym (p_cs p) r = false -> dom p (ECall (EName (NUser r)) ar kw) = true ->
    forall n k rho s s', srel s s' -> FIXED s' rho ->
      rsim vrel
        (obind W (EVA false (BELOW false n) rho ar s) (fun vs s2 =>
         obind W (EVK false (BELOW false n) rho kw s2) (fun ks s3 =>
           Some (dispatch W p typeof tbl callv (p_id p) [] (self_list p mself) vs ks s3))))
        (EVAL true n rho (fst (rw p k (ECall (EName (NUser r)) ar kw))) s').
  Proof.
    intros r ar kw Hr Hc Hd n k rho s s' Hs Ht.
    pose proof (eval_sim n rho _ k s s' Hd Hs Ht) as Hsim.
    rewrite (eval_below false) in Hsim. rewrite ev_ECall, ev_EName in Hsim.
    assert (Hsp : special p (NUser r) = true).
    { simpl. unfold is_sym at 1. rewrite Hr, Nat.eqb_refl. reflexivity. }
    destruct (lc_special s s' rho (NUser r) false Hs Hsp) as [Hl _]. rewrite Hl in Hsim.
    assert (Hg : genv p ugl mself false (NUser r) = Some (VPrim PRecurse)).
    { simpl. rewrite Hc. unfold is_sym. rewrite Hr, Nat.eqb_refl. reflexivity. }
    rewrite Hg in Hsim. cbn [obind] in Hsim. exact Hsim.
  Qed.
End Sim.
