"""Dispatch programs: a class world + a list of method definitions + calls, built as a real `Ovld`
and encoded for the model.  Used by C01, C02, C04, C05, C06, C07, C20.

A method definition (JSON-serialisable):
  {"id": n, "pos": [type enc...], "npos_req": r, "kw": [[name_id, type enc, required(bool)]...], "prio": p,
   "body": "ret" | "next" | "next_same" ...}
Positional parameter i is called a<i>, keyword-only parameter k<name_id>.
"""
import linecache, itertools, json, sys, types as pytypes

from . import use_repo
from .world import World, Decoder, world_from, dec_val

use_repo()
import ovld  # noqa: E402
from ovld import mro as omro  # noqa: E402
from ovld.recode import call_next, recurse  # noqa: E402

_file_ids = itertools.count()


class Built:
    """A real Ovld built from a program."""

    def __init__(self, world, defs, name="f", hook=True, utab=None):
        self.w = world
        self.predlog = []
        self.dec = Decoder(world, utab=utab, predlog=self.predlog)
        self.log = []
        self.ov = ovld.Ovld(name=name)
        self.fns = {}       # method id -> original function
        self.by_orig = {}   # id(orig fn) -> method id
        self.hook = hook
        self.type_objs = {}  # json(enc) -> python type object (one object per distinct encoding)
        for d in defs:
            self.register(d)

    def ty(self, enc):
        k = json.dumps(enc)
        if k not in self.type_objs:
            self.type_objs[k] = self.dec.ty(enc)
        return self.type_objs[k]

    def make_fn(self, d):
        mid = d["id"]
        params = []
        anns = {}
        pnames = d.get("names") or [f"a{i}" for i in range(len(d["pos"]))]
        for i, t in enumerate(d["pos"]):
            nm = pnames[i]
            anns[nm] = self.ty(t)
            params.append(nm if i < d["npos_req"] else f"{nm}=DEFAULT")
        if d.get("kw"):
            params.append("*")
            for (k, t, req) in d["kw"]:
                nm = f"k{k}"
                anns[nm] = self.ty(t)
                params.append(nm if req else f"{nm}=DEFAULT")
        allnames = list(pnames) + [f"k{k}" for (k, _, _) in d.get("kw", [])]
        rec = "LOG.append((%d, {%s}))" % (mid, ", ".join(f"'a{i}': {n}" for i, n in enumerate(pnames)) + "".join(f", 'k{k}': k{k}" for (k, _, _) in d.get("kw", [])))
        body = d.get("body", "ret")
        supplied = "[x for x in (%s) if x is not DEFAULT]" % (", ".join(pnames) + ("," if d["pos"] else ""))
        kwsup = "{%s}" % ", ".join(f"'k{k}': k{k}" for (k, _, _) in d.get("kw", []))
        if body == "ret":
            tail = f"return ('ret', {mid})"
        elif body == "next":
            tail = (f"_p = {supplied}\n    _k = {{n: v for n, v in {kwsup}.items() if v is not DEFAULT}}\n"
                    f"    return call_next(*_p, **_k)")
            # starred calls are not rewritten by ovld: use explicit arity instead
            npos = len(d["pos"])
            if d["npos_req"] == npos and all(req for (_, _, req) in d.get("kw", [])):
                args = ", ".join(list(pnames) + [f"k{k}=k{k}" for (k, _, _) in d.get("kw", [])])
                tail = f"return call_next({args})"
            else:
                tail = f"return ('ret', {mid})"
        elif body == "fnext":
            # the same delegation spelled with the function's .next attribute (Ovld.next reads the caller's code object)
            npos = len(d["pos"])
            if d["npos_req"] == npos and not d.get("kw"):
                tail = f"return OV.next({', '.join(pnames)})"
            else:
                tail = f"return ('ret', {mid})"
        elif body == "nextv":
            npos = len(d["pos"])
            if d["npos_req"] == npos and not d.get("kw"):
                args = ", ".join(f"ALT({n})" for n in pnames)
                tail = f"return call_next({args})"
            else:
                tail = f"return ('ret', {mid})"
        elif body == "nexto":
            # call_next with an instance of ANOTHER class at position 0 (a key this table may never have resolved)
            npos = len(d["pos"])
            if d["npos_req"] == npos and not d.get("kw"):
                args = ", ".join(["OTHER(%s)" % pnames[0]] + list(pnames[1:]))
                tail = f"return call_next({args})"
            else:
                tail = f"return ('ret', {mid})"
        elif body == "rec":
            npos = len(d["pos"])
            if d["npos_req"] == npos and not d.get("kw"):
                args = ", ".join(pnames)
                tail = (f"if len(RECUR) < 1:\n        RECUR.append(1)\n        try:\n            return recurse({args})\n"
                        f"        finally:\n            RECUR.pop()\n    return ('ret', {mid})")
            else:
                tail = f"return ('ret', {mid})"
        else:
            raise ValueError(body)
        src = f"def m{mid}({', '.join(params)}):\n    {rec}\n    {tail}\n"
        fname = f"<verif-prog-{next(_file_ids)}>"
        linecache.cache[fname] = (len(src), None, src.splitlines(True), fname)
        glb = {"LOG": self.log, "RECUR": [], "ALT": alt_value, "OTHER": self.other_instance, "DEFAULT": DEFAULT, "call_next": call_next, "recurse": recurse, "OV": self.ov, "__name__": "verif_prog"}
        exec(compile(src, fname, "exec"), glb)
        fn = glb[f"m{mid}"]
        fn.__annotations__ = anns
        return fn

    def other_class(self, cid):
        """a fixed permutation of the instantiable classes of the world"""
        inst = [c for c in [0, 2, 3] + self.w.user_ids() if self.w.instantiable(c)]
        return inst[(inst.index(cid) + 1) % len(inst)] if cid in inst else inst[0]

    def other_instance(self, v):
        return self.w.instance(self.other_class(self.w.cid(type(v))), 7)

    def register(self, d):
        fn = self.make_fn(d)
        self.fns[d["id"]] = fn
        self.by_orig[id(fn)] = d["id"]
        self.ov.register(fn, priority=d.get("prio", 0))
        return fn

    def unregister(self, mid):
        self.ov.unregister(self.fns[mid])

    def mid_of_handler(self, h):
        conf = getattr(h, "_conformer", None)
        if conf is not None:
            return self.by_orig.get(id(conf.orig_fn))
        return None

    def install_hook(self, ov=None):
        if not self.hook:
            omro._verif_reorder = None
            return
        ov = ov if ov is not None else self.ov
        me = self

        def reorder(site, xs):
            if site == "candidates":
                order = {id(h): i for i, h in enumerate(ov.map.priorities)}
                return sorted(xs, key=lambda c: order.get(id(c), 10 ** 6))
            # sort_types: global first-registration order of the type objects
            glob = []
            for h in ov.map.type_tuples:
                for t in ov.map.type_tuples[h]:
                    t = t[1] if isinstance(t, tuple) else t
                    if not any(t == u for u in glob):
                        glob.append(t)

            def rank(t):
                for i, u in enumerate(glob):
                    if u == t:
                        return i
                return 10 ** 6
            return sorted(xs, key=rank)

        omro._verif_reorder = reorder

    def call(self, pos, kw=None, ov=None):
        """returns (outcome, entered) with outcome = ["run", mid] | ["nomethod"] | ["ambig"] | ["exc", name];
        entered = list of method ids whose bodies ran, in order"""
        kw = kw or {}
        self.install_hook(getattr(ov, "__ovld__", ov))
        del self.log[:]
        del self.predlog[:]
        try:
            r = (ov if ov is not None else self.ov)(*pos, **kw)
            out = ["run", r[1]] if isinstance(r, tuple) and r and r[0] == "ret" else ["value", repr(r)]
        except TypeError as e:
            msg = str(e)
            if msg.startswith("No method"):
                out = ["nomethod"]
            elif msg.startswith("Ambiguous resolution"):
                out = ["ambig"]
            else:
                out = ["exc", "TypeError:" + msg[:80]]
        except Exception as e:  # noqa
            out = ["exc", type(e).__name__]
        finally:
            omro._verif_reorder = None
        return out, [e[0] for e in self.log]

    def resolve(self, pos):
        self.install_hook()
        try:
            h = self.ov.resolve(*pos)
            return ["run", self.mid_of_handler(h)]
        except TypeError as e:
            msg = str(e)
            return ["nomethod"] if msg.startswith("No method") else ["ambig"] if msg.startswith("Ambiguous") else ["exc", msg[:80]]
        except Exception as e:  # noqa
            return ["exc", type(e).__name__]
        finally:
            omro._verif_reorder = None


class BuiltClass(Built):
    """The same program written as the methods `f` of one OvldBase class body (every method takes self first); calls go
    through an instance.  Only bodies that return are generated (delegation through a class is C17's and C09's subject)."""

    def __init__(self, world, defs, utab=None, hook=True):
        self.w = world
        self.predlog = []
        self.dec = Decoder(world, utab=utab, predlog=self.predlog)
        self.log = []
        self.fns = {}
        self.by_orig = {}
        self.hook = hook
        self.type_objs = {}
        glb = {"LOG": self.log, "DEFAULT": DEFAULT, "OvldBase": ovld.OvldBase, "ovld": ovld.ovld, "__name__": "verif_prog_cls"}
        lines = ["class K(OvldBase):"]
        for d in defs:
            mid = d["id"]
            pnames = d.get("names") or [f"a{i}" for i in range(len(d["pos"]))]
            params = ["self"]
            for i, t in enumerate(d["pos"]):
                glb[f"T{mid}_{i}"] = self.ty(t)
                params.append(f"{pnames[i]}: T{mid}_{i}" + ("" if i < d["npos_req"] else " = DEFAULT"))
            if d.get("kw"):
                params.append("*")
                for (k, t, req) in d["kw"]:
                    glb[f"K{mid}_{k}"] = self.ty(t)
                    params.append(f"k{k}: K{mid}_{k}" + ("" if req else " = DEFAULT"))
            rec = "LOG.append((%d, {%s}))" % (mid, ", ".join(f"'a{i}': {n}" for i, n in enumerate(pnames)) + "".join(f", 'k{k}': k{k}" for (k, _, _) in d.get("kw", [])))
            lines += [f"    @ovld(priority={d.get('prio', 0)})", f"    def f({', '.join(params)}):", f"        {rec}", f"        return ('ret', {mid})", ""]
        src = "\n".join(lines) + "\n"
        fname = f"<verif-progcls-{next(_file_ids)}>"
        linecache.cache[fname] = (len(src), None, src.splitlines(True), fname)
        exec(compile(src, fname, "exec"), glb)
        self.cls = glb["K"]
        self.obj = self.cls()
        o = self.cls.__dict__["f"]
        self.ov = getattr(o, "__ovld__", o)

    def call(self, pos, kw=None, ov=None):
        return Built.call(self, pos, kw, ov=self.obj.f)


def alt_value(v):
    """another value of the same class: -v for ints, reversed for strings and tuples"""
    if isinstance(v, bool):
        return v
    if isinstance(v, int):
        return -v
    if isinstance(v, (str, tuple)):
        return v[::-1]
    return v


class _Default:
    def __repr__(self):
        return "DEFAULT"


DEFAULT = _Default()


# ---------------------------------------------------------------------------------------------
# model encodings
# ---------------------------------------------------------------------------------------------

def enc_method(d, tie=0):
    from .model import canon_ty
    return [d["id"], [canon_ty(t) for t in d["pos"]], [[k, canon_ty(t)] for (k, t, _) in d.get("kw", [])], d["npos_req"],
            [k for (k, _, req) in d.get("kw", []) if req], d.get("prio", 0), tie]


def enc_key(pos_types, kw_types):
    return [list(pos_types), [[k, t] for (k, t) in kw_types]]


def runtime_type_enc(world, v):
    """encoding of type(v) for an ordinary (non-type) argument"""
    return [0, world.cid(type(v))]


def dec_outcome(o):
    t = o[0]
    if t == 0:
        return ["run", o[1]]
    if t == 1:
        return ["nomethod"]
    if t == 2:
        return ["ambig"]
    if t == 3:
        return ["exc", "CycleError"]
    return ["fuel"]
