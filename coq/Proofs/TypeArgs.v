(* TypeArgs.v — C14: types passed as arguments are keyed type[X]; how type[X] relates to type[T] and to object. *)
From Coq Require Import ZArith List Bool Arith Lia.
Import ListNotations.
From OvldV Require Import Model.Order Model.Ty Proofs.TyEq Proofs.TyMono Proofs.TyOrder Proofs.TySub.

Section Hier.
  Variable sub : nat -> nat -> bool.
  Variable hasm : nat -> nat -> bool.
  Variable chk : nat -> nat -> bool.
  Variable sub_fresh : nat -> bool.
  Variable TYPE : nat.        (* the class `type` *)
  Variable OBJECT : nat.
  Hypothesis type_refl : sub TYPE TYPE = true.

  Notation subck := (subck sub hasm chk sub_fresh).
  Notation tord := (tord sub hasm chk sub_fresh).

  Definition tyof (x : ty) : ty := Gen TYPE [x].

  Lemma tyof_neq x t : ty_eqb x t = false -> ty_eqb (tyof x) (tyof t) = false.
  Proof. intros H. unfold tyof. simpl. rewrite Nat.eqb_refl, H. reflexivity. Qed.

  (* type[X] is under type[T] exactly when X is a subtype of T *)
  Theorem type_arg_applicable n x t :
    ty_eqb x t = false -> subck (S (S n)) (tyof x) (tyof t) = subck (S n) x t.
  Proof.
    intros H. unfold tyof. rewrite (subck_generic sub hasm chk sub_fresh (S n) TYPE [x] TYPE [t]); [|exact (tyof_neq _ _ H)].
    rewrite type_refl. cbn [length Nat.eqb oforall2]. destruct (subck (S n) x t) as [[|]|]; reflexivity.
  Qed.

  Theorem type_arg_same n x : subck (S n) (tyof x) (tyof x) = Some true.
  Proof. apply subck_refl. Qed.

  (* every type[...] key falls under a plain class annotation exactly when `type` is a subclass of it (object: always) *)
  Theorem type_arg_under_class n x d : subck (S n) (tyof x) (Cls d) = Some (sub TYPE d).
  Proof. apply subck_alias_class. Qed.

  (* type[T1] against type[T2] compares like T1 against T2 *)
  Lemma merge_single r : merge [r] = r.
  Proof. destruct r; reflexivity. Qed.

  Theorem type_arg_order n t1 t2 :
    ty_eqb t1 t2 = false -> tord (S (S n)) (tyof t1) (tyof t2) = tord (S n) t1 t2.
  Proof.
    intros H. unfold tyof.
    rewrite (tord_gen_args sub hasm chk sub_fresh n TYPE [t1] [t2]); [|discriminate|reflexivity|exact (tyof_neq _ _ H)].
    cbn [omapM2]. destruct (tord (S n) t1 t2) as [r|]; [|reflexivity]. cbn [omap]. now rewrite merge_single.
  Qed.

  (* every type[...] annotation is more specific than plain object (when type is a proper subclass of object) *)
  Theorem type_arg_below_object n a :
    cls_order sub TYPE OBJECT = LESS -> tord (S (S n)) (Gen TYPE a) (Cls OBJECT) = Some LESS.
  Proof.
    intros H. rewrite tord_S. unfold tord_body. cbn [ty_eqb hook_order]. rewrite tord_cls, H. reflexivity.
  Qed.
End Hier.
