(* GraphUpd.v — exact description of lock_parents / compile, and the effect of _update (upd) *)
From Coq Require Import ZArith List Bool Arith Lia.
Import ListNotations.
From OvldV Require Import Model.Graph Proofs.GraphTab Proofs.GraphBase.

(* ---------- keep: what no compile / _update ever changes ---------- *)
Definition keep (x y : node) : Prop :=
  n_own x = n_own y /\ n_mixins x = n_mixins y /\ n_children x = n_children y /\ n_linkback x = n_linkback y /\
  (n_locked x = true -> n_locked y = true) /\ (n_compiled x = true -> n_compiled y = true).

Definition gkeep (g g' : graph) : Prop :=
  length g = length g' /\ forall n x, g_get g n = Some x -> exists y, g_get g' n = Some y /\ keep x y.

Lemma keep_refl : forall x, keep x x.
Proof. unfold keep. intuition. Qed.

Lemma keep_trans : forall x y z, keep x y -> keep y z -> keep x z.
Proof. unfold keep. intuition congruence. Qed.

Lemma gkeep_refl : forall g, gkeep g g.
Proof. split; auto. intros. eexists. split; eauto. apply keep_refl. Qed.

Lemma gkeep_trans : forall g1 g2 g3, gkeep g1 g2 -> gkeep g2 g3 -> gkeep g1 g3.
Proof.
  intros g1 g2 g3 [L1 H1] [L2 H2]. split; [congruence|]. intros n x E.
  destruct (H1 _ _ E) as [y [Ey K1]]. destruct (H2 _ _ Ey) as [z [Ez K2]]. exists z. split; auto.
  eapply keep_trans; eauto.
Qed.

Lemma gkeep_none : forall g g' n, gkeep g g' -> g_get g n = None -> g_get g' n = None.
Proof.
  intros g g' n [L H] E. unfold g_get in *. apply nth_error_None in E. apply nth_error_None. lia.
Qed.

Lemma gkeep_same_dm : forall g g', gkeep g g' -> same dm g g'.
Proof.
  intros g g' K n. destruct (g_get g n) eqn:E.
  - destruct K as [_ K]. destruct (K _ _ E) as [y [Ey Ky]]. rewrite Ey. cbn. unfold dm. unfold keep in Ky.
    destruct Ky as (A & B & _). rewrite A, B. reflexivity.
  - rewrite (gkeep_none _ _ _ K E). reflexivity.
Qed.

Lemma gkeep_same_sk : forall g g', gkeep g g' -> same sk g g'.
Proof.
  intros g g' K n. destruct (g_get g n) eqn:E.
  - destruct K as [_ K]. destruct (K _ _ E) as [y [Ey Ky]]. rewrite Ey. cbn. unfold sk. unfold keep in Ky.
    destruct Ky as (_ & B & C & _). rewrite B, C. reflexivity.
  - rewrite (gkeep_none _ _ _ K E). reflexivity.
Qed.

Lemma gkeep_defns : forall g g', gkeep g g' -> forall f n, defns f g n = defns f g' n.
Proof. intros. apply defns_same. apply gkeep_same_dm. auto. Qed.

(* a pointwise modification that satisfies keep *)
Lemma gkeep_pointwise : forall g g' (F : nat -> node -> node),
  (forall k, g_get g' k = option_map (F k) (g_get g k)) -> (forall k x, keep x (F k x)) -> gkeep g g'.
Proof.
  intros g g' F H K. split.
  - destruct (Nat.lt_trichotomy (length g) (length g')) as [L|[L|L]]; auto.
    + pose proof (H (length g)) as Q. unfold g_get in Q.
      rewrite (proj2 (nth_error_None g (length g))) in Q by lia. cbn in Q. apply nth_error_None in Q. lia.
    + pose proof (H (length g')) as Q. unfold g_get in Q.
      rewrite (proj2 (nth_error_None g' (length g'))) in Q by lia.
      destruct (nth_error g (length g')) eqn:E; [discriminate|]. apply nth_error_None in E. lia.
  - intros n x E. rewrite H, E. cbn. eauto.
Qed.

Lemma existsb_ext_all : forall A (f1 f2 : A -> bool) l, (forall x, f1 x = f2 x) -> existsb f1 l = existsb f2 l.
Proof. induction l; cbn; intros; auto. rewrite H, IHl; auto. Qed.

Lemma lb_b_same : forall g g', same sk g g' -> forall f a n, lb_b f g a n = lb_b f g' a n.
Proof.
  intros g g' S. induction f; intros; cbn; auto. f_equal.
  pose proof (S a) as Sa. destruct (g_get g a), (g_get g' a); cbn in Sa; try discriminate; auto.
  unfold sk in Sa. injection Sa as _ Sc. rewrite Sc. apply existsb_ext_all. intros. apply IHf.
Qed.

Lemma anc_b_same : forall g g', same sk g g' -> forall f a n, anc_b f g a n = anc_b f g' a n.
Proof.
  intros g g' S. induction f; intros; cbn; auto. f_equal.
  pose proof (S n) as Sa. destruct (g_get g n), (g_get g' n); cbn in Sa; try discriminate; auto.
  unfold sk in Sa. injection Sa as Sm _. rewrite Sm. apply existsb_ext_all. intros. apply IHf.
Qed.

(* ---------- lock_parents, exactly ---------- *)
Definition lp_node (n : nat) (ms : list nat) (k : nat) (x : node) : node :=
  if mem k ms && negb (mem n (n_children x)) then set_locked x else x.

Lemma lock_parents_spec : forall n ms g k,
  g_get (lock_parents g n ms) k = option_map (lp_node n ms k) (g_get g k).
Proof.
  unfold lock_parents. induction ms as [|m r IH]; intros g k.
  - cbn. unfold lp_node. cbn. destruct (g_get g k); reflexivity.
  - cbn [fold_left]. rewrite IH. clear IH. unfold lp_node. cbn [mem existsb].
    destruct (g_get g m) eqn:Em.
    + destruct (mem n (n_children n0)) eqn:C.
      * destruct (g_get g k) eqn:Ek; cbn; auto.
        destruct (Nat.eqb k m) eqn:Ekm; cbn; auto.
        apply Nat.eqb_eq in Ekm. subst. rewrite Em in Ek. injection Ek as <-. rewrite C. cbn. rewrite andb_false_r. reflexivity.
      * rewrite g_get_mod. destruct (Nat.eqb k m) eqn:Ekm.
        -- apply Nat.eqb_eq in Ekm. subst. rewrite Em. cbn. rewrite C. cbn. f_equal.
           destruct (mem m r && negb (existsb (Nat.eqb n) (n_children n0))); reflexivity.
        -- cbn. reflexivity.
    + destruct (Nat.eqb k m) eqn:Ekm; cbn; auto.
      apply Nat.eqb_eq in Ekm. subst. rewrite Em. reflexivity.
Qed.

Lemma keep_lp_node : forall n ms k x, keep x (lp_node n ms k x).
Proof. intros. unfold lp_node. destruct (_ && _); unfold keep; cbn; intuition. Qed.

(* ---------- compile, exactly ---------- *)
Definition cp_node (n : nat) (ms : list nat) (t : table) (k : nat) (x : node) : node :=
  if Nat.eqb k n then set_snap t (lp_node n ms k x) else lp_node n ms k x.

Lemma compile_spec : forall g n g', compile g n = Some g' ->
  exists x t, g_get g n = Some x /\ defns (length g) g n = Some t /\
              forall k, g_get g' k = option_map (cp_node n (n_mixins x) t k) (g_get g k).
Proof.
  unfold compile. intros g n g' H. destruct (g_get g n) eqn:E; [|discriminate].
  destruct (defns (length g) g n) eqn:D; [|discriminate]. injection H as <-.
  exists n0, t. repeat split; auto. intros k. rewrite g_get_mod. unfold cp_node.
  destruct (Nat.eqb k n) eqn:Ekn.
  - apply Nat.eqb_eq in Ekn. subst. rewrite lock_parents_spec. destruct (g_get g n); reflexivity.
  - apply lock_parents_spec.
Qed.

Lemma keep_cp_node : forall n ms t k x, (k = n -> True) -> keep x (cp_node n ms t k x).
Proof.
  intros. unfold cp_node. destruct (Nat.eqb k n).
  - eapply keep_trans; [apply keep_lp_node|]. unfold keep; cbn; intuition.
  - apply keep_lp_node.
Qed.

Lemma compile_gkeep : forall g n g', compile g n = Some g' -> gkeep g g'.
Proof.
  intros. destruct (compile_spec _ _ _ H) as (x & t & _ & _ & S).
  eapply gkeep_pointwise; [exact S|]. intros. apply keep_cp_node. auto.
Qed.

Lemma compile_other : forall g n g' k x, compile g n = Some g' -> k <> n -> g_get g k = Some x ->
  exists y, g_get g' k = Some y /\ n_compiled y = n_compiled x /\ n_snap y = n_snap x.
Proof.
  intros. destruct (compile_spec _ _ _ H) as (x0 & t & _ & _ & S). rewrite S, H1. cbn.
  eexists. split; eauto. unfold cp_node. apply Nat.eqb_neq in H0. rewrite H0. unfold lp_node.
  destruct (_ && _); cbn; auto.
Qed.

Lemma compile_self : forall g n g', compile g n = Some g' ->
  exists y, g_get g' n = Some y /\ n_compiled y = true /\ Some (n_snap y) = defns (length g) g n.
Proof.
  intros. destruct (compile_spec _ _ _ H) as (x0 & t & E & D & S). rewrite S, E. cbn.
  eexists. split; eauto. unfold cp_node. rewrite Nat.eqb_refl. cbn. auto.
Qed.

Lemma compile_locks : forall g n g' x m y, compile g n = Some g' -> g_get g n = Some x -> In m (n_mixins x) ->
  g_get g m = Some y -> mem n (n_children y) = false -> exists y', g_get g' m = Some y' /\ n_locked y' = true.
Proof.
  intros. destruct (compile_spec _ _ _ H) as (x0 & t & E & D & S). rewrite H0 in E. injection E as <-.
  rewrite S, H2. cbn. eexists. split; eauto. unfold cp_node, lp_node.
  assert (mem m (n_mixins x) = true) as M.
  { unfold mem. apply existsb_exists. exists m. split; auto. apply Nat.eqb_refl. }
  rewrite M, H3. cbn. destruct (Nat.eqb m n); cbn; reflexivity.
Qed.

(* ---------- _update ---------- *)
Definition ufold (f : nat) (cs : list nat) (start : option graph) : option graph :=
  fold_left (fun acc c => match acc with Some a => upd f a c | None => None end) cs start.

Lemma upd_S : forall f g n,
  upd (S f) g n = match g_get g n with
                  | None => None
                  | Some x => ufold f (n_children x) (if n_compiled x then compile g n else Some g)
                  end.
Proof. reflexivity. Qed.

Lemma ufold_none : forall f cs, ufold f cs None = None.
Proof. unfold ufold. induction cs; cbn; auto. Qed.

Lemma ufold_cons : forall f c cs g, ufold f (c :: cs) (Some g) = ufold f cs (upd f g c).
Proof. reflexivity. Qed.

(* UR V g g': g' keeps g; compiled flags are the same; a snapshot changed only at a visited used node, where it now
   is the current defns.   UF V g g': every visited used node's snapshot is the current defns. *)
Definition UR (V : nat -> Prop) (g g' : graph) : Prop :=
  gkeep g g' /\
  (forall k, compiled_b g' k = compiled_b g k) /\
  (forall k x y, g_get g k = Some x -> g_get g' k = Some y ->
     n_snap y = n_snap x \/ (n_compiled x = true /\ V k /\ Some (n_snap y) = defns (length g) g k)).

Definition UF (V : nat -> Prop) (g g' : graph) : Prop :=
  forall k y, V k -> g_get g' k = Some y -> n_compiled y = true -> Some (n_snap y) = defns (length g) g k.

Lemma UR_refl : forall V g, UR V g g.
Proof. intros. split; [apply gkeep_refl|]. split; auto. intros. rewrite H in H0. injection H0 as <-. auto. Qed.

Lemma UR_weaken : forall (V W : nat -> Prop) g g', (forall k, V k -> W k) -> UR V g g' -> UR W g g'.
Proof.
  intros V W g g' I (K & C & S). split; auto. split; auto. intros. destruct (S _ _ _ H H0) as [?|(?&?&?)]; auto.
Qed.

Lemma compiled_b_get : forall g k x, g_get g k = Some x -> compiled_b g k = n_compiled x.
Proof. intros. unfold compiled_b. rewrite H. reflexivity. Qed.

Lemma UR_trans : forall (V1 V2 : nat -> Prop) g1 g2 g3, UR V1 g1 g2 -> UR V2 g2 g3 -> UR (fun k => V1 k \/ V2 k) g1 g3.
Proof.
  intros V1 V2 g1 g2 g3 (K1 & C1 & S1) (K2 & C2 & S2). split; [eapply gkeep_trans; eauto|]. split.
  - intros. rewrite C2. apply C1.
  - intros k x z Ex Ez. destruct (proj2 K1 _ _ Ex) as [y [Ey _]].
    assert (length g1 = length g2) as L by apply K1.
    destruct (S2 _ _ _ Ey Ez) as [Q|(Cy & Vk & Q)].
    + destruct (S1 _ _ _ Ex Ey) as [P|(Cx & Vk & P)].
      * left. congruence.
      * right. repeat split; auto. rewrite Q. auto.
    + right. split; [|split; auto].
      * pose proof (C1 k) as Ck. rewrite (compiled_b_get _ _ _ Ey), (compiled_b_get _ _ _ Ex) in Ck. congruence.
      * rewrite Q, <- L. symmetry. apply gkeep_defns. auto.
Qed.

Lemma UF_later : forall (V V2 : nat -> Prop) g1 g2 g3, UF V g1 g2 -> UR V2 g2 g3 -> gkeep g1 g2 -> UF V g1 g3.
Proof.
  intros V V2 g1 g2 g3 F (K2 & C2 & S2) K1 k z Vk Ez Cz.
  assert (length g1 = length g2) as L by apply K1.
  destruct (g_get g2 k) eqn:Ey.
  - destruct (S2 _ _ _ Ey Ez) as [Q|(Cy & _ & Q)].
    + rewrite Q. apply (F k n); auto.
      pose proof (C2 k) as Ck. rewrite (compiled_b_get _ _ _ Ey), (compiled_b_get _ _ _ Ez) in Ck. congruence.
    + rewrite Q, <- L. symmetry. apply gkeep_defns. auto.
  - pose proof (gkeep_none _ _ _ K2 Ey). congruence.
Qed.

Lemma UF_transport : forall (V : nat -> Prop) g1 g2 g3, gkeep g1 g2 -> UF V g2 g3 -> UF V g1 g3.
Proof.
  intros V g1 g2 g3 K F k z Vk Ez Cz. rewrite (F k z Vk Ez Cz).
  replace (length g2) with (length g1) by apply K. symmetry. apply gkeep_defns. auto.
Qed.

Lemma UF_or : forall (V1 V2 : nat -> Prop) g g', UF V1 g g' -> UF V2 g g' -> UF (fun k => V1 k \/ V2 k) g g'.
Proof. intros V1 V2 g g' F1 F2 k y [Vk|Vk]; eauto. Qed.

Lemma UF_ext : forall (V W : nat -> Prop) g g', (forall k, W k -> V k) -> UF V g g' -> UF W g g'.
Proof. intros V W g g' I F k y Wk. apply F. auto. Qed.

Lemma compile_UR : forall g n g' x, g_get g n = Some x -> n_compiled x = true -> compile g n = Some g' ->
  UR (eq n) g g' /\ UF (eq n) g g'.
Proof.
  intros g n g' x E C H. split.
  - split; [eapply compile_gkeep; eauto|]. split.
    + intros k. destruct (Nat.eq_dec k n) as [->|Ne].
      * destruct (compile_self _ _ _ H) as (y & Ey & Cy & _).
        rewrite (compiled_b_get _ _ _ Ey), (compiled_b_get _ _ _ E). congruence.
      * destruct (g_get g k) eqn:Ek.
        -- destruct (compile_other _ _ _ _ _ H Ne Ek) as (y & Ey & Cy & _).
           rewrite (compiled_b_get _ _ _ Ey), (compiled_b_get _ _ _ Ek). auto.
        -- pose proof (gkeep_none _ _ _ (compile_gkeep _ _ _ H) Ek) as Q. unfold compiled_b. rewrite Ek, Q. reflexivity.
    + intros k x0 y Ex Ey. destruct (Nat.eq_dec k n) as [->|Ne].
      * right. destruct (compile_self _ _ _ H) as (y' & Ey' & _ & Sy). rewrite Ey in Ey'. injection Ey' as <-.
        rewrite E in Ex. injection Ex as <-. auto.
      * left. destruct (compile_other _ _ _ _ _ H Ne Ex) as (y' & Ey' & _ & Sy). congruence.
  - intros k y <- Ey Cy. destruct (compile_self _ _ _ H) as (y' & Ey' & _ & Sy). congruence.
Qed.

Definition visited (f : nat) (g : graph) (n k : nat) : Prop := lb_b f g n k = true.

Lemma upd_spec : forall f g n g', upd f g n = Some g' -> UR (visited f g n) g g' /\ UF (visited f g n) g g'.
Proof.
  induction f; intros g n g' H; [discriminate|].
  rewrite upd_S in H. destruct (g_get g n) eqn:E; [|discriminate].
  (* the fold over the children, from any graph ga that keeps g *)
  assert (forall cs ga gb, gkeep g ga -> ufold f cs (Some ga) = Some gb ->
            UR (fun k => exists c, In c cs /\ visited f g c k) ga gb /\
            UF (fun k => exists c, In c cs /\ visited f g c k) ga gb) as FOLD.
  { induction cs as [|c cs IHcs]; intros ga gb K Hf.
    - cbn in Hf. injection Hf as <-. split; [apply UR_refl|]. intros k y [c [[] _]].
    - rewrite ufold_cons in Hf. destruct (upd f ga c) as [g1|] eqn:U; [|rewrite ufold_none in Hf; discriminate].
      destruct (IHf _ _ _ U) as [R1 F1].
      assert (gkeep g g1) as K1 by (eapply gkeep_trans; [exact K | apply R1]).
      destruct (IHcs _ _ K1 Hf) as [R2 F2].
      assert (forall k, visited f ga c k <-> visited f g c k) as VV.
      { intros k. unfold visited. rewrite (lb_b_same g ga); [tauto|]. apply gkeep_same_sk. auto. }
      split.
      + eapply UR_weaken; [|eapply UR_trans; [exact R1 | exact R2]].
        intros k [V|[c' [I V]]]; [exists c; split; [left; auto | apply VV; auto] | exists c'; split; [right; auto | auto]].
      + eapply UF_ext; [| apply UF_or; [eapply UF_later; [exact F1 | exact R2 | apply R1] | eapply UF_transport; [apply R1 | exact F2]]].
        intros k [c' [[<-|I] V]]; [left; apply VV; auto | right; eauto]. }
  assert (forall k, visited (S f) g n k <-> (n = k \/ exists c, In c (n_children n0) /\ visited f g c k)) as VS.
  { intros k. unfold visited. cbn [lb_b]. rewrite E, orb_true_iff, Nat.eqb_eq, existsb_exists. tauto. }
  destruct (n_compiled n0) eqn:C.
  - destruct (compile g n) as [g1|] eqn:CP; [|rewrite ufold_none in H; discriminate].
    destruct (compile_UR _ _ _ _ E C CP) as [R1 F1].
    destruct (FOLD _ _ _ (proj1 R1) H) as [R2 F2].
    split.
    + eapply UR_weaken; [|eapply UR_trans; [exact R1 | exact R2]]. intros k Q. apply VS. exact Q.
    + eapply UF_ext; [| apply UF_or; [eapply UF_later; [exact F1 | exact R2 | apply R1] | eapply UF_transport; [apply R1 | exact F2]]].
      intros k Q. apply VS in Q. exact Q.
  - destruct (FOLD _ _ _ (gkeep_refl g) H) as [R2 F2]. split.
    + eapply UR_weaken; [|exact R2]. intros k Q. apply VS. right. exact Q.
    + intros k y Q Ey Cy. apply VS in Q. destruct Q as [<-|Q]; [|eapply F2; eauto].
      exfalso. pose proof (proj1 (proj2 R2) n) as Cn.
      rewrite (compiled_b_get _ _ _ Ey), (compiled_b_get _ _ _ E) in Cn. congruence.
Qed.

(* _update terminates when the children tree does and every defns does *)
Lemma compile_some : forall g n, mterm (length g) g n = true -> exists g', compile g n = Some g'.
Proof.
  intros. unfold compile. destruct (mterm_defns _ _ _ H) as [t D].
  pose proof (mterm_lt _ _ _ H) as L. destruct (g_get_some _ _ L) as [x E]. rewrite E, D. eauto.
Qed.

Lemma upd_some : forall f g n,
  (forall k, k < length g -> mterm (length g) g k = true) -> cterm f g n = true -> exists g', upd f g n = Some g'.
Proof.
  induction f; intros g n M C; [discriminate|].
  rewrite cterm_S in C. rewrite upd_S. destruct (g_get g n) eqn:E; [|discriminate].
  assert (forall cs ga, gkeep g ga -> forallb (cterm f g) cs = true -> exists gb, ufold f cs (Some ga) = Some gb) as FOLD.
  { induction cs as [|c cs IHcs]; intros ga K Hc.
    - cbn. eauto.
    - cbn in Hc. apply andb_true_iff in Hc. destruct Hc as [Hc1 Hc2]. rewrite ufold_cons.
      destruct (IHf ga c) as [g1 U].
      + intros k Lk. replace (length ga) with (length g) in * by apply K.
        rewrite <- (mterm_same g ga); [apply M; auto | apply gkeep_same_sk; auto].
      + rewrite <- (cterm_same g ga); [auto | apply gkeep_same_sk; auto].
      + rewrite U. apply IHcs; auto. eapply gkeep_trans; [exact K|]. apply (upd_spec _ _ _ _ U). }
  destruct (n_compiled n0).
  - destruct (compile_some g n) as [g1 CP]; [apply M; eapply g_get_lt; eauto|]. rewrite CP.
    apply FOLD; auto. eapply compile_gkeep; eauto.
  - apply FOLD; auto. apply gkeep_refl.
Qed.
