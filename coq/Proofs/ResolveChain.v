(* ResolveChain.v — C02, exactness on calls whose classes fall under pairwise comparable registered types
   (always the case under single inheritance): there the implementation's outcome IS the documented rule's verdict. *)
From Coq Require Import ZArith List Bool Arith Lia Permutation.
Import ListNotations.
From OvldV Require Import Model.Order Model.Ty Model.Resolve Spec.Dispatch
  Proofs.TyEq Proofs.TySub Proofs.ResolveKahn Proofs.ResolveLevels Proofs.ResolveSort Proofs.ResolveCands
  Proofs.ResolveStatic Proofs.ResolveTotal.

(* tiebreaks as registration leaves them: never positive, and a negative one (a pushed-down definition) comes with a
   definition of the identical signature at tiebreak 0 *)
Definition ties_wf (ms : list meth) : bool :=
  forallb (fun a => Z.leb (m_tie a) 0 &&
                    (Z.eqb (m_tie a) 0 || existsb (fun b => sig_eqb a b && Z.eqb (m_tie b) 0) ms)) ms.

Lemma sig_eqb_iff a b : sig_eqb a b = true <->
  m_pos a = m_pos b /\ m_kw a = m_kw b /\ m_req a = m_req b /\ m_reqkw a = m_reqkw b /\ m_prio a = m_prio b.
Proof.
  unfold sig_eqb. rewrite !andb_true_iff, Nat.eqb_eq, Z.eqb_eq.
  rewrite (list_eqb_spec' ty_eqb ty_eqb_eq).
  rewrite (list_eqb_spec' Nat.eqb Nat.eqb_eq).
  rewrite (list_eqb_spec' (fun p q : nat * ty => Nat.eqb (fst p) (fst q) && ty_eqb (snd p) (snd q))).
  - tauto.
  - intros [n1 t1] [n2 t2]. simpl. rewrite andb_true_iff, Nat.eqb_eq, ty_eqb_eq.
    split; [intros [-> ->]; reflexivity | intros E; injection E; auto].
Qed.

Lemma sig_eqb_sym a b : sig_eqb a b = true -> sig_eqb b a = true.
Proof. rewrite !sig_eqb_iff. intuition congruence. Qed.

Lemma sig_eqb_arity a b n names : sig_eqb a b = true -> arity_ok a n names = arity_ok b n names.
Proof. rewrite sig_eqb_iff. intros (H1 & _ & H3 & H4 & _). unfold arity_ok, m_max. now rewrite H1, H3, H4. Qed.

Lemma filter_unique {X} (p : X -> bool) l m :
  NoDup l -> In m l -> p m = true -> (forall x, In x l -> p x = true -> x = m) -> filter p l = [m].
Proof.
  induction l as [|a r IH]; intros Hnd Hin Hp Hu; [destruct Hin|].
  inversion Hnd as [|? ? Hna Hnr]; subst. simpl. destruct Hin as [->|Hin].
  - rewrite Hp. f_equal. apply filter_all_false. intros x Hx. destruct (p x) eqn:E; [|reflexivity].
    exfalso. apply Hna. rewrite <- (Hu x (or_intror Hx) E). exact Hx.
  - destruct (p a) eqn:Ea.
    + exfalso. apply Hna. rewrite (Hu a (or_introl eq_refl) Ea). exact Hin.
    + apply IH; auto. intros x Hx. apply Hu. now right.
Qed.

Lemma NoDup_filter' {X} (p : X -> bool) l : NoDup l -> NoDup (filter p l).
Proof.
  induction l as [|a r IH]; simpl; intros H; [constructor|]. inversion H; subst.
  destruct (p a); [constructor; [rewrite filter_In; tauto|auto]|auto].
Qed.

Section Chain.
  Variable sub : nat -> nat -> bool.
  Variable hasm : nat -> nat -> bool.
  Variable chk : nat -> nat -> bool.
  Variable sub_fresh : nat -> bool.
  Hypothesis sub_refl : forall c, sub c c = true.
  Hypothesis sub_antisym : forall c d, sub c d = true -> sub d c = true -> c = d.

  Notation levels := (levels sub hasm chk sub_fresh).
  Notation candidates := (candidates sub hasm chk sub_fresh).
  Notation lookup := (lookup sub hasm chk sub_fresh).
  Notation applicable_ty := (applicable_ty sub hasm chk sub_fresh).
  Notation tables_for := (tables_for sub hasm chk sub_fresh).
  Notation applicable := (applicable sub).
  Notation beats := (beats sub).

  (* two registered classes above the call's class at a slot of a chain-applicable key are comparable *)
  Lemma chain_pair ms k s c d1 d2 :
    chain_applicable sub ms k = true -> In (s, Cls c) (key_slots k) ->
    In (Cls d1) (slot_types ms s) -> In (Cls d2) (slot_types ms s) ->
    sub c d1 = true -> sub c d2 = true -> sub d1 d2 = true \/ sub d2 d1 = true.
  Proof.
    intros Hch Hin H1 H2 Hs1 Hs2. unfold chain_applicable in Hch. rewrite forallb_forall in Hch.
    specialize (Hch _ Hin). simpl in Hch. unfold chain_at in Hch. rewrite forallb_forall in Hch.
    assert (Hf1 : In (Cls d1) (filter (fun t => match t with Cls d => sub c d | _ => false end) (slot_types ms s)))
      by (apply filter_In; auto).
    assert (Hf2 : In (Cls d2) (filter (fun t => match t with Cls d => sub c d | _ => false end) (slot_types ms s)))
      by (apply filter_In; auto).
    specialize (Hch _ Hf1). rewrite forallb_forall in Hch. specialize (Hch _ Hf2). simpl in Hch.
    now apply orb_true_iff in Hch.
  Qed.

  Definition app_at (a : meth) (st : slot * ty) : bool :=
    match cls_of (snd st), decl a (fst st) with Some c, Some d => sub c d | _, _ => false end.

  (* converse of spec_compare on chains: level comparisons are class comparisons *)
  Lemma spec_compare_conv ms k a b : In a ms -> In b ms -> chain_applicable sub ms k = true ->
    forall sts lv, (forall st, In st sts -> In st (key_slots k)) ->
    Forall2 (fun (st : slot * ty) (e : slot * list (ty * nat)) =>
               fst e = fst st /\ levels (slot_types ms (fst st)) (snd st) = Ok (snd e)) sts lv ->
    forall sa sb, spec_of lv a = Some sa -> spec_of lv b = Some sb ->
      forallb (app_at a) sts = true -> forallb (app_at b) sts = true ->
      (all_ge sa sb = true -> forallb (ple sub a b) sts = true) /\
      (sa = sb -> forallb (same a b) sts = true).
  Proof.
    intros Ha Hb Hch sts lv Hincl Ht.
    induction Ht as [|[s kt] [s' tab] sts lv' [Hs Hl] Hr IH]; intros sa sb Hsa Hsb Hpa Hpb.
    - simpl. auto.
    - simpl in Hs, Hl. subst s'. simpl in Hsa, Hsb. fold (spec_of lv' a) in Hsa. fold (spec_of lv' b) in Hsb.
      destruct (slot_ty a s) as [ta|] eqn:Ea; [|discriminate]. destruct (slot_ty b s) as [tb|] eqn:Eb; [|discriminate].
      destruct (assoc_ty ta tab) as [la|] eqn:Ela; [|discriminate]. destruct (assoc_ty tb tab) as [lb|] eqn:Elb; [|discriminate].
      destruct (spec_of lv' a) as [sa'|] eqn:Esa; [|discriminate]. destruct (spec_of lv' b) as [sb'|] eqn:Esb; [|discriminate].
      injection Hsa as <-. injection Hsb as <-.
      simpl in Hpa, Hpb. apply andb_true_iff in Hpa, Hpb. destruct Hpa as [Hpa Hpa'], Hpb as [Hpb Hpb'].
      assert (Hincl' : forall st, In st sts -> In st (key_slots k)) by (intros st Hst; apply Hincl; now right).
      destruct (IH Hincl' _ _ eq_refl eq_refl Hpa' Hpb') as [IHge IHeq].
      unfold app_at, decl in Hpa, Hpb. simpl in Hpa, Hpb. rewrite Ea in Hpa. rewrite Eb in Hpb.
      destruct kt as [c| | | | | | | | | | | ]; try discriminate. simpl in Hpa, Hpb.
      destruct ta as [x| | | | | | | | | | | ]; try discriminate.
      destruct tb as [y| | | | | | | | | | | ]; try discriminate.
      assert (Hinx : In (Cls x) (slot_types ms s)) by (apply slot_types_In; eauto).
      assert (Hiny : In (Cls y) (slot_types ms s)) by (apply slot_types_In; eauto).
      assert (Hk : In (s, Cls c) (key_slots k)) by (apply Hincl; now left).
      assert (Hcmp : lb <= la -> sub x y = true).
      { intros Hle. destruct (chain_pair _ _ _ _ _ _ Hch Hk Hinx Hiny Hpa Hpb) as [H|H]; [exact H|].
        destruct (Nat.eq_dec y x) as [->|Hne]; [apply sub_refl|].
        pose proof (levels_strict _ _ _ _ sub_antisym _ _ _ _ _ _ _ Hl Elb Ela H Hne). lia. }
      split.
      + simpl. intros Hge. apply andb_true_iff in Hge. destruct Hge as [Hle Hge]. apply Nat.leb_le in Hle.
        apply andb_true_iff. split; [|auto]. unfold ple, decl. simpl. rewrite Ea, Eb. auto.
      + intros E. injection E as E1 E2. simpl. apply andb_true_iff. split; [|auto].
        unfold same, decl. simpl. rewrite Ea, Eb. apply Nat.eqb_eq.
        apply sub_antisym; [apply Hcmp; lia|].
        destruct (chain_pair _ _ _ _ _ _ Hch Hk Hinx Hiny Hpa Hpb) as [H|H]; [|exact H].
        destruct (Nat.eq_dec x y) as [->|Hne]; [apply sub_refl|].
        pose proof (levels_strict _ _ _ _ sub_antisym _ _ _ _ _ _ _ Hl Ela Elb H Hne). lia.
  Qed.

  Lemma applicable_app_at m k : applicable m k = true -> forallb (app_at m) (key_slots k) = true.
  Proof. unfold Dispatch.applicable. rewrite andb_true_iff. intros [_ H]. exact H. Qed.

  Lemma ties_wf_In ms a : ties_wf ms = true -> In a ms ->
    (m_tie a <= 0)%Z /\ (m_tie a = 0%Z \/ exists b, In b ms /\ sig_eqb a b = true /\ m_tie b = 0%Z).
  Proof.
    unfold ties_wf. rewrite forallb_forall. intros H Ha. specialize (H _ Ha).
    apply andb_true_iff in H. destruct H as [H1 H2]. apply Z.leb_le in H1. split; [exact H1|].
    apply orb_true_iff in H2. destruct H2 as [H2|H2]; [left; now apply Z.eqb_eq|right].
    apply existsb_exists in H2. destruct H2 as (b & Hb & Hsb). apply andb_true_iff in Hsb.
    destruct Hsb as [Hs Ht]. apply Z.eqb_eq in Ht. eauto.
  Qed.

  (* the heart: on a chain-applicable key, if the implementation's first rank is the single candidate c1, then c1's
     method beats every other applicable method by the documented rule *)
  Theorem chain_run_beats ms k cs i :
    NoDup (map m_id ms) -> static_ms ms = true -> static_key k = true ->
    chain_applicable sub ms k = true -> ties_wf ms = true ->
    candidates ms k = Ok cs -> lookup ms k = ORun i ->
    exists m, In m ms /\ m_id m = i /\ applicable m k = true /\
      forall m', In m' ms -> applicable m' k = true -> m_id m' <> i -> beats m m' k = true.
  Proof.
    intros Hnd Hst Hk Hch Hties Hc Hrun.
    rewrite (lookup_unfold _ _ _ _ _ _ _ Hc) in Hrun.
    destruct (sort_desc cs) as [|c1 rest] eqn:Hsort; [discriminate|].
    unfold rank_outcome in Hrun. destruct (grp _ rest) eqn:Hf; [|discriminate]. injection Hrun as <-.
    apply grp_single_nil_iff in Hf.
    assert (Hc1 : In c1 cs) by (apply sort_desc_In; rewrite Hsort; now left).
    pose proof (proj1 (cand_In _ _ _ _ _ _ _ _ Hc) Hc1) as (lv & Ht & Hm & Har1 & Hsp).
    pose proof (static_ms_meth _ _ Hst Hm) as Hsm.
    assert (Happ1 : applicable (c_m c1) k = true).
    { rewrite <- (applicable_static sub hasm chk sub_fresh sub_refl _ _ Hsm Hk). apply (cand_applicable _ _ _ _ _ _ _ _ Hc Hm). eauto. }
    (* every other candidate is dominated by c1 and does not have a larger key *)
    assert (Hdom : forall x, In x cs -> x <> c1 -> dominates c1 x = true /\ key_gt x c1 = false).
    { intros x Hx Hne. split; [|eapply sort_desc_head; eauto].
      assert (Hxr : In x rest).
      { apply sort_desc_In in Hx. rewrite Hsort in Hx. destruct Hx as [E|Hx]; [congruence|exact Hx]. }
      destruct (dominates c1 x) eqn:E; [reflexivity|].
      assert (Hin : In x (filter (fun c2 => negb (dominates c1 c2)) rest)) by (apply filter_In; rewrite E; auto).
      rewrite Hf in Hin. destruct Hin. }
    exists (c_m c1). split; [exact Hm|]. split; [reflexivity|]. split; [exact Happ1|].
    intros m' Hm' Happ' Hne.
    pose proof (static_ms_meth _ _ Hst Hm') as Hsm'.
    assert (Hc' : exists c', In c' cs /\ c_m c' = m').
    { apply (cand_applicable _ _ _ _ _ _ _ _ Hc Hm'). rewrite (applicable_static sub hasm chk sub_fresh sub_refl _ _ Hsm' Hk). exact Happ'. }
    destruct Hc' as (c' & Hc' & Hcm').
    pose proof (proj1 (cand_In _ _ _ _ _ _ _ _ Hc) Hc') as (lv' & Ht' & _ & _ & Hsp').
    rewrite (tables_for_unique _ _ _ _ _ _ _ _ Ht Ht') in Hsp'.
    assert (Hne' : c' <> c1) by (intros ->; apply Hne; now rewrite <- Hcm').
    destruct (Hdom _ Hc' Hne') as [Hd Hkg].
    unfold dominates in Hd. unfold Dispatch.beats.
    unfold c_prio, c_tie in Hd. rewrite Hcm' in Hd.
    destruct (Z.ltb (m_prio m') (m_prio (c_m c1))) eqn:Ep; [reflexivity|]. cbn [orb].
    (* equal priorities: c' does not sort above c1 *)
    assert (Hpe : m_prio (c_m c1) = m_prio m').
    { apply Z.ltb_ge in Ep. destruct (Z.ltb (m_prio (c_m c1)) (m_prio m')) eqn:Ep2; [|apply Z.ltb_ge in Ep2; lia].
      exfalso. unfold key_gt, c_prio in Hkg. rewrite Hcm', Ep2 in Hkg. discriminate. }
    pose proof (applicable_app_at _ _ Happ1) as Hat1. pose proof (applicable_app_at _ _ Happ') as Hat'.
    rewrite Hcm' in Hsp'.
    destruct (spec_compare_conv ms k (c_m c1) m' Hm Hm' Hch (key_slots k) lv (fun st H => H) Ht
                _ _ Hsp Hsp' Hat1 Hat') as [Hconv_ge Hconv_eq].
    destruct (list_eqb Nat.eqb (c_spec c1) (c_spec c')) eqn:Eeq; cbn [negb] in Hd.
    - (* same specificity: decided by the tiebreak *)
      apply list_eqb_nat_eq in Eeq. apply Z.ltb_lt in Hd.
      destruct (sig_eqb (c_m c1) m') eqn:Esig.
      + apply orb_true_iff. right. apply Z.ltb_lt in Hd. now rewrite Hd.
      + exfalso.
        destruct (ties_wf_In _ _ Hties Hm) as [Hle1 _].
        destruct (ties_wf_In _ _ Hties Hm') as [_ [Hz|(b & Hb & Hsb & Hbz)]]; [lia|].
        (* b: identical signature to m', tiebreak 0: a candidate with c''s specificity that c1 cannot dominate *)
        assert (Happb : applicable_ty b k = true).
        { assert (Hx : applicable_ty m' k = true) by (rewrite (applicable_static sub hasm chk sub_fresh sub_refl _ _ Hsm' Hk); exact Happ').
          unfold ResolveCands.applicable_ty in *. apply andb_true_iff in Hx. destruct Hx as [Hx1 Hx2].
          apply andb_true_iff. split; [now rewrite <- (sig_eqb_arity _ _ _ _ Hsb)|].
          erewrite forallb_ext_in; [exact Hx2|]. intros st _. cbv beta. now rewrite (sig_eqb_slot _ _ (fst st) Hsb). }
        apply (cand_applicable _ _ _ _ _ _ _ _ Hc Hb) in Happb. destruct Happb as (cb & Hcb & Hcbm).
        pose proof (proj1 (cand_In _ _ _ _ _ _ _ _ Hc) Hcb) as (lvb & Htb & _ & _ & Hspb).
        rewrite (tables_for_unique _ _ _ _ _ _ _ _ Ht Htb) in Hspb. rewrite Hcbm in Hspb.
        rewrite <- (sig_eqb_spec_of _ _ lv Hsb), Hsp' in Hspb. injection Hspb as Hspb.
        assert (Hneb : cb <> c1).
        { intros ->. rewrite Hcbm in Esig. apply sig_eqb_sym in Hsb. congruence. }
        destruct (Hdom _ Hcb Hneb) as [Hdb _]. unfold dominates, c_prio, c_tie in Hdb. rewrite Hcbm in Hdb.
        apply sig_eqb_iff in Hsb. destruct Hsb as (_ & _ & _ & _ & Hpb).
        replace (Z.ltb (m_prio b) (m_prio (c_m c1))) with false in Hdb by (symmetry; apply Z.ltb_ge; lia).
        replace (list_eqb Nat.eqb (c_spec c1) (c_spec cb)) with true in Hdb
          by (symmetry; apply list_eqb_nat_eq; congruence).
        cbn [negb] in Hdb. apply Z.ltb_lt in Hdb. lia.
    - (* different specificity: pointwise at least as specific, and not the same types *)
      apply orb_true_iff. left. apply andb_true_iff. split; [apply andb_true_iff; split|].
      + now apply Z.eqb_eq.
      + exact (Hconv_ge Hd).
      + apply negb_true_iff. destruct (same_at (c_m c1) m' k) eqn:Es; [|reflexivity]. exfalso.
        destruct (spec_compare _ _ _ _ sub_antisym ms (c_m c1) m' Hsm Hsm' _ _ Ht _ _ Hsp Hsp' (Hconv_ge Hd)) as (_ & _ & Heq & _).
        assert (E : c_spec c1 = c_spec c') by (apply Heq; exact Es).
        apply list_eqb_nat_eq in E. congruence.
  Qed.

  Definition verdict_of (o : outcome) : option verdict :=
    match o with ORun i => Some (VRun i) | ONoMethod => Some VNoMethod | OAmbig _ => Some VAmbiguous | _ => None end.

  Lemma lookup_shape ms k cs : candidates ms k = Ok cs ->
    lookup ms k = ONoMethod \/ (exists i, lookup ms k = ORun i) \/ (exists g, lookup ms k = OAmbig g).
  Proof.
    intros Hc. rewrite (lookup_unfold _ _ _ _ _ _ _ Hc). destruct (sort_desc cs) as [|c1 rest]; [now left|right].
    unfold rank_outcome. destruct (grp _ rest); eauto.
  Qed.

  (* exactness: the implementation's outcome is the documented verdict *)
  Theorem chain_exact ms k cs :
    NoDup (map m_id ms) -> static_ms ms = true -> static_key k = true ->
    chain_applicable sub ms k = true -> ties_wf ms = true -> candidates ms k = Ok cs ->
    verdict_of (lookup ms k) = Some (spec_outcome sub ms k).
  Proof.
    intros Hnd Hst Hk Hch Hties Hc.
    destruct (lookup_shape _ _ _ Hc) as [Hno|[[i Hrun]|[g Ha]]].
    - rewrite Hno. simpl. f_equal. symmetry. now apply (spec_nomethod_iff _ _ _ _ sub_refl _ _ _ Hst Hk Hc).
    - rewrite Hrun. simpl. f_equal. symmetry.
      destruct (chain_run_beats _ _ _ _ Hnd Hst Hk Hch Hties Hc Hrun) as (m & Hm & <- & Happ & Hb).
      destruct (run_is_unbeaten _ _ _ _ sub_refl sub_antisym _ _ _ _ Hnd Hst Hk Hc Hrun) as (m2 & Hm2 & Hid2 & _ & Hun).
      assert (m2 = m) by (eapply NoDup_map_eq; eauto). subst m2.
      unfold spec_outcome. set (app := filter (fun m0 => applicable m0 k) ms).
      assert (Hina : In m app) by (unfold app; apply filter_In; auto).
      destruct app as [|a0 ar] eqn:Eapp; [destruct Hina|]. rewrite <- Eapp in *.
      rewrite (filter_unique _ app m); [reflexivity| | exact Hina | |].
      + unfold app. apply NoDup_filter'. eapply NoDup_map_inv; eauto.
      + apply forallb_forall. intros m' Hm'. unfold app in Hm'. apply filter_In in Hm'. destruct Hm' as [Hm' Ha'].
        destruct (Nat.eqb (m_id m') (m_id m)) eqn:E; [reflexivity|]. apply Nat.eqb_neq in E. simpl. auto.
      + intros x Hx Hpx. unfold app in Hx. apply filter_In in Hx. destruct Hx as [Hx Hax].
        destruct (Nat.eq_dec (m_id x) (m_id m)) as [E|E]; [eapply NoDup_map_eq; eauto|]. exfalso.
        rewrite forallb_forall in Hpx. specialize (Hpx _ Hina). apply orb_true_iff in Hpx.
        destruct Hpx as [Hpx|Hpx]; [apply Nat.eqb_eq in Hpx; congruence|].
        rewrite (Hun _ Hx Hax E) in Hpx. discriminate.
    - rewrite Ha. simpl. f_equal.
      destruct (spec_outcome sub ms k) as [i| |] eqn:Es; [| |reflexivity].
      + rewrite (spec_run_complete _ _ _ _ sub_refl sub_antisym _ _ _ _ Hnd Hst Hk Hc Es) in Ha. discriminate.
      + apply (spec_nomethod_iff _ _ _ _ sub_refl _ _ _ Hst Hk Hc) in Es. congruence.
  Qed.
End Chain.

(* ---- ties_wf is what registration produces ---- *)
Lemma In_replace_first f m l y : In y (replace_first f m l) -> y = m \/ In y l.
Proof.
  induction l as [|x r IH]; simpl; [tauto|]. destruct (f x); simpl; intros [H|H]; auto.
  destruct (IH H); auto.
Qed.

Lemma replace_first_keep f m l x : In x l -> f x = false -> In x (replace_first f m l).
Proof.
  induction l as [|a r IH]; simpl; [tauto|]. intros [->|H] Hf.
  - rewrite Hf. now left.
  - destruct (f a); [now right|right; auto].
Qed.

Lemma replace_first_has f m l : (exists x, In x l /\ f x = true) -> In m (replace_first f m l).
Proof.
  induction l as [|a r IH]; simpl; intros (x & Hx & Hf); [destruct Hx|].
  destruct (f a) eqn:E; [now left|]. right. apply IH. destruct Hx as [->|Hx]; [congruence|eauto].
Qed.

Lemma sig_eqb_with_tie_r x m t : sig_eqb x (with_tie m t) = sig_eqb x m.
Proof. reflexivity. Qed.
Lemma sig_eqb_with_tie_l x m t : sig_eqb (with_tie x t) m = sig_eqb x m.
Proof. reflexivity. Qed.

Lemma sig_eqb_trans a b c : sig_eqb a b = true -> sig_eqb b c = true -> sig_eqb a c = true.
Proof. rewrite !sig_eqb_iff. intuition congruence. Qed.

Lemma sig_eqb_refl a : sig_eqb a a = true.
Proof. apply sig_eqb_iff. auto. Qed.

(* an entry above the pushed-down range stays *)
Lemma defs_set_keeps_above : forall f defs m x,
  In x defs -> (m_tie m < m_tie x)%Z -> In x (defs_set f defs m).
Proof.
  induction f as [|f IH]; intros defs m x Hx Ht; simpl.
  - destruct (find _ defs); [exact Hx|apply in_app_iff; now left].
  - destruct (find (fun x0 => sig_eqb x0 m && Z.eqb (m_tie x0) (m_tie m)) defs) as [old|] eqn:Ef; [|apply in_app_iff; now left].
    apply find_some in Ef. destruct Ef as [Hold Hs]. apply andb_true_iff in Hs. destruct Hs as [_ Hs]. apply Z.eqb_eq in Hs.
    apply replace_first_keep.
    + apply IH; [exact Hx|]. simpl. lia.
    + apply andb_false_iff. right. apply Z.eqb_neq. lia.
Qed.

(* an entry of another signature stays *)
Lemma defs_set_keeps_other : forall f defs m x,
  In x defs -> sig_eqb x m = false -> In x (defs_set f defs m).
Proof.
  induction f as [|f IH]; intros defs m x Hx Hs; simpl.
  - destruct (find _ defs); [exact Hx|apply in_app_iff; now left].
  - destruct (find (fun x0 => sig_eqb x0 m && Z.eqb (m_tie x0) (m_tie m)) defs) as [old|] eqn:Ef; [|apply in_app_iff; now left].
    apply find_some in Ef. destruct Ef as [Hold Hso]. apply andb_true_iff in Hso. destruct Hso as [Hso _].
    apply replace_first_keep.
    + apply IH; [exact Hx|]. rewrite sig_eqb_with_tie_r.
      destruct (sig_eqb x old) eqn:E; [|reflexivity]. rewrite (sig_eqb_trans _ _ _ E Hso) in Hs. discriminate.
    + now rewrite Hs.
Qed.

(* the new definition is there (one level of fuel is enough for that) *)
Lemma defs_set_has : forall f defs m, In m (defs_set (S f) defs m).
Proof.
  intros f defs m. simpl.
  destruct (find (fun x0 => sig_eqb x0 m && Z.eqb (m_tie x0) (m_tie m)) defs) as [old|] eqn:Ef; [|apply in_app_iff; right; now left].
  apply find_some in Ef. destruct Ef as [Hold Hs].
  apply replace_first_has. exists old. split; [|exact Hs].
  apply defs_set_keeps_above; [exact Hold|]. simpl. lia.
Qed.

(* where the entries of the result come from *)
Lemma defs_set_src : forall f defs m y, In y (defs_set f defs m) ->
  y = m \/ In y defs \/ exists x, In x defs /\ sig_eqb x m = true /\ y = with_tie x (m_tie x - 1)%Z.
Proof.
  induction f as [|f IH]; intros defs m y Hy; simpl in Hy.
  - destruct (find _ defs); [auto|]. apply in_app_iff in Hy. destruct Hy as [Hy|[<-|[]]]; auto.
  - destruct (find (fun x0 => sig_eqb x0 m && Z.eqb (m_tie x0) (m_tie m)) defs) as [old|] eqn:Ef.
    2:{ apply in_app_iff in Hy. destruct Hy as [Hy|[<-|[]]]; auto. }
    apply find_some in Ef. destruct Ef as [Hold Hs]. apply andb_true_iff in Hs. destruct Hs as [Hso _].
    apply In_replace_first in Hy. destruct Hy as [->|Hy]; [auto|].
    destruct (IH _ _ _ Hy) as [->|[Hd|(x & Hx & Hsx & ->)]].
    + right. right. exists old. auto.
    + auto.
    + right. right. exists x. rewrite sig_eqb_with_tie_r in Hsx. split; [exact Hx|]. split; [|reflexivity].
      eapply sig_eqb_trans; eauto.
Qed.

Lemma ties_wf_iff ms : ties_wf ms = true <->
  forall a, In a ms -> (m_tie a <= 0)%Z /\ (m_tie a = 0%Z \/ exists b, In b ms /\ sig_eqb a b = true /\ m_tie b = 0%Z).
Proof.
  unfold ties_wf. rewrite forallb_forall. split; intros H a Ha; specialize (H a Ha).
  - apply andb_true_iff in H. destruct H as [H1 H2]. apply Z.leb_le in H1. split; [exact H1|].
    apply orb_true_iff in H2. destruct H2 as [H2|H2]; [left; now apply Z.eqb_eq|right].
    apply existsb_exists in H2. destruct H2 as (b & Hb & Hsb). apply andb_true_iff in Hsb.
    destruct Hsb as [Hs Ht]. apply Z.eqb_eq in Ht. eauto.
  - destruct H as [H1 H2]. apply andb_true_iff. split; [now apply Z.leb_le|]. apply orb_true_iff.
    destruct H2 as [H2|(b & Hb & Hs & Ht)]; [left; now apply Z.eqb_eq|right].
    apply existsb_exists. exists b. split; [exact Hb|]. rewrite Hs. now apply Z.eqb_eq.
Qed.

Theorem register_ties_wf defs m : ties_wf defs = true -> ties_wf (defs_register defs m) = true.
Proof.
  rewrite !ties_wf_iff. intros H y Hy. unfold defs_register in *.
  set (m0 := with_tie m 0%Z) in *.
  assert (Hm0 : In m0 (defs_set (S (length defs)) defs m0)) by apply defs_set_has.
  destruct (defs_set_src _ _ _ _ Hy) as [->|[Hd|(x & Hx & Hsx & ->)]].
  - simpl. split; [lia|now left].
  - destruct (H _ Hd) as [H1 H2]. split; [exact H1|]. destruct H2 as [H2|(b & Hb & Hs & Ht)]; [now left|right].
    destruct (sig_eqb b m0) eqn:E.
    + exists m0. split; [exact Hm0|]. split; [eapply sig_eqb_trans; eauto|reflexivity].
    + exists b. split; [apply defs_set_keeps_other; assumption|auto].
  - destruct (H _ Hx) as [H1 _]. simpl. split; [lia|right].
    exists m0. split; [exact Hm0|]. split; [exact Hsx|reflexivity].
Qed.

Theorem registered_ties_wf : forall ds defs, ties_wf defs = true -> ties_wf (fold_left defs_register ds defs) = true.
Proof. induction ds as [|d r IH]; intros defs H; simpl; [exact H|]. apply IH. now apply register_ties_wf. Qed.

Section ChainTotal.
  Variable sub : nat -> nat -> bool.
  Variable hasm : nat -> nat -> bool.
  Variable chk : nat -> nat -> bool.
  Variable sub_fresh : nat -> bool.
  Hypothesis sub_refl : forall c, sub c c = true.
  Hypothesis sub_antisym : forall c d, sub c d = true -> sub d c = true -> c = d.
  Hypothesis sub_trans : forall a b c, sub a b = true -> sub b c = true -> sub a c = true.

  Theorem chain_exact_unconditional ms k :
    NoDup (map m_id ms) -> static_ms ms = true -> static_key k = true ->
    chain_applicable sub ms k = true -> ties_wf ms = true ->
    verdict_of (lookup sub hasm chk sub_fresh ms k) = Some (spec_outcome sub ms k).
  Proof.
    intros Hnd Hst Hk Hch Ht.
    edestruct (candidates_static_ok sub hasm chk sub_fresh) as [cs Hc]; [eassumption..|].
    eapply chain_exact; eauto.
  Qed.

  (* under single inheritance (the superclasses of any class form a chain) every static call is chain-applicable *)
  Definition Forest : Prop := forall c a b, sub c a = true -> sub c b = true -> sub a b = true \/ sub b a = true.

  Lemma forest_chain ms k : Forest -> static_key k = true -> chain_applicable sub ms k = true.
  Proof.
    intros Hf Hk. unfold chain_applicable, static_key in *. rewrite forallb_forall in *.
    intros [s t] Hin. specialize (Hk _ Hin). simpl in *. destruct t; try discriminate.
    unfold chain_at. apply forallb_forall. intros t1 H1. apply forallb_forall. intros t2 H2.
    apply filter_In in H1, H2. destruct H1 as [_ H1], H2 as [_ H2].
    destruct t1; try discriminate. destruct t2; try discriminate.
    apply orb_true_iff. eapply Hf; eauto.
  Qed.

  Theorem single_inheritance_exact ms k :
    Forest -> NoDup (map m_id ms) -> static_ms ms = true -> static_key k = true -> ties_wf ms = true ->
    verdict_of (lookup sub hasm chk sub_fresh ms k) = Some (spec_outcome sub ms k).
  Proof. intros Hf Hnd Hst Hk Ht. apply chain_exact_unconditional; auto. now apply forest_chain. Qed.
End ChainTotal.

(* ---- C06 on chain-applicable calls: the verdict does not depend on the order of the method list ---- *)
Section PermFree.
  Variable sub : nat -> nat -> bool.

  Lemma filter_perm {X} (p : X -> bool) l l' : Permutation l l' -> Permutation (filter p l) (filter p l').
  Proof.
    induction 1 as [|x l l' _ IH|x y l|l l' l'' _ IH1 _ IH2]; simpl.
    - constructor.
    - destruct (p x); [now constructor|exact IH].
    - destruct (p x), (p y); try reflexivity. apply perm_swap.
    - etransitivity; eauto.
  Qed.

  Lemma forallb_perm {X} (p : X -> bool) l l' : Permutation l l' -> forallb p l = forallb p l'.
  Proof.
    intros Hp. destruct (forallb p l) eqn:E; symmetry.
    - rewrite forallb_forall in *. intros x Hx. apply E. eapply Permutation_in; [symmetry; exact Hp|exact Hx].
    - apply not_true_iff_false. intros E'. rewrite forallb_forall in E'.
      assert (forallb p l = true); [|congruence]. apply forallb_forall. intros x Hx. apply E'. eapply Permutation_in; eauto.
  Qed.

  Theorem spec_outcome_perm ms ms' k : Permutation ms ms' -> spec_outcome sub ms k = spec_outcome sub ms' k.
  Proof.
    intros Hp. unfold spec_outcome.
    set (app := filter (fun m => applicable sub m k) ms). set (app' := filter (fun m => applicable sub m k) ms').
    assert (Hpa : Permutation app app') by (apply filter_perm; exact Hp).
    set (w := fun (ap : list meth) (m : meth) => forallb (fun m' => Nat.eqb (m_id m') (m_id m) || beats sub m m' k) ap).
    assert (Hw : forall m, w app m = w app' m) by (intros m; apply forallb_perm; exact Hpa).
    assert (Hpw : Permutation (filter (w app) app) (filter (w app') app')).
    { etransitivity; [apply filter_perm; exact Hpa|]. erewrite filter_ext; [reflexivity|exact Hw]. }
    fold (w app) (w app').
    destruct app as [|a r] eqn:Ea.
    { apply Permutation_nil in Hpa. now rewrite Hpa. }
    destruct app' as [|a' r'] eqn:Ea'.
    { apply Permutation_sym, Permutation_nil in Hpa. discriminate. }
    destruct (filter (w (a :: r)) (a :: r)) as [|m [|m2 t]] eqn:Ef.
    - apply Permutation_nil in Hpw. now rewrite Hpw.
    - apply Permutation_length_1_inv in Hpw. now rewrite Hpw.
    - destruct (filter (w (a' :: r')) (a' :: r')) as [|m' [|m2' t']] eqn:Ef'; try reflexivity.
      apply Permutation_sym, Permutation_length_1_inv in Hpw. discriminate.
  Qed.

  Lemma slot_types_perm_In ms ms' s t : Permutation ms ms' -> In t (slot_types ms s) -> In t (slot_types ms' s).
  Proof.
    intros Hp. rewrite !slot_types_In. intros (m & Hm & Hs). exists m. split; [eapply Permutation_in; eauto|exact Hs].
  Qed.

  Lemma chain_applicable_perm ms ms' k : Permutation ms ms' ->
    chain_applicable sub ms k = true -> chain_applicable sub ms' k = true.
  Proof.
    intros Hp. unfold chain_applicable. rewrite !forallb_forall. intros H st Hst. specialize (H st Hst).
    destruct (snd st); try discriminate. unfold chain_at in *. rewrite forallb_forall in *.
    intros t1 H1. apply forallb_forall. intros t2 H2. apply filter_In in H1, H2.
    destruct H1 as [H1 H1'], H2 as [H2 H2'].
    assert (G1 : In t1 (filter (fun t => match t with Cls d => sub c d | _ => false end) (slot_types ms (fst st))))
      by (apply filter_In; split; [eapply slot_types_perm_In; [symmetry; exact Hp|exact H1]|exact H1']).
    assert (G2 : In t2 (filter (fun t => match t with Cls d => sub c d | _ => false end) (slot_types ms (fst st))))
      by (apply filter_In; split; [eapply slot_types_perm_In; [symmetry; exact Hp|exact H2]|exact H2']).
    specialize (H _ G1). rewrite forallb_forall in H. exact (H _ G2).
  Qed.

  Lemma ties_wf_perm ms ms' : Permutation ms ms' -> ties_wf ms = true -> ties_wf ms' = true.
  Proof.
    intros Hp. rewrite !ties_wf_iff. intros H a Ha.
    destruct (H a (Permutation_in _ (Permutation_sym Hp) Ha)) as [H1 H2]. split; [exact H1|].
    destruct H2 as [H2|(b & Hb & Hs)]; [now left|right]. exists b. split; [eapply Permutation_in; eauto|exact Hs].
  Qed.
End PermFree.

Section PermFreeMain.
  Variable sub : nat -> nat -> bool.
  Variable hasm : nat -> nat -> bool.
  Variable chk : nat -> nat -> bool.
  Variable sub_fresh : nat -> bool.
  Hypothesis sub_refl : forall c, sub c c = true.
  Hypothesis sub_antisym : forall c d, sub c d = true -> sub d c = true -> c = d.
  Hypothesis sub_trans : forall a b c, sub a b = true -> sub b c = true -> sub a c = true.

  Theorem chain_order_free ms ms' k :
    NoDup (map m_id ms) -> static_ms ms = true -> static_key k = true ->
    chain_applicable sub ms k = true -> ties_wf ms = true -> Permutation ms ms' ->
    verdict_of (lookup sub hasm chk sub_fresh ms' k) = verdict_of (lookup sub hasm chk sub_fresh ms k).
  Proof.
    intros Hnd Hst Hk Hch Ht Hp.
    rewrite (chain_exact_unconditional sub hasm chk sub_fresh sub_refl sub_antisym sub_trans ms k Hnd Hst Hk Hch Ht).
    rewrite (chain_exact_unconditional sub hasm chk sub_fresh sub_refl sub_antisym sub_trans ms' k).
    - now rewrite (spec_outcome_perm sub ms ms' k Hp).
    - eapply Permutation_NoDup; [apply Permutation_map; exact Hp|exact Hnd].
    - eapply static_ms_perm; eauto.
    - exact Hk.
    - eapply chain_applicable_perm; eauto.
    - eapply ties_wf_perm; eauto.
  Qed.
End PermFreeMain.

Section Irrelevant.
  Variable sub : nat -> nat -> bool.
  Variable hasm : nat -> nat -> bool.
  Variable chk : nat -> nat -> bool.
  Variable sub_fresh : nat -> bool.
  Hypothesis sub_refl : forall c, sub c c = true.
  Hypothesis sub_antisym : forall c d, sub c d = true -> sub d c = true -> c = d.
  Hypothesis sub_trans : forall a b c, sub a b = true -> sub b c = true -> sub a c = true.

  Lemma spec_outcome_irrelevant ms extra k :
    (forall m, In m extra -> applicable sub m k = false) -> spec_outcome sub (ms ++ extra) k = spec_outcome sub ms k.
  Proof.
    intros H. unfold spec_outcome. rewrite filter_app.
    rewrite (filter_all_false (fun m => applicable sub m k) extra H), app_nil_r. reflexivity.
  Qed.

  Lemma chain_applicable_sub ms extra k :
    chain_applicable sub (ms ++ extra) k = true -> chain_applicable sub ms k = true.
  Proof.
    unfold chain_applicable. rewrite !forallb_forall. intros H st Hst. specialize (H st Hst).
    destruct (snd st); try discriminate. unfold chain_at in *. rewrite forallb_forall in *.
    assert (Hin : forall t, In t (slot_types ms (fst st)) -> In t (slot_types (ms ++ extra) (fst st))).
    { intros t. rewrite !slot_types_In. intros (m & Hm & Hs). exists m. split; [apply in_app_iff; now left|exact Hs]. }
    intros t1 H1. apply forallb_forall. intros t2 H2. apply filter_In in H1, H2.
    destruct H1 as [H1 H1'], H2 as [H2 H2'].
    assert (G1 : In t1 (filter (fun t => match t with Cls d => sub c d | _ => false end) (slot_types (ms ++ extra) (fst st))))
      by (apply filter_In; auto).
    assert (G2 : In t2 (filter (fun t => match t with Cls d => sub c d | _ => false end) (slot_types (ms ++ extra) (fst st))))
      by (apply filter_In; auto).
    specialize (H _ G1). rewrite forallb_forall in H. exact (H _ G2).
  Qed.

  (* methods that are not applicable to a chain-applicable call do not change its verdict *)
  Theorem chain_irrelevant ms extra k :
    NoDup (map m_id (ms ++ extra)) -> static_ms (ms ++ extra) = true -> static_key k = true ->
    chain_applicable sub (ms ++ extra) k = true -> ties_wf ms = true -> ties_wf (ms ++ extra) = true ->
    (forall m, In m extra -> applicable sub m k = false) ->
    verdict_of (lookup sub hasm chk sub_fresh (ms ++ extra) k) = verdict_of (lookup sub hasm chk sub_fresh ms k).
  Proof.
    intros Hnd Hst Hk Hch Ht Ht' Hex.
    rewrite (chain_exact_unconditional sub hasm chk sub_fresh sub_refl sub_antisym sub_trans (ms ++ extra) k Hnd Hst Hk Hch Ht').
    rewrite (chain_exact_unconditional sub hasm chk sub_fresh sub_refl sub_antisym sub_trans ms k).
    - now rewrite spec_outcome_irrelevant.
    - rewrite map_app in Hnd. clear -Hnd. induction (map m_id ms) as [|x a IH]; simpl in *; [constructor|].
      inversion Hnd; subst. constructor; [|auto]. intros Hin. apply H1. apply in_app_iff. now left.
    - unfold static_ms in *. rewrite forallb_app in Hst. now apply andb_true_iff in Hst.
    - exact Hk.
    - eapply chain_applicable_sub; eauto.
    - exact Ht.
  Qed.
End Irrelevant.
