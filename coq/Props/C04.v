(* C04 — caching is invisible: a call's outcome never depends on earlier calls.
   Theorems only.  Model: Model/Cache.v (the MultiTypeMap dict, errors, all as a state machine over getitem). *)
From Coq Require Import ZArith List Bool Arith.
Import ListNotations.
From OvldV Require Import Model.Order Model.Ty Model.Codec Model.Resolve Model.Cache Proofs.CacheFacts.

(* FULL STATEMENT: for every method list and every finite sequence of dictionary accesses -- plain keys and
   continuation keys (caller code, *types) -- each access returns what a brand-new table returns.
   PROVED for sequences of plain accesses of any length (the accesses made by direct calls and by recurse);
   continuation keys (call_next) are covered by the correspondence run only -- labelled partial. *)
Theorem C04_history_free_partial : forall sub hasm chk fresh ms ops,
  forallb plain_op ops = true ->
  Forall2 (op_fresh sub hasm chk fresh ms) ops (snd (crun sub hasm chk fresh (cinit ms) ops)).
Proof. intros; apply plain_history_free; [apply PInv_init|assumption]. Qed.
Print Assumptions C04_history_free_partial.

(* the invariant behind it: in every reachable state, whatever is stored under a plain key -- a handler or a
   remembered ambiguity -- is what a fresh table would answer *)
Theorem C04_invariant_reachable : forall sub hasm chk fresh ms ops,
  forallb plain_op ops = true -> PInv sub hasm chk fresh ms (fst (crun sub hasm chk fresh (cinit ms) ops)).
Proof. intros; apply plain_history_free; [apply PInv_init|assumption]. Qed.
Print Assumptions C04_invariant_reachable.

(* non-vacuity: a reachable state with a stored handler and a remembered ambiguity *)
Definition wh : hier :=   (* 0 object, 1 A, 2 B, 3 C(A,B) *)
  {| h_supers := [[0]; [0; 1]; [0; 2]; [0; 1; 2; 3]]; h_meths := []; h_preds := []; h_fresh := [0] |}.
Definition wms : list meth := [ mkMeth 0 [Cls 1] [] 1 [] 0 0; mkMeth 1 [Cls 2] [] 1 [] 0 0 ].
Example C04_reachable_nontrivial :
  let st := fst (crun (hsub wh) (hhasm wh) (hchk wh) (hfresh wh) (cinit wms)
                      [CGet (mkQ None (mkKey [Cls 1] [])); CGet (mkQ None (mkKey [Cls 3] []))]) in
  length (cs_dict st) = 1 /\ length (cs_err st) = 1.
Proof. vm_compute. split; reflexivity. Qed.
