(* EntryLists.v — list lemmas used by the proofs about the generated entry point (C03). *)
From Coq Require Import ZArith List Bool Arith Lia.
Import ListNotations.
From OvldV Require Import Model.Entry.

(* ---------- boolean equalities ---------- *)
Lemma ident_eqb_eq : forall a b, ident_eqb a b = true <-> a = b.
Proof.
  destruct a, b; simpl; split; intro H; try discriminate; try reflexivity;
    try (apply Nat.eqb_eq in H; subst; reflexivity); try (injection H as <-; apply Nat.eqb_refl).
Qed.

Lemma ident_eqb_refl : forall a, ident_eqb a a = true.
Proof. intro a. apply ident_eqb_eq. reflexivity. Qed.

Lemma ident_eqb_neq : forall a b, ident_eqb a b = false <-> a <> b.
Proof.
  intros a b. split.
  - intros H E. apply ident_eqb_eq in E. congruence.
  - intro H. destruct (ident_eqb a b) eqn:E; auto. apply ident_eqb_eq in E. contradiction.
Qed.

Lemma canon_eqb_eq : forall a b, canon_eqb a b = true <-> a = b.
Proof.
  destruct a, b; simpl; split; intro H; try discriminate;
    try (apply Nat.eqb_eq in H; subst; reflexivity); try (injection H as <-; apply Nat.eqb_refl).
Qed.

Lemma onat_eqb_eq : forall a b, onat_eqb a b = true <-> a = b.
Proof.
  destruct a, b; simpl; split; intro H; try discriminate; try reflexivity;
    try (apply Nat.eqb_eq in H; subst; reflexivity); try (injection H as <-; apply Nat.eqb_refl).
Qed.

Lemma src_eqb_eq : forall a b, src_eqb a b = true <-> a = b.
Proof.
  destruct a, b; simpl; split; intro H; try discriminate; try reflexivity;
    try (apply Nat.eqb_eq in H; subst; reflexivity); try (injection H as <-; apply Nat.eqb_refl).
Qed.

Lemma memb_In : forall {X} (e : X -> X -> bool), (forall a b, e a b = true <-> a = b) ->
  forall x l, memb e x l = true <-> In x l.
Proof.
  intros X e He x l. unfold memb. rewrite existsb_exists. split.
  - intros [y [Hy E]]. apply He in E. subst. exact Hy.
  - intro H. exists x. split; auto. apply He. reflexivity.
Qed.

Lemma memb_false : forall {X} (e : X -> X -> bool), (forall a b, e a b = true <-> a = b) ->
  forall x l, memb e x l = false <-> ~ In x l.
Proof.
  intros X e He x l. split.
  - intros H Hin. apply (memb_In e He) in Hin. congruence.
  - intro H. destruct (memb e x l) eqn:E; auto. apply (memb_In e He) in E. contradiction.
Qed.

Lemma nodupb_NoDup : forall {X} (e : X -> X -> bool), (forall a b, e a b = true <-> a = b) ->
  forall l, nodupb e l = true <-> NoDup l.
Proof.
  intros X e He. induction l as [|x l IH]; simpl.
  - split; auto. constructor.
  - rewrite andb_true_iff, negb_true_iff, (memb_false e He), IH. split.
    + intros [H1 H2]. constructor; auto.
    + intro H. inversion H; subst. split; auto.
Qed.

(* ---------- dedup ---------- *)
Lemma dedup_In : forall {X} (e : X -> X -> bool), (forall a b, e a b = true <-> a = b) ->
  forall l x, In x (dedup e l) <-> In x l.
Proof.
  intros X e He. induction l as [|y l IH]; simpl; intro x.
  - tauto.
  - rewrite filter_In, IH. split.
    + intros [H | [H _]]; auto.
    + intros [H | H]; auto.
      destruct (e y x) eqn:E.
      * apply He in E. auto.
      * right. split; auto.
Qed.

Lemma NoDup_filter : forall {X} (f : X -> bool) l, NoDup l -> NoDup (filter f l).
Proof.
  intros X f. induction l as [|x l IH]; simpl; intro H.
  - constructor.
  - inversion H; subst. destruct (f x).
    + constructor; auto. rewrite filter_In. tauto.
    + auto.
Qed.

Lemma dedup_NoDup : forall {X} (e : X -> X -> bool), (forall a b, e a b = true <-> a = b) ->
  forall l, NoDup (dedup e l).
Proof.
  intros X e He. induction l as [|y l IH]; simpl.
  - constructor.
  - constructor.
    + rewrite filter_In. intros [_ H]. rewrite negb_true_iff in H.
      assert (e y y = true) by (apply He; reflexivity). congruence.
    + apply NoDup_filter. exact IH.
Qed.

Lemma length1_all_eq : forall {X} (l : list X) x y, length l = 1 -> In x l -> In y l -> x = y.
Proof.
  intros X [|a [|b l]] x y H Hx Hy; simpl in *; try discriminate.
  destruct Hx as [<-|[]], Hy as [<-|[]]. reflexivity.
Qed.

(* ---------- takewhile ---------- *)
Lemma takewhile_all : forall {X} (f : X -> bool) l, Forall (fun x => f x = true) (takewhile f l).
Proof.
  intros X f. induction l as [|x l IH]; simpl.
  - constructor.
  - destruct (f x) eqn:E; constructor; auto.
Qed.

Lemma takewhile_prefix : forall {X} (f : X -> bool) l, exists t, l = takewhile f l ++ t.
Proof.
  intros X f. induction l as [|x l [t IH]]; simpl.
  - exists []. reflexivity.
  - destruct (f x).
    + exists t. simpl. f_equal. exact IH.
    + exists (x :: l). reflexivity.
Qed.

(* the elements of l counted from the end by takewhile on (rev l) all satisfy f *)
Lemma takewhile_rev_nth : forall {X} (f : X -> bool) l d i,
  length l - length (takewhile f (rev l)) <= i -> i < length l -> f (nth i l d) = true.
Proof.
  intros X f l d i H1 H2.
  destruct (takewhile_prefix f (rev l)) as [t Ht].
  pose proof (takewhile_all f (rev l)) as Hall.
  set (w := takewhile f (rev l)) in *.
  assert (Hl : l = rev t ++ rev w).
  { rewrite <- (rev_involutive l), Ht, rev_app_distr. reflexivity. }
  assert (Hlen : length l = length t + length w).
  { rewrite Hl, app_length, !rev_length. reflexivity. }
  rewrite Hl. rewrite app_nth2 by (rewrite rev_length; lia).
  rewrite rev_length.
  rewrite Forall_forall in Hall. apply Hall.
  apply in_rev. apply nth_In. rewrite rev_length. lia.
Qed.

(* just before that suffix, f fails *)
Lemma takewhile_rev_stop : forall {X} (f : X -> bool) l d,
  length (takewhile f (rev l)) < length l ->
  f (nth (length l - length (takewhile f (rev l)) - 1) l d) = false.
Proof.
  intros X f l d H.
  assert (G : forall (m : list X), length (takewhile f m) < length m ->
              f (nth (length (takewhile f m)) m d) = false).
  { induction m as [|x m IH]; simpl; intro Hm.
    - lia.
    - destruct (f x) eqn:E; simpl in *.
      + apply IH. lia.
      + exact E. }
  specialize (G (rev l)). rewrite rev_length in G. specialize (G H).
  rewrite rev_nth in G by lia.
  replace (length l - S (length (takewhile f (rev l)))) with (length l - length (takewhile f (rev l)) - 1) in G by lia.
  exact G.
Qed.

(* ---------- filter over seq against a threshold ---------- *)
Lemma filter_all : forall {X} (f : X -> bool) l, (forall x, In x l -> f x = true) -> filter f l = l.
Proof.
  intros X f. induction l as [|x l IH]; simpl; intro H; auto.
  rewrite (H x) by auto. f_equal. apply IH. intros; apply H; auto.
Qed.

Lemma filter_none : forall {X} (f : X -> bool) l, (forall x, In x l -> f x = false) -> filter f l = [].
Proof.
  intros X f. induction l as [|x l IH]; simpl; intro H; auto.
  rewrite (H x) by auto. apply IH. intros; apply H; auto.
Qed.

Lemma filter_seq_thr : forall (f : nat -> bool) r a n,
  (forall p, a <= p < a + n -> f p = (p <? r)) -> a <= r -> r <= a + n ->
  filter f (seq a n) = seq a (r - a) /\ filter (fun p => negb (f p)) (seq a n) = seq r (a + n - r).
Proof.
  intros f r a n H Ha Hr.
  remember (a + n - r) as m eqn:Hm.
  assert (Hn : n = (r - a) + m) by lia.
  rewrite Hn, seq_app, !filter_app.
  replace (a + (r - a)) with r by lia.
  rewrite (filter_all f (seq a (r - a))), (filter_none f (seq r m)),
          (filter_none (fun p => negb (f p)) (seq a (r - a))), (filter_all (fun p => negb (f p)) (seq r m)).
  - rewrite app_nil_r. simpl. split; reflexivity.
  - intros p Hp. apply in_seq in Hp. rewrite H by lia. apply negb_true_iff. apply Nat.ltb_ge. lia.
  - intros p Hp. apply in_seq in Hp. rewrite H by lia. apply negb_false_iff. apply Nat.ltb_lt. lia.
  - intros p Hp. apply in_seq in Hp. rewrite H by lia. apply Nat.ltb_ge. lia.
  - intros p Hp. apply in_seq in Hp. rewrite H by lia. apply Nat.ltb_lt. lia.
Qed.

(* ---------- mapi_from ---------- *)
Lemma mapi_from_map_seq : forall {X Y} (f : nat -> X -> Y) l i d,
  mapi_from i f l = map (fun j => f (i + j) (nth j l d)) (seq 0 (length l)).
Proof.
  intros X Y f. induction l as [|x l IH]; intros i d; simpl; auto.
  f_equal.
  - rewrite Nat.add_0_r. reflexivity.
  - rewrite (IH (S i) d). rewrite <- seq_shift, map_map. apply map_ext. intro j. f_equal. lia.
Qed.

Lemma mapi_from_length : forall {X Y} (f : nat -> X -> Y) l i, length (mapi_from i f l) = length l.
Proof. intros X Y f. induction l; intro i; simpl; auto. Qed.

Lemma mapi_from_map : forall {X Y Z} (f : nat -> Y -> Z) (g : X -> Y) l i,
  mapi_from i f (map g l) = mapi_from i (fun j x => f j (g x)) l.
Proof. intros X Y Z f g. induction l; intro i; simpl; auto. f_equal. apply IHl. Qed.

Lemma mapi_from_seq : forall {Y} (f : nat -> nat -> Y) n a i,
  mapi_from i f (seq a n) = map (fun j => f (i + j) (a + j)) (seq 0 n).
Proof.
  intros Y f. induction n as [|n IH]; intros a i; simpl; auto.
  f_equal.
  - rewrite !Nat.add_0_r. reflexivity.
  - rewrite IH. rewrite <- seq_shift, map_map. apply map_ext. intro j. f_equal; lia.
Qed.

(* ---------- sums of 0/1 ---------- *)
Lemma filter_length_le : forall {X} (f : X -> bool) l, length (filter f l) <= length l.
Proof. intros X f. induction l as [|x l IH]; simpl; auto. destruct (f x); simpl; lia. Qed.

Lemma count_eq_length : forall {X} (f : X -> bool) l,
  length (filter f l) = length l <-> forall x, In x l -> f x = true.
Proof.
  intros X f. induction l as [|x l IH]; simpl.
  - split; intros; try reflexivity; contradiction.
  - pose proof (filter_length_le f l) as Hle. destruct (f x) eqn:E; simpl.
    + split.
      * intros H y [<-|Hy]; auto. apply IH; auto.
      * intro H. f_equal. apply IH. intros; apply H; auto.
    + split.
      * intro H. lia.
      * intro H. specialize (H x (or_introl eq_refl)). congruence.
Qed.

Lemma flat_map_filter_length : forall {X Y} (g : X -> list Y) (f : Y -> bool) l,
  length (filter f (flat_map g l)) = list_sum (map (fun x => length (filter f (g x))) l).
Proof.
  intros X Y g f. induction l as [|x l IH]; simpl; auto.
  rewrite filter_app, app_length, IH. reflexivity.
Qed.

Lemma sum01_eq_length : forall {X} (c : X -> nat) (b : X -> bool) l,
  (forall x, In x l -> c x = if b x then 1 else 0) ->
  (list_sum (map c l) = length l <-> forall x, In x l -> b x = true).
Proof.
  intros X c b. induction l as [|x l IH]; simpl; intro H.
  - split; intros; try reflexivity; contradiction.
  - assert (Hle : list_sum (map c l) <= length l).
    { clear IH. induction l as [|y l IHl]; simpl; auto.
      assert (c y <= 1) by (rewrite (H y) by (simpl; auto); destruct (b y); lia).
      assert (list_sum (map c l) <= length l).
      { apply IHl. intros z Hz. apply H. simpl in *. tauto. }
      lia. }
    rewrite (H x) by auto. specialize (IH (fun y Hy => H y (or_intror Hy))).
    destruct (b x) eqn:E.
    + split.
      * intros Hs y [<-|Hy]; auto. apply IH; auto; lia.
      * intro Hs. simpl. f_equal. apply IH. intros; apply Hs; auto.
    + split.
      * intro Hs. simpl in Hs. lia.
      * intro Hs. specialize (Hs x (or_introl eq_refl)). congruence.
Qed.

Lemma list_max_ge : forall l x, In x l -> x <= list_max l.
Proof.
  induction l as [|y l IH]; simpl; intros x [].
  - subst. lia.
  - specialize (IH x H). lia.
Qed.

Lemma list_max_in : forall l, l <> [] -> In (list_max l) l.
Proof.
  induction l as [|y l IH]; simpl; intro H.
  - contradiction.
  - destruct l as [|z l'].
    + simpl. left. lia.
    + assert (Hz : In (list_max (z :: l')) (z :: l')) by (apply IH; discriminate).
      destruct (Nat.max_spec y (list_max (z :: l'))) as [[_ E]|[_ E]]; rewrite E; auto.
Qed.
