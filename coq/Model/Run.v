(* Run.v — single entry point of the executable model: [run : sx -> sx].
   A case is (opcode payload...).  The harness sends the same cases to the implementation. *)
From Coq Require Import ZArith List Bool Arith.
Import ListNotations.
From OvldV Require Import Model.Sx Model.Order Model.Ty Model.Codec.

(* opcode 1: (1 hier (t...) ) -> matrix of typeorder and subclasscheck over all ordered pairs of the listed types:
   ((ord11 ord12 ...) ...) ((sub11 ...) ...) *)
Definition run_pairs (s : sx) : sx :=
  let h := hier_of (sx_arg 0 s) in
  let ts := map ty_of (sx_list (sx_arg 1 s)) in
  L [ L (map (fun a => L (map (fun b => of_order (typeorder_h h a b)) ts)) ts);
      L (map (fun a => L (map (fun b => of_obool (subclasscheck_h h a b)) ts)) ts) ].

Definition run (s : sx) : sx :=
  match sx_tag s with
  | 1%Z => run_pairs s
  | _ => A (-999)%Z
  end.
