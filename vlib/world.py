"""Worlds: a class hierarchy built in the real interpreter together with its encoding for the model,
plus generators of ovld types (Python object + model encoding side by side).

Everything random derives from the `random.Random` passed in."""
import abc, collections.abc, typing, itertools, json

from . import use_repo

use_repo()
import ovld  # noqa: E402
from ovld import types as otypes, dependent as odep  # noqa: E402
from ovld.mro import typeorder, subclasscheck, Order  # noqa: E402

METHOD_NAMES = ["vm_alpha", "vm_beta", "vm_gamma"]


class K_:  # representative of "a constructed class" for issubclass(K, d)
    pass


class World:
    """classes[i] is the Python class with model id i.  ids 0..len(BUILTINS)-1 are fixed builtins."""

    BUILTINS = [object, type, int, str, bool, list, tuple, dict, collections.abc.Sequence,
                collections.abc.Mapping, collections.abc.Collection, float, type(None)]

    def __init__(self, spec):
        """spec: list of user class specs, each a dict:
        {"kind": "plain"|"abc"|"proto", "bases": [indices into user classes], "meths": [method-name indices],
         "registers": [user indices registered as virtual subclasses (abc only)]}"""
        self.spec = spec
        self.classes = list(self.BUILTINS)
        self.user = []
        for i, s in enumerate(spec):
            bases = tuple(self.user[b] for b in s["bases"])
            ns = {METHOD_NAMES[m]: (lambda self: None) for m in s.get("meths", [])}
            name = f"C{i}"
            if s["kind"] == "plain":
                c = type(name, bases or (object,), ns)
            elif s["kind"] == "abc":
                c = abc.ABCMeta(name, bases or (object,), ns)
            elif s["kind"] == "proto":
                ns2 = {METHOD_NAMES[m]: (lambda self: None) for m in s.get("meths", [])}
                c = typing.runtime_checkable(typing._ProtocolMeta(name, (typing.Protocol,), ns2))
            else:
                raise ValueError(s)
            self.user.append(c)
            self.classes.append(c)
        for i, s in enumerate(spec):
            for r in s.get("registers", []):
                self.user[i].register(self.user[r])
        self.nb = len(self.BUILTINS)
        self.n = len(self.classes)
        self.index = {id(c): i for i, c in enumerate(self.classes)}
        # predicate tables: fixed subsets of classes
        self.pred_sets = []
        self.preds = []

    def cid(self, c):
        return self.index[id(c)]

    def add_pred(self, members):
        """class predicate true exactly on the given class ids; counts its invocations in self.pred_calls"""
        ms = set(members)
        idx = self.index
        if not hasattr(self, "pred_calls"):
            self.pred_calls = [0]
        calls = self.pred_calls

        def pred(cls, _ms=ms, _idx=idx):
            calls[0] += 1
            return id(cls) in _idx and _idx[id(cls)] in _ms

        pred.__name__ = f"pred{len(self.preds)}"
        self.preds.append(pred)
        self.pred_sets.append(sorted(ms))
        return len(self.preds) - 1

    def instantiable(self, cid):
        c = self.classes[cid]
        if cid < self.nb:
            return c in (object, int, str, bool, list, tuple, dict, float, type(None))
        return self.spec[cid - self.nb]["kind"] != "proto"

    def instance(self, cid, vid=0):
        key = (cid, vid)
        if not hasattr(self, "_inst"):
            self._inst = {}
        if key in self._inst:
            return self._inst[key]
        c = self.classes[cid]
        if c is int:
            v = 100 + vid
        elif c is str:
            v = f"s{vid}"
        elif c is bool:
            v = bool(vid % 2)
        elif c is list:
            v = [vid]
        elif c is tuple:
            v = (vid,)
        elif c is dict:
            v = {vid: vid}
        elif c is float:
            v = vid + 0.5
        elif c is type(None):
            v = None
        else:
            v = c()
            try:
                v._vid = vid
            except AttributeError:
                pass
        self._inst[key] = v
        return v

    def user_ids(self):
        return list(range(self.nb, self.n))

    def encode(self):
        sup = []
        for c in self.classes:
            row = []
            for j, d in enumerate(self.classes):
                try:
                    if issubclass(c, d):
                        row.append(j)
                except TypeError:
                    pass
            sup.append(row)
        meths = [[m for m, nm in enumerate(METHOD_NAMES) if hasattr(c, nm)] for c in self.classes]
        fresh = []
        k2 = otypes.Union[int, str]
        k3 = odep.Equals(1)
        for j, d in enumerate(self.classes):
            a = issubclass(K_, d)
            if a != issubclass(k2, d) or a != issubclass(k3, d):
                raise ValueError(f"class {d} distinguishes constructed classes")
            if a:
                fresh.append(j)
        return [sup, meths, [list(p) for p in self.pred_sets], fresh]

    def is_partial_order(self):
        """sub is reflexive, transitive, antisymmetric and everything <= object (hypotheses of the theorems)"""
        h = self.encode()[0]
        n = self.n
        S = [set(r) for r in h]
        for c in range(n):
            if c not in S[c] or 0 not in S[c]:
                return False
            for d in S[c]:
                if not S[d] <= S[c]:
                    return False
                if d != c and c in S[d]:
                    return False
        return True


def random_spec(rng, n_user=None, kinds=("plain", "plain", "plain", "abc", "proto")):
    n_user = n_user if n_user is not None else rng.randint(3, 7)
    spec = []
    for i in range(n_user):
        for _attempt in range(20):
            kind = rng.choice(kinds)
            if kind == "proto":
                s = {"kind": "proto", "bases": [], "meths": sorted(rng.sample(range(len(METHOD_NAMES)), rng.randint(1, 2)))}
            else:
                cand = [j for j in range(i) if spec[j]["kind"] != "proto"]
                k = rng.choice([0, 1, 1, 1, 2, 2, 3]) if cand else 0
                bases = sorted(rng.sample(cand, min(k, len(cand))), reverse=True)
                s = {"kind": kind, "bases": bases,
                     "meths": sorted(rng.sample(range(len(METHOD_NAMES)), rng.choice([0, 0, 1, 2])))}
                if kind == "abc" and i > 0 and rng.random() < 0.4:
                    regs = [j for j in range(i) if spec[j]["kind"] == "plain"]
                    if regs:
                        s["registers"] = [rng.choice(regs)]
            try:
                World(spec + [s])
                spec.append(s)
                break
            except (TypeError, RuntimeError):
                continue
        else:
            spec.append({"kind": "plain", "bases": [], "meths": []})
    return spec


# ---------------------------------------------------------------------------------------------
# values
# ---------------------------------------------------------------------------------------------

def enc_val(v, world=None):
    if isinstance(v, bool):
        return [2, int(v)]
    if isinstance(v, int):
        return [0, v]
    if isinstance(v, str):
        return [1] + [ord(ch) for ch in v]
    if v is None:
        return [3]
    if isinstance(v, tuple):
        return [4] + [enc_val(x, world) for x in v]
    if isinstance(v, list):
        return [5] + [enc_val(x, world) for x in v]
    if isinstance(v, dict):
        return [6] + [[enc_val(k, world), enc_val(x, world)] for k, x in v.items()]
    if world is not None and id(type(v)) in world.index:
        return [7, world.cid(type(v)), getattr(v, "_vid", 0)]
    raise ValueError(f"cannot encode value {v!r}")


# ---------------------------------------------------------------------------------------------
# types
# ---------------------------------------------------------------------------------------------
FN_IDS = {"StartsWith": 0, "EndsWith": 1, "HasKey": 2, "Regexp": 3}
TFN_IDS = {"SequenceFastCheck": 4, "CollectionFastCheck": 5, "MappingFastCheck": 6}


class TypeFactory:
    """Creates ovld types as (python object, encoding) pairs; keeps object identities for the identity-compared kinds."""

    def __init__(self, world, rng):
        self.w = world
        self.rng = rng
        self.ids = itertools.count(1)
        self.user_fns = {}  # fid -> (dependent type object factory)
        self.next_fid = itertools.count(10)
        # issubclass(Regexp[...], <protocol>) raises TypeError inside typing._proto_hook (the class built by
        # dependent_check copies a __dict__ descriptor); kept out of the order sweeps, see DESIGN.md
        self.allow_regexp = False

    def enc_bound(self, b0):
        if b0 is typing.Collection:
            return [1, self.w.cid(collections.abc.Collection)]
        return [0, self.w.cid(b0)]

    # --- leaf constructors
    def cls(self, i):
        return (self.w.classes[i], [0, i])

    def gen(self, origin_id, args):
        o = self.w.classes[origin_id]
        pa = tuple(a[0] for a in args)
        if o is type:
            assert len(pa) == 1
            obj = type[pa[0]]
        elif o is collections.abc.Sequence:
            obj = collections.abc.Sequence[pa]
        elif o is collections.abc.Mapping:
            obj = collections.abc.Mapping[pa]
        else:
            obj = o[pa] if len(pa) != 1 else o[pa[0]]
        return (obj, [1, origin_id] + [a[1] for a in args])

    def uni(self, args):
        return (otypes.Union[tuple(a[0] for a in args)], [2] + [a[1] for a in args])

    def inter(self, args):
        return (otypes.Intersection[tuple(a[0] for a in args)], [3] + [a[1] for a in args])

    def exa(self, i):
        return (otypes.Exactly[self.w.classes[i]], [4, 0, i])

    def strict(self, i):
        return (otypes.StrictSubclass[self.w.classes[i]], [5, 0, i])

    def hasm(self, m):
        return (otypes.HasMethod[METHOD_NAMES[m]], [6, 0, m])

    def chk(self, p):
        return (otypes.class_check(self.w.preds[p]), [7, p, p])

    def lit(self, vals, bound=None):
        if bound is None:
            obj = odep.Equals(*vals)
            b = self.cls(self.w.cid(type(vals[0])))
        else:
            obj = odep.Equals(*vals, bound=bound[0])
            b = bound
        return (obj, [8, b[1]] + [enc_val(v, self.w) for v in vals])

    def fn(self, name, params, bound=None):
        T = getattr(odep, name)
        if bound is None:
            obj = T(*params)
            b0 = obj.bound
            b = (b0, [0, self.w.cid(b0)])
        else:
            obj = T(*params, bound=bound[0])
            b = bound
        enc = [9, FN_IDS[name], b[1]] + [[0] if p is typing.Any else [1, enc_val(p, self.w)] for p in params]
        return (obj, enc)

    def user_fn(self, pred, bound):
        """Dependent[bound, pred]: a fresh FuncDependentType per call (as in the library)"""
        obj = odep.Dependent[bound[0], pred]
        fid = next(self.next_fid)
        return (obj, [9, fid, bound[1]])

    def tfn(self, name, args, bound=None):
        T = getattr(odep, name)
        pa = tuple(a[0] for a in args)
        if bound is None:
            obj = T(*pa)
            b0 = obj.bound
            b = (b0, self.enc_bound(b0))
        else:
            obj = T(*pa, bound=bound[0])
            b = bound
        return (obj, [10, TFN_IDS[name], b[1]] + [a[1] for a in args])

    def prod(self, args, bound=None):
        pa = tuple(a[0] for a in args)
        if bound is None:
            obj = odep.ProductType(*pa)
            b = self.cls(self.w.cid(tuple))
        else:
            obj = odep.ProductType(*pa, bound=bound[0])
            b = bound
        return (obj, [11, b[1]] + [a[1] for a in args])

    # --- random
    def rand_class(self, user_bias=0.75):
        if self.rng.random() < user_bias and self.w.n > self.w.nb:
            return self.cls(self.rng.choice(self.w.user_ids()))
        return self.cls(self.rng.choice([0, 0, 2, 3, 5, 6, 7, 8]))

    def rand(self, depth, allow_dep=True, allow_gen=True):
        r = self.rng
        if depth <= 0:
            return self.rand_class()
        kinds = ["cls", "cls", "uni", "uni", "int", "exa", "strict", "hasm", "chk"]
        if allow_gen:
            kinds += ["gen", "gen", "typeof"]
        if allow_dep:
            kinds += ["lit", "fn", "tfn", "prod"]
        k = r.choice(kinds)
        sub = lambda: self.rand(depth - 1, allow_dep, allow_gen)
        if k == "cls":
            return self.rand_class()
        if k == "uni":
            return self.uni([sub() for _ in range(r.randint(1, 3))])
        if k == "int":
            return self.inter([sub() for _ in range(r.randint(1, 3))])
        if k == "exa":
            return self.exa(r.choice(range(self.w.n)))
        if k == "strict":
            return self.strict(r.choice([0] + self.w.user_ids()))
        if k == "hasm":
            return self.hasm(r.randrange(len(METHOD_NAMES)))
        if k == "chk":
            if not self.w.preds or r.random() < 0.3:
                self.w.add_pred(r.sample(range(self.w.n), r.randint(0, min(4, self.w.n))))
            return self.chk(r.randrange(len(self.w.preds)))
        if k == "gen":
            o = r.choice([5, 5, 7, 8, 6])
            if o == 7:
                return self.gen(7, [sub(), sub()])
            if o == 6:
                return self.gen(6, [sub() for _ in range(r.randint(1, 2))])
            return self.gen(o, [sub()])
        if k == "typeof":
            return self.gen(1, [sub()])
        if k == "lit":
            pool = r.choice([[1, 2, 3, 4], ["a", "b", "ab"], [1, "a", 2]])
            vals = r.sample(pool, r.randint(1, min(3, len(pool))))
            return self.lit(vals)
        if k == "fn":
            name = r.choice(["StartsWith", "EndsWith", "HasKey"] + (["Regexp"] if self.allow_regexp else []))
            if name == "HasKey":
                params = [r.choice(["k", "j", typing.Any]) for _ in range(r.choice([1, 1, 2, 2, 3, 4]))]
            elif name == "Regexp":
                params = [r.choice(["^a", "b$"])]
            else:
                params = [r.choice(["a", "ab", typing.Any])]
            if name == "Regexp" and typing.Any in params:
                params = ["^a"]
            b = None if r.random() < 0.7 else self.rand_class()
            return self.fn(name, params, b)
        if k == "tfn":
            name = r.choice(list(TFN_IDS))
            n = 2 if name == "MappingFastCheck" else 1
            b = None if r.random() < 0.5 else self.cls(r.choice([5, 6, 7, 8]))
            return self.tfn(name, [sub() for _ in range(n)], b)
        if k == "prod":
            return self.prod([sub() for _ in range(r.randint(0, 3))])
        raise AssertionError(k)


def dec_val(e, world=None):
    t = e[0]
    if t == 0:
        return e[1]
    if t == 1:
        return "".join(chr(c) for c in e[1:])
    if t == 2:
        return bool(e[1])
    if t == 3:
        return None
    if t == 4:
        return tuple(dec_val(x, world) for x in e[1:])
    if t == 5:
        return [dec_val(x, world) for x in e[1:]]
    if t == 6:
        return {dec_val(k, world): dec_val(v, world) for k, v in e[1:]}
    if t == 7:
        return world.instance(e[1], e[2])
    raise ValueError(e)


class Decoder:
    """Rebuild Python type objects from model encodings (replays, witnesses).  Objects with identity
    semantics are cached by their encoded id so that equal ids give the same object."""

    FN_NAMES = {v: k for k, v in FN_IDS.items()}
    TFN_NAMES = {v: k for k, v in TFN_IDS.items()}

    def __init__(self, world, utab=None, predlog=None):
        """utab: {fid: [encoded values on which user predicate fid is true]}; predlog: list receiving
        (fid, encoded value) each time a user predicate is asked"""
        self.w = world
        self.cache = {}
        self.user_types = {}
        self.utab = {int(k): [json.dumps(x) for x in v] for k, v in (utab or {}).items()}
        self.predlog = predlog if predlog is not None else []

    def make_pred(self, f, variadic=False):
        true_set = set(self.utab.get(f, []))
        log = self.predlog
        w = self.w

        def pred(value, *_params):
            try:
                e = enc_val(value, w)
            except ValueError:
                e = ["?"]
            log.append((f, e))
            holds = json.dumps(e) in true_set
            # odd-numbered predicates answer with a truthy / falsy non-bool (a condition "holds" when its result is truthy)
            return holds if f % 2 == 0 else (6 if holds else 0)
        pred.__name__ = f"upred{f}"
        if not variadic:
            def pred1(value):
                return pred(value)
            pred1.__name__ = pred.__name__
            return pred1
        return pred

    def ty(self, e):
        w = self.w
        t = e[0]
        if t == 0:
            return w.classes[e[1]]
        if t == 1:
            o = w.classes[e[1]]
            args = tuple(self.ty(x) for x in e[2:])
            if not args:
                import typing as _t
                return {collections.abc.Collection: _t.Collection, collections.abc.Sequence: _t.Sequence,
                        collections.abc.Mapping: _t.Mapping, list: _t.List, dict: _t.Dict, tuple: _t.Tuple}.get(o, o)
            if o is type:
                return type[args[0]]
            return o[args] if len(args) != 1 else o[args[0]]
        if t == 2:
            return otypes.Union[tuple(self.ty(x) for x in e[1:])]
        if t == 3:
            return otypes.Intersection[tuple(self.ty(x) for x in e[1:])]
        if t in (4, 5, 6, 7):
            key = (t, e[1], e[2])
            if key not in self.cache:
                if t == 4:
                    self.cache[key] = otypes.Exactly[w.classes[e[2]]]
                elif t == 5:
                    self.cache[key] = otypes.StrictSubclass[w.classes[e[2]]]
                elif t == 6:
                    self.cache[key] = otypes.HasMethod[METHOD_NAMES[e[2]]]
                else:
                    self.cache[key] = otypes.class_check(w.preds[e[2]])
            return self.cache[key]
        if t == 8:
            vals = [dec_val(v, w) for v in e[2:]]
            tys = {type(v) for v in vals}
            default = [0, w.cid(tys.pop())] if len(tys) == 1 else [0, 0]
            if e[1] == default:
                return odep.Equals(*vals)          # let the library choose its default bound
            return odep.Equals(*vals, bound=self.ty(e[1]))
        if t == 9:
            f = e[1]
            params = [typing.Any if p[0] == 0 else dec_val(p[1], w) for p in e[3:]]
            if f in self.FN_NAMES:
                return getattr(odep, self.FN_NAMES[f])(*params, bound=self.ty(e[2]))
            if params:
                # a user condition taking parameters (typing.Any = wildcard): the truth table does not look at them, the
                # type order does
                key = (f, json.dumps(e[2]), json.dumps(e[3:]))
                if key not in self.user_types:
                    if (f, "variadic") not in self.user_types:
                        self.user_types[(f, "variadic")] = odep.dependent_check(self.make_pred(f, variadic=True))
                    self.user_types[key] = self.user_types[(f, "variadic")][tuple(params) if len(params) > 1 else params[0]].with_bound(self.ty(e[2]))
                return self.user_types[key]
            key = (f, json.dumps(e[2]))
            if key not in self.user_types:
                if f not in self.user_types:
                    self.user_types[f] = odep.dependent_check(self.make_pred(f))
                self.user_types[key] = self.user_types[f].with_bound(self.ty(e[2]))
            return self.user_types[key]
        if t == 10:
            return getattr(odep, self.TFN_NAMES[e[1]])(*[self.ty(x) for x in e[3:]], bound=self.ty(e[2]))
        if t == 11:
            return odep.ProductType(*[self.ty(x) for x in e[2:]], bound=self.ty(e[1]))
        raise ValueError(e)


def world_from(spec, pred_sets=()):
    w = World(spec)
    for p in pred_sets:
        w.add_pred(p)
    return w
