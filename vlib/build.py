"""Build the Coq development and the extracted OCaml driver from files on disk (offline).

ensure_built() is called by every check: it regenerates coq/Gen/*.v from /repo's current source
(translator), runs a full `make` (.vo, never -vos) with -k so that the executable model still builds when a
proof breaks, re-extracts the model when its .vo files changed and recompiles the driver.
Returns a dict: {"ok": bool, "failed": [files whose .vo is missing], "log": str}."""
import os, subprocess, sys, hashlib, json, time, fcntl, glob
from . import VERIF

COQ = os.path.join(VERIF, "coq")
BUILD = os.path.join(VERIF, "build")
OCAML_BUILD = os.path.join(BUILD, "ocaml")
FORBIDDEN = ["Admitted", "admit", "Axiom", "Parameter", "Conjecture", "Unset Guard", "bypass_check",
             "type-in-type", "impredicative-set", "Admit Obligations", "Unset Positivity", "Unset Universe"]


def _sh(cmd, cwd=None, timeout=3000):
    r = subprocess.run(cmd, cwd=cwd, shell=isinstance(cmd, str), capture_output=True, text=True, timeout=timeout)
    return r.returncode, r.stdout + r.stderr


def vfiles():
    out = []
    for line in open(os.path.join(COQ, "_CoqProject")):
        line = line.strip()
        if line.endswith(".v"):
            out.append(line)
    return out


def scan_forbidden():
    """Textual scan of every .v source for declarations the brief forbids. Returns list of (file, line, text)."""
    import re
    hits = []
    pat = re.compile(r"\b(Admitted|admit|Axiom|Axioms|Parameter|Parameters|Conjecture|Hypothesis|Hypotheses|Variable|Variables)\b|Unset Guard|bypass_check|type-in-type|impredicative-set|Admit Obligations|Unset Positivity|Unset Universe")
    for f in vfiles():
        path = os.path.join(COQ, f)
        if not os.path.exists(path):
            continue
        depth = 0
        txt = open(path).read()
        # strip comments (nested)
        res = []
        i = 0
        d = 0
        while i < len(txt):
            if txt.startswith("(*", i):
                d += 1; i += 2; continue
            if txt.startswith("*)", i) and d > 0:
                d -= 1; i += 2; continue
            if d == 0:
                res.append(txt[i])
            elif txt[i] == "\n":
                res.append("\n")
            i += 1
        code = "".join(res)
        sec = 0
        for ln, line in enumerate(code.split("\n"), 1):
            s = line.strip()
            if re.match(r"Section\b", s):
                sec += 1
            if re.match(r"End\b", s) and sec > 0:
                sec -= 1
            m = pat.search(line)
            if m:
                w = m.group(0)
                if w in ("Variable", "Variables", "Hypothesis", "Hypotheses") and sec > 0:
                    continue  # section-local: discharged at End
                hits.append((f, ln, s))
    return hits


def regenerate():
    """Run the translators (source -> coq/Gen/*.v). Only rewrites a file when its content changes."""
    notes = {}
    try:
        from .translator import leaf
        notes["leaf"] = leaf.regenerate()
    except ImportError:
        notes["leaf"] = "translator not present"
    return notes


def ensure_built(verbose=False):
    os.makedirs(BUILD, exist_ok=True)
    lock = open(os.path.join(BUILD, ".lock"), "w")
    fcntl.flock(lock, fcntl.LOCK_EX)
    try:
        t0 = time.time()
        notes = regenerate()
        mk = os.path.join(COQ, "Makefile")
        cp = os.path.join(COQ, "_CoqProject")
        if not os.path.exists(mk) or os.path.getmtime(mk) < os.path.getmtime(cp):
            rc, out = _sh(["coq_makefile", "-f", "_CoqProject", "-o", "Makefile"], cwd=COQ)
            if rc != 0:
                return {"ok": False, "failed": ["coq_makefile"], "log": out, "notes": notes}
        rc, out = _sh("timeout 2400 make -k -j16 2>&1", cwd=COQ)
        failed = [f for f in vfiles() if not os.path.exists(os.path.join(COQ, f + "o"))
                  or os.path.getmtime(os.path.join(COQ, f + "o")) < os.path.getmtime(os.path.join(COQ, f))]
        log = out
        # extraction + driver
        os.makedirs(OCAML_BUILD, exist_ok=True)
        model_vos = [os.path.join(COQ, f + "o") for f in vfiles() if f.startswith("Model/") or f.startswith("Gen/")]
        drv = os.path.join(OCAML_BUILD, "driver")
        drv_src = os.path.join(VERIF, "ocaml", "driver.ml")
        stale = (not os.path.exists(drv)) or any(os.path.exists(v) and os.path.getmtime(v) > os.path.getmtime(drv) for v in model_vos) \
            or os.path.getmtime(drv_src) > os.path.getmtime(drv) or os.path.getmtime(os.path.join(COQ, "Extract.v")) > os.path.getmtime(drv)
        model_failed = [f for f in failed if f.startswith("Model/") or f.startswith("Gen/")]
        if stale and not model_failed:
            rc2, out2 = _sh(["coqc", "-Q", COQ, "OvldV", os.path.join(COQ, "Extract.v")], cwd=OCAML_BUILD)
            log += out2
            if rc2 == 0:
                _sh(["cp", drv_src, OCAML_BUILD])
                rc3, out3 = _sh("ocamlfind ocamlopt -w -a -o driver.new model.mli model.ml driver.ml && mv driver.new driver", cwd=OCAML_BUILD)
                log += out3
                if rc3 != 0:
                    failed.append("ocaml/driver")
            else:
                failed.append("Extract.v")
        elif model_failed:
            failed.append("ocaml/driver(not rebuilt: model does not compile)")
        res = {"ok": not failed, "failed": failed, "log": log[-20000:], "notes": notes, "wall_s": time.time() - t0,
               "forbidden": scan_forbidden()}
        if verbose:
            print(log[-3000:])
        return res
    finally:
        fcntl.flock(lock, fcntl.LOCK_UN)
        lock.close()


def check_props(prop_file, theorems):
    """Compile coq/Props/<prop_file> on its own, capturing the Print Assumptions output.
    Returns {"compiled": bool, "assumptions": {thm: "closed" | [axioms]}, "log": str}."""
    path = os.path.join(COQ, "Props", prop_file)
    rc, out = _sh(["coqc", "-Q", COQ, "OvldV", path], cwd=COQ, timeout=1200)
    res = {"compiled": rc == 0, "assumptions": {}, "log": out[-4000:]}
    if rc != 0:
        return res
    # Output is a sequence of blocks, one per Print Assumptions, in the order of the file.
    import re
    src = open(path).read()
    names = re.findall(r"Print Assumptions\s+([A-Za-z0-9_'.]+)\s*\.", src)
    blocks = re.split(r"(?=Closed under the global context|Axioms:)", out)
    blocks = [b for b in blocks if b.startswith("Closed under") or b.startswith("Axioms:")]
    for n, b in zip(names, blocks):
        if b.startswith("Closed under"):
            res["assumptions"][n] = "closed"
        else:
            ax = re.findall(r"^([A-Za-z0-9_'.]+)\s*:", b, flags=re.M)
            res["assumptions"][n] = ax
    res["declared"] = names
    res["missing"] = [t for t in theorems if t not in res["assumptions"]]
    return res


if __name__ == "__main__":
    r = ensure_built(verbose=True)
    print(json.dumps({k: v for k, v in r.items() if k != "log"}, indent=1, default=str))
    if not r["ok"] or r["forbidden"]:
        sys.exit(1)
