"""vlib — harness of the /verif machinery (Coq model + proofs tied to /repo's ovld by correspondence)."""
import os, sys
VERIF = os.path.dirname(os.path.dirname(os.path.abspath(__file__)))
REPO = os.environ.get("OVLD_REPO", "/repo")
REPO_SRC = os.path.join(REPO, "src")
PY = "/venv/bin/python"
GUARD = "OVLD_VERIF"


def use_repo():
    """Make `import ovld` resolve to /repo/src (the current working tree), with the verification guard on."""
    os.environ[GUARD] = "1"
    if sys.path[0] != REPO_SRC:
        sys.path.insert(0, REPO_SRC)
    for k in list(sys.modules):
        if k == "ovld" or k.startswith("ovld."):
            f = getattr(sys.modules[k], "__file__", "") or ""
            if not f.startswith(REPO_SRC):
                del sys.modules[k]
