(* RewriteFoot.v — footprint of an evaluation: it only adds frames, leaves every older frame other than the frame
   := writes to untouched, and in that frame changes only the names the expression assigns (closure calls write to
   their own fresh frame).  This is what keeps the rewriter's temporaries alive until they are read. *)
From Coq Require Import ZArith List Bool Arith Lia.
Import ListNotations.
From OvldV Require Import Model.Rewrite Spec.RewriteRel Proofs.RewriteSyn.

Lemma obind_inv : forall W A B (m : option (outcome A * state W)) (k : A -> state W -> option (outcome B * state W)) r s1,
  obind W m k = Some (r, s1) ->
  (exists x, m = Some (Raise x, s1) /\ r = Raise x) \/
  (exists a s', m = Some (Val a, s') /\ k a s' = Some (r, s1)).
Proof.
  intros. destruct m as [[[a|x] s']|]; simpl in H; try discriminate.
  - right. eauto.
  - left. injection H as <- <-. eauto.
Qed.

Ltac inv_obind H :=
  let x := fresh "x" in let a := fresh "v" in let s' := fresh "s" in let E := fresh "E" in
  apply obind_inv in H; destruct H as [(x & E & ->) | (a & s' & E & H)].

Section Foot.
  Variable W : Type.
  Variable p : rwp.
  Variable typeof : bool -> sval -> nat.
  Variable tbl : nat -> list kpart -> option sval.
  Variable callv : sval -> list sval -> list (nat * sval) -> W -> outcome sval * W * list event.
  Variable binop : nat -> sval -> sval -> outcome sval.
  Variable getattr : sval -> nat -> outcome sval.
  Variable getitem : sval -> sval -> outcome sval.
  Variable truthy : sval -> bool.
  Variable fmt : list sval -> sval.
  Variable ugl : nat -> option sval.
  Variable mself : sval.
  Variable reg : bool.

  Notation state := (state W).
  Notation EV := (ev W p typeof tbl callv binop getattr getitem truthy fmt ugl mself reg).
  Notation EVL := (ev_list W p typeof tbl callv binop getattr getitem truthy fmt ugl mself reg).
  Notation EVB := (ev_bool W p typeof tbl callv binop getattr getitem truthy fmt ugl mself reg).
  Notation EVC := (ev_conds W p typeof tbl callv binop getattr getitem truthy fmt ugl mself reg).
  Notation EVA := (ev_args W p typeof tbl callv binop getattr getitem truthy fmt ugl mself reg).
  Notation EVK := (ev_kws W p typeof tbl callv binop getattr getitem truthy fmt ugl mself reg).
  Notation APPLY := (apply_val W p typeof tbl callv).
  Notation frames := (s_frames W).
  Notation gvars := (s_gvars W).

  Definition ext (s s1 : state) : Prop :=
    forall i fr, nth_error (frames s) i = Some fr -> exists fr1, nth_error (frames s1) i = Some fr1 /\ f_comp fr1 = f_comp fr.

  Definition tget (s : state) (rho : list nat) (x : name) : option val :=
    match target W s rho with Some f => frame_lookup W s f x | None => lookup x (gvars s) end.

  Definition FP (N : nat) (A : name -> bool) (rho : list nat) (s s1 : state) : Prop :=
    ext s s1 /\
    (forall i, i < N -> target W s rho <> Some i -> nth_error (frames s1) i = nth_error (frames s) i) /\
    (target W s rho <> None -> gvars s1 = gvars s) /\
    (forall x, A x = false -> tget s1 rho x = tget s rho x).

  Lemma ext_refl : forall s, ext s s.
  Proof. intros s i fr H. eauto. Qed.
  Lemma ext_trans : forall a b c, ext a b -> ext b c -> ext a c.
  Proof.
    intros a b c H1 H2 i fr H. destruct (H1 _ _ H) as (fr1 & E1 & C1). destruct (H2 _ _ E1) as (fr2 & E2 & C2).
    exists fr2. split; auto. congruence.
  Qed.
  Lemma ext_len : forall a b, ext a b -> length (frames a) <= length (frames b).
  Proof.
    intros a b H. destruct (frames a) eqn:E using rev_ind; simpl; [lia|].
    clear IHl. assert (Hn : nth_error (frames a) (length l) = Some x).
    { rewrite E. rewrite nth_error_app2 by lia. rewrite Nat.sub_diag. reflexivity. }
    destruct (H _ _ Hn) as (fr1 & E1 & _).
    assert (length l < length (frames b)) by (apply nth_error_Some; congruence).
    rewrite app_length. simpl. lia.
  Qed.

  Lemma ext_target : forall s s1 rho, ext s s1 -> tgt_fixed W s rho -> target W s1 rho = target W s rho /\ tgt_fixed W s1 rho.
  Proof.
    intros s s1 rho He. induction rho as [|f r IH]; simpl; intros Ht; [auto|].
    destruct (nth_error (frames s) f) as [fr|] eqn:E; [|contradiction].
    destruct (He _ _ E) as (fr1 & E1 & C1). rewrite E1, C1.
    destruct (f_comp fr); auto.
  Qed.

  Lemma FP_refl : forall N A rho s, FP N A rho s s.
  Proof. intros. repeat split; auto using ext_refl. Qed.

  Lemma FP_weaken : forall N M A B rho s s1, FP N A rho s s1 -> M <= N -> (forall x, B x = false -> A x = false) -> FP M B rho s s1.
  Proof.
    intros N M A B rho s s1 (H1 & H2 & H3 & H4) Hm Hab. repeat split; auto.
    intros i Hi. apply H2. lia.
  Qed.

  Lemma FP_trans : forall N A B rho s s1 s2,
    tgt_fixed W s rho -> FP N A rho s s1 -> FP N B rho s1 s2 -> FP N (fun x => A x || B x) rho s s2.
  Proof.
    intros N A B rho s s1 s2 Ht (E1 & F1 & G1 & T1) (E2 & F2 & G2 & T2).
    destruct (ext_target _ _ _ E1 Ht) as [Etg Ht1].
    repeat split.
    - eapply ext_trans; eauto.
    - intros i Hi Hne. rewrite F2; [apply F1; auto | auto | rewrite Etg; auto].
    - intros Hne. rewrite G2 by (rewrite Etg; auto). auto.
    - intros x Hx. apply orb_false_iff in Hx. destruct Hx. rewrite T2, T1; auto.
  Qed.

  Lemma tgt_fixed_ext : forall s s1 rho, ext s s1 -> tgt_fixed W s rho -> tgt_fixed W s1 rho.
  Proof. intros. eapply ext_target; eauto. Qed.

  (* ---- elementary state changes *)
  Lemma nth_error_set_nth_eq : forall A (l : list A) i a, i < length l -> nth_error (set_nth i a l) i = Some a.
  Proof. induction l; simpl; intros; [lia|]. destruct i; simpl; auto. apply IHl. lia. Qed.
  Lemma set_nth_nil : forall A i (a : A), set_nth i a [] = [].
  Proof. destruct i; reflexivity. Qed.
  Lemma nth_error_set_nth_neq : forall A (l : list A) i j a, i <> j -> nth_error (set_nth i a l) j = nth_error l j.
  Proof.
    induction l; intros; [rewrite set_nth_nil; reflexivity|]. destruct i, j; simpl; auto; try congruence.
  Qed.
  Lemma length_set_nth : forall A (l : list A) i a, length (set_nth i a l) = length l.
  Proof. induction l; intros; [rewrite set_nth_nil; reflexivity|]. destruct i; simpl; auto. Qed.

  Lemma frames_bind_in : forall s f x v i,
    nth_error (frames (bind_in W s f x v)) i =
    if Nat.eqb i f then option_map (fun fr => {| f_comp := f_comp fr; f_vars := (x, v) :: f_vars fr |}) (nth_error (frames s) f)
    else nth_error (frames s) i.
  Proof.
    intros. unfold bind_in. destruct (nth_error (frames s) f) as [fr|] eqn:E; simpl.
    - destruct (Nat.eqb i f) eqn:Ei.
      + apply Nat.eqb_eq in Ei. subst. apply nth_error_set_nth_eq. apply nth_error_Some. congruence.
      + apply Nat.eqb_neq in Ei. apply nth_error_set_nth_neq. auto.
    - destruct (Nat.eqb i f) eqn:Ei; auto. apply Nat.eqb_eq in Ei. subst. auto.
  Qed.
  Lemma gvars_bind_in : forall s f x v, gvars (bind_in W s f x v) = gvars s.
  Proof. intros. unfold bind_in. destruct (nth_error (frames s) f); reflexivity. Qed.

  Lemma ext_bind_in : forall s f x v, ext s (bind_in W s f x v).
  Proof.
    intros s f x v i fr H. rewrite frames_bind_in. destruct (Nat.eqb i f) eqn:Ei; eauto.
    apply Nat.eqb_eq in Ei. subst. rewrite H. simpl. eauto.
  Qed.

  Lemma target_frame : forall s rho f, target W s rho = Some f -> exists fr, nth_error (frames s) f = Some fr /\ f_comp fr = false.
  Proof.
    intros s rho f. induction rho as [|g r IH]; simpl; [discriminate|].
    destruct (nth_error (frames s) g) as [fr|] eqn:E; auto.
    destruct (f_comp fr) eqn:C; auto. intros H. injection H as <-. eauto.
  Qed.

  Lemma FP_assign : forall N rho s x v, tgt_fixed W s rho -> FP N (fun y => name_eqb y x) rho s (assign W s rho x v).
  Proof.
    intros N rho s x v Ht. unfold assign.
    destruct (target W s rho) as [f|] eqn:Etg.
    - assert (Hext : ext s (bind_in W s f x v)) by apply ext_bind_in.
      repeat split; auto.
      + intros i Hi Hne. rewrite frames_bind_in. destruct (Nat.eqb i f) eqn:Ei; auto.
        apply Nat.eqb_eq in Ei. congruence.
      + intros _. apply gvars_bind_in.
      + intros y Hy. unfold tget. destruct (ext_target _ _ _ Hext Ht) as [-> _]. rewrite Etg.
        unfold frame_lookup. rewrite frames_bind_in, Nat.eqb_refl.
        destruct (nth_error (frames s) f); simpl; auto. rewrite Hy. reflexivity.
    - repeat split; simpl; auto.
      + intros i fr H. eauto.
      + congruence.
      + intros y Hy. unfold tget.
        assert (E : target W {| s_frames := frames s; s_gvars := (x, v) :: gvars s; s_trace := s_trace W s; s_world := s_world W s |} rho = target W s rho).
        { clear. induction rho; simpl; auto. destruct (nth_error (frames s) a); auto. destruct (f_comp f); auto. }
        rewrite E, Etg. simpl. rewrite Hy. reflexivity.
  Qed.

  Lemma FP_log : forall N A rho s evs w, FP N A rho s (log W s evs w).
  Proof.
    intros. repeat split; simpl; auto.
    - intros i fr H. eauto.
    - intros x _. unfold tget.
      assert (E : target W (log W s evs w) rho = target W s rho).
      { clear. induction rho; simpl; auto. destruct (nth_error (frames s) a); auto. destruct (f_comp f); auto. }
      rewrite E. reflexivity.
  Qed.

  (* all frames below N and the globals untouched *)
  Definition frozen (N : nat) (s s1 : state) : Prop :=
    ext s s1 /\ (forall i, i < N -> nth_error (frames s1) i = nth_error (frames s) i) /\ gvars s1 = gvars s.

  Lemma frozen_FP : forall N A rho s s1,
    tgt_fixed W s rho -> N <= length (frames s) -> (forall f, target W s rho = Some f -> f < N) -> frozen N s s1 -> FP N A rho s s1.
  Proof.
    intros N A rho s s1 Ht Hn Hlt (He & Hf & Hg). repeat split; auto.
    intros x _. unfold tget. destruct (ext_target _ _ _ He Ht) as [-> _].
    destruct (target W s rho) as [f|] eqn:E; [|congruence].
    unfold frame_lookup. rewrite Hf; auto.
  Qed.

  Lemma ext_push : forall s fr, ext s (push W s fr).
  Proof.
    intros s fr i f H. simpl. exists f. split; auto. rewrite nth_error_app1; auto. apply nth_error_Some. congruence.
  Qed.

  Lemma call_user_frozen : forall c ar kw s r s1, call_user W callv c ar kw s = (r, s1) -> frames s1 = frames s /\ gvars s1 = gvars s.
  Proof.
    intros. unfold call_user in H. destruct (callv c (map shape ar) (shape_kw kw) (s_world W s)) as [[o w] evs].
    injection H as <- <-. simpl. auto.
  Qed.
  Lemma dispatch_frozen : forall nid pre slf ar kw s r s1,
    dispatch W p typeof tbl callv nid pre slf ar kw s = (r, s1) -> frames s1 = frames s /\ gvars s1 = gvars s.
  Proof.
    intros. unfold dispatch in H. destruct (entry_bind p ar kw) as [[a k]|]; [|injection H as <- <-; auto].
    destruct (tbl _); [|injection H as <- <-; auto]. eapply call_user_frozen; eauto.
  Qed.
  Lemma call_prim_frozen : forall q ar kw s r s1,
    call_prim W p typeof tbl callv mself q ar kw s = (r, s1) -> frames s1 = frames s /\ gvars s1 = gvars s.
  Proof.
    intros. destruct q; simpl in H;
      try (injection H as <- <-; auto; fail);
      try (eapply dispatch_frozen; eauto; fail).
    - destruct ar as [|v [|]]; destruct kw; injection H as <- <-; auto.
    - destruct ar as [|v [|]]; destruct kw; injection H as <- <-; auto.
    - destruct (a_method (an p)); [destruct ar|]; try (injection H as <- <-; auto; fail); eapply dispatch_frozen; eauto.
  Qed.

  Lemma same_frames_frozen : forall N s s1, frames s1 = frames s -> gvars s1 = gvars s -> frozen N s s1.
  Proof.
    intros N s s1 Hf Hg. repeat split; auto.
    - intros i fr H. rewrite Hf. eauto.
    - intros. rewrite Hf. reflexivity.
  Qed.

  Section WithCb.
    Variable cb : evalT W.
    Hypothesis cb_fp : forall rho b s r s1, tgt_fixed W s rho -> cb rho b s = Some (r, s1) ->
                                            FP (length (frames s)) (fun _ => true) rho s s1.

    Lemma apply_frozen : forall f ar kw s r s1, APPLY mself cb f ar kw s = Some (r, s1) -> frozen (length (frames s)) s s1.
    Proof.
      intros f ar kw s r s1 H. destruct f; simpl in H;
        try (injection H as H; apply call_user_frozen in H; destruct H; apply same_frames_frozen; auto; fail).
      - destruct kw; [|injection H as <- <-; apply same_frames_frozen; auto].
        destruct (Nat.eqb (length ps) (length ar)); [|injection H as <- <-; apply same_frames_frozen; auto].
        set (s0 := push W s {| f_comp := false; f_vars := combine ps ar |}) in *.
        assert (Hn : nth_error (frames s0) (length (frames s)) = Some {| f_comp := false; f_vars := combine ps ar |}).
        { simpl. rewrite nth_error_app2 by lia. rewrite Nat.sub_diag. reflexivity. }
        assert (Ht : tgt_fixed W s0 (length (frames s) :: fr)) by (cbn [tgt_fixed]; rewrite Hn; exact I).
        assert (Htg : target W s0 (length (frames s) :: fr) = Some (length (frames s))) by (cbn [target]; rewrite Hn; reflexivity).
        destruct (cb_fp _ _ _ _ _ Ht H) as (E1 & F1 & G1 & _).
        repeat split.
        + eapply ext_trans; [apply ext_push | exact E1].
        + intros i Hi. rewrite F1.
          * simpl. rewrite nth_error_app1; auto.
          * simpl. rewrite app_length. simpl. lia.
          * rewrite Htg. intros Heq. injection Heq as Heq. lia.
        + rewrite G1; [reflexivity | rewrite Htg; discriminate].
      - injection H as H. apply call_prim_frozen in H. destruct H. apply same_frames_frozen; auto.
    Qed.

    Lemma target_lt : forall s rho f, target W s rho = Some f -> f < length (frames s).
    Proof. intros s rho f H. destruct (target_frame _ _ _ H) as (fr & E & _). apply nth_error_Some. congruence. Qed.

    Definition FPE (A : name -> bool) rho s s1 := FP (length (frames s)) A rho s s1.

    Lemma FPE_seq : forall A B C rho s s1 s2,
      tgt_fixed W s rho -> FPE A rho s s1 -> FPE B rho s1 s2 -> (forall x, C x = false -> A x = false /\ B x = false) -> FPE C rho s s2.
    Proof.
      intros A B C rho s s1 s2 Ht H1 H2 Hc. unfold FPE in *.
      assert (Hl : length (frames s) <= length (frames s1)) by (apply ext_len; apply H1).
      eapply FP_weaken.
      - eapply FP_trans; [exact Ht | exact H1 | eapply FP_weaken; [exact H2 | exact Hl | intros x Hx; exact Hx]].
      - lia.
      - intros x Hx. destruct (Hc _ Hx) as [-> ->]. reflexivity.
    Qed.

    Lemma FPE_weaken : forall A B rho s s1, FPE A rho s s1 -> (forall x, B x = false -> A x = false) -> FPE B rho s s1.
    Proof. intros. eapply FP_weaken; eauto. Qed.

    Lemma FPE_step_fixed : forall A rho s s1, tgt_fixed W s rho -> FPE A rho s s1 -> tgt_fixed W s1 rho.
    Proof. intros A rho s s1 Ht H. eapply tgt_fixed_ext; [apply H | exact Ht]. Qed.

    (* a comprehension frame in front of the chain does not change where := writes *)
    Lemma comp_front : forall s fid rho fr, nth_error (frames s) fid = Some fr -> f_comp fr = true ->
      target W s (fid :: rho) = target W s rho /\ (tgt_fixed W s rho -> tgt_fixed W s (fid :: rho)) /\
      (forall x, tget s (fid :: rho) x = tget s rho x).
    Proof.
      intros s fid rho fr E C. assert (Ht : target W s (fid :: rho) = target W s rho) by (simpl; rewrite E, C; reflexivity).
      repeat split; auto.
      - intros. simpl. rewrite E, C. auto.
      - intros x. unfold tget. rewrite Ht. reflexivity.
    Qed.

    Lemma FP_comp_front : forall N A s s1 fid rho fr, nth_error (frames s) fid = Some fr -> f_comp fr = true ->
      FP N A (fid :: rho) s s1 -> FP N A rho s s1.
    Proof.
      intros N A s s1 fid rho fr E C (E1 & F1 & G1 & T1).
      destruct (comp_front s fid rho fr E C) as (Ht & _ & Hg).
      destruct (E1 _ _ E) as (fr1 & E' & C'). rewrite C in C'.
      destruct (comp_front s1 fid rho fr1 E' C') as (Ht1 & _ & Hg1).
      repeat split; auto.
      - intros i Hi Hne. apply F1; auto. rewrite Ht. auto.
      - intros Hne. apply G1. rewrite Ht. auto.
      - intros x Hx. rewrite <- Hg1, <- Hg. auto.
    Qed.

    Lemma FP_bind_in_fresh : forall N A rho s f x v fr,
      N <= f -> nth_error (frames s) f = Some fr -> f_comp fr = true -> tgt_fixed W s rho -> FP N A rho s (bind_in W s f x v).
    Proof.
      intros N A rho s f x v fr Hn E C Ht.
      assert (He : ext s (bind_in W s f x v)) by apply ext_bind_in.
      repeat split; auto.
      - intros i Hi _. rewrite frames_bind_in. destruct (Nat.eqb i f) eqn:Ei; auto. apply Nat.eqb_eq in Ei. lia.
      - intros _. apply gvars_bind_in.
      - intros y _. unfold tget. destruct (ext_target _ _ _ He Ht) as [-> _].
        destruct (target W s rho) as [g|] eqn:Etg.
        + unfold frame_lookup. rewrite frames_bind_in. destruct (Nat.eqb g f) eqn:Eg; auto.
          apply Nat.eqb_eq in Eg. subst. destruct (target_frame _ _ _ Etg) as (fr' & E' & C'). congruence.
        + rewrite gvars_bind_in. reflexivity.
    Qed.

    Lemma footprint_all :
      (forall e rho s r s1, tgt_fixed W s rho -> EV cb rho e s = Some (r, s1) -> FPE (fun x => asg x e) rho s s1) /\
      (forall es, (forall rho s r s1, tgt_fixed W s rho -> EVL cb rho es s = Some (r, s1) -> FPE (fun x => asg_list x es) rho s s1) /\
                  (forall o rho s r s1, tgt_fixed W s rho -> EVB cb o rho es s = Some (r, s1) -> FPE (fun x => asg_list x es) rho s s1) /\
                  (forall rho s r s1, tgt_fixed W s rho -> EVC cb rho es s = Some (r, s1) -> FPE (fun x => asg_list x es) rho s s1)) /\
      (forall a rho s r s1, tgt_fixed W s rho -> EVA cb rho a s = Some (r, s1) -> FPE (fun x => asg_args x a) rho s s1) /\
      (forall a rho s r s1, tgt_fixed W s rho -> EVK cb rho a s = Some (r, s1) -> FPE (fun x => asg_kws x a) rho s s1).
    Proof.
      apply expr_mutind.
      - (* EConst *) intros c rho s r s1 Ht H. simpl in H. injection H as <- <-. apply FP_refl.
      - (* EName *) intros x rho s r s1 Ht H. simpl in H. injection H as <- <-. apply FP_refl.
      - (* EAttr *) intros e IH a rho s r s1 Ht H. simpl in H. inv_obind H.
        + eapply IH; eauto.
        + injection H as <- <-. eapply IH; eauto.
      - (* EBin *) intros op a IHa b IHb rho s r s1 Ht H. simpl in H. inv_obind H.
        + eapply FPE_weaken; [eapply IHa; eauto|]. simpl. intros y Hy. apply orb_false_iff in Hy. tauto.
        + pose proof (IHa _ _ _ _ Ht E) as Fa. inv_obind H.
          * eapply FPE_seq; [exact Ht | exact Fa | eapply IHb; eauto; eapply FPE_step_fixed; eauto |].
            simpl. intros y Hy. apply orb_false_iff in Hy. tauto.
          * injection H as <- <-.
            eapply FPE_seq; [exact Ht | exact Fa | eapply IHb; eauto; eapply FPE_step_fixed; eauto |].
            simpl. intros y Hy. apply orb_false_iff in Hy. tauto.
      - (* EBool *) intros o es IH rho s r s1 Ht H. change (EV cb rho (EBool o es) s) with (EVB cb o rho es s) in H.
        destruct IH as (_ & IHb & _). eapply IHb; eauto.
      - (* EIf *) intros c IHc a IHa b IHb rho s r s1 Ht H. simpl in H. inv_obind H.
        + eapply FPE_weaken; [eapply IHc; eauto|]. simpl. intros y Hy. apply orb_false_iff in Hy. destruct Hy as [Hy _]. apply orb_false_iff in Hy. tauto.
        + pose proof (IHc _ _ _ _ Ht E) as Fc. pose proof (FPE_step_fixed _ _ _ _ Ht Fc) as Ht1.
          destruct (truthy (shape v)).
          * eapply FPE_seq; [exact Ht | exact Fc | eapply IHa; eauto |].
            simpl. intros y Hy. apply orb_false_iff in Hy. destruct Hy as [Hy _]. apply orb_false_iff in Hy. tauto.
          * eapply FPE_seq; [exact Ht | exact Fc | eapply IHb; eauto |].
            simpl. intros y Hy. apply orb_false_iff in Hy. destruct Hy as [Hy Hy']. apply orb_false_iff in Hy. tauto.
      - (* ECall *) intros f IHf ar IHa kw IHk rho s r s1 Ht H. simpl in H.
        assert (Hw : forall y, asg y (ECall f ar kw) = false -> asg y f = false /\ asg_args y ar = false /\ asg_kws y kw = false).
        { simpl. intros y Hy. apply orb_false_iff in Hy. destruct Hy as [Hy ?]. apply orb_false_iff in Hy. tauto. }
        inv_obind H.
        + eapply FPE_weaken; [eapply IHf; eauto|]. intros y Hy. apply Hw in Hy. tauto.
        + pose proof (IHf _ _ _ _ Ht E) as Ff. pose proof (FPE_step_fixed _ _ _ _ Ht Ff) as Ht1.
          inv_obind H.
          * eapply FPE_seq; [exact Ht | exact Ff | eapply IHa; eauto |]. intros y Hy. apply Hw in Hy. tauto.
          * pose proof (IHa _ _ _ _ Ht1 E0) as Fa. pose proof (FPE_step_fixed _ _ _ _ Ht1 Fa) as Ht2.
            assert (Ffa : FPE (fun y => asg y f || asg_args y ar) rho s s2).
            { eapply FPE_seq; [exact Ht | exact Ff | exact Fa |]. intros y Hy. apply orb_false_iff in Hy. tauto. }
            inv_obind H.
            -- eapply FPE_seq; [exact Ht | exact Ffa | eapply IHk; eauto |]. intros y Hy. apply Hw in Hy.
               destruct Hy as (-> & -> & ->). auto.
            -- pose proof (IHk _ _ _ _ Ht2 E1) as Fk. pose proof (FPE_step_fixed _ _ _ _ Ht2 Fk) as Ht3.
               assert (Ffak : FPE (fun y => asg y (ECall f ar kw)) rho s s3).
               { eapply FPE_seq; [exact Ht | exact Ffa | exact Fk |]. intros y Hy. apply Hw in Hy.
                 destruct Hy as (-> & -> & ->). auto. }
               pose proof (apply_frozen _ _ _ _ _ _ H) as Hfz.
               eapply FPE_seq; [exact Ht | exact Ffak | |].
               ++ unfold FPE. apply frozen_FP; [exact Ht3 | lia | intros g Hg; eapply target_lt; eauto | exact Hfz].
               ++ intros y Hy. split; [exact Hy | reflexivity].
      - (* ENamed *) intros x e IH rho s r s1 Ht H. simpl in H. inv_obind H.
        + eapply FPE_weaken; [eapply IH; eauto|]. simpl. intros y Hy. apply orb_false_iff in Hy. tauto.
        + injection H as <- <-. pose proof (IH _ _ _ _ Ht E) as Fe. pose proof (FPE_step_fixed _ _ _ _ Ht Fe) as Ht1.
          eapply FPE_seq; [exact Ht | exact Fe | apply FP_assign; auto |].
          simpl. intros y Hy. apply orb_false_iff in Hy. tauto.
      - (* ELam *) intros ps b _ rho s r s1 Ht H. simpl in H. injection H as <- <-. apply FP_refl.
      - (* EComp *) intros elt IHe x it IHi conds IHc rho s r s1 Ht H. simpl in H.
        assert (Hw : forall y, asg y (EComp elt x it conds) = false -> asg y elt = false /\ asg y it = false /\ asg_list y conds = false).
        { simpl. intros y Hy. apply orb_false_iff in Hy. destruct Hy as [Hy ?]. apply orb_false_iff in Hy. tauto. }
        inv_obind H.
        + eapply FPE_weaken; [eapply IHi; eauto|]. intros y Hy. apply Hw in Hy. tauto.
        + pose proof (IHi _ _ _ _ Ht E) as Fi. pose proof (FPE_step_fixed _ _ _ _ Ht Fi) as Ht1.
          destruct (items v) as [l|]; [|injection H as <- <-; eapply FPE_weaken; [exact Fi|]; intros y Hy; apply Hw in Hy; tauto].
          set (fid := length (frames s0)) in *.
          set (A := fun y => asg y elt || asg_list y conds).
          (* loop invariant, relative to the state after the iterable *)
          assert (Hloop : forall l acc sc r s1,
                     (fix loop (l : list val) (acc : list val) (s : state) {struct l} : option (res * state) :=
                        match l with
                        | [] => Some (Val (VSeq 0 (rev acc)), s)
                        | v :: l' =>
                            obind W (EVC cb (fid :: rho) conds (bind_in W s fid x v)) (fun ok s' =>
                              if (ok : bool)
                              then obind W (EV cb (fid :: rho) elt s') (fun ve s'' => loop l' (ve :: acc) s'')
                              else loop l' acc s')
                        end) l acc sc = Some (r, s1) ->
                     (exists fr, nth_error (frames sc) fid = Some fr /\ f_comp fr = true) ->
                     tgt_fixed W sc rho -> fid < length (frames sc) ->
                     FP fid A rho sc s1).
          { induction l0 as [|v0 l0 IHl]; intros acc sc r0 s4 Hl (fr & Efr & Cfr) Htc Hlen.
            - injection Hl as <- <-. apply FP_refl.
            - assert (Fb : FP fid A rho sc (bind_in W sc fid x v0)) by (eapply FP_bind_in_fresh; eauto).
              assert (Hb : exists fr, nth_error (frames (bind_in W sc fid x v0)) fid = Some fr /\ f_comp fr = true).
              { rewrite frames_bind_in, Nat.eqb_refl, Efr. simpl. eauto. }
              assert (Htb : tgt_fixed W (bind_in W sc fid x v0) rho) by (eapply tgt_fixed_ext; [apply ext_bind_in | auto]).
              assert (step : forall (B : name -> bool) sa sb, (forall y, A y = false -> B y = false) ->
                         (exists fr, nth_error (frames sa) fid = Some fr /\ f_comp fr = true) -> tgt_fixed W sa rho ->
                         FPE B (fid :: rho) sa sb ->
                         FP fid A rho sa sb /\ (exists fr, nth_error (frames sb) fid = Some fr /\ f_comp fr = true) /\ tgt_fixed W sb rho).
              { intros B sa sb HB (fa & Ea & Ca) Hta HF.
                assert (fid < length (frames sa)) by (apply nth_error_Some; congruence).
                assert (HF' : FP fid A rho sa sb).
                { eapply FP_comp_front; eauto. eapply FP_weaken; [exact HF | lia | exact HB]. }
                split; [exact HF'|]. split.
                - destruct HF' as (Ex & _). destruct (Ex _ _ Ea) as (f1 & E1 & C1). exists f1. split; auto. congruence.
                - eapply tgt_fixed_ext; [apply HF' | auto]. }
              assert (comb : forall sa sb sc', FP fid A rho sa sb -> FP fid A rho sb sc' -> tgt_fixed W sa rho -> FP fid A rho sa sc').
              { intros sa sb sc' F1 F2 Hta. eapply FP_weaken; [eapply FP_trans; [exact Hta | exact F1 | exact F2] | lia |].
                intros y Hy; cbv beta; rewrite Hy; reflexivity. }
              inv_obind Hl.
              + destruct Hb as (fb & Eb & Cb).
                assert (Htf : tgt_fixed W (bind_in W sc fid x v0) (fid :: rho)) by (eapply comp_front; eauto).
                destruct IHc as (_ & _ & IHcc). pose proof (IHcc _ _ _ _ Htf E0) as Fc.
                destruct (step (fun y => asg_list y conds) _ _ ltac:(unfold A; intros y Hy; apply orb_false_iff in Hy; tauto)
                            (ex_intro _ fb (conj Eb Cb)) Htb Fc) as (F2 & _ & _).
                eapply comb; eauto.
              + destruct Hb as (fb & Eb & Cb).
                assert (Htf : tgt_fixed W (bind_in W sc fid x v0) (fid :: rho)) by (eapply comp_front; eauto).
                destruct IHc as (_ & _ & IHcc). pose proof (IHcc _ _ _ _ Htf E0) as Fc.
                destruct (step (fun y => asg_list y conds) _ _ ltac:(unfold A; intros y Hy; apply orb_false_iff in Hy; tauto)
                            (ex_intro _ fb (conj Eb Cb)) Htb Fc) as (F2 & (f2 & E2 & C2) & Ht2).
                assert (F02 : FP fid A rho sc s2) by (eapply comb; eauto).
                assert (Hlen2 : fid < length (frames s2)) by (apply nth_error_Some; congruence).
                destruct v1.
                * inv_obind Hl.
                  -- assert (Htf2 : tgt_fixed W s2 (fid :: rho)) by (eapply comp_front; eauto).
                     pose proof (IHe _ _ _ _ Htf2 E1) as Fe.
                     destruct (step (fun y => asg y elt) _ _ ltac:(unfold A; intros y Hy; apply orb_false_iff in Hy; tauto)
                                 (ex_intro _ f2 (conj E2 C2)) Ht2 Fe) as (F3 & _ & _).
                     eapply comb; eauto.
                  -- assert (Htf2 : tgt_fixed W s2 (fid :: rho)) by (eapply comp_front; eauto).
                     pose proof (IHe _ _ _ _ Htf2 E1) as Fe.
                     destruct (step (fun y => asg y elt) _ _ ltac:(unfold A; intros y Hy; apply orb_false_iff in Hy; tauto)
                                 (ex_intro _ f2 (conj E2 C2)) Ht2 Fe) as (F3 & Hex3 & Ht3).
                     assert (F03 : FP fid A rho sc s3) by (eapply comb; eauto).
                     eapply comb; [exact F03 | | exact Htc].
                     eapply IHl; eauto. destruct Hex3 as (f3 & E3 & _). apply nth_error_Some. congruence.
                * eapply comb; [exact F02 | | exact Htc]. eapply IHl; eauto. }
          assert (Hp : nth_error (frames (push W s0 {| f_comp := true; f_vars := [] |})) fid = Some {| f_comp := true; f_vars := [] |}).
          { simpl. rewrite nth_error_app2 by (unfold fid; lia). unfold fid. rewrite Nat.sub_diag. reflexivity. }
          assert (Fl : FP fid A rho (push W s0 {| f_comp := true; f_vars := [] |}) s1).
          { eapply Hloop; [exact H | eauto | eapply tgt_fixed_ext; [apply ext_push | auto] |].
            simpl. rewrite app_length. simpl. unfold fid. lia. }
          assert (Fpush : FP fid A rho s0 (push W s0 {| f_comp := true; f_vars := [] |})).
          { apply frozen_FP; [exact Ht1 | unfold fid; lia | intros g Hg; unfold fid; eapply target_lt; eauto |].
            repeat split; [apply ext_push | ].
            intros i Hi. simpl. rewrite nth_error_app1; auto. }
          assert (F01 : FPE A rho s0 s1).
          { unfold FPE. fold fid. eapply FP_weaken; [eapply FP_trans; [exact Ht1 | exact Fpush | exact Fl] | lia |].
            intros y Hy; cbv beta; rewrite Hy; reflexivity. }
          eapply FPE_seq; [exact Ht | exact Fi | exact F01 |].
          intros y Hy. apply Hw in Hy. destruct Hy as (Hy1 & Hy2 & Hy3). unfold A. rewrite Hy1, Hy2, Hy3. auto.
      - (* EFstr *) intros parts IH rho s r s1 Ht H. simpl in H. destruct IH as (IH & _). inv_obind H.
        + eapply IH; eauto.
        + injection H as <- <-. eapply IH; eauto.
      - (* EEffect *) intros tag e IH rho s r s1 Ht H. simpl in H. inv_obind H.
        + eapply IH; eauto.
        + injection H as <- <-. pose proof (IH _ _ _ _ Ht E) as Fe.
          eapply FPE_seq; [exact Ht | exact Fe | apply (FP_log _ (fun _ => false)) |]. simpl. intros y Hy. rewrite Hy. auto.
      - (* ETuple *) intros es IH rho s r s1 Ht H. simpl in H. destruct IH as (IH & _). inv_obind H.
        + eapply IH; eauto.
        + injection H as <- <-. eapply IH; eauto.
      - (* ESub *) intros a IHa i IHi rho s r s1 Ht H. simpl in H. inv_obind H.
        + eapply FPE_weaken; [eapply IHa; eauto|]. simpl. intros y Hy. apply orb_false_iff in Hy. tauto.
        + pose proof (IHa _ _ _ _ Ht E) as Fa. inv_obind H.
          * eapply FPE_seq; [exact Ht | exact Fa | eapply IHi; eauto; eapply FPE_step_fixed; eauto |].
            simpl. intros y Hy. apply orb_false_iff in Hy. tauto.
          * injection H as <- <-.
            eapply FPE_seq; [exact Ht | exact Fa | eapply IHi; eauto; eapply FPE_step_fixed; eauto |].
            simpl. intros y Hy. apply orb_false_iff in Hy. tauto.
      - (* ENil *) split; [|split].
        + intros rho s r s1 Ht H. simpl in H. injection H as <- <-. apply FP_refl.
        + intros o rho s r s1 Ht H. simpl in H. injection H as <- <-. apply FP_refl.
        + intros rho s r s1 Ht H. simpl in H. injection H as <- <-. apply FP_refl.
      - (* ECons *) intros e IHe r IHr. destruct IHr as (IHl & IHb & IHc).
        assert (Hw : forall y, asg_list y (ECons e r) = false -> asg y e = false /\ asg_list y r = false).
        { simpl. intros y Hy. apply orb_false_iff in Hy. tauto. }
        split; [|split].
        + intros rho s r0 s1 Ht H. simpl in H. inv_obind H.
          * eapply FPE_weaken; [eapply IHe; eauto|]. intros y Hy. apply Hw in Hy. tauto.
          * pose proof (IHe _ _ _ _ Ht E) as Fe. pose proof (FPE_step_fixed _ _ _ _ Ht Fe) as Ht1. inv_obind H.
            -- eapply FPE_seq; [exact Ht | exact Fe | eapply IHl; eauto | exact Hw].
            -- injection H as <- <-. eapply FPE_seq; [exact Ht | exact Fe | eapply IHl; eauto | exact Hw].
        + intros o rho s r0 s1 Ht H. simpl in H. destruct r as [|e2 r2].
          * eapply FPE_weaken; [eapply IHe; eauto|]. intros y Hy. apply Hw in Hy. tauto.
          * inv_obind H.
            -- eapply FPE_weaken; [eapply IHe; eauto|]. intros y Hy. apply Hw in Hy. tauto.
            -- pose proof (IHe _ _ _ _ Ht E) as Fe. pose proof (FPE_step_fixed _ _ _ _ Ht Fe) as Ht1.
               destruct (Bool.eqb (truthy (shape v)) o).
               ++ injection H as <- <-. eapply FPE_weaken; [exact Fe|]. intros y Hy. apply Hw in Hy. tauto.
               ++ eapply FPE_seq; [exact Ht | exact Fe | eapply IHb; eauto | exact Hw].
        + intros rho s r0 s1 Ht H. simpl in H. inv_obind H.
          * eapply FPE_weaken; [eapply IHe; eauto|]. intros y Hy. apply Hw in Hy. tauto.
          * pose proof (IHe _ _ _ _ Ht E) as Fe. pose proof (FPE_step_fixed _ _ _ _ Ht Fe) as Ht1.
            destruct (truthy (shape v)).
            -- eapply FPE_seq; [exact Ht | exact Fe | eapply IHc; eauto | exact Hw].
            -- injection H as <- <-. eapply FPE_weaken; [exact Fe|]. intros y Hy. apply Hw in Hy. tauto.
      - (* ANil *) intros rho s r s1 Ht H. simpl in H. injection H as <- <-. apply FP_refl.
      - (* ACons *) intros star e IHe r IHr rho s r0 s1 Ht H. simpl in H.
        assert (Hw : forall y, asg_args y (ACons star e r) = false -> asg y e = false /\ asg_args y r = false).
        { simpl. intros y Hy. apply orb_false_iff in Hy. tauto. }
        inv_obind H.
        + eapply FPE_weaken; [eapply IHe; eauto|]. intros y Hy. apply Hw in Hy. tauto.
        + pose proof (IHe _ _ _ _ Ht E) as Fe. pose proof (FPE_step_fixed _ _ _ _ Ht Fe) as Ht1.
          destruct star.
          * destruct (items v); [|injection H as <- <-; eapply FPE_weaken; [exact Fe|]; intros y Hy; apply Hw in Hy; tauto].
            inv_obind H.
            -- eapply FPE_seq; [exact Ht | exact Fe | eapply IHr; eauto | exact Hw].
            -- injection H as <- <-. eapply FPE_seq; [exact Ht | exact Fe | eapply IHr; eauto | exact Hw].
          * inv_obind H.
            -- eapply FPE_seq; [exact Ht | exact Fe | eapply IHr; eauto | exact Hw].
            -- injection H as <- <-. eapply FPE_seq; [exact Ht | exact Fe | eapply IHr; eauto | exact Hw].
      - (* KNil *) intros rho s r s1 Ht H. simpl in H. injection H as <- <-. apply FP_refl.
      - (* KCons *) intros k e IHe r IHr rho s r0 s1 Ht H. simpl in H.
        assert (Hw : forall y, asg_kws y (KCons k e r) = false -> asg y e = false /\ asg_kws y r = false).
        { simpl. intros y Hy. apply orb_false_iff in Hy. tauto. }
        inv_obind H.
        + eapply FPE_weaken; [eapply IHe; eauto|]. intros y Hy. apply Hw in Hy. tauto.
        + pose proof (IHe _ _ _ _ Ht E) as Fe. pose proof (FPE_step_fixed _ _ _ _ Ht Fe) as Ht1.
          destruct k.
          * inv_obind H.
            -- eapply FPE_seq; [exact Ht | exact Fe | eapply IHr; eauto | exact Hw].
            -- injection H as <- <-. eapply FPE_seq; [exact Ht | exact Fe | eapply IHr; eauto | exact Hw].
          * destruct (unpack_dict v); [|injection H as <- <-; eapply FPE_weaken; [exact Fe|]; intros y Hy; apply Hw in Hy; tauto].
            inv_obind H.
            -- eapply FPE_seq; [exact Ht | exact Fe | eapply IHr; eauto | exact Hw].
            -- injection H as <- <-. eapply FPE_seq; [exact Ht | exact Fe | eapply IHr; eauto | exact Hw].
    Qed.
  End WithCb.

  (* ---- every fuel level *)
  Lemma eval_fp : forall n rho b s r s1, tgt_fixed W s rho ->
    eval W p typeof tbl callv binop getattr getitem truthy fmt ugl mself reg n rho b s = Some (r, s1) ->
    FP (length (frames s)) (fun x => asg x b) rho s s1.
  Proof.
    induction n; intros rho b s r s1 Ht H; simpl in H.
    - refine (proj1 (footprint_all (fun _ _ _ => None) _) _ _ _ _ _ Ht H). intros; discriminate.
    - refine (proj1 (footprint_all _ _) _ _ _ _ _ Ht H).
      intros rho0 b0 s0 r0 s2 Ht0 H0. eapply FP_weaken; [eapply IHn; eauto | lia | intros; discriminate].
  Qed.
End Foot.
