(* Extract.v — extraction of the executable model to OCaml.
   Only ExtrOcamlBasic's directives are in force (bool, option, list, prod, unit, sumbool -> OCaml's own);
   nat, positive, Z, order, sx, ty, val ... are extracted as the inductives they are.
   No Extract Constant / Extract Inductive of our own. *)
From Coq Require Import extraction.Extraction extraction.ExtrOcamlBasic.
From OvldV Require Import Model.Sx Gen.RunAll.
Extraction "model.ml" run.
