(* C03 — the dispatcher passes arguments, defaults, results and errors through intact.
   Theorems only; every proof is [exact <lemma>]; Print Assumptions under each.
   Model: Model/Entry.v (analyze = ArgumentAnalyzer, gen_entry = generate_dispatch as a mini-AST, resolve_params / bind =
   CPython's def and call binding, run_stmts = interpreter of the mini-AST, run_entry = the four composed,
   lookup = arity filter + empty-tuple branch of MultiTypeMap).  Spec: Spec/EntrySpec.v (sig_wf, accepts, spec_forward,
   fwd_ok, and the decidable domains dom_fwd / kf02_class / kf03_class / kw_documented).
   A call shape is (k, K): k positional arguments and keyword names K; sources SPos i / SKw n / SSelf denote the
   caller's objects. *)
From Coq Require Import ZArith List Bool Arith.
Import ListNotations.
From OvldV Require Import Model.Entry Spec.EntrySpec Proofs.EntryAn Proofs.EntryFwd Proofs.EntryAcc Proofs.EntryOut Proofs.EntryRefute.

(* Invariant of the analyzer that makes the slices lookup[:req+i] / posargs[:req+i+1] meaningful: for Python-valid
   signatures the positions every method requires form a prefix 0..r-1 of the positions; the required lists are exactly
   those positions, the concatenation spr+spo+pr+po that generate_dispatch walks through is the list of positions in
   order, and a strictly-positional optional excludes any non-strict required one. *)
Theorem C03_required_prefix : forall sigs a, forallb sig_wf sigs = true -> analyze sigs = inr a ->
  exists r, r <= npos sigs /\
    (forall p, p < npos sigs -> req_all sigs (CPos p) = (p <? r)) /\
    an_spr a ++ an_pr a = map (pid sigs) (seq 0 r) /\
    an_spr a ++ an_spo a ++ an_pr a ++ an_po a = map (pid sigs) (seq 0 (npos sigs)) /\
    (an_spo a <> [] -> an_pr a = []).
Proof. exact required_prefix. Qed.
Print Assumptions C03_required_prefix.

(* the generated def statement is never a SyntaxError (markers placed legally, no required parameter after one with a
   default, no duplicate parameter name) *)
Theorem C03_entry_compiles : forall sigs a, forallb sig_wf sigs = true -> analyze sigs = inr a ->
  resolve_params (e_params (gen_entry a)) <> None.
Proof. exact entry_compiles. Qed.
Print Assumptions C03_entry_compiles.

(* FULL STATEMENT (false of the faithful model, see C03_refuted_hole):
     for every set of Python-valid signatures the analyzer accepts and every call shape (k, K) the generated def binds,
     the body forwards exactly the supplied positionals in order (keyword-supplied positionals at their positions),
     exactly the supplied keywords, each with its own object, and the lookup key covers exactly the supplied arguments:
       run_entry sigs self k K = ROut o -> exists key fpos fkw, o = OCall key fpos fkw /\ fwd_ok sigs self k K key fpos fkw = true.
   PROVED: the same on the domain dom_fwd = complement of KF-31's class: it is not the case that a positional parameter
   is omitted while a keyword names a positional beyond the first omitted one.  Since the repair of KF-02 the domain
   contains every shape with an omitted optional positional and keyword-only arguments (required or optional), and
   keywords naming the positionals that directly follow the supplied ones.  In particular the body never fails
   (NameError / fall-off) on a bound shape in the domain. *)
Theorem C03_forward_partial : forall sigs self k K o,
  forallb sig_wf sigs = true -> sigs <> [] -> (forall s, In s sigs -> m_self s = self) ->
  dom_fwd sigs k K = true -> run_entry sigs self k K = ROut o ->
  exists key fpos fkw, o = OCall key fpos fkw /\ fwd_ok sigs self k K key fpos fkw = true.
Proof. exact forward_partial. Qed.
Print Assumptions C03_forward_partial.

(* the class is exact: on every bound shape outside the domain some supplied keyword argument (one that names a
   positional parameter) is neither forwarded
   positionally nor by keyword, and is absent from the lookup key *)
Theorem C03_forward_outside : forall sigs self k K o,
  forallb sig_wf sigs = true -> sigs <> [] -> (forall s, In s sigs -> m_self s = self) ->
  dom_fwd sigs k K = false -> run_entry sigs self k K = ROut o ->
  exists key fpos fkw, o = OCall key fpos fkw /\
    exists n, In n K /\ ~ In (SKw n) fpos /\ (forall s, ~ In (n, s) fkw) /\ (forall e, In e key -> ke_src e <> SKw n).
Proof. exact forward_outside. Qed.
Print Assumptions C03_forward_outside.

(* FULL STATEMENT: a call shape some registered method accepts is not rejected.
   PROVED (binding): if CPython binds the shape to the own def of some registered method, and no keyword of the call
   names a strictly positional parameter (docs/usage.md rule 2; the code's reading: the analyzer's positional_* lists,
   all strict when two or more are optional), then the generated def binds the shape as well. *)
Theorem C03_bind_accepts : forall sigs self k K s a,
  forallb sig_wf sigs = true -> (forall s, In s sigs -> m_self s = self) -> In s sigs ->
  analyze sigs = inr a -> accepts s k K = true -> kw_documented a K = true ->
  exists ps vals, resolve_params (e_params (gen_entry a)) = Some ps /\ bind ps (caller_pos self k) (caller_kws K) = Some vals.
Proof. exact bind_accepts. Qed.
Print Assumptions C03_bind_accepts.

(* PROVED (lookup), for every bound shape: the key the body builds passes the arity / required-keyword filter of
   MultiTypeMap.mro for every method that accepts the shape, and every keyword in the key is a keyword-only parameter of
   that method (whether the classes match is another component's job).  The filter is however not consulted for the
   empty key: C03_refuted_zero. *)
Theorem C03_admit : forall sigs self k K s key fpos fkw,
  forallb sig_wf sigs = true -> (forall s, In s sigs -> m_self s = self) -> In s sigs ->
  accepts s k K = true ->
  run_entry sigs self k K = ROut (OCall key fpos fkw) ->
  arity_ok s key = true /\ (forall n, In n (key_names key) -> In n (sig_kw_names s)).
Proof. exact admit_partial. Qed.
Print Assumptions C03_admit.

(* KF-31: def f(x: int, u: int = 1, /, y: int = 2); f(1, y=3): accepted by the method and by the generated def, but the
   early exit for the omitted u forwards only x; the method runs with its own default for y *)
Theorem C03_refuted_hole :
  exists sigs self k K,
    forallb sig_wf sigs = true /\ (exists s, In s sigs /\ accepts s k K = true) /\
    (exists a, analyze sigs = inr a /\ kw_documented a K = true) /\ In 1 K /\
    exists key fpos fkw,
      run_entry sigs self k K = ROut (OCall key fpos fkw) /\
      fwd_ok sigs self k K key fpos fkw = false /\
      fpos = [SPos 0] /\ fkw = [] /\
      dispatch compat_all sigs self k K = DRan key fpos fkw 0 [Some (SPos 0); None; None].
Proof. exact refuted_hole. Qed.
Print Assumptions C03_refuted_hole.

(* KF-03: def f(x: int = 5); f(): the entry point correctly forwards nothing, the method passes the arity filter for the
   empty key, but the empty-tuple branch of the lookup answers "No method" *)
Theorem C03_refuted_zero :
  exists sigs self k K s,
    forallb sig_wf sigs = true /\ In s sigs /\ accepts s k K = true /\
    (exists a, analyze sigs = inr a /\ kw_documented a K = true) /\ dom_fwd sigs k K = true /\
    run_entry sigs self k K = ROut (OCall [] [] []) /\
    arity_ok s [] = true /\
    dispatch compat_all sigs self k K = DNoMethod [].
Proof. exact refuted_zero. Qed.
Print Assumptions C03_refuted_zero.
