(* GraphStack.v — the same-signature push-down of _register, as a stack rule:
   after registering a sequence of methods on an empty function, the j-th most recent method registered for
   signature s sits at key (s, -j); nothing else is in the table. *)
From Coq Require Import ZArith List Bool Arith Lia.
Import ListNotations.
From OvldV Require Import Model.Graph Spec.Overlay Proofs.GraphTab.

Fixpoint reg_all (regs : list (nat * nat)) (t : table) : option table :=
  match regs with
  | [] => Some t
  | (s, l) :: r => match t_register s l t with Some t' => reg_all r t' | None => None end
  end.

Definition St (t : table) (regs : list (nat * nat)) : Prop := forall k, t_get k t = stack_get k regs.

Definition zkey (s j : nat) : skey := (s, (- Z.of_nat j)%Z).

Lemma skey_eqb_zkey : forall s' z s j, skey_eqb (s', z) (zkey s j) = Nat.eqb s' s && Z.eqb z (- Z.of_nat j).
Proof. reflexivity. Qed.

(* lookups after pushing l in at depth j, when the entries of s are R (most recent first) *)
Definition shifted (s : nat) (R : list nat) (j l : nat) (t : table) (k : skey) : option nat :=
  if Nat.eqb (fst k) s then
    match snd k with
    | Zpos _ => t_get k t
    | z => let i := Z.to_nat (- z) in
           if Nat.ltb i j then nth_error R i else if Nat.eqb i j then Some l else nth_error R (i - 1)
    end
  else t_get k t.

Lemma push_spec : forall s R t,
  (forall i, t_get (zkey s i) t = nth_error R i) ->
  forall f j l t', t_push f s (- Z.of_nat j) l t = Some t' -> forall k, t_get k t' = shifted s R j l t k.
Proof.
  intros s R t H. induction f; intros j l t' P k; [discriminate|].
  cbn [t_push] in P. fold (zkey s j) in P. rewrite H in P.
  destruct (nth_error R j) as [old|] eqn:E.
  - replace (- Z.of_nat j - 1)%Z with (- Z.of_nat (S j))%Z in P by lia.
    destruct (t_push f s (- Z.of_nat (S j)) old t) as [t1|] eqn:P1; [|discriminate]. injection P as <-.
    rewrite t_get_set. specialize (IHf _ _ _ P1 k). rewrite IHf. clear IHf P1.
    destruct k as [s' z]. rewrite skey_eqb_zkey. unfold shifted. cbn [fst snd].
    destruct (Nat.eqb s' s) eqn:Es; cbn [andb].
    + destruct z as [|p|p].
      * cbn [Z.opp Z.to_nat]. destruct j; cbn; auto.
      * destruct (Z.eqb (Z.pos p) (- Z.of_nat j)) eqn:Ez; auto. apply Z.eqb_eq in Ez. lia.
      * set (i := Z.to_nat (- Z.neg p)).
        assert (Z.neg p = (- Z.of_nat i)%Z) as Zi by (unfold i; lia).
        destruct (Z.eqb (Z.neg p) (- Z.of_nat j)) eqn:Ez.
        -- apply Z.eqb_eq in Ez. assert (i = j) as -> by lia. rewrite Nat.ltb_irrefl, Nat.eqb_refl. reflexivity.
        -- apply Z.eqb_neq in Ez. assert (i <> j) as Ne by lia.
           destruct (lt_eq_lt_dec i j) as [[Lt|Eq]|Gt]; [|lia|].
           ++ rewrite (proj2 (Nat.ltb_lt i (S j))) by lia. rewrite (proj2 (Nat.ltb_lt i j)) by lia. reflexivity.
           ++ rewrite (proj2 (Nat.ltb_ge i (S j))) by lia. rewrite (proj2 (Nat.ltb_ge i j)) by lia.
              rewrite (proj2 (Nat.eqb_neq i j)) by lia.
              destruct (Nat.eq_dec i (S j)) as [Eq|Nq].
              ** rewrite Eq, Nat.eqb_refl. replace (S j - 1) with j by lia. auto.
              ** rewrite (proj2 (Nat.eqb_neq i (S j))) by lia. reflexivity.
    + destruct (Nat.eqb s' s); [discriminate|]. reflexivity.
  - injection P as <-. rewrite t_get_set.
    destruct k as [s' z]. rewrite skey_eqb_zkey. unfold shifted. cbn [fst snd].
    destruct (Nat.eqb s' s) eqn:Es; cbn [andb]; auto.
    apply Nat.eqb_eq in Es. subst s'.
    destruct z as [|p|p].
    + cbn [Z.opp Z.to_nat]. destruct j; cbn; auto. pose proof (H 0) as H0. unfold zkey in H0. cbn in H0. rewrite H0. reflexivity.
    + destruct (Z.eqb (Z.pos p) (- Z.of_nat j)) eqn:Ez; auto. apply Z.eqb_eq in Ez. lia.
    + set (i := Z.to_nat (- Z.neg p)).
      assert (Z.neg p = (- Z.of_nat i)%Z) as Zi by (unfold i; lia).
      destruct (Z.eqb (Z.neg p) (- Z.of_nat j)) eqn:Ez.
      * apply Z.eqb_eq in Ez. assert (i = j) as -> by lia. rewrite Nat.ltb_irrefl, Nat.eqb_refl. reflexivity.
      * apply Z.eqb_neq in Ez. assert (i <> j) as Ne by lia.
        rewrite Zi. fold (zkey s i). rewrite H.
        destruct (Nat.ltb i j) eqn:L2; auto. apply Nat.ltb_ge in L2.
        apply Nat.eqb_neq in Ne. rewrite Ne. apply Nat.eqb_neq in Ne.
        assert (nth_error R i = None) as -> by (apply nth_error_None; apply nth_error_None in E; lia).
        symmetry. apply nth_error_None. apply nth_error_None in E. lia.
Qed.

Lemma labels_of_app : forall s a b, labels_of s (a ++ b) = labels_of s a ++ labels_of s b.
Proof. intros. unfold labels_of. rewrite filter_app, map_app. reflexivity. Qed.

Lemma St_zkey : forall t regs s i, St t regs -> t_get (zkey s i) t = nth_error (rev (labels_of s regs)) i.
Proof.
  intros. rewrite H. unfold stack_get, zkey. cbn [fst snd].
  destruct i; cbn [Z.of_nat Z.opp]; [reflexivity|]. f_equal. lia.
Qed.

Lemma labels_of_one : forall s' s l, labels_of s' [(s, l)] = if Nat.eqb s s' then [l] else [].
Proof. intros. unfold labels_of. cbn. destruct (Nat.eqb s s'); reflexivity. Qed.

Lemma St_register : forall t regs s l t', St t regs -> t_register s l t = Some t' -> St t' (regs ++ [(s, l)]).
Proof.
  intros t regs s l t' H P k. unfold t_register in P.
  change 0%Z with (- Z.of_nat 0)%Z in P.
  rewrite (push_spec s (rev (labels_of s regs)) t (fun i => St_zkey t regs s i H) _ _ _ _ P k).
  unfold shifted, stack_get. destruct k as [s' z]. cbn [fst snd].
  rewrite labels_of_app, labels_of_one, rev_app_distr.
  destruct (Nat.eqb s' s) eqn:Es.
  - apply Nat.eqb_eq in Es. subst s'. rewrite (Nat.eqb_refl s). cbn [rev app].
    destruct z as [|p|p].
    + reflexivity.
    + rewrite H. reflexivity.
    + set (i := Z.to_nat (- Z.neg p)). cbn [Nat.ltb Nat.leb].
      destruct i; cbn; auto. rewrite Nat.sub_0_r. reflexivity.
  - rewrite Nat.eqb_sym in Es. rewrite Es. cbn [rev app]. rewrite H. reflexivity.
Qed.

Lemma St_nil : St [] [].
Proof.
  intros [s z]. unfold stack_get. cbn [fst snd t_get].
  destruct z; try reflexivity; symmetry; apply nth_error_None; cbn; lia.
Qed.

Lemma reg_all_spec : forall regs pre t, St t pre -> exists t', reg_all regs t = Some t' /\ St t' (pre ++ regs).
Proof.
  induction regs as [|[s l] r IH]; intros pre t H; cbn [reg_all].
  - exists t. rewrite app_nil_r. auto.
  - destruct (t_register s l t) as [t1|] eqn:P; [|exfalso; eapply t_register_total; eauto].
    destruct (IH (pre ++ [(s, l)]) t1 (St_register _ _ _ _ _ H P)) as [t' [R S']].
    exists t'. rewrite <- app_assoc in S'. auto.
Qed.

(* registering regs on an empty function: defined, and the table is the stack rule *)
Lemma pushdown_stack : forall regs, exists t, reg_all regs [] = Some t /\ forall k, t_get k t = stack_get k regs.
Proof. intros. destruct (reg_all_spec regs [] [] St_nil) as [t [R S']]. exists t. auto. Qed.

Lemma reg_all_nodup : forall regs t t', reg_all regs t = Some t' -> NoDup (keys t) -> NoDup (keys t').
Proof.
  induction regs as [|[s l] r IH]; cbn [reg_all]; intros t t' H N.
  - injection H as <-. auto.
  - destruct (t_register s l t) eqn:P; [|discriminate]. eapply IH; eauto. unfold t_register in P. eapply nodup_t_push; eauto.
Qed.

Lemma reg_all_app : forall a b t, reg_all (a ++ b) t = match reg_all a t with Some t1 => reg_all b t1 | None => None end.
Proof.
  induction a as [|[s l] r IH]; cbn [reg_all app]; intros; auto. destruct (t_register s l t); auto.
Qed.
