(* GraphProps.v — the lemmas behind Props/C16.v *)
From Coq Require Import ZArith List Bool Arith Lia.
Import ListNotations.
From OvldV Require Import Model.Graph Spec.Overlay Proofs.GraphTab Proofs.GraphBase Proofs.GraphUpd Proofs.GraphInv.

(* ================= overlay ================= *)
Lemma first_some_app : forall A (l1 l2 : list (option A)),
  first_some (l1 ++ l2) = match first_some l1 with Some v => Some v | None => first_some l2 end.
Proof. induction l1 as [|[v|] r IH]; cbn; intros; auto. Qed.

Lemma t_get_fold_update : forall k pts acc, Forall (fun p => NoDup (keys p)) pts ->
  t_get k (fold_left t_update pts acc) =
  match first_some (map (t_get k) (rev pts)) with Some v => Some v | None => t_get k acc end.
Proof.
  induction pts as [|p r IH]; intros acc F; cbn [fold_left rev].
  - reflexivity.
  - inversion F; subst. rewrite IH by auto. rewrite map_app, first_some_app. cbn.
    destruct (first_some (map (t_get k) (rev r))); auto. rewrite t_get_update by auto.
    destruct (t_get k p); reflexivity.
Qed.

Lemma dfold_inv : forall (r : nat -> option table) ms acc a,
  fold_left (dstep r) ms (Some acc) = Some a ->
  exists pts, Forall2 (fun m pt => r m = Some pt) ms pts /\ a = fold_left t_update pts acc.
Proof.
  induction ms as [|m ms IH]; intros acc a H; cbn [fold_left] in H.
  - injection H as <-. exists []. split; constructor.
  - rewrite dstep_some in H. destruct (r m) eqn:E; [|rewrite dfold_none in H; discriminate].
    destruct (IH _ _ H) as [pts [F ->]]. exists (t :: pts). split; [constructor; auto | reflexivity].
Qed.

Lemma defns_nodup : forall f g n t, defns f g n = Some t -> NoDup (keys t).
Proof.
  intros. destruct f; [discriminate|]. rewrite defns_S in H. destruct (g_get g n); [|discriminate].
  rewrite defns_body_eq in H. destruct (fold_left _ _ _) eqn:F; [|discriminate]. injection H as <-.
  apply nodup_t_update. destruct (dfold_inv _ _ _ _ F) as [pts [_ ->]].
  assert (forall pts acc, NoDup (keys acc) -> NoDup (keys (fold_left t_update pts acc))) as X.
  { induction pts0; cbn; intros; auto. apply IHpts0. apply nodup_t_update. auto. }
  apply X. constructor.
Qed.

Lemma overlay_defns : forall g n x t, Inv g -> g_get g n = Some x -> defns (length g) g n = Some t ->
  exists pts, Forall2 (fun m pt => defns (length g) g m = Some pt) (n_mixins x) pts /\
              forall k, t_get k t = overlay_get k pts (n_own x).
Proof.
  intros g n x t I E D. destruct (length g) as [|f] eqn:L; [discriminate|].
  rewrite defns_S, E, defns_body_eq in D.
  destruct (fold_left (dstep (defns f g)) (n_mixins x) (Some [])) eqn:F; [|discriminate]. injection D as <-.
  destruct (dfold_inv _ _ _ _ F) as [pts [F2 ->]]. exists pts. split.
  - clear -F2. induction F2; constructor; auto. eapply defns_mono; [|eassumption]. lia.
  - intros k. unfold overlay_get. rewrite t_get_update by (eapply inv_nodup; eauto).
    destruct (t_get k (n_own x)); auto. rewrite t_get_fold_update.
    + destruct (first_some _); reflexivity.
    + clear -F2. induction F2; constructor; auto. eapply defns_nodup; eauto.
Qed.

(* ================= what one primitive does to the other nodes ================= *)
(* Lb is contained in Anc in every reachable graph *)
Lemma Lb_Anc : forall g a n, Inv g -> Lb g a n -> Anc g a n.
Proof.
  intros g a n I H. induction H.
  - constructor.
  - destruct (inv_child _ I _ _ _ H H0) as (y & Ey & Im & _).
    clear H1. revert IHLb. generalize n. intros n' H'. induction H'.
    + eapply anc_step; eauto. constructor.
    + eapply anc_step; eauto.
Qed.

Lemma Lb_same : forall g g', same sk g g' -> forall a n, Lb g a n -> Lb g' a n.
Proof.
  intros g g' S a n H. induction H; [constructor|].
  destruct (same_get _ _ _ _ _ _ S H) as [y [Ey P]]. unfold sk in P. injection P as _ Pc.
  eapply lb_step; eauto. rewrite <- Pc. auto.
Qed.

Record Iso (g g' : graph) (N : nat) : Prop := mkIso {
  iso_dm : forall m, m <> N -> option_map dm (g_get g' m) = option_map dm (g_get g m);
  iso_flags : forall m x, g_get g m = Some x -> m <> N -> ~ Lb g N m ->
                exists y, g_get g' m = Some y /\ n_compiled y = n_compiled x /\ n_snap y = n_snap x;
  iso_len : length g <= length g' }.

Lemma Iso_refl : forall g N, Iso g g N.
Proof. intros. split; auto. intros. eauto. Qed.

Lemma iso_defns : forall g g' N m, Inv g -> Iso g g' N -> m < length g -> anc_b (length g) g N m = false ->
  defns (length g') g' m = defns (length g) g m.
Proof.
  intros g g' N m I S Lm A.
  destruct (inv_defns g m I Lm) as [t D]. rewrite D.
  eapply defns_mono; [apply (iso_len _ _ _ S)|].
  rewrite <- (defns_local g g' N); auto. intros k Ne. symmetry. apply (iso_dm _ _ _ S). auto.
Qed.

Lemma iso_obs : forall g g' N m, Inv g -> Iso g g' N -> m < length g -> ~ Anc g N m -> obs g' m = obs g m.
Proof.
  intros g g' N m I S Lm A.
  destruct (g_get_some _ _ Lm) as [x E].
  assert (m <> N) as Ne by (intros ->; apply A; constructor).
  assert (~ Lb g N m) as NL by (intros Q; apply A; apply Lb_Anc; auto).
  destruct (iso_flags _ _ _ S _ _ E Ne NL) as (y & Ey & Cy & Sy).
  unfold obs. rewrite E, Ey, Cy, Sy. destruct (n_compiled x); auto.
  apply iso_defns with (N := N); auto.
  destruct (anc_b (length g) g N m) eqn:B; auto. exfalso. apply A. eapply anc_b_sound; eauto.
Qed.

Lemma iso_obs_used : forall g g' N m x, Iso g g' N -> g_get g m = Some x -> n_compiled x = true ->
  m <> N -> ~ Lb g N m -> obs g' m = obs g m.
Proof.
  intros g g' N m x S E C Ne NL. destruct (iso_flags _ _ _ S _ _ E Ne NL) as (y & Ey & Cy & Sy).
  unfold obs. rewrite E, Ey, Cy, Sy, C. reflexivity.
Qed.

(* --- create --- *)
Lemma iso_create : forall g ms lb, Iso g (created g ms lb) (length g).
Proof.
  intros. destruct (created_old g ms lb) as (L & Enew & Old). split.
  - intros m Ne. destruct (g_get g m) eqn:E.
    + destruct (Old _ _ E) as [y [Ey R]]. rewrite Ey. cbn. unfold dm. destruct R as (R1 & R2 & _). rewrite R1, R2. reflexivity.
    + unfold g_get in *. apply nth_error_None in E. rewrite (proj2 (nth_error_None _ m)); auto. lia.
  - intros m x E _ _. destruct (Old _ _ E) as [y [Ey R]]. exists y. destruct R as (_ & _ & _ & _ & R5 & R6 & _). auto.
  - lia.
Qed.

(* --- add_mixins --- *)
Lemma iso_mixed : forall g n x ms, g_get g n = Some x -> Iso g (mixed g n x ms) n.
Proof.
  intros g n x ms E. destruct (mixed_rel g n x ms E) as [L Old]. cbn zeta in Old. split.
  - intros m Ne. destruct (g_get g m) eqn:Em.
    + destruct (Old _ _ Em) as [y [Ey R]]. rewrite Ey. cbn. unfold dm.
      destruct R as (R1 & _ & _ & _ & _ & R6 & _). apply Nat.eqb_neq in Ne. rewrite Ne in R6. rewrite R1, R6. reflexivity.
    + unfold g_get in *. apply nth_error_None in Em. rewrite (proj2 (nth_error_None _ m)); auto. lia.
  - intros m z Em _ _. destruct (Old _ _ Em) as [y [Ey R]]. exists y. destruct R as (_ & _ & _ & R4 & R5 & _). auto.
  - lia.
Qed.

(* linkback reachability from n is not enlarged by n's new parents listing n as a child *)
Lemma Lb_mixed : forall g n x ms a k, g_get g n = Some x -> Lb (mixed g n x ms) a k -> Lb g a k \/ Lb g n k.
Proof.
  intros g n x ms a k E H. destruct (mixed_rel g n x ms E) as [L Old]. cbn zeta in Old.
  induction H as [a|a y c k Ea Ic H IH].
  - left. constructor.
  - assert (a < length g) as La by (rewrite <- L; eapply g_get_lt; eauto).
    destruct (g_get_some _ _ La) as [z Ez]. destruct (Old _ _ Ez) as [y' [Ey' R]]. rewrite Ea in Ey'. injection Ey' as <-.
    destruct R as (_ & _ & _ & _ & _ & _ & Hc). apply Hc in Ic.
    destruct IH as [IH|IH]; [|right; exact IH].
    destruct Ic as [Ic|[-> _]]; [left; eapply lb_step; eauto | right; exact IH].
Qed.

Lemma iso_mixed_upd : forall g n x ms g', Inv g -> g_get g n = Some x ->
  upd (length g) (mixed g n x ms) n = Some g' -> Iso g g' n.
Proof.
  intros g n x ms g' I E U. destruct (mixed_rel g n x ms E) as [L Old]. cbn zeta in Old.
  pose proof (iso_mixed g n x ms E) as S1.
  destruct (upd_spec _ _ _ _ U) as [(K & C & S) _].
  split.
  - intros m Ne. rewrite <- (gkeep_same_dm _ _ K m). apply (iso_dm _ _ _ S1 m Ne).
  - intros m z Em Ne NL. destruct (Old _ _ Em) as [y1 [Ey1 R]]. destruct R as (_ & _ & _ & R4 & R5 & _).
    destruct (proj2 K _ _ Ey1) as [y [Ey _]]. exists y. split; auto. split.
    + pose proof (C m) as Cm. rewrite (compiled_b_get _ _ _ Ey), (compiled_b_get _ _ _ Ey1) in Cm. congruence.
    + destruct (S _ _ _ Ey1 Ey) as [Q|(_ & V & _)]; [congruence|].
      exfalso. apply NL. unfold visited in V. apply lb_b_sound in V.
      destruct (Lb_mixed _ _ _ _ _ _ E V); auto.
  - destruct K as [K _]. rewrite <- K, L. auto.
Qed.

(* --- register / unregister --- *)
Lemma iso_modify : forall g n x t g', Inv g -> g_get g n = Some x ->
  upd (length g) (g_mod g n (set_own t)) n = Some g' -> Iso g g' n.
Proof.
  intros g n x t g' I E U. destruct (upd_spec _ _ _ _ U) as [(K & C & S) _].
  pose proof (same_set_own g n t) as Ssk.
  split.
  - intros m Ne. rewrite <- (gkeep_same_dm _ _ K m). rewrite g_get_mod_other; auto.
  - intros m z Em Ne NL.
    assert (g_get (g_mod g n (set_own t)) m = Some z) as Em1 by (rewrite g_get_mod_other; auto).
    destruct (proj2 K _ _ Em1) as [y [Ey _]]. exists y. split; auto. split.
    + pose proof (C m) as Cm. rewrite (compiled_b_get _ _ _ Ey), (compiled_b_get _ _ _ Em1) in Cm. auto.
    + destruct (S _ _ _ Em1 Ey) as [Q|(_ & V & _)]; auto.
      exfalso. apply NL. unfold visited in V. apply lb_b_sound in V.
      eapply Lb_same; [apply same_sym; exact Ssk | exact V].
  - destruct K as [K _]. rewrite <- K, length_g_mod. auto.
Qed.

(* --- first use --- *)
Lemma iso_compile : forall g n g', compile g n = Some g' -> Iso g g' n.
Proof.
  intros g n g' C. pose proof (compile_gkeep _ _ _ C) as K. split.
  - intros m _. symmetry. apply (gkeep_same_dm _ _ K m).
  - intros m x E Ne _. destruct (compile_other _ _ _ _ _ C Ne E) as (y & Ey & Cy & Sy). eauto.
  - destruct K as [K _]. lia.
Qed.

(* a freshly created node has no linkback descendant and is nobody's ancestor *)
Lemma created_no_children : forall g ms lb m, Lb (created g ms lb) (length g) m -> m = length g.
Proof.
  intros g ms lb m H. destruct (created_old g ms lb) as (_ & Enew & _).
  inversion H; subst; auto. rewrite Enew in H0. injection H0 as <-. cbn in H1. contradiction.
Qed.

Lemma Iso_variant : forall g ms lb t g2, Inv g -> valid_ids g ms = true ->
  upd (length (created g ms lb)) (g_mod (created g ms lb) (length g) (set_own t)) (length g) = Some g2 ->
  Iso g g2 (length g).
Proof.
  intros g ms lb t g2 I V U.
  pose proof (iso_create g ms lb) as S1.
  destruct (created_old g ms lb) as (L & Enew & Old).
  pose proof (iso_modify _ _ _ _ _ (Inv_create _ _ lb I V) Enew U) as S2.
  split.
  - intros m Ne. rewrite (iso_dm _ _ _ S2 m Ne). apply (iso_dm _ _ _ S1 m Ne).
  - intros m x E Ne NL. destruct (iso_flags _ _ _ S1 _ _ E Ne NL) as (y & Ey & Cy & Sy).
    destruct (iso_flags _ _ _ S2 _ _ Ey Ne) as (z & Ez & Cz & Sz).
    + intros Q. apply created_no_children in Q. auto.
    + exists z. split; auto. split; congruence.
  - pose proof (iso_len _ _ _ S1). pose proof (iso_len _ _ _ S2). lia.
Qed.

(* every step is an Iso around its target *)
Lemma do_register_unfold : forall g n sig l, do_register g n sig l = do_modify g n (t_register sig l).
Proof. reflexivity. Qed.

Lemma Iso_step : forall g o, Inv g -> Iso g (step_g g o) (target g o).
Proof.
  intros g o I. unfold step_g. destruct o; cbn [step target].
  - destruct (valid_ids g mixins) eqn:V.
    + rewrite do_create_eq by auto. apply iso_create.
    + rewrite do_create_invalid by auto. apply Iso_refl.
  - destruct (valid_ids g (n :: mixins)) eqn:V.
    + rewrite do_create_eq by auto. apply iso_create.
    + rewrite do_create_invalid by auto. apply Iso_refl.
  - destruct (valid_ids g (n :: mixins)) eqn:V.
    + rewrite do_create_eq by auto. rewrite do_register_unfold.
      destruct (do_modify_cases (created g (n :: mixins) lb) (length g) (t_register sig l))
        as [(x & t & g' & E & Lk & F & U & ->)|[Nd Eq]].
      * cbn. eapply Iso_variant; eauto.
      * destruct (do_modify (created g (n :: mixins) lb) (length g) (t_register sig l)) as [g2 o2].
        cbn in *. destruct o2; cbn; try apply Iso_refl. congruence.
    + rewrite do_create_invalid by auto. apply Iso_refl.
  - destruct (do_add_mixins_cases g n ms) as [(x & E & Lk & F & ->)|[(x & g' & E & V & Lk & F & W & U & ->)|(_ & -> & _)]];
      try apply Iso_refl.
    cbn. eapply iso_mixed_upd; eauto.
  - rewrite do_register_unfold.
    destruct (do_modify_cases g n (t_register sig l)) as [(x & t & g' & E & Lk & F & U & ->)|[_ ->]]; [|apply Iso_refl].
    cbn. eapply iso_modify; eauto.
  - unfold do_unregister.
    destruct (do_modify_cases g n (fun t => Some (t_remove l t))) as [(x & t & g' & E & Lk & F & U & ->)|[_ ->]]; [|apply Iso_refl].
    cbn. eapply iso_modify; eauto.
  - unfold do_use. destruct (g_get g n) eqn:E; [|apply Iso_refl]. destruct (n_compiled n0); [apply Iso_refl|].
    destruct (compile g n) eqn:C; [|apply Iso_refl]. cbn. eapply iso_compile; eauto.
Qed.

(* ================= isolation ================= *)
Lemma isolation : forall ops o m, let g := run ops in
  m < length g -> ~ Anc g (target g o) m -> obs (step_g g o) m = obs g m.
Proof.
  intros ops o m g Lm A. apply iso_obs with (N := target g o); auto.
  - apply Inv_run. - apply Iso_step. apply Inv_run.
Qed.

Lemma isolation_used : forall ops o m x, let g := run ops in
  g_get g m = Some x -> n_compiled x = true -> m <> target g o -> ~ Lb g (target g o) m ->
  obs (step_g g o) m = obs g m.
Proof.
  intros ops o m x g E C Ne NL. eapply iso_obs_used; eauto. apply Iso_step. apply Inv_run.
Qed.

(* first use changes no observable at all *)
Lemma use_invisible : forall ops n m, let g := run ops in obs (step_g g (OUse n)) m = obs g m.
Proof.
  intros ops n m g. pose proof (Inv_run ops) as I. fold g in I.
  unfold step_g. cbn [step]. unfold do_use. destruct (g_get g n) eqn:E; auto.
  destruct (n_compiled n0) eqn:C0; auto. destruct (compile g n) as [g'|] eqn:C; auto. cbn.
  pose proof (compile_gkeep _ _ _ C) as K.
  assert (length g' = length g) as L by (destruct K; auto).
  destruct (Nat.eq_dec m n) as [->|Ne].
  - destruct (compile_self _ _ _ C) as (y & Ey & Cy & Sy). unfold obs. rewrite Ey, Cy, E, C0. auto.
  - unfold obs. destruct (g_get g m) eqn:Em.
    + destruct (compile_other _ _ _ _ _ C Ne Em) as (y & Ey & Cy & Sy). rewrite Ey, Cy, Sy.
      destruct (n_compiled n1); auto. rewrite L. symmetry. apply gkeep_defns. auto.
    + rewrite (gkeep_none _ _ _ K Em). reflexivity.
Qed.

(* ================= refusal ================= *)
Lemma refused_unchanged : forall g o, snd (step g o) <> Done -> step_g g o = g.
Proof.
  intros g o H. unfold step_g. destruct o; cbn [step] in *.
  - unfold do_create in *. destruct (valid_ids g mixins); cbn in *; congruence.
  - unfold do_create in *. destruct (valid_ids g (n :: mixins)); cbn in *; congruence.
  - destruct (do_create g (n :: mixins) lb) as [g1 o1] eqn:C.
    assert (o1 <> Done -> g1 = g) as X.
    { unfold do_create in C. destruct (valid_ids g (n :: mixins)); injection C as <- <-; congruence. }
    destruct o1; cbn in *; try (apply X; congruence).
    destruct (do_register g1 (length g) sig l) as [g2 o2]. destruct o2; cbn in *; congruence.
  - destruct (do_add_mixins_cases g n ms) as [(x & E & Lk & F & Q)|[(x & g' & E & V & Lk & F & W & U & Q)|(_ & Q & _)]]; auto.
    + rewrite Q. reflexivity.
    + rewrite Q in H. cbn in H. congruence.
  - rewrite do_register_unfold in *.
    destruct (do_modify_cases g n (t_register sig l)) as [(x & t & g' & E & Lk & F & U & Q)|[_ Q]]; auto.
    rewrite Q in H. cbn in H. congruence.
  - unfold do_unregister in *.
    destruct (do_modify_cases g n (fun t => Some (t_remove l t))) as [(x & t & g' & E & Lk & F & U & Q)|[_ Q]]; auto.
    rewrite Q in H. cbn in H. congruence.
  - unfold do_use in *. destruct (g_get g n); auto. destruct (n_compiled n0); auto.
    destruct (compile g n); cbn in *; congruence.
Qed.

Definition is_modification (o : op) : bool :=
  match o with OAddMixins _ _ | ORegister _ _ _ | OUnregister _ _ => true | _ => false end.

Lemma locked_refuses : forall g o x, is_modification o = true -> g_get g (target g o) = Some x -> n_locked x = true ->
  step_g g o = g /\ (snd (step g o) = Locked \/ snd (step g o) = Invalid).
Proof.
  intros g o x M E Lk. destruct o; try discriminate; cbn [target] in E; unfold step_g; cbn [step].
  - unfold do_add_mixins. rewrite E. destruct (valid_ids g ms); cbn; auto. rewrite Lk. cbn. auto.
  - unfold do_register, do_modify. rewrite E, Lk. cbn. auto.
  - unfold do_unregister, do_modify. rewrite E, Lk. cbn. auto.
Qed.

Lemma locked_refuses_register : forall g n sig l x, g_get g n = Some x -> n_locked x = true ->
  step g (ORegister n sig l) = (g, Locked) /\ forall l', step g (OUnregister n l') = (g, Locked).
Proof.
  intros. cbn [step]. unfold do_register, do_unregister, do_modify. rewrite H, H0. auto.
Qed.
