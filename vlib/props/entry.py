"""Component Entry (generated entry point, property C03): cases, the implementation side, encodings.

A case (JSON-serialisable, self-contained):
  {"methods": [{"self": bool, "prio": int, "params": [[kind, name, req, ann], ...]}, ...],   kind 0 posonly / 1 pos-or-kw / 2 kw-only
   "calls":   [{"pos": [vkind, ...], "kw": [[name, vkind], ...], "raise": bool}, ...]}
names are strings of NAMES, ann indexes ANNS, vkind indexes VKINDS."""
import ast, inspect, linecache, itertools, json, re
from .. import use_repo

NAMES = ["x", "y", "z", "w", "k", "j", "u", "v", "method"]
NAME_ID = {n: i for i, n in enumerate(NAMES)}
# annotations: 0 object, 1 int, 2 str, 3 A, 4 B(A), 5 type[A] (the only "complex" one: a builtin types.GenericAlias)
N_ANNS = 6
ANN_COMPLEX = {5}
# value kinds: 0 an int, 1 a str, 2 an A(), 3 a B(), 4 a subclass of A (the class object), 5 a subclass of B (class object), 6 the MISSING placeholder
N_VKINDS = 7
VK_MISSING = 6


def compat_table():
    """[lookup fn][value kind][annotation] -> does the key class fall under the annotation.  Written by hand from
    Python's subclassing and the documented meaning of type[...] (C14), independent of ovld."""
    def keyclass(lk, vk):
        if vk in (0, 1, 2, 3):
            return ("int", "str", "A", "B")[vk]
        if vk in (4, 5):
            return ("type[A]", "type[B]")[vk - 4] if lk == 1 else "type"
        return "Named"
    def under(kc, ann):
        if ann == 0:
            return True
        if ann == 1:
            return kc == "int"
        if ann == 2:
            return kc == "str"
        if ann == 3:
            return kc in ("A", "B")
        if ann == 4:
            return kc == "B"
        if ann == 5:
            return kc in ("type[A]", "type[B]")
        raise ValueError(ann)
    return [[[int(under(keyclass(lk, vk), ann)) for ann in range(N_ANNS)] for vk in range(N_VKINDS)] for lk in (0, 1)]


# ---------------------------------------------------------------- model encodings
def enc_sigs(case):
    return [[int(m["self"]), m["prio"], [[k, NAME_ID[n], int(r), a, int(a in ANN_COMPLEX)] for k, n, r, a in m["params"]]]
            for m in case["methods"]]


def model_case_gen(case):
    return [30, enc_sigs(case)]


def model_case_calls(case, is_self):
    calls = [[len(c["pos"]), list(c["pos"]), [[NAME_ID[n], v] for n, v in c["kw"]]] for c in case["calls"]]
    return [31, enc_sigs(case), int(is_self), compat_table(), VK_MISSING, calls]


def dec_ident(e):
    if e[0] == 0:
        return NAMES[e[1]]
    if e[0] == 1:
        return f"ARG{e[1]}"
    return "self"


# ---------------------------------------------------------------- building the real thing
class Recorder:
    """what the generated methods call; per call it is told what to return or raise"""
    def __init__(self):
        self.log = []
        self.result = None
        self.exc = None

    def hook(self, mi, binding):
        self.log.append((mi, binding))
        if self.exc is not None:
            raise self.exc
        return self.result


class Dflt:
    """default sentinel: one object per (method, parameter)"""
    def __init__(self, mi, name):
        self.mi, self.name = mi, name

    def __repr__(self):
        return f"<default of method {self.mi} for {self.name}>"


class Built:
    pass


def method_source(mi, m, fname):
    parts = []
    if m["self"]:
        parts.append("self")
    params = m["params"]
    n_po = len([p for p in params if p[0] == 0])
    seen_star = False
    for i, (k, n, r, a) in enumerate(params):
        if k == 2 and not seen_star:
            parts.append("*")
            seen_star = True
        parts.append(f"{n}: T{a}" + ("" if r else f" = D_{mi}_{n}"))
        if k == 0 and i == n_po - 1:
            parts.append("/")
    names = (["self"] if m["self"] else []) + [p[1] for p in params]
    binding = ", ".join(f"{n!r}: {n}" for n in names)
    return f"def {fname}({', '.join(parts)}):\n    return HOOK({mi}, {{{binding}}})\n"


def build(case):
    """Build a real Ovld for the case.  Returns Built with .f (callable taking the caller's arguments; for methods
    bound to .inst), .ov, .fns (the original functions), .rec, .defaults, .error (kind of build-time error or None)."""
    use_repo()
    import ovld
    from ovld import Ovld, OvldBase
    b = Built()
    b.rec = Recorder()
    class A:
        pass
    class B(A):
        pass
    b.A, b.B = A, B
    anns = [object, int, str, A, B, type[A]]
    ns = {"HOOK": b.rec.hook, "__name__": "c03gen", "ovld": ovld.ovld, "OvldBase": OvldBase}
    for i, t in enumerate(anns):
        ns[f"T{i}"] = t
    b.defaults = {}
    for mi, m in enumerate(case["methods"]):
        for k, n, r, a in m["params"]:
            if not r:
                d = Dflt(mi, n)
                ns[f"D_{mi}_{n}"] = d
                b.defaults[id(d)] = (mi, n)
    selfs = [m["self"] for m in case["methods"]]
    b.is_self = bool(selfs and selfs[0])
    b.inst = None
    b.error = None
    b.mode = "class" if (selfs and all(selfs)) else "function"
    try:
        if b.mode == "class":
            src = "class C(OvldBase):\n"
            for mi, m in enumerate(case["methods"]):
                src += f"    @ovld(priority={m['prio']})\n"
                src += "".join("    " + l + "\n" for l in method_source(mi, m, "meth").splitlines())
            exec(compile(src, "<c03gen>", "exec"), ns)
            C = ns["C"]
            b.inst = C()
            b.ov = C.__dict__["meth"].__ovld__
            b.fns = list(b.ov.defns.values())
            b.src = src
        else:
            ov = Ovld(name="f")
            b.fns = []
            src = ""
            for mi, m in enumerate(case["methods"]):
                s = method_source(mi, m, f"f{mi}")
                src += s
                exec(compile(s, "<c03gen>", "exec"), ns)
                b.fns.append(ns[f"f{mi}"])
                ov.register(ns[f"f{mi}"], priority=m["prio"])
            b.ov = ov
            b.src = src
            if b.is_self:
                b.inst = object()
        b.ov.compile()
    except TypeError as e:
        msg = str(e)
        b.error = (3 if "Some, but not all" in msg else 1 if "different positions" in msg
                   else 2 if "positional and keyword setting" in msg else ["other", msg[:300]])
        return b
    except Exception as e:   # e.g. the generated source does not compile
        b.error = ["other", f"{type(e).__name__}: {e}"[:300]]
        return b
    if b.mode == "class":
        b.call = getattr(b.inst, "meth")
    elif b.is_self:
        disp = b.ov.dispatch
        b.call = lambda *a, **kw: disp(b.inst, *a, **kw)
    else:
        b.call = b.ov.dispatch
    return b


# ---------------------------------------------------------------- translation validation: generated source -> mini-AST
class Unparsed(Exception):
    pass


def entry_source(b):
    fn = b.ov.dispatch.__code__.co_filename
    return "".join(linecache.cache[fn][2])


def parse_entry(b):
    """The generated entry point, as the encoding of Model/Run_Entry.v: (params, body).  Raises Unparsed."""
    from ovld.utils import MISSING, subtler_type
    src = entry_source(b)
    glb = b.ov.dispatch.__globals__
    tree = ast.parse(src)
    try:
        wrap = tree.body[0]
        fn = wrap.body[0]
        # the wrapper is recognised by its shape (one parameter OVLD, an inner def, `return <that def>`), not by the two names
        assert isinstance(wrap, ast.FunctionDef) and [x.arg for x in wrap.args.args] == ["OVLD"]
        assert isinstance(fn, ast.FunctionDef)
        assert isinstance(wrap.body[1], ast.Return) and wrap.body[1].value.id == fn.name and len(tree.body) == 1 and len(wrap.body) == 2
    except Exception:
        raise Unparsed("wrapper shape")
    if glb.get("MISSING") is not MISSING:
        raise Unparsed("MISSING is not the placeholder")

    # the two generated locals are recognised by their role (the dict / the list initialised empty at the top), not by
    # their spelling: a renaming of KWARGS / TARGS in the generator is not a difference
    KW = next((x.targets[0].id for x in fn.body if isinstance(x, ast.Assign) and len(x.targets) == 1 and isinstance(x.targets[0], ast.Name)
               and isinstance(x.value, ast.Dict) and not x.value.keys), "KWARGS")
    TA = next((x.targets[0].id for x in fn.body if isinstance(x, ast.Assign) and len(x.targets) == 1 and isinstance(x.targets[0], ast.Name)
               and isinstance(x.value, ast.List) and not x.value.elts), "TARGS")

    def ident(name):
        if name == "self":
            return [2]
        m = re.fullmatch(r"ARG(\d+)", name)
        if m:
            return [1, int(m.group(1))]
        if name in NAME_ID:
            return [0, NAME_ID[name]]
        raise Unparsed(f"identifier {name}")

    def is_missing_default(d):
        if not (isinstance(d, ast.Name) and d.id == "MISSING"):
            raise Unparsed("default is not MISSING")
        return 1

    a = fn.args
    if a.vararg or a.kwarg:
        raise Unparsed("*args/**kwargs")
    params = []
    posn = a.posonlyargs + a.args
    nd = len(a.defaults)
    for i, p in enumerate(posn):
        d = a.defaults[i - (len(posn) - nd)] if i >= len(posn) - nd else None
        params.append([0, ident(p.arg), is_missing_default(d) if d is not None else 0])
        if a.posonlyargs and i == len(a.posonlyargs) - 1:
            params.append([1])
    if a.kwonlyargs:
        params.append([2])
        for p, d in zip(a.kwonlyargs, a.kw_defaults):
            params.append([0, ident(p.arg), is_missing_default(d) if d is not None else 0])

    def lkfn(node):
        if not isinstance(node, ast.Name):
            raise Unparsed("lookup function")
        obj = glb.get(node.id, getattr(__import__("builtins"), node.id, None))
        if obj is type:
            return 0
        if obj is subtler_type:
            return 1
        raise Unparsed(f"lookup function {node.id}")

    def lkcall(node):
        if not (isinstance(node, ast.Call) and len(node.args) == 1 and not node.keywords and isinstance(node.args[0], ast.Name)):
            raise Unparsed("lookup call")
        return lkfn(node.func), ident(node.args[0].id)

    def call(stmts):
        if len(stmts) != 2:
            raise Unparsed("call template length")
        asg, ret = stmts
        if not (isinstance(asg, ast.Assign) and len(asg.targets) == 1 and isinstance(asg.targets[0], ast.Name)):
            raise Unparsed("method assignment")
        mv = asg.targets[0].id
        sub = asg.value
        if not (isinstance(sub, ast.Subscript) and isinstance(sub.value, ast.Attribute) and sub.value.attr == "map"
                and isinstance(sub.value.value, ast.Name) and sub.value.value.id == "OVLD" and isinstance(sub.slice, ast.Tuple)):
            raise Unparsed("OVLD.map[...]")
        key = []
        for el in sub.slice.elts:
            if isinstance(el, ast.Starred):
                if not (isinstance(el.value, ast.Name) and el.value.id == TA):
                    raise Unparsed("starred key")
                key.append([2])
            elif isinstance(el, ast.Tuple):
                if not (len(el.elts) == 2 and isinstance(el.elts[0], ast.Constant) and el.elts[0].value in NAME_ID):
                    raise Unparsed("named key")
                f, x = lkcall(el.elts[1])
                key.append([1, NAME_ID[el.elts[0].value], f, x])
            else:
                f, x = lkcall(el)
                key.append([0, f, x])
        if not (isinstance(ret, ast.Return) and isinstance(ret.value, ast.Call) and isinstance(ret.value.func, ast.Name) and ret.value.func.id == mv):
            raise Unparsed("return method(...)")
        args = []
        for x in ret.value.args:
            if not isinstance(x, ast.Name):
                raise Unparsed("positional argument")
            args.append([0, ident(x.id)])
        for kw in ret.value.keywords:
            if kw.arg is None:
                if not (isinstance(kw.value, ast.Name) and kw.value.id == KW):
                    raise Unparsed("**")
                args.append([2])
            else:
                if not (isinstance(kw.value, ast.Name) and kw.arg in NAME_ID):
                    raise Unparsed("keyword argument")
                args.append([1, NAME_ID[kw.arg], ident(kw.value.id)])
        return [key, args]

    def missing_test(t, op):
        if not (isinstance(t, ast.Compare) and len(t.ops) == 1 and isinstance(t.ops[0], op) and isinstance(t.left, ast.Name)
                and isinstance(t.comparators[0], ast.Name) and t.comparators[0].id == "MISSING"):
            return None
        return ident(t.left.id)

    body = []
    stmts = list(fn.body)
    i = 0
    while i < len(stmts):
        s = stmts[i]
        if isinstance(s, ast.Assign) and len(s.targets) == 1 and isinstance(s.targets[0], ast.Name) and s.targets[0].id == KW \
                and isinstance(s.value, ast.Dict) and not s.value.keys:
            body.append([0])
        elif isinstance(s, ast.Assign) and len(s.targets) == 1 and isinstance(s.targets[0], ast.Name) and s.targets[0].id == TA \
                and isinstance(s.value, ast.List) and not s.value.elts:
            body.append([1])
        elif isinstance(s, ast.If) and not s.orelse and missing_test(s.test, ast.IsNot) is not None:
            t = missing_test(s.test, ast.IsNot)
            try:
                s1, s2 = s.body
                assert isinstance(s1, ast.Assign) and isinstance(s1.targets[0], ast.Subscript) and s1.targets[0].value.id == KW
                kn = NAME_ID[s1.targets[0].slice.value]
                v = ident(s1.value.id)
                c = s2.value
                assert isinstance(s2, ast.Expr) and c.func.attr == "append" and c.func.value.id == TA and len(c.args) == 1
                tup = c.args[0]
                tn = NAME_ID[tup.elts[0].value]
                f, ta = lkcall(tup.elts[1])
            except Unparsed:
                raise
            except Exception:
                raise Unparsed("optional-keyword block")
            body.append([2, t, kn, v, tn, f, ta])
        elif isinstance(s, ast.If) and missing_test(s.test, ast.Is) is not None and (not s.orelse or isinstance(s.body[-1], ast.Return)):
            # `if t: ...; return X` followed by an else branch is the same program as the branch's statements placed after
            # the if (the body always returns): an if / elif / else layout of the chain is read as the successive ifs
            body.append([3, missing_test(s.test, ast.Is), call(s.body)])
            stmts[i + 1:i + 1] = list(s.orelse)
        elif isinstance(s, ast.Assign):
            body.append([4, call(stmts[i:i + 2])])
            i += 1
        else:
            raise Unparsed(f"statement {ast.dump(s)[:80]}")
        i += 1
    # `inits` is a Python set in generate_dispatch: its iteration order is not part of the behaviour
    j = 0
    while j < len(body) and body[j][0] in (0, 1):
        j += 1
    body[:j] = sorted(body[:j])
    return params, body


# ---------------------------------------------------------------- running calls on the implementation
class MapProxy:
    """stands in for OVLD.map during a traced call: records the lookup key and what is forwarded to the method"""
    def __init__(self, real):
        self.real = real
        self.keys = []
        self.forwarded = []

    def __getitem__(self, key):
        self.keys.append(key)
        m = self.real[key]
        fw = self.forwarded

        def traced(*a, **kw):
            fw.append((a, kw))
            return m(*a, **kw)
        return traced


def make_args(b, call, counter):
    """fresh, pairwise distinct objects for one call"""
    def mk(vk):
        i = next(counter)
        if vk == 0:
            return int(str(10 ** 9 + i))
        if vk == 1:
            return "s%d" % i
        if vk == 2:
            return b.A()
        if vk == 3:
            return b.B()
        if vk == 4:
            return type(f"A{i}", (b.A,), {})
        if vk == 5:
            return type(f"B{i}", (b.B,), {})
        raise ValueError(vk)
    pos = [mk(v) for v in call["pos"]]
    kw = {n: mk(v) for n, v in call["kw"]}
    return pos, kw


def label_fn(b, pos, kw):
    from ovld.utils import MISSING
    ids = {}
    if b.inst is not None:
        ids[id(b.inst)] = [0]
    for i, o in enumerate(pos):
        ids[id(o)] = [1, i]
    for n, o in kw.items():
        ids[id(o)] = [2, NAME_ID[n]]
    ids[id(MISSING)] = [3]

    def label(o, mi=None):
        if id(o) in ids:
            return ids[id(o)]
        if id(o) in b.defaults:
            dm, dn = b.defaults[id(o)]
            return [5] if dm == mi else ["default-of", dm, dn]
        return ["unknown", repr(o)[:40]]
    return label


def run_call(b, call, counter, traced):
    """One call on the real function.  Returns a dict describing what happened (labels, not objects)."""
    pos, kw = make_args(b, call, counter)
    label = label_fn(b, pos, kw)
    rec = b.rec
    rec.log.clear()
    rec.result = object()
    rec.exc = ValueError("raised by the body") if call.get("raise") else None
    real = b.ov.map
    proxy = None
    if traced:
        proxy = MapProxy(real)
        b.ov.map = proxy
    out = {"args": (pos, kw)}
    try:
        try:
            r = b.call(*pos, **kw)
            out["kind"] = "returned"
            out["same_result"] = r is rec.result
        except TypeError as e:
            out["kind"] = "typeerror"
            out["no_method"] = "No method" in str(e)
            out["ambiguous"] = "Ambiguous" in str(e)
            out["msg"] = str(e)[:200]
        except ValueError as e:
            out["kind"] = "raised"
            out["same_exc"] = e is rec.exc
        except Exception as e:  # anything else is unexpected
            out["kind"] = "other"
            out["msg"] = f"{type(e).__name__}: {e}"[:200]
    finally:
        if traced:
            b.ov.map = real
    out["ran"] = [(mi, {n: label(o, mi) for n, o in binding.items()}) for mi, binding in rec.log]
    out["raw"] = list(rec.log)
    if traced:
        out["keys"] = list(proxy.keys)
        out["forwarded"] = [([label(o) for o in a], sorted([NAME_ID[n], label(o)] for n, o in k.items())) for a, k in proxy.forwarded]
    return out


def key_expect(b, pos, kw, mkey):
    """the key tuple the model's key denotes, computed with the library's own two lookup functions on the caller's objects"""
    from ovld.utils import MISSING, subtler_type
    out = []
    for name, lk, src in mkey:
        if src[0] == 1:
            o = pos[src[1]]
        elif src[0] == 2:
            o = kw[NAMES[src[1]]]
        elif src[0] == 0:
            o = b.inst
        elif src[0] == 3:
            o = MISSING
        else:
            return None
        t = subtler_type(o) if lk == 1 else type(o)
        out.append(t if name < 0 else (NAMES[name], t))
    return tuple(out)


# ---------------------------------------------------------------- independent oracle helpers (Python's own binding)
def py_accepts(b, mi, pos, kw):
    fn = b.fns[mi]
    args = ([b.inst] if b.is_self else []) + list(pos)
    try:
        return inspect.signature(fn).bind(*args, **kw)
    except TypeError:
        return None


def py_applicable(b, case, mi, pos, kw):
    """the method accepts the call and every supplied object is an instance of the parameter's annotation"""
    ba = py_accepts(b, mi, pos, kw)
    if ba is None:
        return False
    anns = [object, int, str, b.A, b.B, None]
    for k, n, r, a in case["methods"][mi]["params"]:
        if n in ba.arguments:
            o = ba.arguments[n]
            if a == 5:
                if not (isinstance(o, type) and issubclass(o, b.A)):
                    return False
            elif not isinstance(o, anns[a]):
                return False
    return True


def documented_strict(case):
    """docs/usage.md, 'Keyword arguments': names that may NOT be given by keyword although some method declares them
    positional-or-keyword.  Rule 2: a positional may be given by keyword only if every function names its positional
    arguments the same; if a position is named differently (or is positional-only) somewhere, it and everything before
    it is strictly positional; and if max positionals - min required positionals > 1 all positionals are strict."""
    ms = case["methods"]
    npos = max((len([p for p in m["params"] if p[0] != 2]) for m in ms), default=0)
    minreq = min((len([p for p in m["params"] if p[0] != 2 and p[2]]) for m in ms), default=0)
    strict_upto = 0
    for p in range(npos):
        names = set()
        for m in ms:
            pp = [q for q in m["params"] if q[0] != 2]
            if p < len(pp):
                names.add(pp[p][1] if pp[p][0] == 1 else None)
        if len(names) != 1 or None in names:
            strict_upto = p + 1
    if npos - minreq > 1:
        strict_upto = npos
    strict = set()
    for m in ms:
        pp = [q for q in m["params"] if q[0] != 2]
        for p, q in enumerate(pp):
            if p < strict_upto:
                strict.add(q[1])
    return strict
