"""C07 — call_next walks down the resolution order one method at a time."""
import json, collections
from .. import model, progs
from ..world import world_from
from . import resolve_common as R
from .c04 import model_chain

CLAIM = dict(
    text="Coq theorems on the model of MultiTypeMap[(caller_code, *types)] (Model/Resolve.v lookup_next: the continuation entries resolve() writes, read back through __missing__'s leading-code-object path), for every hierarchy, method list, key and caller: a caller met while walking down single-handler ranks gets the first rank of what lies below it (C07_next_is_below), which is exactly the resolution of the call's candidate list minus the caller and everything ranked above it (C07_next_is_lookup_without_above; the stable sort commutes with removal and _pull restarts clean), on calls whose classes fall under pairwise comparable registered types (every call under single inheritance) that is the documented rule's verdict for the function holding only the remaining methods -- the property's own statement (C07_next_is_reduced_function); and a caller that is not a candidate for the key gets a fresh lookup (C07_foreign_caller). The whole walk is C07_walk_in_sorted_order: when every candidate dominates all those sorted after it, the call runs the first, call_next from the i-th runs the (i+1)-th and from the last reports 'No method' (each applicable method at most once, in non-increasing rank); where a rank is tied the walk ends with the ambiguity (C07_next_is_below). Tie to /repo: generated programs in which random subsets of methods delegate with call_next; the whole visit order of each outer call is compared with the model's chain, and -- the property oracle, independent of the model -- each step is compared with a fresh function from which the methods visited so far were removed; deviations must be KF-01's (removal changes the levels of unrelated classes: call outside chain_applicable). Walks through ranks that hold value-dependent methods (two positions: a class chain four deep against int with user conditions and Literals, every body delegating): the visit order against the Dep model's continuation, and each step against the documented rule applied to the methods not yet visited (a passed-over value-dependent rank-mate is KF-08).",
    note="Trusted: as C02. Outside chain-applicable calls the theorem keeps the specificity tuples of the original call (removing methods can change them: KF-01); dependent ranks are C10's subject.",
    technique="Coq proof (stable-sort/filter commutation, _pull prefix lemma) + differential correspondence of visit orders", design="6 C07")

THEOREMS = ["C07_next_is_below", "C07_next_is_lookup_without_above", "C07_next_is_reduced_function", "C07_walk_in_sorted_order", "C07_foreign_caller"]
ASSUMPTIONS = []


def gen(rng):
    prog = R.gen_program(rng, allow_kw=False, allow_arity=False)
    for d in prog["defs"]:
        if rng.random() < 0.7:
            d["body"] = "next"
    return prog


def check(ctx, prog, stats):
    w = world_from(prog["spec"])
    defs = prog["defs"]
    b = progs.Built(w, defs)
    mms = R.model_defs(defs)
    keys = [R.call_key(c) for c in prog["calls"]]
    sres = model.run_cases([[13, w.encode(), mms, keys]])[0]
    for call, sr in zip(prog["calls"], sres):
        pos = [w.instance(c) for c in call["pos"]]
        out, entered = b.call(pos)
        out = R.normalise(out, defs, call)
        stats["evaluations"] += 1
        stats["chain_lengths"][len(entered)] += 1
        case = {"spec": prog["spec"], "defs": defs, "calls": [call]}
        mo = model_chain(w, mms, defs, call)
        broken = (mo[0], mo[1]) != (out, entered) and not (mo[0][0] == "run" and out[0] == "run" and mo[1] == entered)
        if broken:
            ctx.violation(f"visit order / outcome: implementation {(out, entered)} != model {mo}", case, kind="correspondence")
            # the tie is broken for this call: the property oracle below is still asked (it does not use the model)
        if len(set(entered)) != len(entered):
            ctx.violation(f"a method was visited twice in one call_next walk: {entered}", case)
        if len(entered) >= 1:
            stats["nontrivial"].add(hash(json.dumps(case)))
        # property oracle: step i+1 is what a fresh function without the methods visited so far chooses
        chain = bool(sr[1])
        byid = {d["id"]: d for d in defs}
        for i in range(len(entered)):
            d = byid[entered[i]]
            delegates = d.get("body") == "next" and d["npos_req"] == len(d["pos"]) and all(r for (_, _, r) in d.get("kw", []))
            if not delegates:
                break
            removed = set(entered[: i + 1])
            rest = [dict(x, body="ret") for x in defs if x["id"] not in removed]
            exp_next = entered[i + 1] if i + 1 < len(entered) else None
            if rest:
                fb = progs.Built(world_from(prog["spec"]), rest)
                fo, _ = fb.call([fb.w.instance(c) for c in call["pos"]])
                fo = R.normalise(fo, rest, call)
            else:
                fo = ["nomethod"]
            got = ["run", exp_next] if exp_next is not None else out
            stats["oracle_steps"] += 1
            if fo != got:
                model_next = (["run", mo[1][i + 1]] if i + 1 < len(mo[1]) else mo[0]) if mo[1][: i + 1] == entered[: i + 1] else None
                if broken and model_next == fo:
                    # the model of the unchanged code takes the step the reduced function takes: not KF-01's doing
                    ctx.violation(f"call_next from method {entered[i]} reached {got}, but a function without {sorted(removed)} chooses {fo} (as the unchanged code's model does)", case)
                    return
                if not chain:
                    ctx.known_hit("KF-01", case)
                    stats["kf01"] += 1
                else:
                    ctx.violation(f"call_next from method {entered[i]} reached {got}, but a function without {sorted(removed)} chooses {fo}", case)
                    return
    stats["programs"] += 1


def check_other(ctx, prog, stats):
    """call_next with an argument of another class (possibly a type tuple the table has never resolved): the walk is
    compared with the model, and -- property oracle -- when the caller is not applicable to the new arguments the
    result must be that of a fresh call with them"""
    w = world_from(prog["spec"])
    defs = [dict(d) for d in prog["defs"]]
    for d in defs:
        d["body"] = ctx.rng.choice(["nexto", "nexto", "ret", "next"])
    b = progs.Built(w, defs)
    mms = R.model_defs(defs)
    byid = {d["id"]: d for d in defs}
    henc = w.encode()

    def delegates(d):
        return d.get("body") in ("next", "nexto") and d["npos_req"] == len(d["pos"]) and not d.get("kw")
    for call in prog["calls"]:
        if call["kw"]:
            continue
        pos = [w.instance(c) for c in call["pos"]]
        out, entered = b.call(pos)
        out = R.normalise(out, defs, call)
        stats["evaluations"] += 1
        case = {"spec": prog["spec"], "defs": defs, "calls": [call]}
        cur_cls = list(call["pos"])
        cur = progs.dec_outcome(model.run_cases([[10, henc, mms, [[0, R.call_key({"pos": cur_cls, "kw": {}})]]]])[0][0])
        mo_entered = []
        for _ in range(len(defs) + 3):
            if cur[0] != "run":
                break
            mo_entered.append(cur[1])
            d = byid[cur[1]]
            if not delegates(d):
                break
            if d["body"] == "nexto":
                cur_cls = [b.other_class(cur_cls[0])] + cur_cls[1:]
            cur = progs.dec_outcome(model.run_cases([[10, henc, mms, [[1, d["id"], R.call_key({"pos": cur_cls, "kw": {}})]]]])[0][0])
        if len(set(mo_entered)) != len(mo_entered):
            continue     # the walk can legitimately revisit a method when the arguments change; keep to simple walks
        if (out, entered) != (cur, mo_entered) and not (out[0] == "run" and cur[0] == "run" and entered == mo_entered):
            ctx.violation(f"call_next with another class: implementation {(out, entered)} != model {(cur, mo_entered)}", case, kind="correspondence")
            return
        stats["other_class_walks"] += 1


def check_shared(ctx, prog, stats):
    """the same method functions held by two functions (f and a copy of f): each function adapts the methods for itself,
    so after both were built and used, f's walks must still be f's walks (property oracle: a separately built function
    over the same definitions)"""
    defs = prog["defs"]
    b = progs.Built(world_from(prog["spec"]), defs)
    ref = progs.Built(world_from(prog["spec"]), defs)
    g = b.ov.copy()
    calls = [c for c in prog["calls"] if not c["kw"]]
    if not calls:
        return
    first = [b.call([b.w.instance(c) for c in call["pos"]]) for call in calls]
    for call in calls:
        b.call([b.w.instance(c) for c in call["pos"]], ov=g)
    for call, r1 in zip(calls, first):
        exp = ref.call([ref.w.instance(c) for c in call["pos"]])
        got = b.call([b.w.instance(c) for c in call["pos"]])
        stats["evaluations"] += 1
        stats["shared_walks"] += 1
        case = {"spec": prog["spec"], "defs": defs, "calls": [call], "shared": True}
        if got != exp or r1 != exp:
            ctx.violation(f"after a copy of the function was built and used, the walk {got} (before: {r1}) differs from the walk of a separately built function {exp}", case)
            return


_shared_ids = __import__("itertools").count()


def build_shared_def(w, defs, how):
    """every method is a closure of ONE def statement (a factory called once per method, as when a loop registers one
    shared body for several types): the methods' code objects are the same object until the library renames them"""
    import linecache
    import ovld as _ov
    from ovld.recode import call_next
    ov = _ov.Ovld(name="f")
    log = []
    deleg = "OV.next(a0)" if how == "fnext" else "call_next(a0)"
    src = ("def make(MID, DELEGATES):\n    def m(a0):\n        LOG.append(MID)\n        if DELEGATES:\n            return " + deleg +
           "\n        return ('ret', MID)\n    return m\n")
    fname = f"<verif-c07-shared-{next(_shared_ids)}>"
    linecache.cache[fname] = (len(src), None, src.splitlines(True), fname)
    glb = {"LOG": log, "OV": ov, "call_next": call_next, "__name__": "verif_c07_shared"}
    exec(compile(src, fname, "exec"), glb)
    dec = progs.Decoder(w)
    for d in defs:
        fn = glb["make"](d["id"], d.get("body") in ("next", "fnext"))
        fn.__annotations__ = {"a0": dec.ty(d["pos"][0])}
        ov.register(fn, priority=d.get("prio", 0))
    return ov, log


def check_shared_def(ctx, prog, stats):
    """property oracle: the walk over methods that are closures of one def equals the walk over the same methods written
    as separate defs (with f.next and with call_next)"""
    defs = [d for d in prog["defs"]]
    if not defs or any(len(d["pos"]) != 1 or d["npos_req"] != 1 or d.get("kw") for d in defs):
        return
    for how in ("fnext", "next"):
        ref = progs.Built(world_from(prog["spec"]), [dict(d, body=how if d.get("body") == "next" else "ret") for d in defs], hook=False)
        w2 = world_from(prog["spec"])
        ov, log = build_shared_def(w2, defs, how)
        for call in prog["calls"]:
            if call["kw"] or len(call["pos"]) != 1:
                continue
            exp = ref.call([ref.w.instance(call["pos"][0])])
            del log[:]
            import sys
            old = sys.getrecursionlimit()
            try:
                sys.setrecursionlimit(400)
                r = ov(w2.instance(call["pos"][0]))
                got = (["run", r[1]] if isinstance(r, tuple) and r and r[0] == "ret" else ["value", repr(r)], list(log))
            except TypeError as e:
                m = str(e)
                got = (["nomethod"] if m.startswith("No method") else ["ambig"] if m.startswith("Ambiguous") else ["exc", "TypeError:" + m[:60]], list(log))
            except RecursionError:
                got = (["exc", "RecursionError"], list(log)[:6])
            except Exception as e:  # noqa
                got = (["exc", type(e).__name__], list(log))
            finally:
                sys.setrecursionlimit(old)
            stats["evaluations"] += 1
            stats["shared_def_walks"] += 1
            if (got[0], got[1]) != (exp[0], exp[1]):
                from ..model import canon_ty
                sigs = [json.dumps(canon_ty(d["pos"][0])) for d in defs]     # the adapted name f[types] does not mention the priority
                if how == "fnext" and len(set(sigs)) < len(sigs) and got[0] == ["exc", "RecursionError"]:
                    ctx.known_hit("KF-55", {"spec": prog["spec"], "defs": defs, "calls": [call], "shared_def": how})
                    stats["kf55"] += 1
                    continue
                ctx.violation(f"methods written as closures of one def ({how}): walk {got}, as separate defs {exp}",
                              {"spec": prog["spec"], "defs": defs, "calls": [call], "shared_def": how})
                return


# ---------------------------------------------------------------- walks through ranks that hold value-dependent methods
def gen_dep_walk(rng):
    """two positions: a class chain L1 > L2 > L3 > L4 (plus an unrelated class) at one, int with value-dependent types at
    the other; 4-8 methods drawn from the grid, every body delegates with call_next.  Ranks then hold several methods (a
    value-dependent one ties with whatever it does not dominate), members of one rank are not adjacent in the sorted
    candidate list, and the walk goes on below them"""
    from . import dep_common as D
    from ..world import enc_val
    spec = [{"kind": "plain", "bases": [], "meths": []}, {"kind": "plain", "bases": [0], "meths": []},
            {"kind": "plain", "bases": [1], "meths": []}, {"kind": "plain", "bases": [2], "meths": []},
            {"kind": "plain", "bases": [], "meths": []}]
    from ..world import World
    w = World(spec)
    L = w.user_ids()
    ints = [1, 2, 3, 7]
    utab = {"10": [enc_val(v) for v in ints if rng.random() < 0.6], "11": [enc_val(v) for v in ints if rng.random() < 0.6]}
    dep_col = [[0, D.INT], [0, D.INT], [0, 0], [9, 10, [0, D.INT]], [9, 11, [0, D.INT]], [8, [0, D.INT], enc_val(2), enc_val(7)]]
    cls_col = [[0, c] for c in L[:4]] + [[0, 0]]
    swap = rng.random() < 0.5
    seen, defs = set(), []
    for i in range(rng.randint(4, 8)):
        a, b_ = rng.choice(cls_col), rng.choice(dep_col)
        if json.dumps([a, b_]) in seen:
            continue
        seen.add(json.dumps([a, b_]))
        defs.append({"id": i, "pos": [b_, a] if swap else [a, b_], "npos_req": 2, "kw": [], "prio": rng.choice([0, 0, 0, 0, 1]), "body": "next"})
    defs.append({"id": 20, "pos": [[0, 0], [0, 0]], "npos_req": 2, "kw": [], "prio": 0, "body": "ret" if rng.random() < 0.5 else "next"})
    calls = []
    for _ in range(8):
        cv = enc_val(w.instance(rng.choice(L[1:4]), 0), w)
        iv = enc_val(rng.choice(ints))
        calls.append({"vals": [iv, cv] if swap else [cv, iv]})
    return {"spec": spec, "defs": defs, "utab": utab, "calls": calls, "dep_walk": True}


def check_dep_walk(ctx, prog, stats):
    from . import dep_common as D
    from ..world import dec_val
    w = world_from(prog["spec"])
    defs, utab = prog["defs"], prog["utab"]
    b = progs.Built(w, defs, utab=utab)
    mms = R.model_defs(defs)
    ut = [[int(f)] + vals for f, vals in utab.items()]
    byid = {d["id"]: d for d in defs}
    for call in prog["calls"]:
        vs = [dec_val(e, w) for e in call["vals"]]
        out, entered = b.call(vs)
        out = D.impl_kind(out)
        stats["evaluations"] += 1
        stats["dep_walks"] += 1
        stats["chain_lengths"][len(entered)] += 1
        case = dict(prog, calls=[call])
        key = [[[0, D.cls_of_value(w, v)] for v in vs], []]
        args = D.slot_args(call["vals"])
        mo_entered = []
        cur = D.dec_dout(model.run_cases([[20, w.encode(), ut, mms, [[0, key, args]]]])[0][0])
        for _ in range(12):
            if cur[0] != "run":
                break
            mo_entered.append(cur[1])
            if byid[cur[1]].get("body") != "next":
                break
            cur = D.dec_dout(model.run_cases([[20, w.encode(), ut, mms, [[1, cur[1], key, args]]]])[0][0])
        same = (out, entered) == (cur, mo_entered) or (out[0] == "run" and cur[0] == "run" and entered == mo_entered)
        if not same:
            ctx.violation(f"call_next walk through value-dependent ranks: implementation {(out, entered)} != model {(cur, mo_entered)}", case, kind="correspondence")
        # the property's own statement, asked of the implementation alone: every step = the choice of the function that
        # holds only the methods not yet visited and not ranked above the caller; decided here only where that reduced
        # function has no value-dependent sibling of the caller left (KF-08) and the rule names a single method
        for i in range(len(entered) - 1):
            caller = byid[entered[i]]
            rest = [dict(d, body="ret") for d in defs if d["id"] not in entered[:i + 1] and d["prio"] <= caller["prio"]]
            exp = D.py_spec_dep(w, b, rest, vs)
            if exp is None or exp[0] != "run":
                continue
            stats["oracle_steps"] += 1
            if exp[1] != entered[i + 1]:
                skipped = byid[exp[1]]
                if any(D.is_dep_enc(t) for t in skipped["pos"]) and skipped["prio"] == caller["prio"] and same:
                    ctx.known_hit("KF-08", case)       # a value-dependent rank-mate of the caller is passed over
                elif same and D.kf01_shape(w, b, rest, vs, ["run", entered[i + 1]]):
                    ctx.known_hit("KF-01", case)
                else:
                    ctx.violation(f"call_next from method {entered[i]} reached {entered[i + 1]}; of the methods not yet visited the documented rule selects {exp[1]}", case)
                break


def run(ctx):
    stats = {"other_class_walks": 0, "shared_walks": 0, "shared_def_walks": 0, "kf55": 0, "evaluations": 0, "programs": 0, "oracle_steps": 0, "kf01": 0, "nontrivial": set(), "chain_lengths": collections.Counter(), "dep_walks": 0}
    samples = []
    n = 60 if ctx.quick() else 3000
    for _ in range(n):
        prog = gen(ctx.rng)
        if not prog["calls"]:
            continue
        check(ctx, prog, stats)
        check_other(ctx, prog, stats)
        check_shared(ctx, prog, stats)
        check_shared_def(ctx, prog, stats)
        check_dep_walk(ctx, gen_dep_walk(ctx.rng), stats)
        if len(samples) < 2:
            samples.append({"defs": prog["defs"], "call": prog["calls"][0]})
        if len(ctx.violations) > 3:
            break
    return {"evaluations": stats["evaluations"], "distinct_nontrivial": len(stats["nontrivial"]),
            "rule": "random programs (as C02, fixed arity) with 70% of the methods delegating through call_next; a case (world, methods, call) is non-trivial when at least one body ran; distinct by content",
            "samples": samples, "programs": stats["programs"], "visit_chain_length_histogram": {str(k): v for k, v in stats["chain_lengths"].items()},
            "oracle_steps_against_reduced_functions": stats["oracle_steps"], "walks_with_call_next_on_another_class": stats["other_class_walks"], "walks_after_a_copy_sharing_the_methods_was_used": stats["shared_walks"], "walks_over_closures_of_one_def": stats["shared_def_walks"], "walks_through_value_dependent_ranks": stats["dep_walks"], "deviations_attributed_to_KF-01": stats["kf01"],
            "traces_validated_against_impl": stats["evaluations"]}


def replay(ctx, payload):
    prog = payload["case"]
    if prog.get("dep_walk"):
        st = {"evaluations": 0, "dep_walks": 0, "oracle_steps": 0, "chain_lengths": collections.Counter()}
        before = len(ctx.violations)
        check_dep_walk(ctx, prog, st)
        return len(ctx.violations) > before
    if prog.get("shared_def"):
        stats = collections.Counter()
        before = len(ctx.violations)
        check_shared_def(ctx, prog, stats)
        return len(ctx.violations) > before
    if prog.get("shared"):
        stats = collections.Counter()
        before = len(ctx.violations)
        check_shared(ctx, prog, stats)
        return len(ctx.violations) > before
    w = world_from(prog["spec"])
    b = progs.Built(w, prog["defs"])
    mms = R.model_defs(prog["defs"])
    call = prog["calls"][0]
    out, entered = b.call([w.instance(c) for c in call["pos"]])
    mo = model_chain(w, mms, prog["defs"], call)
    print(json.dumps({"impl": [out, entered], "model": mo}))
    return (R.normalise(out, prog["defs"], call), entered) != (mo[0], mo[1])


def replay_finding(ctx, e):
    if e["id"] == "KF-55":
        wit = e["witness"]
        import sys
        ov, log = build_shared_def(world_from(wit["spec"]), wit["defs"], "fnext")
        w2 = world_from(wit["spec"])
        ov, log = build_shared_def(w2, wit["defs"], "fnext")
        old = sys.getrecursionlimit()
        try:
            sys.setrecursionlimit(400)
            ov(w2.instance(wit["calls"][0]["pos"][0]))
            return False
        except RecursionError:
            return True
        except Exception:  # noqa
            return False
        finally:
            sys.setrecursionlimit(old)
    from . import c02
    return c02.replay_finding(ctx, e)
