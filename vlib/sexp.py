"""Integer s-expressions <-> nested Python lists."""


def dumps(x):
    if isinstance(x, bool):
        return "1" if x else "0"
    if isinstance(x, int):
        return str(x)
    return "(" + " ".join(dumps(y) for y in x) + ")"


def loads(s):
    pos = 0
    n = len(s)

    def item():
        nonlocal pos
        while pos < n and s[pos] in " \t\r\n":
            pos += 1
        if s[pos] == "(":
            pos += 1
            acc = []
            while True:
                while pos < n and s[pos] in " \t\r\n":
                    pos += 1
                if s[pos] == ")":
                    pos += 1
                    return acc
                acc.append(item())
        st = pos
        while pos < n and s[pos] not in " ()\n":
            pos += 1
        return int(s[st:pos])

    return item()


def to_coq(x):
    """Gallina literal of type sx (for the in-Coq cross-check)."""
    if isinstance(x, bool):
        x = int(x)
    if isinstance(x, int):
        return f"A ({x})%Z"
    return "L [" + "; ".join(to_coq(y) for y in x) + "]"
