"""Shared machinery of the resolution properties (C01, C02, C04, C05, C06, C07, C20): generated dispatch programs over
class worlds, run through the real Ovld (vlib/progs.py) and through the extracted model (Model/Resolve.v)."""
import json
from .. import model, progs
from ..world import World, random_spec, world_from


def gen_static_defs(rng, w, npos=None, n_methods=None, allow_kw=True, allow_arity=True, allow_dup=True, prios=(0, 0, 0, 1, -1)):
    cls_ids = [0, 2, 3] + w.user_ids()
    npos = npos or rng.choice([1, 1, 2, 2, 3])
    n_methods = n_methods or rng.randint(1, 6)
    defs = []
    C = w.classes
    inst = [c for c in cls_ids if w.instantiable(c)]
    # methods are mostly declared on ancestors of a few target classes, so that several are applicable at once
    targets = [sorted(inst, key=lambda c: (-len(C[c].__mro__), rng.random()))[: max(1, len(inst) // 3)] for _ in range(npos + 1)]

    def pick(p):
        if rng.random() < 0.75:
            t = rng.choice(targets[min(p, npos)])
            anc = [c for c in cls_ids if issubclass(C[t], C[c])]
            return rng.choice(anc)
        return rng.choice(cls_ids)

    # one program in eight is a keyword family: most methods carry keyword-only parameters, so that several methods
    # differing in their required / optional keywords compete for one call shape
    kwfam = allow_kw and rng.random() < 0.125
    for i in range(n_methods):
        n = npos
        if allow_arity and not kwfam and rng.random() < 0.25:
            n = rng.randint(max(1, npos - 1), npos + 1)
        pos = [[0, pick(p)] for p in range(n)]
        req = n if (kwfam or rng.random() < 0.8) else rng.randint(max(0, n - 1), n)
        kw = []
        if allow_kw and rng.random() < (0.85 if kwfam else 0.25):
            # one or two keyword-only parameters (names 0 / 1), each required or optional: call shapes whose keyword
            # set is incomparable with a method's required set need two names
            names = rng.choice([[0], [0], [1], [0, 1], [0, 1], [1, 0]])
            kw = [[k, [0, rng.choice(cls_ids)], rng.random() < 0.5] for k in names]
        defs.append({"id": i, "pos": pos, "npos_req": req, "kw": kw, "prio": rng.choice(prios)})
    if allow_dup and rng.random() < 0.3 and defs:
        d = dict(rng.choice(defs))
        d["id"] = len(defs)
        if rng.random() < 0.5 and d["pos"] and not d.get("kw"):
            # the re-definition renames its positional parameters: still the same signature (names are not part of it)
            d["names"] = [f"b{i}" for i in range(len(d["pos"]))]
        defs.append(d)
    return defs


def gen_calls(rng, w, defs, n_calls=12):
    """mostly valid calls: 75% are aimed at a registered method (each argument an instance of a subclass of the
    declared class), the rest have random argument classes"""
    cls_ids = [0, 2, 3] + w.user_ids()
    inst = [c for c in cls_ids if w.instantiable(c)]
    C = w.classes
    maxpos = max(len(d["pos"]) for d in defs)
    minreq = min(d["npos_req"] for d in defs)
    haskw = any(d["kw"] for d in defs)
    calls = []

    def below(t):
        xs = [c for c in inst if issubclass(C[c], C[t])]
        # prefer the most derived classes: they fall under more registered types
        xs.sort(key=lambda c: -len(C[c].__mro__))
        return xs[: max(1, (len(xs) + 1) // 2)] if xs and rng.random() < 0.6 else xs

    for _ in range(n_calls):
        if rng.random() < 0.75:
            d = rng.choice(defs)
            n = rng.randint(d["npos_req"], len(d["pos"]))
            kws = {}
            for (k, t, req) in d["kw"]:
                if req or rng.random() < 0.5:
                    xs = below(t[1])
                    kws[str(k)] = rng.choice(xs) if xs else rng.choice(inst)
            if kws:
                n = len(d["pos"]) if len(d["pos"]) == maxpos else n
                if n != maxpos:
                    kws = {}    # keyword + omitted optional positional is the entry point's business (C03)
            pos = []
            for t in d["pos"][:n]:
                xs = below(t[1])
                pos.append(rng.choice(xs) if xs else rng.choice(inst))
            if not pos and not kws:
                continue
            calls.append({"pos": pos, "kw": kws})
            continue
        n = rng.randint(max(1, minreq), maxpos) if maxpos >= 1 else 0
        kws = {}
        if haskw and rng.random() < 0.4:
            kws = {str(k): rng.choice(inst) for k in rng.choice([[0], [1], [0, 1]])}
            n = maxpos
        if n == 0 and not kws:
            continue
        calls.append({"pos": [rng.choice(inst) for _ in range(n)], "kw": kws})
    return calls


def gen_program(rng, **kw):
    spec = random_spec(rng, kinds=kw.pop("kinds", ("plain", "plain", "plain", "abc", "proto")))
    w = World(spec)
    defs = gen_static_defs(rng, w, **kw)
    calls = gen_calls(rng, w, defs)
    return {"spec": spec, "defs": defs, "calls": calls}


def model_defs(defs_in_reg_order):
    """the definitions dictionary (ids with tiebreaks, in dictionary order) as the registration model computes it"""
    ops = [[0, progs.enc_method(d)] for d in defs_in_reg_order]
    mdefs = model.run_cases([[12, ops]])[0]
    byid = {d["id"]: d for d in defs_in_reg_order}
    return [progs.enc_method(byid[i], tie) for (i, tie) in mdefs]


def call_key(call):
    return progs.enc_key([[0, c] for c in call["pos"]], [[int(k), [0, c]] for k, c in call["kw"].items()])


def shape_accepted(defs, call):
    names = set(call["kw"])
    return any(d["npos_req"] <= len(call["pos"]) <= len(d["pos"])
               and {str(k) for k, _, r in d["kw"] if r} <= names
               and names <= {str(k) for k, _, r in d["kw"]} for d in defs)


def normalise(out, defs, call):
    """binding TypeErrors raised by the generated entry point for a call shape no method accepts are the
    'no applicable method' outcome (reading of C02 recorded in DESIGN.md)"""
    if out[0] == "exc" and out[1].startswith("TypeError:") and not shape_accepted(defs, call):
        return ["nomethod"]
    return out


# ---- the documented rule, in Python, from the property text (independent of library and model) ----
def py_applicable(w, d, call):
    names = set(call["kw"])
    if not (d["npos_req"] <= len(call["pos"]) <= len(d["pos"])):
        return False
    declared = {str(k): (t, r) for k, t, r in d["kw"]}
    if not ({k for k, (t, r) in declared.items() if r} <= names and names <= set(declared)):
        return False
    C = w.classes
    for c, t in zip(call["pos"], d["pos"]):
        if not issubclass(C[c], C[t[1]]):
            return False
    for k, c in call["kw"].items():
        if not issubclass(C[c], C[declared[k][0][1]]):
            return False
    return True


def py_beats(w, a, b, call, reg_index):
    C = w.classes
    if a["prio"] > b["prio"]:
        return True
    ta = [t[1] for t in a["pos"][:len(call["pos"])]] + [dict((str(k), t[1]) for k, t, _ in a["kw"])[k] for k in call["kw"]]
    tb = [t[1] for t in b["pos"][:len(call["pos"])]] + [dict((str(k), t[1]) for k, t, _ in b["kw"])[k] for k in call["kw"]]
    if a["prio"] == b["prio"] and all(issubclass(C[x], C[y]) for x, y in zip(ta, tb)) and ta != tb:
        return True
    same_sig = (a["pos"] == b["pos"] and a["kw"] == b["kw"] and a["npos_req"] == b["npos_req"] and a["prio"] == b["prio"])
    return same_sig and reg_index[a["id"]] > reg_index[b["id"]]


def py_spec(w, defs, call):
    reg_index = {d["id"]: i for i, d in enumerate(defs)}
    app = [d for d in defs if py_applicable(w, d, call)]
    if not app:
        return ["nomethod"]
    win = [a for a in app if all(b is a or py_beats(w, a, b, call, reg_index) for b in app)]
    if len(win) == 1:
        return ["run", win[0]["id"]]
    return ["ambig"]


def dec_verdict(v):
    return ["run", v[1]] if v[0] == 0 else ["nomethod"] if v[0] == 1 else ["ambig"]


def eval_program(prog, hook=True, with_resolve=True):
    """returns per call a dict(impl, entered, resolve, model, spec_coq, spec_py, chain, static)"""
    w = world_from(prog["spec"], prog.get("preds", []))
    defs = prog["defs"]
    b = progs.Built(w, defs, hook=hook)
    mms = model_defs(defs)
    henc = w.encode()
    keys = [call_key(c) for c in prog["calls"]]
    mres, sres = model.run_cases([[10, henc, mms, [[0, k] for k in keys]], [13, henc, mms, keys]])
    out = []
    for call, mo, so in zip(prog["calls"], mres, sres):
        pos = [w.instance(c) for c in call["pos"]]
        kw = {f"k{k}": w.instance(c) for k, c in call["kw"].items()}
        impl, entered = b.call(pos, kw)
        impl = normalise(impl, defs, call)
        r = {"impl": impl, "entered": entered, "model": progs.dec_outcome(mo), "spec_coq": dec_verdict(so[0]),
             "chain": bool(so[1]), "static": bool(so[2]), "spec_py": py_spec(w, defs, call)}
        if with_resolve and not call["kw"]:
            r["resolve"] = normalise(b.resolve(pos), defs, call)
        out.append(r)
    return out, w, b


def kf01_shape_generic(hold, impl, le):
    """KF-01's deviation shape, for any reference rule given as `le(ta, tb)` (declared type ta at least as specific as tb;
    None = the rule is silent): the rule says Ambiguous, the implementation runs a method `me` that holds, no holding
    method of the same or higher priority beats it by the rule, and every same-priority holder that `me` does not beat
    itself is kept from being beaten only by positions where the two declared types are unrelated (neither at least as
    specific as the other) -- the positions where layer-index levels compare what the type order leaves incomparable."""
    if impl[0] != "run":
        return False
    me = [d for d in hold if d["id"] == impl[1]]
    if not me:
        return False
    me = me[0]
    found = False
    for y in hold:
        if y is me:
            continue
        if y["prio"] != me["prio"]:
            if y["prio"] > me["prio"]:
                return False
            continue
        les_xy = [le(tx, ty) for tx, ty in zip(me["pos"], y["pos"])]
        les_yx = [le(ty, tx) for tx, ty in zip(me["pos"], y["pos"])]
        if any(l is None for l in les_xy + les_yx):
            return False
        if all(les_yx) and not all(les_xy):
            return False              # y beats the method that ran: a different defect
        if all(les_xy):
            continue                  # beaten by the rule as well
        for a, c in zip(les_xy, les_yx):
            if not a and c:
                return False          # y strictly more specific somewhere: a genuine crossing, the rule's ambiguity is real
        found = True
    return found
