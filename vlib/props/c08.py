"""C08 — recurse always re-enters the overloaded function that was actually called (rewriting half)."""
import os, re, json, ast, shutil, tempfile, warnings, collections, hashlib, linecache
from .. import model
from .. import rewrite_lang as RL
from .. import rewrite_rt as RT
from . import c09

CLAIM = dict(
    text="Rewriting half of C08. Coq (Model/Rewrite.v: the rewriting parameters carry the id of the function the method is adapted FOR, the semantics has one dispatch table per id, all in the same globals): C08_recurse_is_call_partial -- for every call recurse(args) with positional and keyword-only arguments (argument expressions of unbounded nesting, themselves containing recurse / call_next), evaluating the rewritten call equals evaluating the arguments left to right and dispatching in the table of the function the method was adapted for, self prepended in methods, whatever other functions' tables are present; C08_own_table -- the rewritten tree names no other function's ___OVLD / ___MAP / ___CODE; C08_bare_name -- the bare name becomes that function; C08_refuted_poskw -- recurse(x=v) for a positional-or-keyword parameter fails with 'No method' while f(x=v) works (KF-09). What the model cannot carry and only the behaviour run covers: that every function of a copy / variant / mixin graph re-adapts every inherited method for itself (core.py register_signature / defns) and which id it gets -- no theorem covers that step (the Graph model's observable is the table, not the adaptation); it is checked by the behaviour run alone. Behaviour run on every check: random derivation graphs (variant, copy, Ovld(mixins=[...]), depth and fan-in > 1) with recursive methods (recurse, the function's own name, generator expressions, map(recurse, ...), recurse(*[...])) placed at arbitrary nodes, half of the graphs with every function written `def walk` in one module, nested list / tuple inputs, every node called (children and parents alternately) and compared with a reference evaluator in which recursion re-enters the called node; the adapted methods' code is checked to name only the node's own ___MAP<id> / ___OVLD<id>, as the model's rewriting does.",
    note="Thin theorem content by design (the model mirrors a naming scheme; the substance is C09's simulation theorem specialised to one call site); most of the assurance is the behaviour run. Trusted: as for C09. Partial: KF-09, KF-27, KF-29.",
    technique="Coq proof (corollary of the C09 simulation; syntactic induction for own_table) + differential behaviour run over derivation graphs against a reference evaluator", design="6 C08")

THEOREMS = ["C08_recurse_is_call_partial", "C08_own_table", "C08_bare_name", "C08_refuted_poskw"]
ASSUMPTIONS = ["the effective method table of a node (parents' tables overlaid in mixin order, own definitions last) is taken from the documentation; it is the Graph component's (C16) subject",
               "methods of one graph use the same parameter name at the same position"]

TYPES = ["int", "str", "list", "tuple"]
PYT = {"int": int, "str": str, "list": list, "tuple": tuple}


def _h(x):
    return hashlib.sha1(json.dumps(x, sort_keys=True).encode()).hexdigest()[:16]


# ---------------------------------------------------------------- graphs
def gen_graph(rng, allow_kw=True):
    """nodes: list of dict(kind, parents, methods=[dict(type, how)]) ; node 0 is the root"""
    n = rng.choice([2, 3, 3, 4, 5])
    nodes = []
    for i in range(n):
        if i == 0:
            kind, parents = "root", []
        else:
            kind = rng.choice(["variant", "variant", "copy", "mixins"] if i >= 2 else ["variant", "copy"])
            if kind == "mixins":
                parents = rng.sample(range(i), 2)
            else:
                parents = [rng.randrange(i)]
        methods = []
        avail = TYPES[:]
        rng.shuffle(avail)
        k = rng.choice([1, 2, 2, 3]) if i else rng.choice([2, 3, 4])
        for t in avail[:k]:
            if t in ("list", "tuple"):
                how = rng.choice(["recurse", "recurse", "recurse", "own", "genexp", "map", "star"] + (["kw"] if allow_kw and rng.random() < 0.15 else []))
            else:
                how = "leaf"
            methods.append({"type": t, "how": how})
        if i == 0 and not any(m["type"] == "int" for m in methods):
            methods.append({"type": "int", "how": "leaf"})
        if not any(m["how"] != "leaf" for m in methods) and rng.random() < 0.7:
            methods.append({"type": rng.choice(["list", "tuple"]), "how": "recurse"})
            seen = set()
            methods = [m for m in reversed(methods) if not (m["type"] in seen or seen.add(m["type"]))]
        nodes.append({"kind": kind, "parents": parents, "methods": methods})
    # half of the graphs are written the usual way: every function is a `def walk` (root: @ovld, variants: @parent.variant),
    # bound to its node name afterwards, so that all functions of the graph share one name in one module
    nodes[0]["same_name"] = rng.random() < 0.5
    if nodes[0]["same_name"] and all(nd["kind"] in ("root", "variant") for nd in nodes) and rng.random() < 0.7:
        # ... and used as soon as it is defined, before the next `def walk` takes the name: methods may then refer to the
        # function by that very name (`walk(a)`), which the rewriter ties to the function it was adapted for
        nodes[0]["early"] = True
        for nd in nodes:
            if nd["kind"] in ("root", "variant"):
                for m in nd["methods"][:1] if nd["kind"] == "variant" else nd["methods"]:
                    if m["how"] in ("recurse", "own") and rng.random() < 0.6:
                        m["how"] = "ownname"
    return nodes


def method_src(i, first, m, same_name=False):
    t, how = m["type"], m["how"]
    if how == "leaf":
        body = f"return ('leaf', {i}, '{t}', x)"
    else:
        call = {"recurse": "recurse(a)", "own": f"f{i}(a)", "ownname": "walk(a)", "genexp": "recurse(a)", "kw": "recurse(x=a)", "map": None, "star": "recurse(*[a])"}[how]
        seq = "list(map(recurse, x))" if how == "map" else f"[{call} for a in x]" if how != "genexp" else f"list({call} for a in x)"
        body = f"return ('rec', {i}, '{t}', {seq})"
    name = "walk" if same_name else f"f{i}"
    return f"def {name}(x: {t}):\n    {body}\n" if first else f"def _(x: {t}):\n    {body}\n"


def graph_source(nodes):
    out = []
    sn = bool(nodes[0].get("same_name"))
    early = bool(nodes[0].get("early"))
    for i, nd in enumerate(nodes):
        if early and i > 0:
            out.append(f"try:\n    f{i - 1}([1, (2,)])\nexcept Exception:\n    pass\n")
        ms = nd["methods"]
        if nd["kind"] == "root":
            for j, m in enumerate(ms):
                out.append("@ovld\n" + method_src(i, True, m, sn))
            if sn:
                out.append(f"f{i} = walk\n")
        elif nd["kind"] == "variant":
            out.append(f"@f{nd['parents'][0]}.variant\n" + method_src(i, True, ms[0], sn))
            if sn:
                out.append(f"f{i} = walk\n")
            for m in ms[1:]:
                out.append(f"@f{i}.register\n" + method_src(i, False, m))
        elif nd["kind"] == "copy":
            out.append(f"f{i} = f{nd['parents'][0]}.copy()\n")
            for m in ms:
                out.append(f"@f{i}.register\n" + method_src(i, False, m))
        else:
            out.append(f"f{i} = Ovld(mixins=[{', '.join('f%d' % p for p in nd['parents'])}])\n")
            for m in ms:
                out.append(f"@f{i}.register\n" + method_src(i, False, m))
    return "\n".join(out)


def effective(nodes, i, memo=None):
    """documented overlay: parents' tables in mixin order, own definitions last; value = (defining node, how)"""
    memo = memo if memo is not None else {}
    if i in memo:
        return memo[i]
    tab = {}
    for p in nodes[i]["parents"]:
        tab.update(effective(nodes, p, memo))
    for m in nodes[i]["methods"]:
        tab[m["type"]] = (i, m["how"])
    memo[i] = tab
    return tab


class NoMethod(Exception):
    pass


def ref_eval(nodes, i, v, memo):
    tab = effective(nodes, i, memo)
    t = type(v).__name__
    if t not in tab:
        raise NoMethod(t)
    d, how = tab[t]
    if how == "leaf":
        return ("leaf", d, t, v)
    target = d if how == "own" else i      # the own name denotes the function where the method was written
    return ("rec", d, t, [ref_eval(nodes, target, a, memo) for a in v])


def uses_kw(nodes, i, v, memo, seen=None):
    """does evaluating v at node i reach a method that recurses with a positional parameter passed by keyword"""
    tab = effective(nodes, i, memo)
    t = type(v).__name__
    if t not in tab:
        return False
    d, how = tab[t]
    if how == "leaf":
        return False
    if how == "kw":
        return len(v) > 0
    target = d if how == "own" else i
    return any(uses_kw(nodes, target, a, memo) for a in v)


def gen_value(rng, depth):
    r = rng.random()
    if depth <= 0 or r < 0.3:
        return rng.choice([1, 2, "a", "b", 7])
    items = [gen_value(rng, depth - 1) for _ in range(rng.choice([0, 1, 2, 2, 3]))]
    return items if rng.random() < 0.55 else tuple(items)


def to_json(v):
    if isinstance(v, tuple):
        return {"t": [to_json(x) for x in v]}
    if isinstance(v, list):
        return [to_json(x) for x in v]
    return v


def from_json(v):
    if isinstance(v, dict):
        return tuple(from_json(x) for x in v["t"])
    if isinstance(v, list):
        return [from_json(x) for x in v]
    return v


def depth_of(v):
    return 1 + max([depth_of(x) for x in v], default=0) if isinstance(v, (list, tuple)) else 0


def build_graph(nodes, work):
    from vlib import use_repo
    use_repo()
    import ovld as OV
    src = graph_source(nodes)
    path = os.path.join(work, f"c08_{abs(hash(src)) % 10**12}.py")
    with open(path, "w") as f:
        f.write(src)
    linecache.checkcache(path)
    g = {"ovld": OV.ovld, "Ovld": OV.Ovld, "recurse": OV.recurse, "call_next": OV.call_next, "__name__": "c08_graph"}
    exec(compile(src, path, "exec"), g)
    return g, src


def call_node(g, i, v):
    f = g[f"f{i}"]
    try:
        return ["value", to_json(f(v))]
    except TypeError as e:
        return ["TypeError", str(e)[:120]]
    except Exception as e:  # noqa
        return [type(e).__name__, str(e)[:120]]


def check_graph(ctx, case, work, stats=None):
    """case: dict(nodes, calls=[(node, value json)...]); returns list of problems [(what, kind, known)]"""
    nodes = case["nodes"]
    g, src = build_graph(nodes, work)
    memo = {}
    problems = []
    for (i, vj) in case["calls"]:
        v = from_json(vj)
        got = call_node(g, i, v)
        try:
            exp = ["value", to_json(ref_eval(nodes, i, v, memo))]
        except NoMethod:
            exp = ["TypeError", None]
        kw = uses_kw(nodes, i, v, memo)
        if stats is not None:
            stats["evaluations"] += 1
            stats["calls"] += 1
            stats["traces_validated"] += 1
            if depth_of(v) >= 2 and i > 0:
                stats["distinct"].add(_h([nodes, i, vj]))
            stats["depth_hist"][depth_of(v)] += 1
            stats["outcomes"][got[0]] += 1
        ok = got[0] == exp[0] and (exp[0] != "value" or got[1] == exp[1])
        if ok:
            continue
        if kw and got[0] == "TypeError" and "No method" in got[1] and "[x:" in got[1]:
            problems.append((None, "property", "KF-09"))
            continue
        problems.append((f"node f{i} on {v!r}: got {got}, a function that re-enters itself gives {exp}\n{src}", "property", None))
    # a late registration on a function already in use (a node nothing derives from, hence not locked): a new
    # non-recursive method for one of the leaf types; recursion from the inherited methods must reach it
    leafs = [i for i in range(len(nodes)) if not any(i in nd["parents"] for nd in nodes)]
    # (not for graphs whose methods name the function by the shared `def` name: a rebuild re-reads that name, which by then
    # belongs to the last definition -- plain Python name binding, not the rewriter's doing)
    if leafs and case.get("late") is not None and not nodes[0].get("early"):
        L = leafs[case["late"] % len(leafs)]
        t = ["int", "str"][case["late"] % 2]
        late_src = f"def _(x: {t}):\n    return ('leaf', {L}, '{t}', x)\n"
        try:
            lg = dict(g)
            exec(compile(late_src, f"<c08-late-{_h([src, L, t])}>", "exec"), lg)
            g[f"f{L}"].register(lg["_"])
            registered = True
        except Exception as e:  # noqa
            registered = False
        if registered:
            nodes2 = [dict(nd, methods=[m for m in nd["methods"] if not (j == L and m["type"] == t)] + ([{"type": t, "how": "leaf"}] if j == L else []))
                      for j, nd in enumerate(nodes)]
            memo2 = {}
            for (i, vj) in case["calls"]:
                if i != L:
                    continue
                v = from_json(vj)
                got = call_node(g, L, v)
                try:
                    exp = ["value", to_json(ref_eval(nodes2, L, v, memo2))]
                except NoMethod:
                    exp = ["TypeError", None]
                if stats is not None:
                    stats["evaluations"] += 1
                    stats["calls_after_late_registration"] += 1
                ok = got[0] == exp[0] and (exp[0] != "value" or got[1] == exp[1])
                if not ok and not (uses_kw(nodes2, L, v, memo2) and got[0] == "TypeError"):
                    problems.append((f"after registering a {t} method on f{L} (already in use): node f{L} on {v!r}: got {got}, a function that re-enters itself gives {exp}\n{src}\n{late_src}", "property", None))
                    break
    # the adapted methods name only their own function's table (what the model's rewriting for that id produces).  The names the
    # rewriter injects are recognised by role, not by spelling: a global the adapted code refers to that the source text never
    # mentions, whose value is a dispatch table (MultiTypeMap) or an ovld / its dispatch function
    from ovld.core import Ovld
    from ovld.typemap import MultiTypeMap
    try:
        written = {n.id for n in ast.walk(ast.parse(src)) if isinstance(n, ast.Name)} | {n.name for n in ast.walk(ast.parse(src)) if isinstance(n, (ast.FunctionDef, ast.ClassDef))}
    except SyntaxError:
        written = set()

    def all_names(co):
        out = set(co.co_names)
        for c in co.co_consts:
            if hasattr(c, "co_names"):
                out |= all_names(c)
        return out
    for i in range(len(nodes)):
        ov = getattr(g[f"f{i}"], "__ovld__", g[f"f{i}"])
        ov.ensure_compiled()
        for handler in set(ov.map.type_tuples.keys()):
            names = all_names(handler.__code__)
            if stats is not None:
                stats["adapted_methods_checked"] += 1
            spelled = {n for n in names if re.fullmatch(r"___(MAP|OVLD)\d+", n)}
            if not spelled <= {f"___MAP{ov.id}", f"___OVLD{ov.id}"}:
                problems.append((f"method {handler.__name__} adapted for f{i} (id {ov.id}) names {sorted(spelled)}\n{src}", "correspondence", None))
            for n in sorted(names - written):
                obj = handler.__globals__.get(n)
                if isinstance(obj, MultiTypeMap) and obj is not ov.map:
                    problems.append((f"{n} in the globals of {handler.__name__} is a dispatch table but not f{i}'s own\n{src}", "property", None))
                elif (isinstance(obj, Ovld) or hasattr(obj, "__ovld__")) and getattr(obj, "__ovld__", obj) is not ov:
                    problems.append((f"{n} in the globals of {handler.__name__} is a function other than f{i}\n{src}", "property", None))
                elif stats is not None and (isinstance(obj, MultiTypeMap) or hasattr(obj, "__ovld__") or isinstance(obj, Ovld)):
                    stats["own_table_references"] += 1
    return problems


def gen_case(rng, allow_kw=True):
    nodes = gen_graph(rng, allow_kw)
    calls = []
    order = list(range(len(nodes)))
    for rnd in range(2):
        rng.shuffle(order)
        for i in order:          # children and parents alternately, twice
            for _ in range(2):
                calls.append([i, to_json(gen_value(rng, rng.choice([1, 2, 2, 3])))])
    return {"nodes": nodes, "calls": calls, "late": rng.randrange(8)}


# ---------------------------------------------------------------- model tie: rewriting of the recursive methods per node id
def model_tie(ctx, stats, n):
    """the model's rewriting with p_id = N names ___MAP<N> only (C08_own_table), checked against the real NameConverter
    run with the mangled names recode would use for a function with that id"""
    anal = RL.real_analysis(dict(method=False, pos=[(10, False)], kwonly=[]))
    cases, mcases = [], []
    for _ in range(n):
        nid, code = ctx.rng.randrange(1, 60), ctx.rng.randrange(60)
        g = RL.Gen(ctx.rng, rs=RL.RECURSE, cs=RL.CALL_NEXT, kwnames=[31], posnames=[10], p_odd=0.0)
        body = [[2, g.expr(3, [], "stmt")]]
        cases.append((nid, code, body))
        mcases.append([40, RL.params_from_analysis(anal, RL.RECURSE, RL.CALL_NEXT, (), nid, code), body])
    for (nid, code, body), mr in zip(cases, model.run_cases(mcases, chunk=500)):
        stats["evaluations"] += 1
        stats["model_tie"] += 1
        src = "def m(v10):\n" + RL.body_src(body) + "\n"
        st, new = RL.run_name_converter(anal, RL.RECURSE, RL.CALL_NEXT, src, nid, code)
        if st != "ok" or mr[0]:
            if (st == "usage") != bool(mr[0]):
                ctx.violation("UsageError disagreement", {"kind": "tie", "nid": nid, "code": code, "body": body}, kind="correspondence")
            continue
        try:
            real = [RL.stmt_from_ast(s) for s in new.body[0].body]
        except RL.Unmodelled as e:
            real = ["unmodelled", str(e)]
        if RL.canon_tmps(real) != RL.canon_tmps(mr[1]):
            ctx.violation(f"rewriting for function id {nid} differs from the model's\n{src}{ast.unparse(new)}\n{RL.body_src(mr[1])}",
                          {"kind": "tie", "nid": nid, "code": code, "body": body}, kind="correspondence")
            continue
        ids = set()

        def collect(e):
            if isinstance(e, list):
                if len(e) == 2 and e[0] in (5, 6) and isinstance(e[1], int) and False:
                    pass
                for x in e:
                    collect(x)
        names = {n.id for n in ast.walk(new) if isinstance(n, ast.Name)}
        mang = {x for x in names if x.startswith("___")}
        if not mang <= {f"___MAP{nid}", f"___OVLD{nid}", f"___CODE{code}"}:
            ctx.violation(f"rewritten tree for id {nid} names {sorted(mang)}", {"kind": "tie", "nid": nid, "code": code, "body": body})
        if RL.has_site(body[0][1], {RL.RECURSE, RL.CALL_NEXT}):
            stats["distinct"].add(_h([nid, code, body]))


def run(ctx):
    warnings.simplefilter("ignore")
    stats = {"evaluations": 0, "calls": 0, "distinct": set(), "traces_validated": 0, "depth_hist": collections.Counter(),
             "outcomes": collections.Counter(), "graphs": 0, "kinds": collections.Counter(), "hows": collections.Counter(),
             "adapted_methods_checked": 0, "own_table_references": 0, "model_tie": 0, "fan_in_2": 0, "depth_ge_2": 0, "calls_after_late_registration": 0}
    samples = []
    work = tempfile.mkdtemp(prefix="c08_")
    try:
        n_graphs, n_tie = (120, 300) if ctx.quick() else (20000, 20000)
        for _ in range(n_graphs):
            case = gen_case(ctx.rng)
            stats["graphs"] += 1
            for nd in case["nodes"]:
                stats["kinds"][nd["kind"]] += 1
                for m in nd["methods"]:
                    stats["hows"][m["how"]] += 1
            stats["fan_in_2"] += int(any(len(nd["parents"]) > 1 for nd in case["nodes"]))

            def chain(i):
                return 0 if not case["nodes"][i]["parents"] else 1 + max(chain(p) for p in case["nodes"][i]["parents"])
            stats["depth_ge_2"] += int(max(chain(i) for i in range(len(case["nodes"]))) >= 2)
            for what, kind, known in check_graph(ctx, case, work, stats):
                if known:
                    ctx.known_hit(known, {"kind": "graph", "case": case})
                else:
                    ctx.violation(what, {"kind": "graph", "case": case}, kind=kind)
            if len(samples) < 2 and len(case["nodes"]) >= 3:
                samples.append({"graph_source": graph_source(case["nodes"]), "calls": case["calls"][:4]})
            if len(ctx.violations) > 10:
                break
        model_tie(ctx, stats, n_tie)
    finally:
        shutil.rmtree(work, ignore_errors=True)
    return {"evaluations": stats["evaluations"], "distinct_nontrivial": len(stats["distinct"]),
            "rule": "random derivation graphs of 2-5 functions (root; variant / copy of one parent; Ovld(mixins=[two earlier nodes])), 1-4 methods per node over int / str / list / tuple, recursive ones using recurse, the node's own name, a generator expression, map(recurse, ...), recurse(*[...]), or (rarely); half of the graphs name every function alike (def walk) in one module; a positional parameter passed by keyword; every node called twice in two shuffled rounds on nested lists / tuples of depth <= 3; a call is non-trivial when the input nests at least twice and the node is not the root; plus rewriting cases per function id (model tie), non-trivial when they contain a call site; distinct by content",
            "samples": samples, "graphs": stats["graphs"], "graphs_with_mixin_fan_in": stats["fan_in_2"], "graphs_with_derivation_depth_ge_2": stats["depth_ge_2"],
            "node_kinds": dict(stats["kinds"]), "method_kinds": dict(stats["hows"]), "calls": stats["calls"],
            "input_depth_histogram": {str(k): v for k, v in sorted(stats["depth_hist"].items())}, "call_outcomes": dict(stats["outcomes"]),
            "adapted_methods_checked_for_own_table": stats["adapted_methods_checked"], "injected_references_found_to_be_own": stats["own_table_references"], "calls_after_a_late_registration": stats["calls_after_late_registration"], "model_tie_rewritings": stats["model_tie"],
            "traces_validated_against_impl": stats["traces_validated"]}


def replay(ctx, payload):
    warnings.simplefilter("ignore")
    c = payload["case"]
    work = tempfile.mkdtemp(prefix="c08_")
    try:
        if c.get("kind") == "graph":
            probs = check_graph(ctx, c["case"], work)
            for what, kind, known in probs:
                print(kind, known, what)
            return bool(probs)
        if c.get("kind") == "tie":
            anal = RL.real_analysis(dict(method=False, pos=[(10, False)], kwonly=[]))
            mr = model.run_cases([[40, RL.params_from_analysis(anal, RL.RECURSE, RL.CALL_NEXT, (), c["nid"], c["code"]), c["body"]]])[0]
            src = "def m(v10):\n" + RL.body_src(c["body"]) + "\n"
            st, new = RL.run_name_converter(anal, RL.RECURSE, RL.CALL_NEXT, src, c["nid"], c["code"])
            if st != "ok":
                return (st == "usage") != bool(mr[0])
            print(ast.unparse(new)); print(RL.body_src(mr[1]))
            return RL.canon_tmps([RL.stmt_from_ast(s) for s in new.body[0].body]) != RL.canon_tmps(mr[1])
        return False
    finally:
        shutil.rmtree(work, ignore_errors=True)


def replay_finding(ctx, e):
    return c09.replay_finding(ctx, e)
