(* ResolveSub.v — the documented rule on a SUB-list of the registered methods, against the resolution of the
   corresponding sub-list of candidates that keep the specificity tuples computed for the full list.
   Used for C07: call_next resolves the candidates below the caller with the tuples of the original call; on
   chain-applicable calls that is what a function holding only the remaining methods would choose. *)
From Coq Require Import ZArith List Bool Arith Lia Permutation.
Import ListNotations.
From OvldV Require Import Model.Order Model.Ty Model.Resolve Spec.Dispatch
  Proofs.TyEq Proofs.TySub Proofs.ResolveKahn Proofs.ResolveLevels Proofs.ResolveSort Proofs.ResolveCands
  Proofs.ResolveStatic Proofs.ResolveTotal Proofs.ResolveChain Proofs.ResolveNext.

Section Sub.
  Variable sub : nat -> nat -> bool.
  Variable hasm : nat -> nat -> bool.
  Variable chk : nat -> nat -> bool.
  Variable sub_fresh : nat -> bool.
  Hypothesis sub_refl : forall c, sub c c = true.
  Hypothesis sub_antisym : forall c d, sub c d = true -> sub d c = true -> c = d.

  Notation tables_for := (tables_for sub hasm chk sub_fresh).
  Notation applicable := (applicable sub).
  Notation beats := (beats sub).

  Variables ms ms' : list meth.
  Variable k : key.
  Variable lv : list (slot * list (ty * nat)).
  Variable cs' : list cand.
  Hypothesis Hnd' : NoDup (map m_id ms').
  Hypothesis Hst : static_ms ms = true.
  Hypothesis Hk : static_key k = true.
  Hypothesis Hsubms : forall m, In m ms' -> In m ms.
  Hypothesis Ht : tables_for ms k lv.
  Hypothesis Hcs_in : forall c, In c cs' ->
    In (c_m c) ms' /\ spec_of lv (c_m c) = Some (c_spec c) /\ applicable (c_m c) k = true.
  Hypothesis Hcs_app : forall m, In m ms' -> applicable m k = true -> exists c, In c cs' /\ c_m c = m.
  Hypothesis Hcs_nd : NoDup cs'.

  Lemma sub_static m : In m ms' -> static_meth m.
  Proof. intros H. eapply static_ms_meth; [exact Hst|auto]. Qed.

  Lemma cand_unique c c2 : In c cs' -> In c2 cs' -> m_id (c_m c) = m_id (c_m c2) -> c = c2.
  Proof.
    intros H1 H2 E. destruct (Hcs_in _ H1) as (Hm1 & Hs1 & _). destruct (Hcs_in _ H2) as (Hm2 & Hs2 & _).
    assert (c_m c = c_m c2) by (eapply NoDup_map_eq; eauto).
    destruct c as [m1 s1], c2 as [m2 s2]. simpl in *. subst. congruence.
  Qed.

  Lemma sub_unfold : lookup_cs cs' =
    match sort_desc cs' with [] => ONoMethod | c1 :: rest => rank_outcome (c1 :: grp [c1] rest) end.
  Proof. reflexivity. Qed.

  Theorem sub_nomethod_iff : lookup_cs cs' = ONoMethod <-> spec_outcome sub ms' k = VNoMethod.
  Proof.
    rewrite sub_unfold. unfold spec_outcome. split.
    - intros H. destruct (sort_desc cs') as [|c1 rest] eqn:Es.
      + assert (Hnil : cs' = []).
        { destruct cs' as [|x r]; [reflexivity|]. assert (In x (sort_desc (x :: r))) by (apply sort_desc_In; now left).
          rewrite Es in H0. destruct H0. }
        replace (filter (fun m => applicable m k) ms') with (@nil meth); [reflexivity|].
        symmetry. apply filter_all_false. intros m Hm. destruct (applicable m k) eqn:Ea; [|reflexivity].
        destruct (Hcs_app _ Hm Ea) as (c & Hc & _). rewrite Hnil in Hc. destruct Hc.
      + unfold rank_outcome in H. destruct (grp [c1] rest); discriminate.
    - intros H. destruct (filter (fun m => applicable m k) ms') as [|a r] eqn:Ef.
      + destruct (sort_desc cs') as [|c1 rest] eqn:Es; [reflexivity|]. exfalso.
        assert (Hc1 : In c1 cs') by (apply sort_desc_In; rewrite Es; now left).
        destruct (Hcs_in _ Hc1) as (Hm & _ & Ha).
        assert (Hin : In (c_m c1) (filter (fun m => applicable m k) ms')) by (apply filter_In; auto).
        rewrite Ef in Hin. destruct Hin.
      + destruct (filter _ (a :: r)) as [|x [|y t]]; discriminate.
  Qed.

  Theorem sub_winner_runs m :
    In m ms' -> applicable m k = true ->
    (forall m', In m' ms' -> applicable m' k = true -> m_id m' <> m_id m -> beats m m' k = true) ->
    lookup_cs cs' = ORun (m_id m).
  Proof.
    intros Hm Happ Hbeats.
    destruct (Hcs_app _ Hm Happ) as (c & Hcin & Hcm).
    destruct (Hcs_in _ Hcin) as (_ & Hsp & _).
    assert (Hall : forall x, In x cs' -> x = c \/ (key_gt c x = true /\ dominates c x = true)).
    { intros x Hx. destruct (Hcs_in _ Hx) as (Hxm & Hxs & Hxa).
      destruct (Nat.eq_dec (m_id (c_m x)) (m_id m)) as [E|E].
      - left. apply cand_unique; auto. now rewrite Hcm.
      - right. specialize (Hbeats _ Hxm Hxa E).
        destruct x as [xm xs], c as [cm csp]. simpl in *. subst cm.
        exact (beats_dominates sub hasm chk sub_fresh sub_antisym _ _ _ _ _ _ _ (sub_static _ Hm) (sub_static _ Hxm) Ht Hsp Hxs Hbeats). }
    destruct (sort_desc_top cs' c Hcin) as [t Hsort]; [intros x Hx; destruct (Hall x Hx) as [->|[H1 _]]; auto|].
    rewrite sub_unfold, Hsort.
    assert (Hnd2 : NoDup (c :: t)).
    { eapply Permutation_NoDup; [|exact Hcs_nd]. rewrite <- Hsort. apply sort_desc_perm. }
    inversion Hnd2 as [|? ? Hnotin _]; subst.
    replace (grp [c] t) with (@nil cand); [reflexivity|]. symmetry. apply grp_single_nil_iff.
    apply filter_all_false.
    intros x Hx. assert (Hxc : In x cs') by (apply sort_desc_In; rewrite Hsort; now right).
    destruct (Hall x Hxc) as [->|[_ Hd]]; [contradiction|now rewrite Hd].
  Qed.

  Theorem sub_run_unbeaten i :
    lookup_cs cs' = ORun i ->
    exists m, In m ms' /\ m_id m = i /\ applicable m k = true /\
      forall m', In m' ms' -> applicable m' k = true -> m_id m' <> i -> beats m' m k = false.
  Proof.
    intros Hrun. rewrite sub_unfold in Hrun.
    destruct (sort_desc cs') as [|c1 rest] eqn:Hsort; [discriminate|].
    unfold rank_outcome in Hrun. destruct (grp _ rest) eqn:Hf; [|discriminate]. injection Hrun as <-.
    assert (Hc1 : In c1 cs') by (apply sort_desc_In; rewrite Hsort; now left).
    destruct (Hcs_in _ Hc1) as (Hm & Hsp & Ha).
    exists (c_m c1). repeat split; auto.
    intros m' Hm' Happ' Hne. destruct (beats m' (c_m c1) k) eqn:Hb; [|reflexivity]. exfalso.
    destruct (Hcs_app _ Hm' Happ') as (c' & Hc' & Hcm').
    destruct (Hcs_in _ Hc') as (_ & Hsp' & _).
    destruct c' as [xm xs], c1 as [cm csp]. simpl in *. subst xm.
    destruct (beats_dominates sub hasm chk sub_fresh sub_antisym _ _ _ _ _ _ _ (sub_static _ Hm') (sub_static _ Hm) Ht Hsp' Hsp Hb) as [Hk' _].
    pose proof (sort_desc_head _ _ _ Hsort _ Hc') as Hh. congruence.
  Qed.

  Lemma sub_spec_run_winner i :
    spec_outcome sub ms' k = VRun i ->
    exists m, In m ms' /\ m_id m = i /\ applicable m k = true /\
      forall m', In m' ms' -> applicable m' k = true -> m_id m' <> m_id m -> beats m m' k = true.
  Proof. apply spec_run_winner. Qed.

  Hypothesis Hch : chain_applicable sub ms k = true.
  Hypothesis Hties : ties_wf ms' = true.

  Theorem sub_run_beats i :
    lookup_cs cs' = ORun i ->
    exists m, In m ms' /\ m_id m = i /\ applicable m k = true /\
      forall m', In m' ms' -> applicable m' k = true -> m_id m' <> i -> beats m m' k = true.
  Proof.
    intros Hrun. rewrite sub_unfold in Hrun.
    destruct (sort_desc cs') as [|c1 rest] eqn:Hsort; [discriminate|].
    unfold rank_outcome in Hrun. destruct (grp _ rest) eqn:Hf; [|discriminate]. injection Hrun as <-.
    apply grp_single_nil_iff in Hf.
    assert (Hc1 : In c1 cs') by (apply sort_desc_In; rewrite Hsort; now left).
    destruct (Hcs_in _ Hc1) as (Hm & Hsp & Happ1).
    assert (Hdom : forall x, In x cs' -> x <> c1 -> dominates c1 x = true /\ key_gt x c1 = false).
    { intros x Hx Hne. split; [|eapply sort_desc_head; eauto].
      assert (Hxr : In x rest).
      { apply sort_desc_In in Hx. rewrite Hsort in Hx. destruct Hx as [E|Hx]; [congruence|exact Hx]. }
      destruct (dominates c1 x) eqn:E; [reflexivity|].
      assert (Hin : In x (filter (fun c2 => negb (dominates c1 c2)) rest)) by (apply filter_In; rewrite E; auto).
      rewrite Hf in Hin. destruct Hin. }
    exists (c_m c1). split; [exact Hm|]. split; [reflexivity|]. split; [exact Happ1|].
    intros m' Hm' Happ' Hne.
    destruct (Hcs_app _ Hm' Happ') as (c' & Hc' & Hcm').
    destruct (Hcs_in _ Hc') as (_ & Hsp' & _).
    assert (Hne' : c' <> c1) by (intros ->; apply Hne; now rewrite <- Hcm').
    destruct (Hdom _ Hc' Hne') as [Hd Hkg].
    unfold dominates in Hd. unfold Dispatch.beats.
    unfold c_prio, c_tie in Hd. rewrite Hcm' in Hd.
    destruct (Z.ltb (m_prio m') (m_prio (c_m c1))) eqn:Ep; [reflexivity|]. cbn [orb].
    assert (Hpe : m_prio (c_m c1) = m_prio m').
    { apply Z.ltb_ge in Ep. destruct (Z.ltb (m_prio (c_m c1)) (m_prio m')) eqn:Ep2; [|apply Z.ltb_ge in Ep2; lia].
      exfalso. unfold key_gt, c_prio in Hkg. rewrite Hcm', Ep2 in Hkg. discriminate. }
    pose proof (applicable_app_at _ _ _ Happ1) as Hat1. pose proof (applicable_app_at _ _ _ Happ') as Hat'.
    rewrite Hcm' in Hsp'.
    destruct (spec_compare_conv sub hasm chk sub_fresh sub_refl sub_antisym ms k (c_m c1) m' (Hsubms _ Hm) (Hsubms _ Hm') Hch
                (key_slots k) lv (fun st H => H) Ht _ _ Hsp Hsp' Hat1 Hat') as [Hconv_ge Hconv_eq].
    destruct (list_eqb Nat.eqb (c_spec c1) (c_spec c')) eqn:Eeq; cbn [negb] in Hd.
    - apply list_eqb_nat_eq in Eeq. apply Z.ltb_lt in Hd.
      destruct (sig_eqb (c_m c1) m') eqn:Esig.
      + apply orb_true_iff. right. apply Z.ltb_lt in Hd. now rewrite Hd.
      + exfalso.
        destruct (ties_wf_In _ _ Hties Hm) as [Hle1 _].
        destruct (ties_wf_In _ _ Hties Hm') as [_ [Hz|(b & Hb & Hsb & Hbz)]]; [lia|].
        assert (Happb : applicable b k = true).
        { unfold Dispatch.applicable in *. apply andb_true_iff in Happ'. destruct Happ' as [Hx1 Hx2].
          apply andb_true_iff. split; [now rewrite <- (sig_eqb_arity _ _ _ _ Hsb)|].
          erewrite forallb_ext_in; [exact Hx2|]. intros st _. cbv beta. unfold decl.
          now rewrite (sig_eqb_slot _ _ (fst st) Hsb). }
        destruct (Hcs_app _ Hb Happb) as (cb & Hcb & Hcbm).
        destruct (Hcs_in _ Hcb) as (_ & Hspb & _). rewrite Hcbm in Hspb.
        rewrite <- (sig_eqb_spec_of _ _ lv Hsb), Hsp' in Hspb. injection Hspb as Hspb.
        assert (Hneb : cb <> c1).
        { intros ->. rewrite Hcbm in Esig. apply sig_eqb_sym in Hsb. congruence. }
        destruct (Hdom _ Hcb Hneb) as [Hdb _]. unfold dominates, c_prio, c_tie in Hdb. rewrite Hcbm in Hdb.
        apply sig_eqb_iff in Hsb. destruct Hsb as (_ & _ & _ & _ & Hpb).
        replace (Z.ltb (m_prio b) (m_prio (c_m c1))) with false in Hdb by (symmetry; apply Z.ltb_ge; lia).
        replace (list_eqb Nat.eqb (c_spec c1) (c_spec cb)) with true in Hdb
          by (symmetry; apply list_eqb_nat_eq; congruence).
        cbn [negb] in Hdb. apply Z.ltb_lt in Hdb. lia.
    - apply orb_true_iff. left. apply andb_true_iff. split; [apply andb_true_iff; split|].
      + now apply Z.eqb_eq.
      + exact (Hconv_ge Hd).
      + apply negb_true_iff. destruct (same_at (c_m c1) m' k) eqn:Es; [|reflexivity]. exfalso.
        destruct (spec_compare _ _ _ _ sub_antisym ms (c_m c1) m' (sub_static _ Hm) (sub_static _ Hm') _ _ Ht _ _ Hsp Hsp' (Hconv_ge Hd)) as (_ & _ & Heq & _).
        assert (E : c_spec c1 = c_spec c') by (apply Heq; exact Es).
        apply list_eqb_nat_eq in E. congruence.
  Qed.

  Lemma sub_lookup_shape :
    lookup_cs cs' = ONoMethod \/ (exists i, lookup_cs cs' = ORun i) \/ (exists g, lookup_cs cs' = OAmbig g).
  Proof.
    rewrite sub_unfold. destruct (sort_desc cs') as [|c1 rest]; [now left|right].
    unfold rank_outcome. destruct (grp _ rest); eauto.
  Qed.

  Theorem sub_exact : verdict_of (lookup_cs cs') = Some (spec_outcome sub ms' k).
  Proof.
    destruct sub_lookup_shape as [Hno|[[i Hrun]|[g Ha]]].
    - rewrite Hno. simpl. f_equal. symmetry. now apply sub_nomethod_iff.
    - rewrite Hrun. simpl. f_equal. symmetry.
      destruct (sub_run_beats _ Hrun) as (m & Hm & <- & Happ & Hb).
      destruct (sub_run_unbeaten _ Hrun) as (m2 & Hm2 & Hid2 & _ & Hun).
      assert (m2 = m) by (eapply NoDup_map_eq; eauto). subst m2.
      unfold spec_outcome. set (app := filter (fun m0 => applicable m0 k) ms').
      assert (Hina : In m app) by (unfold app; apply filter_In; auto).
      destruct app as [|a0 ar] eqn:Eapp; [destruct Hina|]. rewrite <- Eapp in *.
      rewrite (filter_unique _ app m); [reflexivity| | exact Hina | |].
      + unfold app. apply NoDup_filter'. eapply NoDup_map_inv; eauto.
      + apply forallb_forall. intros m' Hm'. unfold app in Hm'. apply filter_In in Hm'. destruct Hm' as [Hm' Ha'].
        destruct (Nat.eqb (m_id m') (m_id m)) eqn:E; [reflexivity|]. apply Nat.eqb_neq in E. simpl. auto.
      + intros x Hx Hpx. unfold app in Hx. apply filter_In in Hx. destruct Hx as [Hx Hax].
        destruct (Nat.eq_dec (m_id x) (m_id m)) as [E|E]; [eapply NoDup_map_eq; eauto|]. exfalso.
        rewrite forallb_forall in Hpx. specialize (Hpx _ Hina). apply orb_true_iff in Hpx.
        destruct Hpx as [Hpx|Hpx]; [apply Nat.eqb_eq in Hpx; congruence|].
        rewrite (Hun _ Hx Hax E) in Hpx. discriminate.
    - rewrite Ha. simpl. f_equal.
      destruct (spec_outcome sub ms' k) as [i| |] eqn:Es; [| |reflexivity].
      + destruct (sub_spec_run_winner _ Es) as (m & Hm & <- & Happ & Hb).
        rewrite (sub_winner_runs m Hm Happ Hb) in Ha. discriminate.
      + apply sub_nomethod_iff in Es. congruence.
  Qed.
End Sub.

(* ---- C07 on chain-applicable calls: call_next = what a function holding only the remaining methods chooses ---- *)
Definition ties_zero (ms : list meth) : bool := forallb (fun m => Z.eqb (m_tie m) 0) ms.

Lemma ties_zero_sub ms p : ties_zero ms = true -> ties_wf (filter p ms) = true.
Proof.
  unfold ties_zero. rewrite forallb_forall. intros H. apply ties_wf_iff. intros a Ha.
  apply filter_In in Ha. destruct Ha as [Ha _]. specialize (H _ Ha). apply Z.eqb_eq in H. split; [lia|now left].
Qed.

Lemma NoDup_map_filter {X Y} (f : X -> Y) p l : NoDup (map f l) -> NoDup (map f (filter p l)).
Proof.
  induction l as [|a r IH]; simpl; intros H; [constructor|]. inversion H as [|? ? Hn Hr]; subst.
  destruct (p a); [|auto]. simpl. constructor; [|auto].
  intros Hin. apply Hn. apply in_map_iff in Hin. destruct Hin as (y & Hy & Hin). apply filter_In in Hin.
  apply in_map_iff. exists y. tauto.
Qed.

Section NextReduced.
  Variable sub : nat -> nat -> bool.
  Variable hasm : nat -> nat -> bool.
  Variable chk : nat -> nat -> bool.
  Variable sub_fresh : nat -> bool.
  Hypothesis sub_refl : forall c, sub c c = true.
  Hypothesis sub_antisym : forall c d, sub c d = true -> sub d c = true -> c = d.

  Notation candidates := (candidates sub hasm chk sub_fresh).
  Notation lookup_next := (lookup_next sub hasm chk sub_fresh).

  Lemma cands_ids_NoDup ms k cs : NoDup (map m_id ms) -> candidates ms k = Ok cs -> NoDup (map cid cs).
  Proof.
    intros Hnd Hc. destruct (candidates_inv _ _ _ _ _ _ _ Hc) as (lv & _ & ->).
    clear Hc. induction ms as [|m r IH]; simpl; [constructor|].
    inversion Hnd as [|? ? Hn Hr]; subst. unfold cand_of at 1.
    destruct (arity_ok m _ _); [|apply IH; assumption].
    destruct (spec_of lv m); [|apply IH; assumption].
    simpl. constructor; [|apply IH; assumption].
    intros Hin. apply Hn. apply in_map_iff in Hin. destruct Hin as (c & Hc & Hin).
    apply omap_filter_In in Hin. destruct Hin as (m' & Hm' & Hcm).
    unfold cand_of in Hcm. destruct (arity_ok m' _ _); [|discriminate]. destruct (spec_of lv m'); [|discriminate].
    injection Hcm as <-. unfold cid in Hc. simpl in Hc. rewrite <- Hc. now apply in_map.
  Qed.

  Theorem next_is_reduced_function ms k cs caller rest :
    NoDup (map m_id ms) -> static_ms ms = true -> static_key k = true ->
    chain_applicable sub ms k = true -> ties_zero ms = true ->
    candidates ms k = Ok cs -> below (sort_desc cs) caller = Some rest ->
    exists above, In caller above /\
      verdict_of (lookup_next ms caller k)
      = Some (spec_outcome sub (filter (fun m => negb (memb (m_id m) above)) ms) k).
  Proof.
    intros Hnd Hst Hk Hch Hz Hc Hb.
    destruct (next_is_lookup_without_above sub hasm chk sub_fresh ms k cs caller rest Hc (cands_ids_NoDup _ _ _ Hnd Hc) Hb)
      as (above & Hin & Hln).
    exists above. split; [exact Hin|]. rewrite Hln.
    destruct (candidates_inv _ _ _ _ _ _ _ Hc) as (lv & Ht & Hcs).
    set (p' := fun m : meth => negb (memb (m_id m) above)).
    apply (sub_exact sub hasm chk sub_fresh sub_refl sub_antisym ms (filter p' ms) k lv).
    - apply NoDup_map_filter. exact Hnd.
    - exact Hst.
    - intros m Hm. apply filter_In in Hm. tauto.
    - exact Ht.
    - intros c Hcin. apply filter_In in Hcin. destruct Hcin as [Hcin Hp].
      pose proof (proj1 (cand_In _ _ _ _ _ _ _ _ Hc) Hcin) as (lv' & Ht' & Hm & Ha & Hs).
      rewrite (tables_for_unique _ _ _ _ _ _ _ _ Ht Ht') in Hs.
      split; [apply filter_In; split; [exact Hm|exact Hp]|]. split; [exact Hs|].
      rewrite <- (applicable_static sub hasm chk sub_fresh sub_refl _ _ (static_ms_meth _ _ Hst Hm) Hk).
      apply (cand_applicable _ _ _ _ _ _ _ _ Hc Hm). eauto.
    - intros m Hm Happ. apply filter_In in Hm. destruct Hm as [Hm Hp].
      rewrite <- (applicable_static sub hasm chk sub_fresh sub_refl _ _ (static_ms_meth _ _ Hst Hm) Hk) in Happ.
      apply (cand_applicable _ _ _ _ _ _ _ _ Hc Hm) in Happ. destruct Happ as (c & Hcin & Hcm).
      exists c. split; [|exact Hcm]. apply filter_In. split; [exact Hcin|]. unfold cid. rewrite Hcm. exact Hp.
    - apply NoDup_filter'. eapply cands_NoDup; eauto.
    - exact Hch.
    - apply ties_zero_sub. exact Hz.
  Qed.
End NextReduced.

(* ---- C07: the whole walk.  When every candidate dominates all the candidates sorted after it (no tie anywhere),
        following call_next visits the candidates in sorted order, each once, and ends with 'No method'. ---- *)
Definition total_chain (scs : list cand) : Prop :=
  forall pre c suf, scs = pre ++ c :: suf -> grp [c] suf = [].

Lemma total_chain_tail a r : total_chain (a :: r) -> total_chain r.
Proof. intros H pre c suf E. apply (H (a :: pre) c suf). simpl. now rewrite E. Qed.

Lemma below_walk : forall pre scs c suf,
  total_chain scs -> NoDup (map cid scs) -> scs = pre ++ c :: suf -> below scs (cid c) = Some suf.
Proof.
  induction pre as [|a pre IH]; intros scs c suf Ht Hnd E; subst scs; simpl.
  - rewrite (proj1 (grp_single_nil_iff c suf) (Ht [] c suf eq_refl)). now rewrite Nat.eqb_refl.
  - rewrite (proj1 (grp_single_nil_iff a (pre ++ c :: suf)) (Ht [] a (pre ++ c :: suf) eq_refl)).
    simpl in Hnd. inversion Hnd as [|? ? Hn Hr]; subst.
    destruct (Nat.eqb (cid a) (cid c)) eqn:E.
    + exfalso. apply Nat.eqb_eq in E. apply Hn. rewrite E. rewrite map_app. apply in_app_iff. right. now left.
    + apply (IH (pre ++ c :: suf) c suf); [eapply total_chain_tail; exact Ht|exact Hr|reflexivity].
Qed.

Section Walk.
  Variable sub : nat -> nat -> bool.
  Variable hasm : nat -> nat -> bool.
  Variable chk : nat -> nat -> bool.
  Variable sub_fresh : nat -> bool.
  Notation candidates := (candidates sub hasm chk sub_fresh).
  Notation lookup := (lookup sub hasm chk sub_fresh).
  Notation lookup_next := (lookup_next sub hasm chk sub_fresh).

  (* the first call runs the first candidate; call_next from the i-th runs the (i+1)-th; from the last: No method *)
  Theorem walk_in_sorted_order ms k cs :
    candidates ms k = Ok cs -> NoDup (map cid cs) -> total_chain (sort_desc cs) ->
    lookup ms k = match sort_desc cs with [] => ONoMethod | c1 :: _ => ORun (cid c1) end /\
    forall pre c suf, sort_desc cs = pre ++ c :: suf ->
      lookup_next ms (cid c) k = match suf with [] => ONoMethod | c2 :: _ => ORun (cid c2) end.
  Proof.
    intros Hc Hnd Ht. split.
    - rewrite (lookup_unfold _ _ _ _ _ _ _ Hc). destruct (sort_desc cs) as [|c1 rest] eqn:Es; [reflexivity|].
      rewrite (Ht [] c1 rest eq_refl). reflexivity.
    - intros pre c suf E.
      assert (Hnd' : NoDup (map cid (sort_desc cs))).
      { eapply Permutation_NoDup; [apply Permutation_map; apply sort_desc_perm|exact Hnd]. }
      rewrite (next_is_below sub hasm chk sub_fresh ms k cs (cid c) suf Hc (below_walk pre _ c suf Ht Hnd' E)).
      unfold lookup_sorted. destruct suf as [|c2 r2]; [reflexivity|].
      assert (E2 : sort_desc cs = (pre ++ [c]) ++ c2 :: r2) by (rewrite <- app_assoc; exact E).
      rewrite (Ht _ c2 r2 E2). reflexivity.
  Qed.
End Walk.

(* a decidable form of total_chain, for examples and for the harness *)
Fixpoint total_chainb (l : list cand) : bool :=
  match l with
  | [] => true
  | c :: suf => (match grp [c] suf with [] => true | _ => false end) && total_chainb suf
  end.

Lemma total_chainb_spec l : total_chainb l = true -> total_chain l.
Proof.
  induction l as [|a r IH]; intros H pre c suf E.
  - destruct pre; discriminate.
  - simpl in H. apply andb_true_iff in H. destruct H as [Ha Hr].
    destruct pre as [|p pre]; simpl in E; injection E as -> ->.
    + destruct (grp [c] suf); [reflexivity|discriminate].
    + apply (IH Hr pre c suf eq_refl).
Qed.
