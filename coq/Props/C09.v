(* C09 — source rewriting changes nothing except the recurse / call_next call sites.
   Theorems only; every proof is [exact <lemma>] or a computed witness; Print Assumptions under each.
   Model: Model/Rewrite.v ([rw] = NameConverter, [valid] = Python's static rules, [eval] = big-step semantics with the
   dispatch table, user code and type-of as oracles).  Relations: Spec/RewriteRel.v.  Domain: [in_domain] (Model/Rewrite.v). *)
From Coq Require Import ZArith List Bool Arith.
Import ListNotations.
From OvldV Require Import Model.Sx Model.Rewrite Model.Run_Rewrite Spec.RewriteRel
  Proofs.RewriteSyn Proofs.RewriteFoot Proofs.RewriteSimA Proofs.RewriteSim Proofs.RewriteTop.

(* FULL STATEMENT (false of the faithful model, see the refuted theorems below):
     for every expression e of the grammar that Python accepts, the rewriter accepts e, Python accepts the rewritten
     e, and in every environment and state evaluating the rewritten e (as registered: table lookups inlined) gives the
     same value or exception, the same effect trace and the same final state modulo temporaries as evaluating e with
     recurse / call_next bound to callables of the documented meaning.
   PROVED: exactly that for every e in the domain [in_domain p e]: valid, hygienic (no __TMP name, no binder named
   like something the rewritten code relies on: KF-26), and at the handled call sites no ** (KF-10), keywords that are
   keyword-only parameters (KF-09), no site inside a comprehension iterable (KF-11), in methods no starred/bare recurse
   (KF-27), call_next only called directly and unstarred (KF-28 / documented), one name for the function (KF-29).
   "Every environment and state": every pair of states related by [srel] (equal on all names but temporaries, the
   rewritten run's closures carrying rewritten bodies) -- in particular every state satisfying [start_ok] with itself
   (C09_start_state) -- every frame chain whose := target exists, every fuel (same fuel on both sides: None = both out
   of fuel), every oracle for the table, type-of, user code, operators.  Nesting is unbounded (induction on syntax).
   NOT IN THE THEOREM (behaviour run only): closures over factory variables, generators' laziness, nested def bodies,
   try/finally, carry-over of defaults / keyword-only defaults / annotations, traceback file and line numbers. *)
Theorem C09_preserve_partial :
  forall (W : Type) (p : rwp) typeof tbl callv binop getattr getitem truthy fmt ugl mself (e : expr),
    in_domain p e = true ->
    rewrite p e = Some (fst (rw p 0 e)) /\
    valid (fst (rw p 0 e)) = true /\
    forall n rho s s', srel W p s s' -> tgt_fixed W s' rho ->
      rsim W p (vrel p)
        (eval W p typeof tbl callv binop getattr getitem truthy fmt ugl mself false n rho e s)
        (eval W p typeof tbl callv binop getattr getitem truthy fmt ugl mself true n rho (fst (rw p 0 e)) s').
Proof. exact preserve_top. Qed.
Print Assumptions C09_preserve_partial.

(* FULL STATEMENT: the same for every method body.  PROVED for straight-line bodies (expression statements, assignments
   to plain identifiers, return) all of whose expressions are in the domain above: the counter of the temporaries runs
   through the statements as NameConverter's does; control flow, loops, try/finally, nested def: behaviour run only. *)
Theorem C09_preserve_body_partial :
  forall (W : Type) (p : rwp) typeof tbl callv binop getattr getitem truthy fmt ugl mself (b : list stmt),
    forallb (dom_stmt p) b = true ->
    rewrite_body p b = Some (fst (rw_body p 0 b)) /\
    forallb valid_stmt (fst (rw_body p 0 b)) = true /\
    forall n rho s s', srel W p s s' -> tgt_fixed W s' rho ->
      rsim W p (RewriteRel.orel p)
        (exec W p typeof tbl callv binop getattr getitem truthy fmt ugl mself false n rho b s)
        (exec W p typeof tbl callv binop getattr getitem truthy fmt ugl mself true n rho (fst (rw_body p 0 b)) s').
Proof. exact preserve_body_top. Qed.
Print Assumptions C09_preserve_body_partial.

(* what the relations of the theorem mean for an observer: related values look the same to user code, plain data
   is equal, related states have the same effect trace and the same world *)
Theorem C09_observables : forall W p,
  (forall v v', vrel p v v' -> shape v = shape v') /\
  (forall v v', vrel p v v' -> data v = true -> v = v') /\
  (forall s s' : state W, srel W p s s' -> s_trace W s = s_trace W s' /\ s_world W s = s_world W s').
Proof. exact observables_top. Qed.
Print Assumptions C09_observables.

(* the two runs may start in the same state *)
Theorem C09_start_state : forall W p (s : state W), start_ok W p s = true -> srel W p s s.
Proof. exact start_top. Qed.
Print Assumptions C09_start_state.

(* ---- temporaries: numbered from the counter the rewriting started with (so: fresh for everything rewritten
   before), and pairwise distinct, in every scope of the rewritten expression *)
Theorem C09_tmp_fresh : forall p e k, dom p e = true ->
  Forall (fun x => in_rng k (snd (rw p k e)) x = true) (tmp_targets (fst (rw p k e))).
Proof. exact tmp_fresh. Qed.
Print Assumptions C09_tmp_fresh.

Theorem C09_tmp_distinct : forall p e k, dom p e = true -> NoDup (tmp_targets (fst (rw p k e))).
Proof. exact tmp_distinct. Qed.
Print Assumptions C09_tmp_distinct.

(* an evaluation writes only to the frame := targets (and there only the names the expression assigns) and to
   frames it creates itself: what keeps a call site's temporaries alive until they are read *)
Theorem C09_footprint :
  forall (W : Type) (p : rwp) typeof tbl callv binop getattr getitem truthy fmt ugl mself reg n rho e s r s1,
    tgt_fixed W s rho ->
    eval W p typeof tbl callv binop getattr getitem truthy fmt ugl mself reg n rho e s = Some (r, s1) ->
    FP W (length (s_frames W s)) (fun x => asg x e) rho s s1.
Proof. exact eval_fp. Qed.
Print Assumptions C09_footprint.

(* FULL STATEMENT (false: C09_accept_refuted, C09_callnext_star_refuted): every syntactically valid placement of a
   recurse / call_next call is accepted.  PROVED: for every valid expression in [dom] with no call site inside a
   comprehension iterable, the rewriter does not raise UsageError and what it produces is still valid Python. *)
Theorem C09_accept_partial : forall p e k, dom p e = true -> valid e = true -> site_in_iter p e = false ->
  usage_err p e = false /\ valid (fst (rw p k e)) = true.
Proof. exact accept_top. Qed.
Print Assumptions C09_accept_partial.

(* ---- witnesses: the full statement is false of the faithful model ---- *)
(* function f(v10, *, v31): ids 1 = recurse, 2 = call_next, 3 = a second alias of recurse; function id 7, code 3 *)
Definition an0 := {| a_method := false; a_complex := []; a_posnames := [Some 10] |}.
Definition anm := {| a_method := true; a_complex := []; a_posnames := [Some 10] |}.
Definition p0 := {| p_anal := an0; p_rs := Some 1; p_cs := Some 2; p_alias := []; p_id := 7; p_code := 3 |}.
Definition pm := {| p_anal := anm; p_rs := Some 1; p_cs := Some 2; p_alias := []; p_id := 7; p_code := 3 |}.
Definition pa := {| p_anal := an0; p_rs := Some 1; p_cs := Some 2; p_alias := [(3, false)]; p_id := 7; p_code := 3 |}.
Definition st0 : state nat :=
  {| s_frames := [ {| f_comp := false; f_vars := [] |} ]; s_gvars := []; s_trace := []; s_world := 0 |}.
Definition run (p : rwp) (table glob : list sx) (reg : bool) (e : expr) :=
  eval nat p typeof_std (tbl_std table) callv_std binop_std getattr_std getitem_std truthy_std fmt_std (glob_of glob) (SData 4)
       reg 3 [0] e st0.
(* table of function 7: (int,) -> m0, (int, v31: int) -> m1, (list,) -> m2, call_next from code 3 on (int,) -> m3,
   (int, list, v31: tuple) -> m4 *)
Definition table0 : list sx :=
  [L [A 7; L [L [A 1; A 1]]; A 0];
   L [A 7; L [L [A 1; A 1]; L [A 2; L [A 1; A 31]; A 1]]; A 1];
   L [A 7; L [L [A 1; A 6]]; A 2];
   L [A 7; L [L [A 0; A 3]; L [A 1; A 1]]; A 3];
   L [A 7; L [L [A 1; A 1]; L [A 1; A 6]; L [A 2; L [A 1; A 31]; A 7]]; A 4]]%Z.
Definition tablem : list sx := [L [A 7; L [L [A 1; A 1]]; A 0]; L [A 7; L [L [A 1; A 1]; L [A 1; A 1]]; A 1]]%Z.
(* globals: v11 = 5, v12 = {"v31": 7}, v13 = [5, 6] *)
Definition glob0 : list sx :=
  [L [A 11; L [A 0; A 5]];
   L [A 12; L [A 6; A 2; L [L [A 6; A 1; L [L [A 1; A 31]; L [A 0; A 7]]]]]];
   L [A 13; L [A 6; A 0; L [L [A 0; A 5]; L [A 0; A 6]]]]]%Z.
Definition rcall (ar : args) (kw : kws) := ECall (EName (NUser 1)) ar kw.
Definition x11 := EName (NUser 11).
Definition d12 := EName (NUser 12).
Definition xs13 := EName (NUser 13).

(* KF-11: [v20 for v20 in recurse(v13)] is valid Python; its rewriting puts := into the comprehension iterable *)
Theorem C09_accept_refuted :
  exists p e e', valid e = true /\ rewrite p e = Some e' /\ valid e' = false.
Proof.
  exists p0, (EComp (EName (NUser 20)) (NUser 20) (rcall (ACons false xs13 ANil) KNil) ENil).
  eexists. vm_compute. repeat split; reflexivity.
Qed.
Print Assumptions C09_accept_refuted.

(* KF-10: recurse(v11, **v12): the original calls method m1 for (int, v31: int); the rewritten code looks up the key
   (int, (None, dict)) and raises "No method" *)
Theorem C09_dstar_refuted :
  exists p table glob e e' v s1 s1',
    valid e = true /\ rewrite p e = Some e' /\
    run p table glob false e = Some (Val v, s1) /\ run p table glob true e' = Some (Raise XNoMethod, s1').
Proof.
  exists p0, table0, glob0, (rcall (ACons false x11 ANil) (KCons None d12 KNil)).
  do 4 eexists. vm_compute. repeat split; reflexivity.
Qed.
Print Assumptions C09_dstar_refuted.

(* KF-09 seen from C09: recurse(v10=v11) for the positional-or-keyword parameter v10 *)
Theorem C09_poskw_refuted :
  exists p table glob e e' v s1 s1',
    valid e = true /\ rewrite p e = Some e' /\
    run p table glob false e = Some (Val v, s1) /\ run p table glob true e' = Some (Raise XNoMethod, s1').
Proof.
  exists p0, table0, glob0, (rcall ANil (KCons (Some 10) x11 KNil)).
  do 4 eexists. vm_compute. repeat split; reflexivity.
Qed.
Print Assumptions C09_poskw_refuted.

(* KF-26: [recurse(type) for type in v13]: the rewritten code calls the comprehension variable *)
Theorem C09_hygiene_refuted :
  exists p table glob e e' v s1 s1',
    valid e = true /\ rewrite p e = Some e' /\
    run p table glob false e = Some (Val v, s1) /\ run p table glob true e' = Some (Raise XType, s1').
Proof.
  exists p0, table0, glob0, (EComp (rcall (ACons false (EName NType) ANil) KNil) NType xs13 ENil).
  do 4 eexists. vm_compute. repeat split; reflexivity.
Qed.
Print Assumptions C09_hygiene_refuted.

(* KF-27: in a method, recurse( *v13 ) becomes the unbound function applied to the elements: the first one is taken
   for self *)
Theorem C09_method_star_refuted :
  exists p table glob e e' v v' s1 s1',
    valid e = true /\ rewrite p e = Some e' /\
    run p table glob false e = Some (Val v, s1) /\ run p table glob true e' = Some (Val v', s1') /\
    shape v <> shape v'.
Proof.
  exists pm, tablem, glob0, (rcall (ACons true xs13 ANil) KNil).
  do 5 eexists. vm_compute. repeat split; try reflexivity. discriminate.
Qed.
Print Assumptions C09_method_star_refuted.

(* KF-28: call_next( *v13 ) is a valid placement of a direct call, and the rewriter raises UsageError *)
Theorem C09_callnext_star_refuted :
  exists p e, valid e = true /\ rewrite p e = None.
Proof.
  exists p0, (ECall (EName (NUser 2)) (ACons true xs13 ANil) KNil). vm_compute. split; reflexivity.
Qed.
Print Assumptions C09_callnext_star_refuted.

(* KF-29: (recurse(v11), rec(v11)) with rec a second name for recurse: only the first name is rewritten, the
   other call reaches ovld's Unusable placeholder *)
Theorem C09_alias_refuted :
  exists p table glob e e' v s1 s1',
    valid e = true /\ rewrite p e = Some e' /\
    run p table glob false e = Some (Val v, s1) /\ run p table glob true e' = Some (Raise XUsage, s1').
Proof.
  exists pa, table0, glob0,
    (ETuple (ECons (rcall (ACons false x11 ANil) KNil) (ECons (ECall (EName (NUser 3)) (ACons false x11 ANil) KNil) ENil))).
  do 4 eexists. vm_compute. repeat split; reflexivity.
Qed.
Print Assumptions C09_alias_refuted.

(* ---- non-vacuity: a nested expression inside the domain, and what both runs compute on it ----
   recurse(eff(1, v11), [call_next(v20) for v20 in v13 if recurse(v20)],
           v31=(lambda v25: recurse(v25))(eff(2, v11))) *)
Definition e_ok : expr :=
  rcall (ACons false (EEffect 1 x11)
        (ACons false (EComp (ECall (EName (NUser 2)) (ACons false (EName (NUser 20)) ANil) KNil) (NUser 20) xs13
                            (ECons (rcall (ACons false (EName (NUser 20)) ANil) KNil) ENil)) ANil))
        (KCons (Some 31) (ECall (ELam [NUser 25] (rcall (ACons false (EName (NUser 25)) ANil) KNil))
                                (ACons false (EEffect 2 x11) ANil) KNil) KNil).
Example C09_domain_inhabited :
  in_domain p0 e_ok = true /\ start_ok nat p0 st0 = true /\ tgt_fixed nat st0 [0] /\
  exists v s1 s1', run p0 table0 glob0 false e_ok = Some (Val v, s1) /\
                   run p0 table0 glob0 true (fst (rw p0 0 e_ok)) = Some (Val v, s1') /\
                   s_trace nat s1 = s_trace nat s1' /\ length (s_trace nat s1) = 8.
Proof. vm_compute. repeat split; try exact I. do 3 eexists. repeat split; reflexivity. Qed.
