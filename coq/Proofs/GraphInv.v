(* GraphInv.v — the invariant of every reachable graph, preserved by every operation; no operation gets stuck *)
From Coq Require Import ZArith List Bool Arith Lia.
Import ListNotations.
From OvldV Require Import Model.Graph Proofs.GraphTab Proofs.GraphBase Proofs.GraphUpd.

Record Inv (g : graph) : Prop := mkInv {
  inv_wf : wf_b g = true;
  inv_nodup : forall n x, g_get g n = Some x -> NoDup (keys (n_own x));
  inv_child : forall p x c, g_get g p = Some x -> In c (n_children x) ->
                exists y, g_get g c = Some y /\ In p (n_mixins y) /\ n_linkback y = true }.

Lemma Inv_nil : Inv [].
Proof.
  split.
  - reflexivity.
  - intros n x H. destruct n; discriminate.
  - intros p x c H. destruct p; discriminate.
Qed.

Lemma inv_mterm : forall g n, Inv g -> n < length g -> mterm (length g) g n = true.
Proof. intros. apply (proj1 (wf_b_spec g) (inv_wf _ H) n H0). Qed.
Lemma inv_cterm : forall g n, Inv g -> n < length g -> cterm (length g) g n = true.
Proof. intros. apply (proj1 (wf_b_spec g) (inv_wf _ H) n H0). Qed.
Lemma inv_defns : forall g n, Inv g -> n < length g -> exists t, defns (length g) g n = Some t.
Proof. intros. apply mterm_defns. apply inv_mterm; auto. Qed.

(* the invariant only reads own tables, mixins, children and the linkback flag *)
Definition str4 (x : node) := (n_own x, n_mixins x, n_children x, n_linkback x).

Lemma same_get : forall A (p : node -> A) g g' n x, same p g g' -> g_get g n = Some x ->
  exists y, g_get g' n = Some y /\ p x = p y.
Proof. intros. apply (same_agree _ _ _ _ H). auto. Qed.

Lemma Inv_same : forall g g', same str4 g g' -> Inv g -> Inv g'.
Proof.
  intros g g' S I.
  assert (same sk g g') as Ssk by (apply (same_proj _ _ str4 (fun q => (snd (fst (fst q)), snd (fst q)))); auto).
  split.
  - rewrite (wf_b_same _ _ Ssk). apply I.
  - intros n y E. destruct (same_get _ _ _ _ _ _ (same_sym _ _ _ _ S) E) as [x [Ex P]].
    unfold str4 in P. injection P as P1 _ _ _. rewrite P1. eapply inv_nodup; eauto.
  - intros p y c E Ic. destruct (same_get _ _ _ _ _ _ (same_sym _ _ _ _ S) E) as [x [Ex P]].
    unfold str4 in P. injection P as _ _ P3 _. rewrite P3 in Ic.
    destruct (inv_child _ I _ _ _ Ex Ic) as (z & Ez & Im & Lz).
    destruct (same_get _ _ _ _ _ _ S Ez) as [z' [Ez' Q]]. unfold str4 in Q. injection Q as _ Q2 _ Q4.
    exists z'. rewrite <- Q2, <- Q4. auto.
Qed.

Lemma gkeep_same_str4 : forall g g', gkeep g g' -> same str4 g g'.
Proof.
  intros g g' K n. destruct (g_get g n) eqn:E.
  - destruct K as [_ K]. destruct (K _ _ E) as [y [Ey Ky]]. rewrite Ey. cbn. unfold str4. unfold keep in Ky.
    destruct Ky as (A & B & C & D & _). rewrite A, B, C, D. reflexivity.
  - rewrite (gkeep_none _ _ _ K E). reflexivity.
Qed.

(* ---------- pointwise relations between graphs ---------- *)
Definition prel (R : nat -> node -> node -> Prop) (g g' : graph) : Prop :=
  length g = length g' /\ forall k x, g_get g k = Some x -> exists y, g_get g' k = Some y /\ R k x y.

Lemma prel_mod : forall g n f, prel (fun k x y => (k = n /\ y = f x) \/ (k <> n /\ y = x)) g (g_mod g n f).
Proof.
  intros. split; [symmetry; apply length_g_mod|]. intros k x E. rewrite g_get_mod.
  destruct (Nat.eqb k n) eqn:Ek.
  - apply Nat.eqb_eq in Ek. subst. rewrite E. cbn. eauto.
  - apply Nat.eqb_neq in Ek. rewrite E. eauto.
Qed.

(* only the children list changes: the node [id] is added to the children of the listed nodes *)
Definition ch_only (id : nat) (ms : list nat) (k : nat) (x y : node) : Prop :=
  n_own y = n_own x /\ n_mixins y = n_mixins x /\ n_linkback y = n_linkback x /\ n_locked y = n_locked x /\
  n_compiled y = n_compiled x /\ n_snap y = n_snap x /\
  (forall c, In c (n_children y) <-> (In c (n_children x) \/ (c = id /\ In k ms))).

Lemma add_children_prel : forall id ms g,
  prel (ch_only id ms) g (fold_left (fun acc m => g_mod acc m (add_child id)) ms g).
Proof.
  induction ms as [|m r IH]; intros g; cbn [fold_left].
  - split; auto. intros k x E. exists x. split; auto. unfold ch_only. repeat split; auto; cbn; tauto.
  - destruct (IH (g_mod g m (add_child id))) as [L2 H2]. destruct (prel_mod g m (add_child id)) as [L1 H1].
    split; [congruence|]. intros k x E. destruct (H1 _ _ E) as [y [Ey Ry]]. destruct (H2 _ _ Ey) as [z [Ez Rz]].
    exists z. split; auto. unfold ch_only in *. destruct Rz as (A & B & C & D & F & G & Hc).
    destruct Ry as [[-> ->]|[Ne ->]]; cbn in *.
    + repeat split; auto. * intros Q. apply Hc in Q. rewrite in_app_iff in Q. cbn in Q. intuition.
      * intros Q. apply Hc. rewrite in_app_iff. cbn. intuition.
    + repeat split; auto. * intros Q. apply Hc in Q. intuition. * intros Q. apply Hc. intuition congruence.
Qed.

(* ---------- create ---------- *)
Definition created (g : graph) (ms : list nat) (lb : bool) : graph :=
  (if lb then fold_left (fun acc m => g_mod acc m (add_child (length g))) ms g else g) ++ [add_mix ms (new_node lb)].

Lemma do_create_eq : forall g ms lb, valid_ids g ms = true -> do_create g ms lb = (created g ms lb, Done).
Proof. intros. unfold do_create. rewrite H. reflexivity. Qed.

Lemma do_create_invalid : forall g ms lb, valid_ids g ms = false -> do_create g ms lb = (g, Invalid).
Proof. intros. unfold do_create. rewrite H. reflexivity. Qed.

Lemma created_old : forall g ms lb,
  length (created g ms lb) = S (length g) /\
  g_get (created g ms lb) (length g) = Some (add_mix ms (new_node lb)) /\
  (forall k x, g_get g k = Some x -> exists y, g_get (created g ms lb) k = Some y /\ ch_only (length g) (if lb then ms else @nil nat) k x y).
Proof.
  intros.
  set (g1 := if lb then fold_left (fun acc m => g_mod acc m (add_child (length g))) ms g else g).
  assert (created g ms lb = g1 ++ [add_mix ms (new_node lb)]) as -> by reflexivity.
  assert (prel (ch_only (length g) (if lb then ms else @nil nat)) g g1) as P.
  { unfold g1. destruct lb; [apply add_children_prel|]. split; auto. intros k x E. exists x. split; auto.
    unfold ch_only. repeat split; auto; cbn; tauto. }
  destruct P as [L P]. repeat split.
  - rewrite app_length. cbn. lia.
  - rewrite L. apply g_get_app_new.
  - intros k x E. destruct (P _ _ E) as [y [Ey R]]. exists y. split; auto.
    rewrite g_get_app_l; auto. eapply g_get_lt; eauto.
Qed.

Lemma valid_ids_spec : forall g ms, valid_ids g ms = true <-> forall m, In m ms -> m < length g.
Proof.
  intros. unfold valid_ids. rewrite forallb_forall. split; intros H m Im; specialize (H m Im).
  - apply Nat.ltb_lt. auto. - apply Nat.ltb_lt. auto.
Qed.

Lemma cterm_grow : forall g g' id,
  (forall k x, g_get g k = Some x -> exists y, g_get g' k = Some y /\
       forall c, In c (n_children y) -> In c (n_children x) \/ c = id) ->
  (exists z, g_get g' id = Some z /\ n_children z = []) ->
  forall f n, cterm f g n = true -> cterm (S f) g' n = true.
Proof.
  intros g g' id H1 [z [Ez Cz]]. induction f; intros n H; [discriminate|].
  rewrite cterm_S in H. destruct (g_get g n) eqn:E; [|discriminate].
  destruct (H1 _ _ E) as [y [Ey Hc]]. rewrite cterm_S, Ey. rewrite forallb_forall in *. intros c Ic.
  destruct (Hc _ Ic) as [Q| ->].
  - apply IHf. auto.
  - rewrite cterm_S, Ez, Cz. reflexivity.
Qed.

Lemma Inv_create : forall g ms lb, Inv g -> valid_ids g ms = true -> Inv (created g ms lb).
Proof.
  intros g ms lb I V. destruct (created_old g ms lb) as (L & Enew & Old).
  set (g' := created g ms lb) in *.
  rewrite valid_ids_spec in V.
  assert (agree n_mixins g g') as Am.
  { intros k x E. destruct (Old _ _ E) as [y [Ey R]]. exists y. split; auto. symmetry. apply R. }
  split.
  - apply wf_b_spec. rewrite L. intros n Ln. split.
    + destruct (Nat.eq_dec n (length g)) as [->|Ne].
      * rewrite mterm_S, Enew. cbn. rewrite forallb_forall. intros m Im.
        eapply mterm_mono_gen; [exact Am | apply Nat.le_refl |]. apply inv_mterm; auto.
      * eapply mterm_mono_gen; [exact Am | | apply inv_mterm; auto; lia]. lia.
    + destruct (Nat.eq_dec n (length g)) as [->|Ne].
      * rewrite cterm_S, Enew. reflexivity.
      * eapply cterm_grow with (g := g) (id := length g).
        -- intros k x E. destruct (Old _ _ E) as [y [Ey R]]. exists y. split; auto. intros c Ic.
           apply R in Ic. tauto.
        -- eexists. split; [exact Enew | reflexivity].
        -- apply inv_cterm; auto. lia.
  - intros n y E. destruct (Nat.lt_ge_cases n (length g)) as [Ln|Ln].
    + destruct (g_get_some _ _ Ln) as [x Ex]. destruct (Old _ _ Ex) as [y' [Ey' R]].
      rewrite E in Ey'. injection Ey' as <-. destruct R as (R1 & _). rewrite R1. eapply inv_nodup; eauto.
    + assert (n = length g) as -> by (apply g_get_lt in E; lia).
      rewrite Enew in E. injection E as <-. cbn. constructor.
  - intros p y c E Ic. destruct (Nat.lt_ge_cases p (length g)) as [Lp|Lp].
    + destruct (g_get_some _ _ Lp) as [x Ex]. destruct (Old _ _ Ex) as [y' [Ey' R]].
      rewrite E in Ey'. injection Ey' as <-. destruct R as (_ & _ & _ & _ & _ & _ & Hc).
      apply Hc in Ic. destruct Ic as [Ic|[-> Ip]].
      * destruct (inv_child _ I _ _ _ Ex Ic) as (z & Ez & Im & Lz).
        destruct (Old _ _ Ez) as [z' [Ez' Rz]]. exists z'. destruct Rz as (_ & Rm & Rl & _). rewrite Rm, Rl. auto.
      * exists (add_mix ms (new_node lb)). split; auto. destruct lb; cbn in *; [auto | contradiction].
    + assert (p = length g) as -> by (apply g_get_lt in E; lia).
      rewrite Enew in E. injection E as <-. cbn in Ic. contradiction.
Qed.

(* ---------- add_mixins ---------- *)
Definition mixed (g : graph) (n : nat) (x : node) (ms : list nat) : graph :=
  let ms' := filter (fun m => negb (Nat.eqb m n)) ms in
  g_mod (if n_linkback x then fold_left (fun acc m => g_mod acc m (add_child n)) ms' g else g) n (add_mix ms').

Definition nself (n : nat) (ms : list nat) : list nat := filter (fun m => negb (Nat.eqb m n)) ms.

(* the three ways add_mixins can go: nothing to add; added, then _update; refused / invalid (/ stuck) *)
Lemma do_add_mixins_cases : forall g n ms,
  (exists x, g_get g n = Some x /\ n_locked x = false /\ nself n ms = [] /\ do_add_mixins g n ms = (g, Done)) \/
  (exists x g', g_get g n = Some x /\ valid_ids g ms = true /\ n_locked x = false /\ nself n ms <> [] /\
                wf_b (mixed g n x ms) = true /\ upd (length g) (mixed g n x ms) n = Some g' /\
                do_add_mixins g n ms = (g', Done)) \/
  (snd (do_add_mixins g n ms) <> Done /\ fst (do_add_mixins g n ms) = g /\
   (snd (do_add_mixins g n ms) = Stuck ->
      exists x, g_get g n = Some x /\ wf_b (mixed g n x ms) = true /\ upd (length g) (mixed g n x ms) n = None)).
Proof.
  intros. unfold do_add_mixins. destruct (g_get g n) eqn:E; [|right; right; cbn; repeat split; congruence].
  destruct (valid_ids g ms) eqn:V; cbn [negb]; [|right; right; cbn; repeat split; congruence].
  destruct (n_locked n0) eqn:Lk; [right; right; cbn; repeat split; congruence|].
  unfold mixed. fold (nself n ms). destruct (nself n ms) as [|m1 mr] eqn:F.
  - left. exists n0. auto.
  - set (g2 := g_mod (if n_linkback n0 then fold_left (fun acc m => g_mod acc m (add_child n)) (m1 :: mr) g else g) n
                     (add_mix (m1 :: mr))).
    destruct (wf_b g2) eqn:W; [|right; right; cbn; repeat split; congruence].
    destruct (upd (length g) g2 n) as [g'|] eqn:U.
    + right. left. exists n0, g'. repeat split; auto. congruence.
    + right. right. cbn. repeat split; try congruence. intros _. exists n0. auto.
Qed.

Lemma mixed_rel : forall g n x ms, g_get g n = Some x ->
  let ms' := filter (fun m => negb (Nat.eqb m n)) ms in
  length (mixed g n x ms) = length g /\
  forall k z, g_get g k = Some z -> exists y, g_get (mixed g n x ms) k = Some y /\
     n_own y = n_own z /\ n_linkback y = n_linkback z /\ n_locked y = n_locked z /\ n_compiled y = n_compiled z /\
     n_snap y = n_snap z /\
     n_mixins y = (if Nat.eqb k n then n_mixins z ++ ms' else n_mixins z) /\
     (forall c, In c (n_children y) <-> (In c (n_children z) \/ (c = n /\ In k (if n_linkback x then ms' else [])))).
Proof.
  intros g n x ms E ms'. unfold mixed. fold ms'.
  set (g1 := if n_linkback x then fold_left (fun acc m => g_mod acc m (add_child n)) ms' g else g).
  assert (prel (ch_only n (if n_linkback x then ms' else [])) g g1) as P.
  { unfold g1. destruct (n_linkback x); [apply add_children_prel|]. split; auto. intros k z Ez. exists z. split; auto.
    unfold ch_only. repeat split; auto; cbn; tauto. }
  destruct P as [L P]. split; [rewrite length_g_mod; auto|].
  intros k z Ez. destruct (P _ _ Ez) as [y [Ey R]]. destruct R as (R1 & R2 & R3 & R4 & R5 & R6 & R7).
  rewrite g_get_mod. destruct (Nat.eqb k n) eqn:Ekn.
  - apply Nat.eqb_eq in Ekn. subst k. rewrite Ey. cbn. eexists. split; eauto. cbn. rewrite R2. repeat split; auto; apply R7.
  - rewrite Ey. eexists. split; eauto. repeat split; auto; apply R7.
Qed.

Lemma Inv_mixed : forall g n x ms, Inv g -> g_get g n = Some x -> wf_b (mixed g n x ms) = true -> Inv (mixed g n x ms).
Proof.
  intros g n x ms I E W. destruct (mixed_rel g n x ms E) as [L Old]. cbn zeta in Old.
  set (ms' := filter (fun m => negb (Nat.eqb m n)) ms) in *.
  split; auto.
  - intros k y Ey. assert (k < length g) as Lk by (rewrite <- L; eapply g_get_lt; eauto).
    destruct (g_get_some _ _ Lk) as [z Ez]. destruct (Old _ _ Ez) as [y' [Ey' R]]. rewrite Ey in Ey'. injection Ey' as <-.
    destruct R as (R1 & _). rewrite R1. eapply inv_nodup; eauto.
  - intros p y c Ey Ic. assert (p < length g) as Lp by (rewrite <- L; eapply g_get_lt; eauto).
    destruct (g_get_some _ _ Lp) as [z Ez]. destruct (Old _ _ Ez) as [y' [Ey' R]]. rewrite Ey in Ey'. injection Ey' as <-.
    destruct R as (_ & _ & _ & _ & _ & _ & Hc). apply Hc in Ic. destruct Ic as [Ic|[-> Ip]].
    + destruct (inv_child _ I _ _ _ Ez Ic) as (w & Ew & Im & Lw).
      destruct (Old _ _ Ew) as [w' [Ew' Rw]]. exists w'. destruct Rw as (_ & Rl & _ & _ & _ & Rm & _).
      rewrite Rm, Rl. repeat split; auto. destruct (Nat.eqb c n); [apply in_app_iff|]; auto.
    + destruct (Old _ _ E) as [x' [Ex' Rx]]. exists x'. destruct Rx as (_ & Rl & _ & _ & _ & Rm & _).
      rewrite Rm, Rl, Nat.eqb_refl. destruct (n_linkback x); [|contradiction]. repeat split; auto.
      apply in_app_iff. auto.
Qed.

(* ---------- register / unregister ---------- *)
Lemma do_modify_cases : forall g n f,
  (exists x t g', g_get g n = Some x /\ n_locked x = false /\ f (n_own x) = Some t /\
                  upd (length g) (g_mod g n (set_own t)) n = Some g' /\ do_modify g n f = (g', Done)) \/
  (snd (do_modify g n f) <> Done /\ fst (do_modify g n f) = g).
Proof.
  intros. unfold do_modify. destruct (g_get g n) eqn:E; [|right; cbn; split; congruence].
  destruct (n_locked n0) eqn:Lk; [right; cbn; split; congruence|].
  destruct (f (n_own n0)) eqn:F; [|right; cbn; split; congruence].
  destruct (upd (length g) (g_mod g n (set_own t)) n) eqn:U; [|right; cbn; split; congruence].
  left. exists n0, t, g0. auto.
Qed.

Lemma same_set_own : forall g n t, same sk g (g_mod g n (set_own t)).
Proof. intros. apply same_mod. reflexivity. Qed.

Lemma Inv_set_own : forall g n t, Inv g -> NoDup (keys t) -> Inv (g_mod g n (set_own t)).
Proof.
  intros g n t I N. split.
  - rewrite (wf_b_same _ _ (same_set_own g n t)). apply I.
  - intros k y E. rewrite g_get_mod in E. destruct (Nat.eqb k n).
    + destruct (g_get g n); [|discriminate]. cbn in E. injection E as <-. exact N.
    + eapply inv_nodup; eauto.
  - intros p y c E Ic.
    assert (exists x, g_get g p = Some x /\ n_children x = n_children y) as [x [Ex Cx]].
    { rewrite g_get_mod in E. destruct (Nat.eqb p n) eqn:Ep.
      - apply Nat.eqb_eq in Ep. subst. destruct (g_get g n); [|discriminate]. cbn in E. injection E as <-. eauto.
      - eauto. }
    rewrite <- Cx in Ic. destruct (inv_child _ I _ _ _ Ex Ic) as (z & Ez & Im & Lz).
    rewrite g_get_mod. destruct (Nat.eqb c n) eqn:Ec.
    + apply Nat.eqb_eq in Ec. subst. rewrite Ez. cbn. eexists. split; eauto.
    + eauto.
Qed.

Lemma Inv_gkeep : forall g g', gkeep g g' -> Inv g -> Inv g'.
Proof. intros. eapply Inv_same; eauto. apply gkeep_same_str4. auto. Qed.

Lemma modify_some : forall g n x t, Inv g -> g_get g n = Some x -> NoDup (keys t) ->
  exists g', upd (length g) (g_mod g n (set_own t)) n = Some g'.
Proof.
  intros g n x t I E N. pose proof (Inv_set_own g n t I N) as I1.
  pose proof (length_g_mod g n (set_own t)) as L. rewrite <- L.
  apply upd_some.
  - intros k Lk. apply inv_mterm; auto.
  - apply inv_cterm; auto. rewrite L. eapply g_get_lt; eauto.
Qed.

(* ---------- every step preserves the invariant and never gets stuck ---------- *)
Lemma register_nodup : forall sig l t t', t_register sig l t = Some t' -> NoDup (keys t) -> NoDup (keys t').
Proof. unfold t_register. intros. eapply nodup_t_push; eauto. Qed.

Lemma Inv_do_modify : forall g n f, Inv g ->
  (forall t t', f t = Some t' -> NoDup (keys t) -> NoDup (keys t')) -> Inv (fst (do_modify g n f)).
Proof.
  intros g n f I Hf. destruct (do_modify_cases g n f) as [(x & t & g' & E & Lk & F & U & ->)|[_ ->]]; auto.
  cbn. eapply Inv_gkeep; [apply (upd_spec _ _ _ _ U)|]. apply Inv_set_own; auto.
  eapply Hf; eauto. eapply inv_nodup; eauto.
Qed.

Lemma Inv_do_create : forall g ms lb, Inv g -> Inv (fst (do_create g ms lb)).
Proof.
  intros. destruct (valid_ids g ms) eqn:V.
  - rewrite do_create_eq by auto. cbn. apply Inv_create; auto.
  - rewrite do_create_invalid by auto. auto.
Qed.

Lemma Inv_do_add_mixins : forall g n ms, Inv g -> Inv (fst (do_add_mixins g n ms)).
Proof.
  intros. destruct (do_add_mixins_cases g n ms) as [(x & E & Lk & F & ->)|[(x & g' & E & V & Lk & F & W & U & ->)|(_ & -> & _)]]; auto.
  cbn. eapply Inv_gkeep; [apply (upd_spec _ _ _ _ U)|]. apply Inv_mixed; auto.
Qed.

Lemma mixed_upd_some : forall g n x ms, Inv g -> g_get g n = Some x -> wf_b (mixed g n x ms) = true ->
  exists g', upd (length g) (mixed g n x ms) n = Some g'.
Proof.
  intros g n x ms I E W. pose proof (Inv_mixed g n x ms I E W) as I2.
  destruct (mixed_rel g n x ms E) as [L _]. rewrite <- L. apply upd_some.
  - intros k Lk. apply inv_mterm; auto.
  - apply inv_cterm; auto. rewrite L. eapply g_get_lt; eauto.
Qed.

Lemma Inv_do_use : forall g n, Inv g -> Inv (fst (do_use g n)).
Proof.
  intros. unfold do_use. destruct (g_get g n); auto. destruct (n_compiled n0); auto.
  destruct (compile g n) eqn:C; auto. cbn. eapply Inv_gkeep; eauto. eapply compile_gkeep; eauto.
Qed.

Lemma do_modify_not_stuck : forall g n f, Inv g ->
  (forall t, f t <> None) -> (forall t t', f t = Some t' -> NoDup (keys t) -> NoDup (keys t')) ->
  snd (do_modify g n f) <> Stuck.
Proof.
  intros g n f I T Hf. unfold do_modify. destruct (g_get g n) eqn:E; [|cbn; congruence].
  destruct (n_locked n0); [cbn; congruence|]. destruct (f (n_own n0)) eqn:F; [|exfalso; eapply T; eauto].
  destruct (modify_some g n n0 t I E) as [g' U].
  - eapply Hf; eauto. eapply inv_nodup; eauto.
  - rewrite U. cbn. congruence.
Qed.

Lemma do_register_not_stuck : forall g n sig l, Inv g -> snd (do_register g n sig l) <> Stuck.
Proof.
  intros. apply do_modify_not_stuck; auto.
  - intros. apply t_register_total.
  - intros. eapply register_nodup; eauto.
Qed.

Lemma step_variant_eq : forall g n ms lb sig l,
  step g (OVariant n ms lb sig l) =
  match do_create g (n :: ms) lb with
  | (g1, Done) => match do_register g1 (length g) sig l with (g2, Done) => (g2, Done) | (_, out) => (g, out) end
  | r => r
  end.
Proof. reflexivity. Qed.

Lemma Inv_step : forall g o, Inv g -> Inv (step_g g o).
Proof.
  intros g o I. unfold step_g. destruct o; cbn [step].
  - apply Inv_do_create; auto.
  - apply Inv_do_create; auto.
  - pose proof (Inv_do_create g (n :: mixins) lb I) as I1.
    destruct (do_create g (n :: mixins) lb) as [g1 o1] eqn:C. cbn in I1.
    destruct o1; cbn; auto.
    pose proof (Inv_do_modify g1 (length g) (t_register sig l) I1) as I2.
    unfold do_register. destruct (do_modify g1 (length g) (t_register sig l)) as [g2 o2] eqn:M.
    destruct o2; cbn; auto. apply I2. intros. eapply register_nodup; eauto.
  - apply Inv_do_add_mixins; auto.
  - apply Inv_do_modify; auto. intros. eapply register_nodup; eauto.
  - apply Inv_do_modify; auto. intros t t' H. injection H as <-. apply nodup_t_remove.
  - apply Inv_do_use; auto.
Qed.

Lemma Inv_run_from : forall ops g, Inv g -> Inv (run_from g ops).
Proof. induction ops; cbn; intros; auto. apply IHops. apply Inv_step. auto. Qed.

Lemma Inv_run : forall ops, Inv (run ops).
Proof. intros. apply Inv_run_from. apply Inv_nil. Qed.

Lemma step_not_stuck : forall g o, Inv g -> snd (step g o) <> Stuck.
Proof.
  intros g o I. destruct o; cbn [step].
  - unfold do_create. destruct (valid_ids g mixins); cbn; congruence.
  - unfold do_create. destruct (valid_ids g (n :: mixins)); cbn; congruence.
  - pose proof (Inv_do_create g (n :: mixins) lb I) as I1.
    destruct (do_create g (n :: mixins) lb) as [g1 o1] eqn:C. cbn in I1.
    assert (o1 <> Stuck) as N1.
    { unfold do_create in C. destruct (valid_ids g (n :: mixins)); injection C as _ <-; congruence. }
    destruct o1; cbn; try congruence.
    pose proof (do_register_not_stuck g1 (length g) sig l I1) as N2.
    destruct (do_register g1 (length g) sig l) as [g2 o2]. cbn in N2. destruct o2; cbn; congruence.
  - destruct (do_add_mixins_cases g n ms) as [(x & E & Lk & F & ->)|[(x & g' & E & V & Lk & F & W & U & ->)|(_ & _ & S)]]; cbn; try congruence.
    intros Q. destruct (S Q) as (x & E & W & U). destruct (mixed_upd_some g n x ms I E W) as [g' U']. congruence.
  - apply do_register_not_stuck; auto.
  - apply do_modify_not_stuck; auto. + intros; congruence. + intros t t' H. injection H as <-. apply nodup_t_remove.
  - unfold do_use. destruct (g_get g n) eqn:E; [|cbn; congruence]. destruct (n_compiled n0); [cbn; congruence|].
    destruct (compile_some g n) as [g' C].
    + intros k Lk. apply inv_mterm; auto.
    + eapply g_get_lt; eauto.
    + rewrite C. cbn. congruence.
Qed.

Lemma never_stuck : forall ops o, snd (step (run ops) o) <> Stuck.
Proof. intros. apply step_not_stuck. apply Inv_run. Qed.
