(* GraphTab.v — lemmas about tables (insertion-ordered dictionaries) of Model/Graph.v *)
From Coq Require Import ZArith List Bool Arith Lia FinFun.
Import ListNotations.
From OvldV Require Import Model.Graph.

Lemma skey_eqb_eq : forall a b, skey_eqb a b = true <-> a = b.
Proof.
  intros [a1 a2] [b1 b2]. unfold skey_eqb. cbn [fst snd]. rewrite andb_true_iff, Nat.eqb_eq, Z.eqb_eq.
  split; [intros [-> ->]; reflexivity | intros H; injection H as -> ->; auto].
Qed.

Lemma skey_eqb_refl : forall a, skey_eqb a a = true.
Proof. intros. apply skey_eqb_eq. reflexivity. Qed.

Lemma skey_eqb_neq : forall a b, skey_eqb a b = false <-> a <> b.
Proof.
  intros. split.
  - intros H E. apply skey_eqb_eq in E. congruence.
  - intros H. destruct (skey_eqb a b) eqn:E; auto. apply skey_eqb_eq in E. contradiction.
Qed.

Lemma skey_eqb_sym : forall a b, skey_eqb a b = skey_eqb b a.
Proof.
  intros. destruct (skey_eqb a b) eqn:E.
  - apply skey_eqb_eq in E. subst. symmetry. apply skey_eqb_refl.
  - symmetry. apply skey_eqb_neq. apply skey_eqb_neq in E. congruence.
Qed.

Definition keys (t : table) : list skey := map fst t.

Lemma t_get_none_iff : forall k t, t_get k t = None <-> ~ In k (keys t).
Proof.
  induction t as [|[k' v] r IH]; cbn.
  - tauto.
  - destruct (skey_eqb k k') eqn:E.
    + apply skey_eqb_eq in E. subst. split; [discriminate | intros H; exfalso; apply H; auto].
    + apply skey_eqb_neq in E. rewrite IH. split; [intros H [F|F]; [congruence | auto] | intros H F; apply H; auto].
Qed.

Lemma t_get_set : forall k k' v t, t_get k (t_set k' v t) = if skey_eqb k k' then Some v else t_get k t.
Proof.
  induction t as [|[k0 v0] r IH]; cbn.
  - reflexivity.
  - destruct (skey_eqb k' k0) eqn:E0; cbn.
    + apply skey_eqb_eq in E0. subst k0. destruct (skey_eqb k k'); reflexivity.
    + destruct (skey_eqb k k0) eqn:E1.
      * apply skey_eqb_eq in E1. subst k0. rewrite skey_eqb_sym in E0. rewrite E0. reflexivity.
      * exact IH.
Qed.

Lemma keys_t_set : forall k v t,
  keys (t_set k v t) = if (match t_get k t with Some _ => true | None => false end) then keys t else keys t ++ [k].
Proof.
  induction t as [|[k0 v0] r IH]; cbn.
  - reflexivity.
  - destruct (skey_eqb k k0) eqn:E; cbn.
    + reflexivity.
    + unfold keys in IH. rewrite IH. destruct (t_get k r); reflexivity.
Qed.

Lemma length_t_set_ge : forall k v t, length t <= length (t_set k v t).
Proof.
  induction t as [|[k0 v0] r IH]; cbn; [lia|]. destruct (skey_eqb k k0); cbn; lia.
Qed.

Lemma nodup_app_one : forall (l : list skey) k, NoDup l -> ~ In k l -> NoDup (l ++ [k]).
Proof.
  induction l; cbn; intros.
  - constructor; [auto | constructor].
  - inversion H; subst. constructor.
    + rewrite in_app_iff. intros [F|[F|[]]]; [auto | subst; apply H0; left; reflexivity].
    + apply IHl; auto.
Qed.

Lemma nodup_t_set : forall k v t, NoDup (keys t) -> NoDup (keys (t_set k v t)).
Proof.
  intros. rewrite keys_t_set. destruct (t_get k t) eqn:E; auto.
  apply t_get_none_iff in E. apply nodup_app_one; auto.
Qed.

Lemma nodup_t_update : forall b a, NoDup (keys a) -> NoDup (keys (t_update a b)).
Proof.
  unfold t_update. induction b as [|[k v] r IH]; cbn; intros; auto. apply IH. apply nodup_t_set. auto.
Qed.

Lemma t_get_update : forall k b a, NoDup (keys b) ->
  t_get k (t_update a b) = match t_get k b with Some v => Some v | None => t_get k a end.
Proof.
  unfold t_update. induction b as [|[k1 v1] r IH]; cbn; intros a N.
  - reflexivity.
  - inversion N; subst. rewrite IH by auto. rewrite t_get_set.
    destruct (skey_eqb k k1) eqn:E.
    + apply skey_eqb_eq in E. subst k1. apply t_get_none_iff in H1. rewrite H1. reflexivity.
    + reflexivity.
Qed.

Lemma keys_filter_incl : forall (f : skey * nat -> bool) t k, In k (keys (filter f t)) -> In k (keys t).
Proof.
  unfold keys. intros. apply in_map_iff in H. destruct H as [x [<- Hx]]. apply filter_In in Hx. apply in_map. tauto.
Qed.

Lemma nodup_filter : forall (f : skey * nat -> bool) t, NoDup (keys t) -> NoDup (keys (filter f t)).
Proof.
  induction t as [|[k v] r IH]; cbn; intros; auto. inversion H; subst.
  destruct (f (k, v)); cbn; auto. constructor; auto. intros F. apply H2. eapply keys_filter_incl. exact F.
Qed.

Lemma nodup_t_remove : forall l t, NoDup (keys t) -> NoDup (keys (t_remove l t)).
Proof. intros. apply nodup_filter. auto. Qed.

Lemma nodup_t_push : forall f sig tb l t t', t_push f sig tb l t = Some t' -> NoDup (keys t) -> NoDup (keys t').
Proof.
  induction f; cbn; intros; [discriminate|].
  destruct (t_get (sig, tb) t) eqn:E.
  - destruct (t_push f sig (tb - 1) n t) eqn:P; [|discriminate]. injection H as <-.
    apply nodup_t_set. eapply IHf; eauto.
  - injection H as <-. apply nodup_t_set. auto.
Qed.

(* the push-down chain is made of distinct present keys, so fuel = 1 + number of entries always suffices *)
Lemma t_push_none : forall f sig tb l t, t_push f sig tb l t = None ->
  forall i, i < f -> In (sig, (tb - Z.of_nat i)%Z) (keys t).
Proof.
  induction f; cbn; intros; [lia|].
  destruct (t_get (sig, tb) t) eqn:E.
  - destruct (t_push f sig (tb - 1) n t) eqn:P; [discriminate|].
    destruct i.
    + replace (tb - Z.of_nat 0)%Z with tb by lia.
      destruct (in_dec (fun a b => match (Bool.bool_dec (skey_eqb a b) true) with left e => left (proj1 (skey_eqb_eq a b) e) | right e => right (fun q => e (proj2 (skey_eqb_eq a b) q)) end) (sig, tb) (keys t)); auto.
      apply t_get_none_iff in n0. congruence.
    + replace (tb - Z.of_nat (S i))%Z with (tb - 1 - Z.of_nat i)%Z by lia. eapply IHf; eauto. lia.
  - discriminate.
Qed.

Lemma t_register_total : forall sig l t, t_register sig l t <> None.
Proof.
  intros sig l t H. unfold t_register in H.
  pose proof (t_push_none _ _ _ _ _ H) as P.
  set (ch := map (fun i => (sig, (0 - Z.of_nat i)%Z)) (seq 0 (S (length t)))).
  assert (NoDup ch) as N.
  { unfold ch. apply Injective_map_NoDup; [|apply seq_NoDup].
    intros a b Hab. injection Hab. lia. }
  assert (incl ch (keys t)) as I.
  { unfold ch. intros x Hx. apply in_map_iff in Hx. destruct Hx as [i [<- Hi]]. apply in_seq in Hi. apply P. lia. }
  pose proof (NoDup_incl_length N I) as Q. unfold ch, keys in Q. rewrite !map_length, seq_length in Q. lia.
Qed.
