"""C17 — overloaded methods in classes merge per class and inherit without leaking."""
import json, collections, linecache
from .. import model
from . import gsim as G
from .gsim import ovld  # noqa  (resolved through vlib.use_repo)
from ovld import OvldBase, OvldMC, extend_super, call_next, recurse  # noqa
from ovld import ovld as ovld_deco  # noqa

CLAIM = dict(
    text="Coq theorems about the executable model of the class-body namespace (Model/ClassDict.v: ovld_cls_dict.__setitem__, OvldMC.__prepare__, extend_super, to_ovld, the name lookup of @ovld) on top of the graph model: same-named definitions of one body end up in one function whose table is the body's registrations in order (with the same-signature push-down, stated as a stack rule); a body that starts with an extend_super definition yields the bases' inherited tables in base order overlaid by the body's definitions; executing a class statement never touches a pre-existing function (every old node literally unchanged, hence every old observable). A plain definition followed by an extend_super one (a crash before the repair of KF-41) now provably yields one function holding both; refuted and recorded: an extend_super mark on a later definition is silently ignored (KF-42). Correspondence on every run: random class hierarchies (depth <= 4, several bases, plain mixin classes, OvldBase and metaclass roots) with plain / @ovld / @extend_super definitions, every class instantiated and every method probed on every signature after every statement (scratch replays), self passed through, call_next and recurse on the bound method.",
    note="Trusted: as C16, plus CPython's class machinery (MRO lookup is read off the implementation and passed to the model: for each base, which class owns the name). self-threading through generated entry points and rewritten calls is observed in the correspondence (tags of the instance come back through call_next / recurse), its proof belongs to C03/C09.",
    technique="Coq proof over the ClassDict/Graph model + differential correspondence with scratch replays", design="6 C17")

THEOREMS = ["C17_reachable_inv", "C17_pushdown_stack", "C17_merge", "C17_merge_explicit_error", "C17_extend_partial",
            "C17_no_leak", "C17_no_leak_plain", "C17_plain_then_mark", "C17_late_mark_refuted"]
ASSUMPTIONS = [
    "attribute lookup on the bases (getattr(base, name)) is CPython's; the harness reads the owning class off the real MRO and passes it to the model",
    "dispatch over a table is not modelled (single-inheritance probe classes; the expected call_next chain is read off the table by specificity then tiebreak)",
    "generated class bodies only contain plain, @ovld and @extend_super method definitions of the probed names",
]

NAMES = ["f", "g"]
PARENT = {1: 0, 2: 1, 4: 3}
DECO = {0: "", 1: "    @ovld\n", 2: "    @extend_super\n"}


def lsig(label):
    return label % 10


def lkind(label):
    k = (label // 10) % 10
    return k if lsig(label) in PARENT else 0


def _tail(e):
    if type(e).__name__ == "UsageError":
        return ("USAGE",)
    return G._tail(e)


def method_src(name, dk, label):
    sig = lsig(label)
    head = f"{DECO[dk]}    def {name}(self, x: K{sig}):\n"
    nxt = ("        try:\n            r = call_next(x)\n"
           "        except Exception as e:\n            r = _tail(e)\n")
    if lkind(label) == 1:
        # recurse on the bound method (an instance of the parent probe class), then go on down the resolution order
        return (head + f"        try:\n            q = recurse(K{PARENT[sig]}())\n"
                "        except Exception as e:\n            q = _tail(e)\n" + nxt +
                f"        return (({label}, self.tag), 'R') + q + ('|',) + r\n")
    return head + nxt + f"        return (({label}, self.tag),) + r\n"


_serial = [0]


class Run:
    """one execution of a list of statements on the real library, in fresh classes"""

    def __init__(self):
        self.classes = []
        self.ns = {"OvldBase": OvldBase, "OvldMC": OvldMC, "extend_super": extend_super, "ovld": ovld_deco,
                   "call_next": call_next, "recurse": recurse, "_tail": _tail, **{k.__name__: k for k in G.KS}}

    def has_mc(self, i):
        return isinstance(self.classes[i], OvldMC)

    def bases_of(self, st):
        """actual base list of the class statement: (python expressions, class objects or None for OvldBase)"""
        names = [f"C{b}" for b in st["bases"]]
        objs = [self.classes[b] for b in st["bases"]]
        kw = ""
        if st["mc"] and not any(isinstance(o, OvldMC) for o in objs):
            if st.get("root", "base") == "base":
                names = ["OvldBase"] + names
                objs = [OvldBase] + objs
            else:
                kw = "metaclass=OvldMC"
        return names, objs, kw

    def owner(self, base, name):
        for k in base.__mro__:
            if name in k.__dict__:
                return self.classes.index(k) if k in self.classes else -1
        return -1

    def model_stmt(self, st):
        if "probe" in st:
            return [1]
        _, objs, _ = self.bases_of(st)
        names = []
        for ni, nm in enumerate(NAMES):
            owners = [self.owner(b, nm) for b in objs]
            defs = [[d[1], lsig(d[2]), d[2]] for d in st["body"] if d[0] == ni]
            names.append([owners, defs])
        return [0, int(st["mc"]), names, [d[0] for d in st["body"]]]

    def prepared(self, st, nm):
        _, objs, _ = self.bases_of(st)
        vals = [getattr(b, nm, None) for b in objs]
        ov = [v for v in vals if ovld.is_ovld(v)]
        return any(getattr(v, "_extend_super", False) for v in ov[1:])

    def exec_stmt(self, st):
        """-> status 0 ok | 1 AttributeError(name) | 2 TypeError(@ovld requires Ovld instance) | 3 locked | ['exc', kind]"""
        if "probe" in st:
            self.observe()
            return 0
        i = len(self.classes)
        names, _, kw = self.bases_of(st)
        head = ", ".join(names + ([kw] if kw else []))
        src = f"class C{i}({head}):\n" if head else f"class C{i}:\n"
        body = "".join(method_src(NAMES[d[0]], d[1], d[2]) for d in st["body"])
        src += body or "    pass\n"
        _serial[0] += 1
        fname = f"<c17:{_serial[0]}>"
        linecache.cache[fname] = (len(src), None, src.splitlines(True), fname)
        try:
            exec(compile(src, fname, "exec"), self.ns)
            self.classes.append(self.ns[f"C{i}"])
            return 0
        except AttributeError as e:
            self.classes.append(None)
            return 1 if "has no attribute 'name'" in str(e) else ["exc", "AttributeError"]
        except TypeError as e:
            self.classes.append(None)
            return 2 if "requires Ovld instance" in str(e) else ["exc", "TypeError:" + str(e)[:40]]
        except Exception as e:  # noqa
            self.classes.append(None)
            return 3 if "locked" in str(e) else ["exc", type(e).__name__]

    def observe(self):
        """probe every method name of an instance of every class on every signature"""
        out = []
        for ci, c in enumerate(self.classes):
            if c is None:
                out.append(None)
                continue
            row = []
            for ni, nm in enumerate(NAMES):
                obj = c()
                obj.tag = 100 * ci + ni
                m = getattr(obj, nm, None)
                if m is None:
                    row.append("ABSENT")
                    continue
                vec = []
                for k in G.KS:
                    try:
                        vec.append(tuple(m(k())))
                    except TypeError as e:
                        vec.append(G._tail(e))
                    except Exception as e:  # noqa
                        vec.append(("EXC:" + type(e).__name__,))
                row.append(tuple(vec))
            out.append(row)
        return out


def replay_world(stmts, k):
    """fresh classes, statements 0..k executed; -> (Run, statuses, model statements)"""
    r = Run()
    sts, ms = [], []
    for st in stmts[:k + 1]:
        ms.append(r.model_stmt(st))
        sts.append(r.exec_stmt(st))
    return r, sts, ms


# ---------- expected behaviour of a table ----------
def walk(entries, tag, i, plain=None):
    """call_next chain of the method table for an argument of class K_i (specificity, then tiebreak)"""
    order = sorted([e for e in entries if e[0] in G.SUPERS[i]], key=lambda e: (G.SUPERS[i].index(e[0]), -e[1]))

    def chain(rest):
        if not rest:
            return ("NM",)
        lab = rest[0][2]
        if lkind(lab) == 1:
            return ((lab, tag), "R") + walk(entries, tag, PARENT[lsig(lab)]) + ("|",) + chain(rest[1:])
        return ((lab, tag),) + chain(rest[1:])
    return chain(order)


def plain_result(label, tag):
    return ((label, tag),) + (("R", "USAGE", "|") if lkind(label) == 1 else ()) + ("USAGE",)


def expect_attr(kind, payload, tag):
    if kind == "absent":
        return "ABSENT"
    if kind == "plain":
        return tuple(plain_result(payload, tag) for _ in G.KS)
    return tuple(walk(payload, tag, i) for i in range(G.NSIG))


def attr_of_model(a):
    if a[0] == 0:
        return "absent", None
    if a[0] == 1:
        return "plain", a[2]
    return "table", [tuple(e) for e in a[3]] if a[3] != 9 else None


# ---------- the documented rule, independently (spec bookkeeping) ----------
def push(d, label):
    sig = lsig(label)

    def _set(tb, lab):
        if (sig, tb) in d:
            _set(tb - 1, d[(sig, tb)])
        d[(sig, tb)] = lab
    _set(0, label)


def spec_entry_table(e):
    if e[0] == "plain":
        return {(lsig(e[1]), 0): e[1]}
    return dict(e[1])


def spec_class(mc, base_entries, prepared, defs):
    """per name: ('absent',) | ('plain', label) | ('table', dict) | ('unknown',) | ('fail', status)"""
    kinds = [d[0] for d in defs]
    if not defs:
        return ("unknown",) if (mc and prepared) else ("absent",)
    if not mc:
        if all(k == 0 for k in kinds):
            return ("plain", defs[-1][1])
        if all(k == 1 for k in kinds):
            d = {}
            for _, lab in defs:
                push(d, lab)
            return ("table", d)
        if kinds == [2]:
            return ("table", {(lsig(defs[0][1]), 0): defs[0][1]})
        return ("unknown",)
    if prepared:
        return ("unknown",)
    if 2 not in kinds:
        if len(defs) == 1 and kinds[0] == 0:
            return ("plain", defs[0][1])
        if kinds[0] == 0 and kinds[1] == 1:
            return ("fail", 2)
        d = {}
        for _, lab in defs:
            push(d, lab)
        return ("table", d)
    # a definition carries the extend_super mark: inherited methods of all the bases, then the body's definitions
    if any(e[0] == "unknown" for e in base_entries):
        return ("unknown",)
    d = {}
    for e in base_entries:
        if e[0] in ("plain", "table"):
            d.update(spec_entry_table(e))
    # the body's definitions form one table in body order ...
    body = {}
    for _, lab in defs:
        push(body, lab)
    d1 = dict(d)
    d1.update(body)
    cands = [d1]
    if kinds[0] == 2:
        # ... the text does not say whether a later definition with the very signature of the marked first one keeps
        # it reachable through call_next (pushed down) or replaces it: both readings are accepted
        body2 = {(lsig(defs[0][1]), 0): defs[0][1]}
        own = {}
        for _, lab in defs[1:]:
            push(own, lab)
        body2.update(own)
        d2 = dict(d)
        d2.update(body2)
        if d2 != d1:
            cands.append(d2)
    return ("table", cands[0], cands[1:])


# ---------- generation ----------
def gen_world(rng, n_classes=None):
    n_classes = n_classes or rng.randint(3, 7)
    p_probe = rng.choice([0.0, 0.3, 0.7, 1.0])
    p_ext = rng.choice([0.15, 0.3, 0.5])
    stmts = []
    run = Run()
    serial = [0]
    depth = []

    def new_label(sig=None):
        serial[0] += 1
        sig = rng.randrange(G.NSIG) if sig is None else sig
        kind = 1 if (sig in PARENT and rng.random() < 0.15) else 0
        return 100 * serial[0] + 10 * kind + sig

    tries = 0
    while len(run.classes) < n_classes and tries < 40:
        tries += 1
        ok = [i for i, c in enumerate(run.classes) if c is not None and depth[i] < 4]
        mcs = [i for i in ok if run.has_mc(i)]
        plains = [i for i in ok if not run.has_mc(i)]
        mc = int(rng.random() < 0.75 or not ok)
        if mc:
            nb = rng.choice([0, 1, 1, 2, 2, 3]) if ok else 0
            bases = rng.sample(ok, min(nb, len(ok)))
        else:
            nb = rng.choice([0, 0, 1, 2])
            bases = rng.sample(plains, min(nb, len(plains)))
        st = {"mc": mc, "root": rng.choice(["base", "meta"]), "bases": bases, "body": []}
        used_sigs = collections.defaultdict(list)
        per_name = []
        for ni in range(len(NAMES)):
            nd = rng.choice([0, 1, 1, 2, 2, 3])
            lst = []
            for j in range(nd):
                r = rng.random()
                kind = 2 if r < (p_ext * (1.6 if j == 0 else 0.5)) else (1 if r > 0.85 else 0)
                sig = rng.choice(used_sigs[ni]) if used_sigs[ni] and rng.random() < 0.25 else None
                lab = new_label(sig)
                used_sigs[ni].append(lsig(lab))
                lst.append([ni, kind, lab])
            per_name.append(lst)
        while any(per_name):     # random interleaving of the names, order within a name kept
            lst = rng.choice([l for l in per_name if l])
            st["body"].append(lst.pop(0))
        try:
            status = run.exec_stmt(st)
        except Exception:  # noqa
            continue
        if isinstance(status, list) and status[1].startswith("TypeError:Cannot create a consis"):
            run.classes.pop()
            continue
        stmts.append(st)
        depth.append(1 + max([depth[b] for b in bases], default=0))
        if rng.random() < p_probe:
            stmts.append({"probe": 1})
            run.exec_stmt(stmts[-1])
    return stmts


# ---------- one world: correspondence + oracles ----------
def check_world(ctx, stmts, stats=None, report=True):
    fails = []

    def bad(what, k, kind="property"):
        fails.append((kind, what, k))
        if report:
            ctx.violation(what, {"stmts": stmts, "step": k}, kind=kind)

    def known(kf, k):
        fails.append(("known", kf, k))
        if report:
            ctx.known_hit(kf, {"stmts": stmts, "step": k})

    # the model needs the owners, which are read off the real classes: one full run gives the model statements
    full, statuses, mstmts = replay_world(stmts, len(stmts) - 1)
    mres = model.run_cases([[51, mstmts]])[0]
    if len(mres) != len(stmts):
        bad("model returned a different number of steps", 0, "correspondence")
        return fails
    spec = []     # per class: None (failed) or list of per-name entries
    prev_obs = None
    for k, st in enumerate(stmts):
        run, sts, _ = replay_world(stmts, k)
        status = sts[-1]
        obs = run.observe()
        m_status, m_world, m_flags = mres[k]
        sc = status if isinstance(status, int) else 9
        if stats is not None:
            stats["steps"] += 1
            stats["stmt:" + ("probe" if "probe" in st else "class_mc" if st["mc"] else "class_plain")] += 1
            stats["status:" + str(sc)] += 1
        # ---- (a) correspondence
        if sc != m_status:
            bad(f"step {k}: class statement status {status} != model {m_status}", k, "correspondence")
            return fails
        for ci, c in enumerate(run.classes):
            if c is None:
                continue
            for ni, nm in enumerate(NAMES):
                ow = run.owner(c, nm)
                a = m_world[ow][ni] if ow >= 0 else [0]
                kind, payload = attr_of_model(a)
                if kind == "table" and payload is None:
                    bad(f"step {k}: model has no table for C{ci}.{nm}", k, "correspondence")
                    continue
                exp = expect_attr(kind, payload, 100 * ci + ni)
                if stats is not None:
                    stats["probe_vectors"] += 1
                    stats["attr:" + kind] += 1
                if obs[ci][ni] != exp:
                    bad(f"step {k}: C{ci}().{nm} answers {obs[ci][ni]}, model predicts {exp}", k, "correspondence")
        # ---- (b) oracles on the implementation alone
        # no leak: every class that existed keeps exactly its behaviour
        if prev_obs is not None:
            for ci in range(len(prev_obs)):
                if prev_obs[ci] is not None and obs[ci] != prev_obs[ci]:
                    bad(f"step {k}: behaviour of existing class C{ci} changed: {prev_obs[ci]} -> {obs[ci]}", k)
        if "probe" not in st:
            ci = len(run.classes) - 1
            # spec entries of the bases, through the real MRO, for each name
            r0 = run
            _, base_objs, _ = r0.bases_of(st)
            entries = []
            for ni, nm in enumerate(NAMES):
                bes = []
                for b in base_objs:
                    ow = r0.owner(b, nm)
                    bes.append(("absent",) if ow < 0 else spec[ow][ni])
                defs = [(d[1], d[2]) for d in st["body"] if d[0] == ni]
                prepared = bool(st["mc"]) and r0.prepared(st, nm)
                if stats is not None and defs:
                    stats["body:" + "".join("pox"[d[0]] for d in defs)] += 1
                    stats["prepared_names"] += int(prepared)
                entries.append(spec_class(st["mc"], bes, prepared, defs))
            fail_exp = [e for e in entries if e[0] == "fail"]
            kf41 = st["mc"] and any(fl[0] for fl in m_flags)
            kf42 = [bool(fl[1]) for fl in m_flags] if st["mc"] else [False] * len(NAMES)
            if sc != 0:
                spec.append(None)
                if sc == 2 and fail_exp:
                    pass    # documented explicit error: @ovld on a name bound to a plain function
                elif sc == 2 and not st["mc"]:
                    pass
                elif sc == 2:
                    # plain def, then more defs, then @ovld ... : still the explicit error
                    pass
                else:
                    bad(f"step {k}: class statement failed with {status}", k)
            else:
                if fail_exp:
                    bad(f"step {k}: class statement succeeded although @ovld was applied to a name bound to a plain function", k)
                row = []
                for ni, nm in enumerate(NAMES):
                    e = entries[ni]
                    row.append(e)
                    if e[0] == "absent":
                        continue
                    if e[0] in ("unknown", "fail"):
                        continue
                    cands = [e[1]] if e[0] == "plain" else [e[1]] + list(e[2] if len(e) > 2 else [])
                    exps = [expect_attr(e[0], c if e[0] == "plain" else [(s, t, l) for (s, t), l in c.items()], 100 * ci + ni) for c in cands]
                    exp = exps[0]
                    if stats is not None:
                        stats["spec_checked"] += 1
                    if obs[ci][ni] in exps:
                        if e[0] == "table":
                            match = [c for c, x in zip(cands, exps) if x == obs[ci][ni]]
                            # two readings that cannot be told apart by the probes: nothing is claimed further down
                            row[-1] = ("table", match[0]) if len(match) == 1 else ("unknown",)
                    else:
                        if kf42[ni]:
                            known("KF-42", k)
                            row[-1] = ("unknown",)
                        else:
                            bad(f"step {k}: C{ci}().{nm} answers {obs[ci][ni]}, the documented composition gives {exp}", k)
                # the dictionary entry is what subclasses inherit: keep what the implementation really has when it is a defect
                spec.append(row)
        prev_obs = obs
    return fails


def nontrivial(stmts):
    cls = [s for s in stmts if "probe" not in s]
    return (any(len(s["bases"]) >= 1 for s in cls) and
            any(sum(1 for d in s["body"] if d[0] == 0) >= 2 or sum(1 for d in s["body"] if d[0] == 1) >= 2 for s in cls))


def run(ctx):
    stats = collections.Counter()
    samples, seen, nontriv = [], set(), set()
    samples_all = []
    budget = 35 if ctx.quick() else 500
    target = 200 if ctx.quick() else 5000
    n = 0
    while n < target and ctx.elapsed() < budget and len(ctx.violations) < 10:
        w = gen_world(ctx.rng)
        if not w:
            continue
        check_world(ctx, w, stats)
        n += 1
        key = json.dumps(w)
        if key not in seen:
            seen.add(key)
            if nontrivial(w):
                nontriv.add(key)
        cls = [s for s in w if "probe" not in s]
        stats["worlds_multiple_bases"] += int(any(len(s["bases"]) >= 2 for s in cls))
        stats["worlds_plain_mixins"] += int(any(not s["mc"] for s in cls))
        stats["worlds_with_recurse"] += int(any(lkind(d[2]) == 1 for s in cls for d in s["body"]))
        if len(samples) < 3:
            samples.append(w)
        if len(samples_all) < 25:
            samples_all.append(w)
    cross = 0
    if not ctx.quick() and samples_all:
        sub = [[51, replay_world(w, len(w) - 1)[2]] for w in samples_all[:25]]
        a = model.run_cases(sub)
        b = model.run_in_coq(sub)
        cross = len(sub)
        if a != b:
            ctx.violation("extracted model and vm_compute disagree", {"cases": sub[:2]}, kind="extraction")
    return {"evaluations": n, "distinct_nontrivial": len(nontriv),
            "rule": "random sequences of 3-7 class statements (metaclass classes rooted at OvldBase or metaclass=OvldMC, plain mixin classes, 0-3 bases, depth <= 4), 0-3 definitions per method name (plain / @ovld / @extend_super, same signature repeated with p=.25, recurse bodies with p=.15), probe-all statements with a per-world density; distinct by statement list; non-trivial = some class has a base and some body defines a name at least twice",
            "samples": samples, "worlds": n, "steps": stats["steps"], "traces_validated_against_impl": stats["steps"],
            "probe_vectors_compared": stats["probe_vectors"], "documented_rule_checks": stats["spec_checked"],
            "statement_histogram": {k[5:]: v for k, v in stats.items() if k.startswith("stmt:")},
            "status_histogram": {k[7:]: v for k, v in stats.items() if k.startswith("status:")},
            "body_shape_histogram": {k[5:]: v for k, v in sorted(stats.items()) if k.startswith("body:")},
            "attribute_kind_histogram": {k[5:]: v for k, v in stats.items() if k.startswith("attr:")},
            "names_merged_by_prepare": stats["prepared_names"],
            "worlds_multiple_bases": stats["worlds_multiple_bases"], "worlds_plain_mixins": stats["worlds_plain_mixins"],
            "worlds_with_recurse": stats["worlds_with_recurse"], "vm_compute_crosscheck_cases": cross}


def replay(ctx, payload):
    stmts = payload["case"]["stmts"]
    fails = check_world(ctx, stmts, report=False)
    for f in fails:
        print(json.dumps(f))
    return any(f[0] != "known" for f in fails)


def replay_finding(ctx, e):
    wit = e["witness"]
    stmts = wit["stmts"]
    run, sts, _ = replay_world(stmts, len(stmts) - 1)
    exp = wit["expect"]
    ok = True
    if "status" in exp:
        ok = ok and sts[-1] == exp["status"]
    if "probe" in exp:
        ci, ni, vec = exp["probe"]
        obs = run.observe()
        ok = ok and json.loads(json.dumps(obs[ci][ni])) == vec
    return ok
