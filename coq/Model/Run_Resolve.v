(* Run_Resolve.v — executable entry points of the resolution model (C02, C06, C07, C01 ...). *)
(* OPCODE 10 run_resolve *)
(* OPCODE 11 run_mro *)
(* OPCODE 12 run_defs *)
(* OPCODE 13 run_spec *)
(* OPCODE 14 run_cache *)
From Coq Require Import ZArith List Bool Arith.
Import ListNotations.
From OvldV Require Import Model.Sx Model.Order Model.Ty Model.Codec Model.Resolve Model.Cache Spec.Dispatch.

(* method: (id (postypes...) ((name type)...) req (reqkw...) prio tie) *)
Definition meth_of (s : sx) : meth :=
  mkMeth (sx_nat (sx_nth 0 s))
         (map ty_of (sx_list (sx_nth 1 s)))
         (map (fun p => (sx_nat (sx_nth 0 p), ty_of (sx_nth 1 p))) (sx_list (sx_nth 2 s)))
         (sx_nat (sx_nth 3 s))
         (map sx_nat (sx_list (sx_nth 4 s)))
         (sx_z (sx_nth 5 s))
         (sx_z (sx_nth 6 s)).

(* key: ((postypes...) ((name type)...)) *)
Definition key_of (s : sx) : key :=
  mkKey (map ty_of (sx_list (sx_nth 0 s)))
        (map (fun p => (sx_nat (sx_nth 0 p), ty_of (sx_nth 1 p))) (sx_list (sx_nth 1 s))).

Definition of_outcome (o : outcome) : sx :=
  match o with
  | ORun m => L [A 0%Z; of_nat m]
  | ONoMethod => L [A 1%Z]
  | OAmbig l => L (A 2%Z :: map of_nat l)
  | OCycle => L [A 3%Z]
  | OFuel => L [A 9%Z]
  end.

Definition lookup_h (h : hier) := lookup (hsub h) (hhasm h) (hchk h) (hfresh h).
Definition lookup_next_h (h : hier) := lookup_next (hsub h) (hhasm h) (hchk h) (hfresh h).
Definition mro_h (h : hier) := mro (hsub h) (hhasm h) (hchk h) (hfresh h).

(* (10 hier (methods...) (queries...)); query = (0 key) | (1 caller key) *)
Definition run_resolve (s : sx) : sx :=
  let h := hier_of (sx_arg 0 s) in
  let ms := map meth_of (sx_list (sx_arg 1 s)) in
  L (map (fun q =>
            match sx_z (sx_nth 0 q) with
            | 0%Z => of_outcome (lookup_h h ms (key_of (sx_nth 1 q)))
            | _ => of_outcome (lookup_next_h h ms (sx_nat (sx_nth 1 q)) (key_of (sx_nth 2 q)))
            end) (sx_list (sx_arg 2 s))).

(* (11 hier (methods...) (keys...)) -> per key the ranks: ((id spec...)...) or an error code *)
Definition run_mro (s : sx) : sx :=
  let h := hier_of (sx_arg 0 s) in
  let ms := map meth_of (sx_list (sx_arg 1 s)) in
  L (map (fun k =>
            match mro_h h ms (key_of k) with
            | Err ECycle => A 3%Z
            | Err EFuel => A 9%Z
            | Ok gs => L (map (fun g => L (map (fun c => L (of_nat (m_id (c_m c)) :: map of_nat (c_spec c))) g)) gs)
            end) (sx_list (sx_arg 2 s))).

Definition of_meth (m : meth) : sx := L [of_nat (m_id m); A (m_tie m)].

(* (12 (op...)) with op = (0 method) register | (1 id) unregister -> the definitions (id tie) in dictionary order *)
Definition run_defs (s : sx) : sx :=
  L (map of_meth
         (fold_left (fun defs op =>
                       match sx_z (sx_nth 0 op) with
                       | 0%Z => defs_register defs (meth_of (sx_nth 1 op))
                       | _ => defs_unregister defs (sx_nat (sx_nth 1 op))
                       end) (sx_list (sx_arg 0 s)) [])).

(* (13 hier (methods...) (keys...)) -> per key ((verdict) chain_applicable static):
   the documented rule (Spec/Dispatch.v) and the domain predicate, evaluated in Coq *)
Definition run_spec (s : sx) : sx :=
  let h := hier_of (sx_arg 0 s) in
  let ms := map meth_of (sx_list (sx_arg 1 s)) in
  L (map (fun ks =>
            let k := key_of ks in
            L [ match spec_outcome (hsub h) ms k with
                | VRun m => L [A 0%Z; of_nat m]
                | VNoMethod => L [A 1%Z]
                | VAmbiguous => L [A 2%Z]
                end;
                of_bool (chain_applicable (hsub h) ms k);
                of_bool (static_ms ms && static_key k) ]) (sx_list (sx_arg 2 s))).

(* (14 hier (methods...) (ops...)) with op = (0 caller key) [caller = -1: plain lookup] | (1 method):
   the MultiTypeMap state machine; per op: (outcome resolved?) or (-1) for a registration *)
Definition run_cache (s : sx) : sx :=
  let h := hier_of (sx_arg 0 s) in
  let ms := map meth_of (sx_list (sx_arg 1 s)) in
  let ops := map (fun o =>
                    match sx_z (sx_nth 0 o) with
                    | 0%Z => CGet (mkQ (if Z.ltb (sx_z (sx_nth 1 o)) 0 then None else Some (sx_nat (sx_nth 1 o)))
                                       (key_of (sx_nth 2 o)))
                    | _ => CReg (meth_of (sx_nth 1 o))
                    end) (sx_list (sx_arg 2 s)) in
  L (map (fun x => match x with
                   | Some (o, r) => L [of_outcome o; of_bool r]
                   | None => L [A (-1)%Z]
                   end)
         (snd (crun (hsub h) (hhasm h) (hchk h) (hfresh h) (cinit ms) ops))).
