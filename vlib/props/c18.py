"""C18 — a failed build never leaves a half-built function in service."""
import json, collections, time
from . import buildm as B

CLAIM = dict(
    text="Coq theorems about an executable step-machine model of the lazy build (Model/BuildM.v: first_entry, Ovld.compile, _update/_register/unregister, register_signature, MultiTypeMap.register/resolve/__missing__ as sequences of atomic steps; a failure after any prefix of steps keeps the writes made so far; resolution order abstracted as a parameter). The full statement (every failure point, every later probe: configuration error or complete-table outcome; works once the offending method is removed) is REFUTED by vm_compute witnesses: KF-19 (failure in the fill loop after the entry-point swap, and the table replaced by an empty one at the start of every rebuild; removing the offending method does not repair a failed first build), KF-45 (interrupt between recording a method and rebuilding). KF-20 (interrupt between the first-rank write and the continuation writes of resolve) is REPAIRED in /repo (7cfed94: writes applied bottom-up, first-rank entry last); the model follows and the whole write loop is inside the proved domain. PROVED for all definition lists, histories of completed calls, failure points and probe sequences: a failure at any step boundary of a call outside KF-19's window (decidable predicate safe_point = not in_fill_window) leaves a state from which every later call returns the outcome over the complete table (a table-free specification, walk of the resolution chain); any change made while _compiled is set rebuilds everything from any state; a first build failing in argument analysis raises the configuration error on every call and works after removal. Tie to /repo on every run: a sys.settrace injector raises KeyboardInterrupt / RuntimeError at every executed library line of first build, rebuild and cache-miss resolution, plus natural faults (bare call_next, unreadable source, conflicting argument names at every position; user class_check / __type_order__ hooks raising on their n-th call); after each failure every key is probed; the probe outcomes must equal the model's at the step boundary the line maps to (source-text anchored markers), the oracle (config error or fresh-function outcome; equal to fresh after removal) is evaluated on the implementation alone.",
    note="Partial: the model abstracts a source line to the step boundary before/after it (an in-flight visible statement admits both), dependent (value-level) ranks and optional parameters are outside the model (a NameError window between the code swap and the globals update exists for signatures with optional parameters and is not modelled). Trusted: Coq kernel, extraction, OCaml driver, the hand-written model (validated by the correspondence), CPython's tracing. No axioms.",
    technique="Coq proof (single-thread invariant over a small-step machine, preserved by every step; refutations by vm_compute) + fault injection at every executed line (sys.settrace) compared with the extracted model", design="6 C18")

THEOREMS = ["C18_safe_after_failure_refuted", "C18_works_after_removal_refuted", "C18_refuted_fill", "C18_refuted_fill_removal",
            "C18_refuted_rebuild", "C18_resolve_window_safe", "C18_refuted_stale", "C18_partial", "C18_partial_removal_rebuild",
            "C18_partial_bad_analysis", "C18_hypotheses_inhabited", "C18_meth_inhabited", "C18_domain_complement"]
ASSUMPTIONS = ["resolution order is a parameter of the model (ChainOk: candidates are registered handlers, each appears once); the rank data sent to the model is validated per scenario against MultiTypeMap.mro on every prefix of the definitions",
               "single-argument methods without optional parameters and without value-dependent types; a line is abstracted to the step boundary before it (or after it while a visible statement is in flight)",
               "rewritten bodies that use call_next are flagged as such (MethOk)"]
TRUSTED_EXTRA = ["sys.settrace line events of CPython 3.12 as the enumeration of failure points; source-text anchored markers (vlib/props/buildm.py MARKER_PATTERNS) as the map from lines to model steps"]

EXCS = {"KeyboardInterrupt": KeyboardInterrupt, "RuntimeError": B.InjectedError}


# ----------------------------------------------------------------------------------------------- scenarios
TYPE_POOL = ["int", "object", "str", "float", "bool", "A", "B", "C"]
KEY_FOR = {"int": "int", "object": "list", "str": "str", "float": "float", "bool": "bool", "A": "A", "B": "B", "C": "C", "CHK": "D", "HO": "HO"}


def gen_scenario(rng, kind, hooks=False, nmeth=None, fault=None):
    """kind: first | rebuild | miss.  fault: None | bare | nosrc | conflict (a natural fault)."""
    n = nmeth or rng.randint(2, 4)
    ts = rng.sample(TYPE_POOL, n)
    if "object" not in ts and rng.random() < 0.6:
        ts[rng.randrange(n)] = "object"
    chain_pair = None
    if kind == "miss" or rng.random() < 0.5:
        chain_pair = rng.choice([("int", "object"), ("bool", "int"), ("B", "A"), ("C", "B"), ("C", "A"), ("str", "object")])
        rest = [t for t in ts if t not in chain_pair]
        ts = (list(chain_pair) + rest)[:max(n, 2)]
        rng.shuffle(ts)
    methods = []
    for t in ts:
        m = {"t": t}
        if t != "object" and (rng.random() < 0.6 or (chain_pair and t == chain_pair[0])):
            m["body"] = "next"
        if rng.random() < 0.15:
            m["prio"] = rng.choice([-1, 1])
        methods.append(m)
    if hooks:
        methods.append({"t": rng.choice(["CHK", "HO"])})
    defs0 = list(range(len(methods)))
    rng.shuffle(defs0)
    bad = None
    if fault:
        bad = len(methods)
        free = [t for t in TYPE_POOL if t not in ts] or ["float"]
        methods.append({"t": rng.choice(free), "kind": fault, **({"body": "next"} if fault == "nosrc" else {})})
    keys = []
    for m in methods:
        k = KEY_FOR[m["t"]]
        if k not in keys:
            keys.append(k)
    for extra in ("list", "float"):
        if extra not in keys and len(keys) < 6:
            keys.append(extra)
    scn = {"methods": methods, "defs0": defs0, "keys": keys}
    nk = len(keys)
    if kind == "first":
        if bad is not None:
            defs0.insert(rng.randint(0, len(defs0)), bad)
        setup, trigger = [], ("call", rng.randrange(nk))
    elif kind == "rebuild":
        setup = [("call", rng.randrange(nk)) for _ in range(rng.randint(1, 2))]
        if bad is not None:
            trigger = ("reg", bad)
        else:
            late = defs0.pop(rng.randrange(len(defs0))) if len(defs0) > 1 else None
            if late is not None and rng.random() < 0.7:
                trigger = ("reg", late)
            else:
                if late is not None:
                    defs0.append(late)
                trigger = ("unreg", rng.choice(defs0))
    else:
        def chainy(k):
            ch = B.py_chain(scn, defs0, keys[k])
            nx = sum(1 for g in ch[:-1] if len(g) == 1 and methods[g[0]].get("body") == "next")
            return -(10 * nx + len(ch))
        order = sorted(range(nk), key=chainy)
        kt = order[0] if (rng.random() < 0.8 or chainy(order[0]) <= -12) else rng.choice(order)
        others = [k for k in range(nk) if k != kt] or [kt]
        setup = [("call", rng.choice(others))]
        trigger = ("call", kt)
    probes = [("call", k) for k in range(nk)]
    removal = [("unreg", i) for i, m in enumerate(methods) if not B.is_valid(m)]
    after = probes + [("call", trigger[1] if trigger[0] == "call" else 0)] + removal + (probes if removal else [])
    return {"scn": scn, "setup": setup, "trigger": list(trigger), "after": [list(a) for a in after], "kind": kind, "fault": fault}


def directed_tail_cases():
    """cache-miss calls whose LAST-ranked method delegates with call_next: the continuation lookup then takes the slow
    path of MultiTypeMap.__missing__ (it reads self.all right after the first-rank hit), which no other scenario kind
    reaches after a failure inside resolve()"""
    out = []
    for methods, kt in (([{"t": "int", "body": "next"}, {"t": "str"}], 0),
                        ([{"t": "bool", "body": "next"}, {"t": "int", "body": "next"}, {"t": "str"}], 0)):
        keys = []
        for m in methods:
            if KEY_FOR[m["t"]] not in keys:
                keys.append(KEY_FOR[m["t"]])
        keys += ["list", "float"]
        scn = {"methods": methods, "defs0": list(range(len(methods))), "keys": keys}
        probes = [["call", k] for k in range(len(keys))]
        out.append({"scn": scn, "setup": [["call", keys.index("str")]], "trigger": ["call", kt],
                    "after": probes + [["call", kt]], "kind": "miss", "fault": None})
    return out


def canonical(case):
    return json.dumps(case, sort_keys=True)


# ----------------------------------------------------------------------------------------------- one failure, both sides
class ModelView:
    def __init__(self, case):
        self.rows = B.model_inject(case["scn"], [tuple(o) for o in case["setup"]], tuple(case["trigger"]), [tuple(o) for o in case["after"]])
        self.v = B.visible_counts(case["scn"], self.rows, tuple(case["trigger"]))
        self.by_v = {}
        self.inconsistent = False
        for r, v in zip(self.rows, self.v):
            key = json.dumps(r["after"])
            if v in self.by_v and self.by_v[v] != key:
                self.inconsistent = True
            self.by_v.setdefault(v, key)
        self.final = self.rows[-1]

    def predicted(self, c, inflight):
        out = set()
        if c in self.by_v:
            out.add(self.by_v[c])
        if inflight and (c + 1) in self.by_v:
            out.add(self.by_v[c + 1])
        return out


def run_failure(case, inject=None, hook_n=None):
    """Build the function, run the setup, run the trigger with the given failure, then the after-operations.
    Returns dict(trigger=outcome, after=[outcomes], defs=[definition list before each after-op], snap=marker snapshot, fired=...)."""
    im = B.Impl(case["scn"])
    for o in case["setup"]:
        im.do(tuple(o))
    B.HOOKS.count = 0
    B.HOOKS.armed = None
    if inject is not None:
        tr = B.Tracer(inject_at=inject.get("k"), exc=EXCS[inject["exc"]], inject_when=tuple(inject["when"]) if inject.get("when") else None)
    else:
        tr = B.Tracer()
    snapbox = {}
    if hook_n is not None:
        B.HOOKS.armed = hook_n
        B.HOOKS.on_raise = lambda: snapbox.setdefault("snap", tr.snapshot())
    res = tr.run(lambda: im.do(tuple(case["trigger"])))
    B.HOOKS.armed = None
    B.HOOKS.on_raise = None
    hook_calls = B.HOOKS.count
    snap = tr.snap if tr.snap is not None else snapbox.get("snap")
    if snap is None:
        snap = tr.snapshot()
    after, defs = [], []
    for o in case["after"]:
        defs.append(im.defs())
        after.append(im.do(tuple(o)))
    return {"trigger": res, "after": after, "defs": defs, "snap": snap, "fired": tr.fired, "stack": tr.stack_at_fire,
            "events": tr.n, "hook_calls": hook_calls, "missing_markers": tr.missing}


def oracle(case, run):
    """C18 on the implementation alone: every probe after the failure is a configuration error or what a freshly built
    function over the complete (current) definition list returns; once no invalid method is registered, equal to fresh.
    Returns the list of failing after-op indices."""
    bad = []
    scn = case["scn"]
    for i, (o, out, defs) in enumerate(zip(case["after"], run["after"], run["defs"])):
        if o[0] != "call":
            continue
        fresh = B.fresh_outcome(scn, defs, o[1])
        all_valid = all(B.is_valid(scn["methods"][d]) for d in defs)
        if out == fresh:
            continue
        if out[1] == "config" and not all_valid:
            continue
        bad.append(i)
    return bad


def classify(case, run):
    """the known-finding class of the failure point, decided from its position only (markers started / completed, frames)"""
    snap = run["snap"]
    started, done = snap["started"], snap["done"]
    trig = case["trigger"][0]
    in_compile = "NEWMAP" in started and "FLAG" not in done
    if in_compile:
        if trig == "call":
            if "SWAP" in started:
                return "KF-19"
        else:
            return "KF-19"
    if trig != "call" and "DEFS" in started and "NEWMAP" not in started:
        return "KF-45"
    return None   # KF-20 (resolve's write loop) is repaired: a failure there is a violation again


def check_failure(ctx, case, mv, run, label, stats):
    """correspondence with the model at the mapped step boundary + property oracle + attribution"""
    snap = run["snap"]
    c = len(snap["done"])
    inflight = bool(snap["inflight"])
    got = json.dumps(run["after"])
    payload = dict(case, failure=label)
    if run["missing_markers"]:
        pred = set(mv.by_v.values())
        stats["loose_mappings"] += 1
    else:
        pred = mv.predicted(c, inflight)
    stats["evaluations"] += 1
    agrees = got in pred
    if not agrees:
        if not oracle(case, run) and classify(case, run) is not None:
            # implementation differs from the faithful model but satisfies the property, inside a known-finding class:
            # it got better there (DESIGN 3.1) -- recorded, not a violation
            stats["improved_in_known_class"] += 1
            return
        ctx.violation(f"after a failure at {run['fired'] or label} (visible steps completed: {c}, in flight: {snap['inflight']}) the probes behave differently "
                      f"from the model: impl {got[:300]} model {sorted(pred)[:2]}", payload, kind="correspondence")
        stats["corr_fail"] += 1
        return
    stats["traces_validated"] += 1
    failing = oracle(case, run)
    cls = classify(case, run)
    stats["class_hist"][str(cls)] += 1
    if cls is None and case["trigger"][0] == "call":
        stats["in_domain"] += 1          # a failure point of a call outside both windows: C18_partial speaks about it
    if not failing:
        stats["oracle_ok"] += 1
        return
    if cls is not None:
        ctx.known_hit(cls, payload)
        stats["known"][cls] += 1
    else:
        ctx.violation(f"C18 violated outside every known-finding class: after a failure at {run['fired'] or label} probe(s) {failing} "
                      f"are neither a configuration error nor the fresh function's outcome: {got[:300]}", payload)


def explore_case(ctx, case, stats, samples, budget_events=None, excs=("KeyboardInterrupt", "RuntimeError")):
    if not B.chain_valid(case["scn"]):
        stats["chain_invalid"] += 1
        return
    mv = ModelView(case)
    if mv.inconsistent:
        ctx.violation("model rows with the same number of visible steps have different probe outcomes (harness assumption broken)", case, kind="harness")
        return
    # uninjected run: trigger outcome and after-ops must equal the model's completed run
    base = run_failure(case)
    stats["evaluations"] += 1
    mfinal = mv.final
    if (base["trigger"] != mfinal["result"] or base["after"] != mfinal["after"]) and base["trigger"][1] == "config" \
            and not oracle(case, base) and classify(case, base) is not None:
        stats["improved_in_known_class"] += 1
        return
    if base["trigger"] != mfinal["result"] or base["after"] != mfinal["after"]:
        ctx.violation(f"uninjected run differs from the model: impl {base['trigger']} {base['after']} model {mfinal['result']} {mfinal['after']}",
                      dict(case, failure=None), kind="correspondence")
        # the tie is broken for this scenario: the property is asked of the implementation alone; the model of the unchanged
        # code says which failing probes belong to a known finding (those it fails itself)
        try:
            mine = oracle(case, base)
            known_there = oracle(case, {"after": mfinal["after"], "defs": base["defs"]}) if len(mfinal["after"]) == len(base["after"]) else []
        except Exception:  # noqa
            mine, known_there = [], []
        new = [i for i in mine if i not in known_there]
        if new:
            ctx.violation(f"C18 violated: after the failed operation probe(s) {new} are neither a configuration error nor what a freshly built function over the "
                          f"current definitions returns (the unchanged code's model passes there): {json.dumps(base['after'])[:300]}", dict(case, failure=None))
        return
    stats["traces_validated"] += 1
    natural = base["trigger"][1] == "config"
    if natural:
        stats["natural_faults"] += 1
        check_failure(ctx, case, mv, base, {"natural": case["fault"]}, stats)
    n_events = base["events"]
    stats["events_total"] += n_events
    ks = list(range(n_events))
    if budget_events == 0:
        ks = []
    elif budget_events is not None and len(ks) > budget_events:
        step = len(ks) / budget_events
        ks = sorted({int(i * step) for i in range(budget_events)})
    seen = set()
    for k in ks:
        for en in excs:
            run = run_failure(case, inject={"k": k, "exc": en})
            if run["fired"] is None:
                continue
            stats["injections"] += 1
            if run["trigger"][1] != "injected":
                stats["swallowed"] += 1
            check_failure(ctx, case, mv, run, {"k": k, "exc": en}, stats)
            snap = run["snap"]
            sig = (canonical(case["scn"]), len(snap["done"]), tuple(snap["inflight"]), run["fired"][:2])
            if snap["done"] or snap["inflight"]:
                stats["distinct"].add(hash(sig))
            seen.add(sig)
        if len(ctx.violations) > 10:
            break
    # hook faults
    if base["hook_calls"]:
        for n in range(1, base["hook_calls"] + 1):
            run = run_failure(case, hook_n=n)
            if run["trigger"][1] != "hook":
                continue
            stats["hook_faults"] += 1
            check_failure(ctx, case, mv, run, {"hook": n}, stats)
    if len(samples) < 4:
        samples.append({"case": case, "events": n_events, "model_steps": len(mv.rows), "uninjected": base["trigger"]})


def check_linked_child_failure(ctx, stats):
    """a function with a linkback child, both in use; a registration that is valid for the function itself but conflicts
    with one of the CHILD's own methods (a name positional in one, keyword-only in the other): the child's rebuild fails
    and the exception surfaces from the parent's register.  The parent is a valid function: afterwards it must answer
    as a freshly built function over its definitions does.  (The derivation graph is outside the Build model: property
    oracle alone.)"""
    import ovld as _ov
    for kind in ("copy", "variant"):
        f = _ov.Ovld(name="f")

        def f_int(x: int):
            return "int"

        def f_obj(x: object):
            return "obj"

        def f_float(x: float, flag: object = None):
            return "float"

        def g_str(x: str, *, flag: object = None):
            return "g-str"
        f.register(f_int)
        f.register(f_obj)
        if kind == "copy":
            g = f.copy(linkback=True)
            g.register(g_str)
        else:
            g = f.variant(g_str, linkback=True)
        before = (f(1), f(1.5), g(1), g("s"))
        raised = None
        try:
            f.register(f_float)
        except Exception as e:  # noqa
            raised = type(e).__name__
        fresh = _ov.Ovld(name="f")
        for m in (f_int, f_obj, f_float):
            fresh.register(m)
        stats["evaluations"] += 1
        stats["linked_child_failures"] = stats.get("linked_child_failures", 0) + 1
        for v in (1, 1.5, "s"):
            try:
                got = f(v)
            except Exception as e:  # noqa
                got = "EXC:" + type(e).__name__
            exp = fresh(v)
            if got != exp:
                ctx.violation(f"after a registration on f failed in its linkback {kind} (raised {raised}), f({v!r}) gives {got!r}; a function built from f's definitions gives {exp!r} (before: {before})",
                              {"linked_child_failure": kind, "value": repr(v)})
                return


def run(ctx):
    stats = {"evaluations": 0, "traces_validated": 0, "injections": 0, "natural_faults": 0, "hook_faults": 0, "swallowed": 0,
             "corr_fail": 0, "in_domain": 0, "improved_in_known_class": 0, "oracle_ok": 0, "chain_invalid": 0, "events_total": 0, "loose_mappings": 0,
             "distinct": set(), "known": collections.Counter(), "class_hist": collections.Counter(), "scenario_kinds": collections.Counter()}
    samples = []
    t0 = time.time()
    rng = ctx.rng
    check_linked_child_failure(ctx, stats)
    if ctx.quick():
        full = [gen_scenario(rng, "first", nmeth=3), gen_scenario(rng, "rebuild", nmeth=2), gen_scenario(rng, "miss", nmeth=3)]
        n_natural, n_hook, budget = 12, 3, None
    else:
        full = [gen_scenario(rng, k) for k in ["first", "rebuild", "miss"] * 13 + ["first"]]
        n_natural, n_hook, budget = 60, 12, None
    full += directed_tail_cases()
    for case in full:
        stats["scenario_kinds"][case["kind"]] += 1
        explore_case(ctx, case, stats, samples, budget_events=budget)
        if len(ctx.violations) > 10:
            break
    # natural faults at every registration position (cheap: no line sweep)
    for i in range(n_natural):
        kind = ["first", "rebuild"][i % 2]
        case = gen_scenario(rng, kind, fault=["bare", "nosrc", "conflict"][i % 3])
        stats["scenario_kinds"][kind + "+" + case["fault"]] += 1
        explore_case(ctx, case, stats, samples, budget_events=0)
    for i in range(n_hook):
        case = gen_scenario(rng, ["first", "miss"][i % 2], hooks=True, nmeth=2)
        hk = case["scn"]["methods"][[m["t"] in ("CHK", "HO") for m in case["scn"]["methods"]].index(True)]["t"]
        kk = case["scn"]["keys"].index(KEY_FOR[hk])
        if case["kind"] == "first":
            case["trigger"] = ["call", kk]
        else:
            case["trigger"] = ["call", kk]
            case["setup"] = [o for o in case["setup"] if o[1] != kk] or [["call", (kk + 1) % len(case["scn"]["keys"])]]
        stats["scenario_kinds"][case["kind"] + "+hook"] += 1
        explore_case(ctx, case, stats, samples, budget_events=40 if ctx.quick() else 200, excs=("KeyboardInterrupt",))
    cross = 0
    if not ctx.quick():
        raw = [B.inject_case(c["scn"], [tuple(o) for o in c["setup"]], tuple(c["trigger"]), [tuple(o) for o in c["after"]]) for c in full[:4]]
        cross = len(raw)
        if not B.crosscheck_extraction(raw):
            ctx.violation("extracted model and vm_compute disagree", {"cases": raw}, kind="extraction")
    return {"evaluations": stats["evaluations"], "distinct_nontrivial": len(stats["distinct"]), "vm_compute_crosscheck_cases": cross,
            "rule": "scenarios = random single-argument method sets over a small class universe (2-4 methods, call_next bodies, priorities), trigger = first call / register or unregister after first use / cache-miss call; EVERY executed library line of the trigger is a failure point for KeyboardInterrupt and for a RuntimeError subclass; plus natural faults (bare call_next, unreadable source, conflicting argument names at every registration position; hooks raising on their n-th call). An injection is non-trivial when at least one visible step (new table, swap, register, flag, dictionary write) has started before it; distinct by (scenario, completed visible steps, in-flight statement, file:line)",
            "samples": samples, "traces_validated_against_impl": stats["traces_validated"], "injections": stats["injections"],
            "natural_faults": stats["natural_faults"], "hook_faults": stats["hook_faults"], "library_line_events_enumerated": stats["events_total"],
            "probe_vectors_satisfying_oracle": stats["oracle_ok"], "failure_points_in_proved_domain_safe_point": stats["in_domain"], "failures_attributed": dict(stats["known"]),
            "failure_point_class_histogram": dict(stats["class_hist"]), "scenario_kind_histogram": dict(stats["scenario_kinds"]),
            "scenarios_skipped_chain_data_invalid": stats["chain_invalid"], "injected_exception_swallowed": stats["swallowed"],
            "mappings_without_markers": stats["loose_mappings"], "better_than_model_inside_known_class": stats["improved_in_known_class"], "wall_explore_s": round(time.time() - t0, 1)}


# ----------------------------------------------------------------------------------------------- replays
def replay(ctx, payload):
    case = payload["case"]
    failure = case.get("failure")
    core = {k: case[k] for k in ("scn", "setup", "trigger", "after", "kind", "fault") if k in case}
    mv = ModelView(core)
    if failure is None or "natural" in failure:
        run = run_failure(core)
    elif "hook" in failure:
        run = run_failure(core, hook_n=failure["hook"])
    else:
        run = run_failure(core, inject=failure)
    snap = run["snap"]
    pred = mv.predicted(len(snap["done"]), bool(snap["inflight"]))
    failing = oracle(core, run)
    cls = classify(core, run)
    print(json.dumps({"fired": run["fired"], "snap": snap, "trigger": run["trigger"], "after": run["after"], "model_predicts": sorted(pred),
                      "oracle_failing_probes": failing, "class": cls}))
    if failure is None or "natural" in failure:
        if run["trigger"] != mv.final["result"] or run["after"] != mv.final["after"]:
            return bool(failing) or cls is None
    if json.dumps(run["after"]) not in pred:
        return bool(failing) or cls is None
    return bool(failing) and cls is None


def replay_finding(ctx, e):
    """True = the witness still violates the property on the real code (for an open finding: with the recorded outcomes)"""
    wit = e["witness"]
    case = wit["case"]
    run = run_failure(case, inject=wit.get("inject"))
    failing = bool(oracle(case, run))
    if e.get("status") == "open":
        return failing and run["after"] == wit["expect_after"]
    return failing
