"""C05 — after register/unregister, behaviour equals a freshly built function."""
import json, collections
from .. import model, progs, tablelevel
from ..world import world_from
from . import resolve_common as R

CLAIM = dict(
    text="Coq theorems on the MultiTypeMap state machine with registration (Model/Cache.v) and on the function's definition dictionary (Model/Resolve.v defs_register / defs_unregister): after any sequence of registrations and plain accesses the table's content under plain keys is what a fresh table over the resulting handlers answers, and so is every later plain access (C05_table, C05_table_after_register; full since KF-04 was repaired in /repo by a fix: commit -- register now also forgets remembered errors and candidate sets), continuation keys included for handlers with distinct code objects (C05_table_full); for any sequence of registrations the function's definition dictionary keeps unique (signature, tiebreak) keys and exactly the registered methods (C05_registrations_keep_all); for the function the full statement is false of the faithful model: C05_function_refuted (KF-05: tiebreaks are history -- after unregistering a method that had pushed an identical signature down, the survivor keeps tiebreak -1 and loses ties it would not lose in a fresh function). Tie to /repo: random register/access histories on a real MultiTypeMap vs the state machine step by step, and random register / re-register / unregister / call histories on a real Ovld, every probe after every step compared with a function freshly built from the resulting method set (property oracle) and with the model; failures must fall in KF-05's class and equal the model's prediction.",
    note="Trusted: as C02/C04. Partial: continuation keys are not in the table theorem; Ovld rebuilds a new table on every change after first use, which the function-level model represents by recomputing resolution from the definition dictionary.",
    technique="Coq proof (cache invariant re-established by register when no error is remembered; refutations by vm_compute) + differential correspondence on operation histories", design="6 C05")

THEOREMS = ["C05_table", "C05_table_after_register", "C05_table_full", "C05_registrations_keep_all", "C05_function_refuted"]
ASSUMPTIONS = []


def table_history(ctx, prog, stats):
    rng = ctx.rng
    w = world_from(prog["spec"])
    defs = prog["defs"]
    t = tablelevel.Table(w)
    n0 = rng.randint(1, max(1, len(defs) - 1))
    init = defs[:n0]
    for d in init:
        t.register(d, 0)
    ops, got, regs = [], [], list(init)
    pending = list(defs[n0:])
    freshes = []
    for _ in range(rng.randint(6, 20)):
        if pending and rng.random() < 0.3:
            d = pending.pop(0)
            t.register(d, 0)
            regs.append(d)
            ops.append([1, progs.enc_method(d, 0)])
            got.append(None)
            freshes.append(None)
        else:
            call = rng.choice(prog["calls"])
            ops.append([0, -1, R.call_key(call)])
            got.append(t.get(None, call["pos"], call["kw"]))
            ft = tablelevel.Table(world_from(prog["spec"]))
            for d in regs:
                ft.register(d, 0)
            freshes.append(ft.get(None, call["pos"], call["kw"]))
    res = model.run_cases([[14, w.encode(), [progs.enc_method(d, 0) for d in init], ops]])[0]
    seen_ambig = False
    for i, (g, r, f) in enumerate(zip(got, res, freshes)):
        if g is None:
            continue
        stats["evaluations"] += 1
        m = progs.dec_outcome(r[0])
        case = {"spec": prog["spec"], "init": init, "ops": ops[: i + 1]}
        if g != m:
            ctx.violation(f"table access #{i}: implementation {g} != state machine {m}", case, kind="correspondence")
            return
        if g != f:
            # stale result after a registration: KF-04 iff an ambiguity had been remembered for this key earlier
            prior = any(got[j] == ["ambig"] and ops[j][2] == ops[i][2] for j in range(i))
            if g == ["ambig"] and prior:
                ctx.known_hit("KF-04", case)
                stats["kf04"] += 1
            else:
                ctx.violation(f"table access #{i} gives {g} after the history but {f} on a fresh table", case)
                return
    stats["table_histories"] += 1


def function_history(ctx, prog, stats, directed=False):
    rng = ctx.rng
    w = world_from(prog["spec"])
    defs = prog["defs"]
    b = progs.Built(w, [])
    live = []           # registration order of the live definitions (for the fresh function)
    mops = []
    nid = 100
    used = False
    script = None
    if directed:
        # register everything, re-register one signature identically, unregister the newer copy: the survivor keeps its
        # pushed-down tiebreak and now competes with the other signatures
        x = rng.choice(defs)
        script = [("reg", d) for d in defs if d is not x] + [("reg", x), ("reg", x), ("unreg_last",), ("probe",)]
        rng.shuffle(script[: len(defs) - 1])
    for step in range(len(script) if script else rng.randint(4, 14)):
        r = rng.random()
        if script:
            act = script[step]
            r = 0.0 if act[0] == "reg" else 0.6 if act[0] == "unreg_last" else 0.9
            forced = act
        if r < 0.5 or not live:
            # 40%: re-register a signature that is live (identical signature -> push-down)
            d = dict(rng.choice(live if (live and rng.random() < 0.4) else defs))
            if script:
                d = dict(forced[1])
            d["id"] = nid
            nid += 1
            b.register(d)
            live.append(d)
            mops.append([0, progs.enc_method(d)])
            desc = ["register", d]
        elif r < 0.7:
            # prefer the newest of a group of identical signatures (leaves a pushed-down survivor behind)
            dups = [x for x in live if sum(1 for y in live if R_same_sig(x, y)) > 1]
            d = dups[-1] if (dups and rng.random() < 0.6) else rng.choice(live)
            if script:
                d = live[-1]
            b.unregister(d["id"])
            live = [x for x in live if x["id"] != d["id"]]
            mops.append([1, d["id"]])
            desc = ["unregister", d["id"]]
        else:
            desc = ["probe"]
        if not live:
            continue
        # probes: all calls
        mdefs = model.run_cases([[12, mops]])[0]
        byid = {d["id"]: d for d in live}
        mms = [progs.enc_method(byid[i], tie) for (i, tie) in mdefs]
        keys = [R.call_key(c) for c in prog["calls"]]
        mres = model.run_cases([[10, w.encode(), mms, [[0, k] for k in keys]]])[0]
        fresh = progs.Built(world_from(prog["spec"]), live)
        pushed_orphan = any(tie < 0 and not any(t2 == tie + 1 and R_same_sig(byid[i], byid[j]) for (j, t2) in mdefs) for (i, tie) in mdefs)
        for call, mo in zip(prog["calls"], mres):
            pos = [w.instance(c) for c in call["pos"]]
            kw = {f"k{k}": w.instance(c) for k, c in call["kw"].items()}
            got = R.normalise(b.call(pos, kw)[0], live, call)
            fpos = [fresh.w.instance(c) for c in call["pos"]]
            fkw = {f"k{k}": fresh.w.instance(c) for k, c in call["kw"].items()}
            exp = R.normalise(fresh.call(fpos, fkw)[0], live, call)
            m = progs.dec_outcome(mo)
            stats["evaluations"] += 1
            case = {"spec": prog["spec"], "mops": mops, "live": live, "calls": [call]}
            # outcomes carry fresh ids; compare through them
            broken = got != m
            if broken:
                ctx.violation(f"after {desc[0]}: implementation {got} != model {m}", case, kind="correspondence")
            if got != exp:
                if pushed_orphan and not (broken and m == exp):
                    ctx.known_hit("KF-05", case)
                    stats["kf05"] += 1
                else:
                    ctx.violation(f"after {desc[0]}: long-lived function gives {got}, a function built from the resulting method set gives {exp}", case)
                    return
            if broken:
                return
    stats["function_histories"] += 1


def names_and_linkback_history(ctx, prog, stats):
    """(a) methods whose positional parameters carry different names, probed with positionals passed by keyword: the
    calling convention after register / unregister must be that of a function built from the resulting method set;
    (b) a child created with linkback from a parent that is never called itself: changes of the parent must show in the child"""
    rng = ctx.rng
    w = world_from(prog["spec"])
    defs = [dict(d, kw=[], npos_req=len(d["pos"])) for d in prog["defs"] if len(d["pos"]) == len(prog["defs"][0]["pos"])]
    if not defs:
        return
    npos = len(defs[0]["pos"])
    pool = [[f"a{i}" for i in range(npos)], [f"b{i}" for i in range(npos)], [f"a{i}" for i in range(npos)]]
    for d in defs:
        d["names"] = rng.choice(pool)
    b = progs.Built(w, [])
    live = []
    nid = 300

    def probe(tag):
        fresh = progs.Built(world_from(prog["spec"]), live)
        for call in prog["calls"]:
            if len(call["pos"]) != npos:
                continue
            for names in ([f"a{i}" for i in range(npos)], [f"b{i}" for i in range(npos)], None):
                def do(bb):
                    vals = [bb.w.instance(c) for c in call["pos"]]
                    try:
                        if names is None:
                            return bb.call(vals)[0]
                        return bb.call(vals[:-1], {names[-1]: vals[-1]})[0]
                    except Exception as e:  # noqa
                        return ["exc", type(e).__name__]
                got, exp = do(b), do(fresh)
                got = got if got[0] != "exc" else ["exc"]
                exp = exp if exp[0] != "exc" else ["exc"]
                stats["evaluations"] += 1
                if got != exp:
                    # tiebreak history (KF-05): a pushed-down definition whose pusher was unregistered
                    mdefs = model.run_cases([[12, mops]])[0]
                    byid = {d["id"]: d for d in live}
                    orphan = any(tie < 0 and not any(t2 == tie + 1 and R_same_sig(byid[i], byid[j]) for (j, t2) in mdefs) for (i, tie) in mdefs)
                    if orphan:
                        ctx.known_hit("KF-05", {"spec": prog["spec"], "live": live, "calls": [call], "history": hist})
                        stats["kf05"] += 1
                        continue
                    ctx.violation(f"after {tag}: call with {'positional' if names is None else 'last argument as keyword ' + names[-1]} gives {got}, a function built from the resulting method set gives {exp}",
                                  {"spec": prog["spec"], "live": live, "calls": [call], "history": hist})
                    return False
        return True
    hist = []
    mops = []
    for step in range(rng.randint(3, 8)):
        if live and rng.random() < 0.35:
            d = rng.choice(live)
            b.unregister(d["id"])
            live = [x for x in live if x["id"] != d["id"]]
            hist.append(["unregister", d["id"]])
            mops.append([1, d["id"]])
        else:
            d = dict(rng.choice(defs)); d["id"] = nid; nid += 1
            try:
                b.register(d)
            except TypeError:
                # conflicting names: the fresh function must reject the same set
                try:
                    progs.Built(world_from(prog["spec"]), live + [d])
                    # Built registers lazily; force a build
                    fb = progs.Built(world_from(prog["spec"]), live + [d]); fb.ov.compile()
                    ctx.violation("register rejected a method set that a fresh function accepts", {"spec": prog["spec"], "live": live + [d], "history": hist})
                    return
                except TypeError:
                    return
            live.append(d)
            hist.append(["register", d])
            mops.append([0, progs.enc_method(d)])
        if live and rng.random() < 0.7:
            try:
                if not probe(hist[-1][0]):
                    return
            except TypeError:
                return
    # (b) linkback
    import ovld
    wl = world_from(prog["spec"])
    parent = progs.Built(wl, [])
    # a chain of 1-3 linkback derivations; only the last one is ever called (the intermediate functions must relay the
    # notification although they were never built themselves)
    depth = rng.choice([1, 2, 3])
    child_ov = parent.ov
    for lvl in range(depth):
        child_ov = ovld.Ovld(mixins=[child_ov], linkback=True, name=f"child{lvl}") if rng.random() < 0.7 else child_ov.copy(linkback=True)
    stats["linkback_chain_depths"][depth] += 1
    plive = []
    for step in range(rng.randint(2, 6)):
        uniq = [x for x in plive if sum(1 for y in plive if R_same_sig(x, y)) == 1]     # keeps clear of KF-05's history shape
        if uniq and rng.random() < 0.25:
            gone = rng.choice(uniq)
            plive = [x for x in plive if x["id"] != gone["id"]]
            parent.unregister(gone["id"])
        else:
            d = dict(rng.choice(defs)); d["id"] = nid; nid += 1; d.pop("names", None)
            parent.register(d)
            plive.append(d)
        fresh = progs.Built(world_from(prog["spec"]), plive)
        for call in prog["calls"]:
            if len(call["pos"]) != npos:
                continue
            vals = [wl.instance(c) for c in call["pos"]]
            try:
                r = child_ov(*vals); got = ["run", r[1]]
            except TypeError as e:
                got = ["nomethod"] if str(e).startswith("No method") else ["ambig"] if str(e).startswith("Ambiguous") else ["exc"]
            exp = fresh.call([fresh.w.instance(c) for c in call["pos"]])[0]
            exp = exp if exp[0] != "exc" else ["exc"]
            # ids differ between parent's methods and fresh ones only by construction order: same ids are used
            stats["evaluations"] += 1
            if got != exp:
                ctx.violation(f"linkback child after a registration on its (never called) parent gives {got}, a function built from the parent's methods gives {exp}",
                              {"spec": prog["spec"], "live": plive, "calls": [call], "linkback": True})
                return
    stats["name_linkback_histories"] += 1


def R_same_sig(a, b):
    return a["pos"] == b["pos"] and a["kw"] == b["kw"] and a["npos_req"] == b["npos_req"] and a["prio"] == b["prio"]


def run(ctx):
    stats = {"evaluations": 0, "table_histories": 0, "function_histories": 0, "kf04": 0, "kf05": 0, "name_linkback_histories": 0, "linkback_chain_depths": collections.Counter()}
    samples = []
    n = 50 if ctx.quick() else 2000
    distinct = set()
    for _ in range(n):
        prog = R.gen_program(ctx.rng, allow_kw=False, allow_dup=True)
        if not prog["calls"]:
            continue
        table_history(ctx, prog, stats)
        function_history(ctx, prog, stats)
        function_history(ctx, prog, stats, directed=True)
        names_and_linkback_history(ctx, prog, stats)
        distinct.add(hash(json.dumps(prog)))
        if len(samples) < 2:
            samples.append({"defs": prog["defs"][:3], "calls": prog["calls"][:3]})
        if len(ctx.violations) > 5:
            break
    return {"evaluations": stats["evaluations"], "distinct_nontrivial": len(distinct),
            "rule": "random programs (as C02); table histories: 6-20 steps mixing registrations and plain accesses on a real MultiTypeMap; function histories: 4-14 steps of register (incl. re-registration of an identical signature) / unregister / probe on a real Ovld, all calls probed after every step against a function freshly built from the resulting method set; distinct by program content, each history counts as non-trivial (at least one change between probes)",
            "samples": samples, "histories_with_differing_parameter_names_and_linkback_children": stats["name_linkback_histories"], "linkback_chain_depths": {str(k): v for k, v in stats["linkback_chain_depths"].items()}, "table_histories": stats["table_histories"], "function_histories": stats["function_histories"],
            "stale_results_attributed_to_KF-04": stats["kf04"], "tiebreak_history_attributed_to_KF-05": stats["kf05"],
            "traces_validated_against_impl": stats["evaluations"]}


def replay(ctx, payload):
    """re-run the recorded history on the implementation: reproduced iff its last probe still differs from the same
    probe on a freshly built table / function (or from the model, for a correspondence replay)"""
    c = payload["case"]
    if "ops" in c and "init" in c:                      # table history
        w = world_from(c["spec"])
        t = tablelevel.Table(w)
        regs = list(c["init"])
        for d in regs:
            t.register(d, 0)
        byenc = {}
        last = None
        for op in c["ops"]:
            if op[0] == 1:
                d = {"id": op[1][0], "pos": op[1][1], "kw": [[k, ty, k in op[1][4]] for k, ty in op[1][2]], "npos_req": op[1][3], "prio": op[1][5]}
                t.register(d, 0)
                regs.append(d)
            else:
                key = op[2]
                pos = [x[1] for x in key[0]]
                kw = {str(k): tt[1] for k, tt in key[1]}
                last = (t.get(None, pos, kw), pos, kw)
        if last is None:
            return False
        ft = tablelevel.Table(world_from(c["spec"]))
        for d in regs:
            ft.register(d, 0)
        fresh = ft.get(None, last[1], last[2])
        m = progs.dec_outcome(model.run_cases([[14, w.encode(), [progs.enc_method(d, 0) for d in c["init"]], c["ops"]]])[0][-1][0])
        print(json.dumps({"after_history": last[0], "fresh": fresh, "model": m}))
        return last[0] != fresh or last[0] != m
    if "mops" in c and "live" in c:                     # function history
        w = world_from(c["spec"])
        b = progs.Built(w, [])
        byid = {}
        for d in c["live"]:
            byid[d["id"]] = d
        # the recorded operations carry the encoded methods; decode the ones that were unregistered later
        for op in c["mops"]:
            if op[0] == 0:
                e = op[1]
                d = byid.get(e[0]) or {"id": e[0], "pos": e[1], "kw": [[k, ty, k in e[4]] for k, ty in e[2]], "npos_req": e[3], "prio": e[5]}
                byid[e[0]] = d
                b.register(d)
            else:
                b.unregister(op[1])
        fresh = progs.Built(world_from(c["spec"]), c["live"])
        call = c["calls"][0]
        got = R.normalise(b.call([w.instance(x) for x in call["pos"]], {f"k{k}": w.instance(x) for k, x in call["kw"].items()})[0], c["live"], call)
        exp = R.normalise(fresh.call([fresh.w.instance(x) for x in call["pos"]], {f"k{k}": fresh.w.instance(x) for k, x in call["kw"].items()})[0], c["live"], call)
        print(json.dumps({"long_lived": got, "fresh": exp}))
        return got != exp
    return True      # other history kinds (names / linkback) are re-run through the check itself: ./check C05 --seed <seed of the replay file>


def replay_finding(ctx, e):
    wit = e["witness"]
    w = world_from(wit["spec"])
    if e["id"] == "KF-04":
        t = tablelevel.Table(w)
        for d in wit["init"]:
            t.register(d, 0)
        first = t.get(None, wit["call"]["pos"], {})
        t.register(wit["then"], 0)
        second = t.get(None, wit["call"]["pos"], {})
        ft = tablelevel.Table(world_from(wit["spec"]))
        for d in wit["init"] + [wit["then"]]:
            ft.register(d, 0)
        fresh = ft.get(None, wit["call"]["pos"], {})
        return first == ["ambig"] and second != fresh
    if e["id"] == "KF-05":
        b = progs.Built(w, [])
        for op in wit["ops"]:
            if op[0] == "register":
                b.register(op[1])
            else:
                b.unregister(op[1])
        got = b.call([w.instance(c) for c in wit["call"]["pos"]])[0]
        fresh = progs.Built(world_from(wit["spec"]), wit["live"])
        exp = fresh.call([fresh.w.instance(c) for c in wit["call"]["pos"]])[0]
        return got[0] == "run" and exp == ["ambig"]
    return False
