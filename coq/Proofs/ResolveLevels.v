(* ResolveLevels.v — what TypeMap.__missing__'s level table contains: exactly the registered types the key falls under,
   and on the static fragment a strict subclass always gets a strictly larger level (Kahn rounds are monotone along
   the subclass order). *)
From Coq Require Import ZArith List Bool Arith Lia Permutation.
Import ListNotations.
From OvldV Require Import Model.Order Model.Ty Model.Resolve Proofs.TyEq Proofs.TyOrder Proofs.TySub Proofs.ResolveKahn.

Lemma rmapM_Forall2 {X Y} (f : X -> res Y) l ys :
  rmapM f l = Ok ys -> Forall2 (fun x y => f x = Ok y) l ys.
Proof.
  revert ys. induction l as [|x r IH]; simpl; intros ys H.
  - injection H as <-. constructor.
  - destruct (f x) as [y|] eqn:E; simpl in H; [|discriminate].
    destruct (rmapM f r) as [ys'|] eqn:E2; simpl in H; [|discriminate].
    injection H as <-. constructor; auto.
Qed.

Lemma assoc_ty_In {X} t (l : list (ty * X)) v : assoc_ty t l = Some v -> In (t, v) l.
Proof.
  induction l as [|[a x] r IH]; simpl; [discriminate|].
  destruct (ty_eqb a t) eqn:E; [intros H; injection H as <-; apply ty_eqb_eq in E; subst; now left | intros H; right; auto].
Qed.

Lemma assoc_ty_some {X} t (l : list (ty * X)) v : In (t, v) l -> exists v', assoc_ty t l = Some v'.
Proof.
  induction l as [|[a x] r IH]; simpl; [intros []|].
  intros [H|H].
  - injection H as -> ->. rewrite ty_eqb_refl. eauto.
  - destruct (ty_eqb a t); eauto.
Qed.

Section Hier.
  Variable sub : nat -> nat -> bool.
  Variable hasm : nat -> nat -> bool.
  Variable chk : nat -> nat -> bool.
  Variable sub_fresh : nat -> bool.

  Notation typeorder := (typeorder sub hasm chk sub_fresh).
  Notation subclasscheck := (subclasscheck sub hasm chk sub_fresh).
  Notation avail := (avail sub hasm chk sub_fresh).
  Notation edges := (edges sub hasm chk sub_fresh).
  Notation edges_from := (edges_from sub hasm chk sub_fresh).
  Notation levels := (levels sub hasm chk sub_fresh).

  (* ---- avail ---- *)
  Lemma avail_spec tys k av :
    avail tys k = Ok av -> forall t, In t av <-> (In t tys /\ subclasscheck k t = Some true).
  Proof.
    unfold Resolve.avail. intros H t.
    destruct (rmapM _ tys) as [l|] eqn:E; simpl in H; [|discriminate]. injection H as <-.
    apply rmapM_Forall2 in E. clear -E. revert l E.
    induction tys as [|a r IH]; intros l E; inversion E as [|? y ? l' Hy Hr]; subst; simpl; [tauto|].
    destruct (subclasscheck k a) as [b|] eqn:Es; [|discriminate]. injection Hy as <-. simpl.
    destruct b; simpl; rewrite (IH _ Hr); split.
    - intros [<-|[H1 H2]]; auto.
    - intros [[<-|H1] H2]; auto.
    - intros [H1 H2]; auto.
    - intros [[<-|H1] H2]; [congruence|auto].
  Qed.

  Lemma avail_nodup tys k av : avail tys k = Ok av -> NoDup tys -> NoDup av.
  Proof.
    unfold Resolve.avail. intros H Hnd.
    destruct (rmapM _ tys) as [l|] eqn:E; simpl in H; [|discriminate]. injection H as <-.
    apply rmapM_Forall2 in E. revert l E. induction Hnd as [|a r Hn Hd IH]; intros l E; inversion E as [|? y ? l' Hy Hr]; subst; simpl; [constructor|].
    destruct (subclasscheck k a) as [b|] eqn:Es; [|discriminate]. injection Hy as <-. simpl.
    destruct b; simpl; [|auto]. constructor; [|auto].
    intros Hin. apply Hn. clear -Hin Hr. revert l' Hr Hin. induction r as [|x r IH]; intros l' Hr Hin; inversion Hr; subst; simpl in *; [auto|].
    destruct (subclasscheck k x) as [b|]; [|discriminate]. injection H1 as <-. simpl in Hin.
    destruct b; simpl in Hin; [destruct Hin as [<-|Hin]; [now left|right; eauto] | right; eauto].
  Qed.

  (* ---- edges ---- *)
  Lemma edges_from_spec i ti : forall rest j es,
    edges_from i ti j rest = Ok es ->
    forall q tj, nth_error rest q = Some tj ->
      (typeorder ti tj = Some LESS -> In (i, j + q) es) /\ (typeorder ti tj = Some MORE -> In (j + q, i) es).
  Proof.
    induction rest as [|t r IH]; intros j es H q tj Hq; [destruct q; discriminate|].
    simpl in H. destruct (typeorder ti t) as [o|] eqn:Eo; [|discriminate].
    destruct (edges_from i ti (S j) r) as [es'|] eqn:Ee; simpl in H; [|discriminate]. injection H as <-.
    destruct q as [|q]; simpl in Hq.
    - injection Hq as <-. rewrite Nat.add_0_r. rewrite Eo. split; intros E; injection E as ->; now left.
    - destruct (IH _ _ Ee q tj Hq) as [H1 H2]. replace (j + S q) with (S j + q) by lia.
      split; intros E; [specialize (H1 E)|specialize (H2 E)]; destruct o; auto; now right.
  Qed.

  Lemma edges_spec : forall l i es,
    edges i l = Ok es ->
    forall p q tp tq, p < q -> nth_error l p = Some tp -> nth_error l q = Some tq ->
      (typeorder tp tq = Some LESS -> In (i + p, i + q) es) /\ (typeorder tp tq = Some MORE -> In (i + q, i + p) es).
  Proof.
    induction l as [|t r IH]; intros i es H p q tp tq Hlt Hp Hq; [destruct p; discriminate|].
    simpl in H. destruct (edges_from i t (S i) r) as [e1|] eqn:E1; simpl in H; [|discriminate].
    destruct (edges (S i) r) as [e2|] eqn:E2; simpl in H; [|discriminate]. injection H as <-.
    destruct p as [|p]; simpl in Hp.
    - injection Hp as <-. destruct q as [|q]; [lia|]. simpl in Hq.
      destruct (edges_from_spec _ _ _ _ _ E1 q tq Hq) as [H1 H2].
      rewrite Nat.add_0_r. replace (i + S q) with (S i + q) by lia.
      split; intros E; apply in_app_iff; left; auto.
    - destruct q as [|q]; [lia|]. simpl in Hq.
      destruct (IH _ _ E2 p q tp tq ltac:(lia) Hp Hq) as [H1 H2].
      replace (i + S p) with (S i + p) by lia. replace (i + S q) with (S i + q) by lia.
      split; intros E; apply in_app_iff; right; auto.
  Qed.

  (* ---- the level table ---- *)
  Definition table (av : list ty) (rounds : list (list nat)) : list (ty * nat) :=
    let nr := length rounds in
    concat (map (fun p : nat * list nat => let (r, grp) := p in map (fun n => (nth n av (Cls 0), nr - 1 - r)) grp)
                (combine (seq 0 nr) rounds)).

  Lemma levels_inv tys k tab :
    levels tys k = Ok tab ->
    exists av es rounds, avail tys k = Ok av /\ edges 0 av = Ok es /\
      kahn (length av) es (seq 0 (length av)) [] = Some rounds /\ tab = table av rounds.
  Proof.
    unfold Resolve.levels. intros H.
    destruct (avail tys k) as [av|] eqn:Ea; simpl in H; [|discriminate].
    destruct (edges 0 av) as [es|] eqn:Ee; simpl in H; [|discriminate].
    destruct (kahn (length av) es (seq 0 (length av)) []) as [rounds|] eqn:Ek; [|discriminate].
    injection H as <-. exists av, es, rounds. auto.
  Qed.

  Lemma combine_seq_In {X} (l : list X) s r g :
    In (r, g) (combine (seq s (length l)) l) <-> (s <= r /\ nth_error l (r - s) = Some g).
  Proof.
    revert s. induction l as [|a t IH]; intros s; simpl.
    - split; [intros []|]. intros [_ H]. destruct (r - s); discriminate.
    - rewrite IH. split.
      + intros [H|[H1 H2]].
        * injection H as <- <-. split; [lia|]. now rewrite Nat.sub_diag.
        * split; [lia|]. replace (r - s) with (S (r - S s)) by lia. exact H2.
      + intros [H1 H2]. destruct (Nat.eq_dec r s) as [->|Hne].
        * left. rewrite Nat.sub_diag in H2. simpl in H2. now injection H2 as <-.
        * right. split; [lia|]. replace (r - s) with (S (r - S s)) in H2 by lia. exact H2.
  Qed.

  Lemma table_In av rounds t lvl :
    In (t, lvl) (table av rounds) <->
    exists r grp n, nth_error rounds r = Some grp /\ In n grp /\ nth n av (Cls 0) = t /\ lvl = length rounds - 1 - r.
  Proof.
    unfold table. rewrite in_concat. split.
    - intros (l & Hl & Hin). apply in_map_iff in Hl. destruct Hl as ([r grp] & <- & Hc).
      apply combine_seq_In in Hc. destruct Hc as [_ Hc]. rewrite Nat.sub_0_r in Hc.
      apply in_map_iff in Hin. destruct Hin as (n & Hn & Hin). injection Hn as <- <-.
      exists r, grp, n. auto.
    - intros (r & grp & n & Hr & Hn & <- & ->).
      exists (map (fun n0 => (nth n0 av (Cls 0), length rounds - 1 - r)) grp). split.
      + apply in_map_iff. exists (r, grp). split; [reflexivity|].
        apply combine_seq_In. split; [lia|]. now rewrite Nat.sub_0_r.
      + apply in_map_iff. exists n. auto.
  Qed.

  (* a type has a level iff it is one of the applicable registered types *)
  Lemma levels_dom tys k tab t :
    levels tys k = Ok tab -> NoDup tys ->
    ((exists lvl, assoc_ty t tab = Some lvl) <-> (In t tys /\ subclasscheck k t = Some true)).
  Proof.
    intros H Hnd. destruct (levels_inv _ _ _ H) as (av & es & rounds & Ha & Ee & Ek & ->).
    rewrite <- (avail_spec _ _ _ Ha). split.
    - intros [lvl Hl]. apply assoc_ty_In in Hl. apply table_In in Hl.
      destruct Hl as (r & grp & n & Hr & Hn & <- & _).
      assert (Hc : In n (concat rounds)) by (apply in_concat; exists grp; split; [eapply nth_error_In; eauto|auto]).
      apply (kahn_cover _ _ _ _ _ Ek) in Hc. apply in_seq in Hc. apply nth_In. lia.
    - intros Hin. destruct (In_nth _ _ (Cls 0) Hin) as (n & Hlt & Hn).
      assert (Hc : In n (concat rounds)) by (apply (kahn_cover _ _ _ _ _ Ek); apply in_seq; lia).
      apply in_concat in Hc. destruct Hc as (grp & Hg & Hng).
      destruct (In_nth_error _ _ Hg) as [r Hr].
      eapply assoc_ty_some. apply table_In. exists r, grp, n. eauto.
  Qed.
End Hier.

Section Static.
  Variable sub : nat -> nat -> bool.
  Variable hasm : nat -> nat -> bool.
  Variable chk : nat -> nat -> bool.
  Variable sub_fresh : nat -> bool.
  Hypothesis sub_antisym : forall c d, sub c d = true -> sub d c = true -> c = d.

  Notation typeorder := (typeorder sub hasm chk sub_fresh).
  Notation levels := (levels sub hasm chk sub_fresh).

  Lemma typeorder_cls x y : typeorder (Cls x) (Cls y) = Some (cls_order sub x y).
  Proof. unfold Ty.typeorder, fuel_for. simpl tsize. apply tord_cls. Qed.

  Lemma cls_order_strict x y : sub x y = true -> x <> y -> cls_order sub x y = LESS /\ cls_order sub y x = MORE.
  Proof.
    intros Hs Hne. unfold cls_order.
    destruct (Nat.eqb x y) eqn:E1; [apply Nat.eqb_eq in E1; contradiction|].
    destruct (Nat.eqb y x) eqn:E2; [apply Nat.eqb_eq in E2; congruence|].
    rewrite Hs. destruct (sub y x) eqn:E3; [exfalso; apply Hne; apply sub_antisym; auto|]. simpl. auto.
  Qed.

  (* L1: a strict subclass gets a strictly larger level *)
  Lemma levels_strict tys k tab x y lx ly :
    levels tys k = Ok tab ->
    assoc_ty (Cls x) tab = Some lx -> assoc_ty (Cls y) tab = Some ly ->
    sub x y = true -> x <> y -> ly < lx.
  Proof.
    intros H Hx Hy Hs Hne.
    destruct (levels_inv _ _ _ _ _ _ _ H) as (av & es & rounds & Ha & Ee & Ek & ->).
    apply assoc_ty_In in Hx, Hy. apply table_In in Hx, Hy.
    destruct Hx as (rx & gx & nx & Hrx & Hnx & Hax & ->).
    destruct Hy as (ry & gy & ny & Hry & Hny & Hay & ->).
    assert (Hcx : In nx (concat rounds)) by (apply in_concat; exists gx; split; [eapply nth_error_In; eauto|auto]).
    assert (Hcy : In ny (concat rounds)) by (apply in_concat; exists gy; split; [eapply nth_error_In; eauto|auto]).
    apply (kahn_cover _ _ _ _ _ Ek) in Hcx, Hcy. apply in_seq in Hcx, Hcy.
    assert (Hnex : nth_error av nx = Some (Cls x)) by (rewrite <- Hax; apply nth_error_nth'; lia).
    assert (Hney : nth_error av ny = Some (Cls y)) by (rewrite <- Hay; apply nth_error_nth'; lia).
    destruct (cls_order_strict _ _ Hs Hne) as [Hl Hm].
    assert (Hedge : In (nx, ny) es).
    { destruct (Nat.lt_trichotomy nx ny) as [Hlt|[Heq|Hgt]].
      - destruct (edges_spec _ _ _ _ _ _ _ Ee nx ny _ _ Hlt Hnex Hney) as [H1 _].
        apply H1. rewrite typeorder_cls. now rewrite Hl.
      - subst ny. rewrite Hnex in Hney. injection Hney as E. contradiction.
      - destruct (edges_spec _ _ _ _ _ _ _ Ee ny nx _ _ Hgt Hney Hnex) as [_ H2].
        apply H2. rewrite typeorder_cls. now rewrite Hm. }
    apply preds_In in Hedge.
    destruct (kahn_order _ _ _ _ _ Ek _ _ _ _ Hry Hny Hedge) as [[]|(r' & g' & Hlt & Hr' & Hin')].
    assert (Hnd : NoDup (concat rounds)) by (eapply kahn_nodup; [exact Ek|apply seq_NoDup]).
    assert (r' = rx) by (eapply nodup_concat_unique; eauto). subst r'.
    assert (ry < length rounds) by (apply nth_error_Some; congruence).
    lia.
  Qed.
End Static.
