(* C14 — types passed as arguments dispatch on type[...] by subtype.
   Theorems only.  A class or parametrised generic X passed as an argument is keyed type[X] = Gen TYPE [X]
   (utils.subtler_type; which positions are keyed that way is part of the entry point, C03). *)
From Coq Require Import ZArith List Bool Arith.
Import ListNotations.
From OvldV Require Import Model.Order Model.Ty Model.Codec Proofs.TyOrder Proofs.TySub Proofs.TypeArgs.

(* a method annotated type[T] is applicable to a passed type X exactly when X is a subtype of T: a subclass for classes,
   a same-or-subclass origin with argument-wise subtyping for generics (C13_generic_covariant), at any nesting depth *)
Theorem C14_applicable : forall sub hasm chk fresh TYPE, sub TYPE TYPE = true ->
  forall n x t, ty_eqb x t = false ->
  subck sub hasm chk fresh (S (S n)) (tyof TYPE x) (tyof TYPE t) = subck sub hasm chk fresh (S n) x t.
Proof. exact type_arg_applicable. Qed.
Print Assumptions C14_applicable.

(* bare `type` is normalised to type[object]; a passed type falls under a plain class annotation d exactly when
   `type` is a subclass of d -- so under object always, never under an ordinary class *)
Theorem C14_under_class : forall sub hasm chk fresh TYPE n x d,
  subck sub hasm chk fresh (S n) (tyof TYPE x) (Cls d) = Some (sub TYPE d).
Proof. exact type_arg_under_class. Qed.
Print Assumptions C14_under_class.

(* a more specific type[...] annotation is preferred over a more general one: type[T1] compares to type[T2] as T1 to T2 *)
Theorem C14_prefer : forall sub hasm chk fresh TYPE n t1 t2, ty_eqb t1 t2 = false ->
  tord sub hasm chk fresh (S (S n)) (tyof TYPE t1) (tyof TYPE t2) = tord sub hasm chk fresh (S n) t1 t2.
Proof. exact type_arg_order. Qed.
Print Assumptions C14_prefer.

(* ... and every type[...] annotation over plain object *)
Theorem C14_below_object : forall sub hasm chk fresh TYPE OBJECT n a,
  cls_order sub TYPE OBJECT = LESS -> tord sub hasm chk fresh (S (S n)) (Gen TYPE a) (Cls OBJECT) = Some LESS.
Proof. exact type_arg_below_object. Qed.
Print Assumptions C14_below_object.

(* non-vacuity: 0 object, 1 type, 2 A, 3 B(A), 5 list *)
Definition wh : hier := {| h_supers := [[0]; [0; 1]; [0; 2]; [0; 2; 3]; [0; 4]; [0; 5]]; h_meths := []; h_preds := []; h_fresh := [0] |}.
Example C14_examples :
  subclasscheck_h wh (tyof 1 (Cls 3)) (tyof 1 (Cls 2)) = Some true /\
  subclasscheck_h wh (tyof 1 (Cls 2)) (tyof 1 (Cls 3)) = Some false /\
  subclasscheck_h wh (tyof 1 (Gen 5 [Cls 3])) (tyof 1 (Gen 5 [Cls 2])) = Some true /\
  subclasscheck_h wh (tyof 1 (Gen 5 [Cls 3])) (tyof 1 (Cls 5)) = Some true /\
  subclasscheck_h wh (tyof 1 (Cls 5)) (tyof 1 (Gen 5 [Cls 2])) = Some false /\
  typeorder_h wh (tyof 1 (Cls 3)) (tyof 1 (Cls 2)) = Some LESS /\
  typeorder_h wh (tyof 1 (Cls 3)) (Cls 0) = Some LESS.
Proof. vm_compute. repeat split; reflexivity. Qed.
