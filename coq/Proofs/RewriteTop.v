(* RewriteTop.v — the statements exported to Props/C09.v and Props/C08.v. *)
From Coq Require Import ZArith List Bool Arith Lia.
Import ListNotations.
From OvldV Require Import Model.Rewrite Spec.RewriteRel Proofs.RewriteSyn Proofs.RewriteFoot Proofs.RewriteSimA Proofs.RewriteSim.

Lemma in_domain_parts : forall p e, in_domain p e = true -> valid e = true /\ dom p e = true /\ site_in_iter p e = false.
Proof. intros p e H. unfold in_domain in H. bsplit. auto. Qed.

Theorem preserve_top :
  forall (W : Type) (p : rwp) typeof tbl callv binop getattr getitem truthy fmt ugl mself (e : expr),
    in_domain p e = true ->
    rewrite p e = Some (fst (rw p 0 e)) /\
    valid (fst (rw p 0 e)) = true /\
    forall n rho s s', srel W p s s' -> tgt_fixed W s' rho ->
      rsim W p (vrel p)
        (eval W p typeof tbl callv binop getattr getitem truthy fmt ugl mself false n rho e s)
        (eval W p typeof tbl callv binop getattr getitem truthy fmt ugl mself true n rho (fst (rw p 0 e)) s').
Proof.
  intros. destruct (in_domain_parts p e H) as (Hv & Hd & Hs). split; [|split].
  - apply dom_rewrite. assumption.
  - apply valid_rw; assumption.
  - intros. apply eval_sim; assumption.
Qed.

Lemma dom_stmt_usage : forall p b, forallb (dom_stmt p) b = true -> existsb (usage_err_stmt p) b = false.
Proof.
  induction b as [|s b IH]; simpl; intros H; auto. apply andb_true_iff in H. destruct H as [Hs Hb].
  rewrite (IH Hb), orb_false_r. destruct s; simpl in *.
  - destruct (in_domain_parts _ _ Hs) as (_ & Hd & _). apply (proj1 (dom_no_usage_all p)); assumption.
  - apply andb_true_iff in Hs. destruct Hs as [Hx Hs]. destruct (in_domain_parts _ _ Hs) as (_ & Hd & _).
    rewrite (proj1 (dom_no_usage_all p) _ Hd), orb_false_r.
    destruct (binder_ok_user _ _ Hx) as (i & -> & _ & _). simpl in Hx |- *. bsplit. assumption.
  - destruct (in_domain_parts _ _ Hs) as (_ & Hd & _). apply (proj1 (dom_no_usage_all p)); assumption.
Qed.

Lemma valid_rw_body : forall p b k, forallb (dom_stmt p) b = true -> forallb valid_stmt (fst (rw_body p k b)) = true.
Proof.
  induction b as [|s b IH]; intros k H; simpl; auto. simpl in H. apply andb_true_iff in H. destruct H as [Hs Hb].
  destruct s; simpl in *; dlet; nrm; simpl.
  - destruct (in_domain_parts _ _ Hs) as (Hv & Hd & Hi). rewrite valid_rw, IH; auto.
  - apply andb_true_iff in Hs. destruct Hs as [Hx Hs]. destruct (in_domain_parts _ _ Hs) as (Hv & Hd & Hi). rewrite valid_rw, IH; auto.
  - destruct (in_domain_parts _ _ Hs) as (Hv & Hd & Hi). rewrite valid_rw, IH; auto.
Qed.

Theorem preserve_body_top :
  forall (W : Type) (p : rwp) typeof tbl callv binop getattr getitem truthy fmt ugl mself (b : list stmt),
    forallb (dom_stmt p) b = true ->
    rewrite_body p b = Some (fst (rw_body p 0 b)) /\
    forallb valid_stmt (fst (rw_body p 0 b)) = true /\
    forall n rho s s', srel W p s s' -> tgt_fixed W s' rho ->
      rsim W p (RewriteRel.orel p)
        (exec W p typeof tbl callv binop getattr getitem truthy fmt ugl mself false n rho b s)
        (exec W p typeof tbl callv binop getattr getitem truthy fmt ugl mself true n rho (fst (rw_body p 0 b)) s').
Proof.
  intros. split; [|split].
  - unfold rewrite_body. rewrite dom_stmt_usage; auto.
  - apply valid_rw_body. assumption.
  - intros. apply exec_sim; assumption.
Qed.

(* ---- what "related" gives an observer *)
Lemma vrel_data_eq : forall p v v', vrel p v v' -> data v = true -> v = v'.
Proof.
  intros p. fix IH 3. intros v v' H Hd. destruct H; try reflexivity; try discriminate.
  f_equal. simpl in Hd. induction H; [reflexivity|]. simpl in Hd. apply andb_true_iff in Hd. destruct Hd as [H1 H2].
  f_equal; [apply IH; assumption | apply IHForall2; assumption].
Qed.

Theorem observables_top : forall W p,
  (forall v v', vrel p v v' -> shape v = shape v') /\
  (forall v v', vrel p v v' -> data v = true -> v = v') /\
  (forall s s' : state W, srel W p s s' -> s_trace W s = s_trace W s' /\ s_world W s = s_world W s').
Proof.
  intros W p. split; [|split].
  - apply vrel_shape.
  - apply vrel_data_eq.
  - intros s s' H. destruct H as (_ & _ & _ & _ & Ht & Hw). auto.
Qed.

Lemma vrel_refl_fo : forall p v, fo v = true -> vrel p v v.
Proof.
  intros p. fix IH 1. intros v Hf. destruct v; try constructor; try discriminate.
  simpl in Hf. induction l; constructor.
  - apply IH. simpl in Hf. apply andb_true_iff in Hf. tauto.
  - apply IHl. simpl in Hf. apply andb_true_iff in Hf. tauto.
Qed.

Lemma vars_ok_rel : forall p c l, vars_ok p c l = true ->
  vars_rel p l l /\ vars_clean p l /\ (c = true -> no_tmps l).
Proof.
  induction l as [|[x v] l IH]; intros H.
  - repeat split; intros; simpl; auto.
  - simpl in H. apply andb_true_iff in H. destruct H as [H Hl]. bsplit. destruct (IH Hl) as (I1 & I2 & I3).
    repeat split.
    + apply RewriteSimA.vars_rel_cons; auto. apply vrel_refl_fo. assumption.
    + apply RewriteSimA.vars_clean_cons; auto.
    + intros ->. simpl in H0. apply RewriteSimA.no_tmps_cons; auto.
Qed.

Theorem start_top : forall W p (s : state W), start_ok W p s = true -> srel W p s s.
Proof.
  intros W p s H. unfold start_ok in H. apply andb_true_iff in H. destruct H as [Hf Hg].
  destruct (vars_ok_rel p false _ Hg) as (G1 & G2 & _).
  repeat split; auto.
  induction (s_frames W s) as [|fr l IH]; constructor.
  - simpl in Hf. apply andb_true_iff in Hf. destruct Hf as [Hfr _]. destruct (vars_ok_rel p _ _ Hfr) as (F1 & F2 & F3).
    repeat split; auto.
  - apply IH. simpl in Hf. apply andb_true_iff in Hf. tauto.
Qed.

Theorem accept_top : forall p e k, dom p e = true -> valid e = true -> site_in_iter p e = false ->
  usage_err p e = false /\ valid (fst (rw p k e)) = true.
Proof. intros p e k Hd Hv Hs. split; [exact (proj1 (dom_no_usage_all p) e Hd) | exact (valid_rw p e k Hd Hv Hs)]. Qed.

Theorem bare_name_top : forall p r k, p_rs p = Some r -> rw p k (EName (NUser r)) = (EName (NOvld (p_id p)), k).
Proof. intros p r k H. simpl. unfold is_sym. rewrite H, Nat.eqb_refl. reflexivity. Qed.
