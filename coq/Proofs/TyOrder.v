(* TyOrder.v — facts about the model's typeorder (C12): reflexivity, class fragment, members of unions and
   intersections, bounds of dependent types, generic aliases, and mirror symmetry on the domain [msym]. *)
From Coq Require Import ZArith List Bool Arith Lia.
Import ListNotations.
From OvldV Require Import Model.Order Model.Ty Model.TyDom Proofs.TyEq Proofs.TyMono.

Lemma opposite_involutive o : opposite (opposite o) = o.
Proof. destruct o; reflexivity. Qed.

Lemma forallb_map {X Y} (f : X -> Y) (p : Y -> bool) l : forallb p (map f l) = forallb (fun x => p (f x)) l.
Proof. induction l; simpl; congruence. Qed.

Lemma forallb_ext' {X} (p q : X -> bool) l : (forall x, p x = q x) -> forallb p l = forallb q l.
Proof. intros H; induction l; simpl; congruence. Qed.

Lemma merge_opposite l : l <> [] -> merge (map opposite l) = opposite (merge l).
Proof.
  intros Hne. unfold merge.
  rewrite !forallb_map.
  replace (forallb (fun x => is_same (opposite x)) l) with (forallb is_same l)
    by (apply forallb_ext'; intros []; reflexivity).
  replace (forallb (fun x => le_same (opposite x)) l) with (forallb ge_same l)
    by (apply forallb_ext'; intros []; reflexivity).
  replace (forallb (fun x => ge_same (opposite x)) l) with (forallb le_same l)
    by (apply forallb_ext'; intros []; reflexivity).
  destruct l as [|x xs]; [congruence|]. cbn [map negb andb].
  destruct (forallb is_same (x :: xs)) eqn:Es; [reflexivity|].
  destruct (forallb le_same (x :: xs)) eqn:El; destruct (forallb ge_same (x :: xs)) eqn:Eg; try reflexivity.
  (* both le and ge: then all SAME, contradiction *)
  exfalso. assert (forallb is_same (x :: xs) = true); [|congruence].
  rewrite forallb_forall in *. intros y Hy. specialize (El y Hy). specialize (Eg y Hy). destruct y; auto.
Qed.

Lemma count2_flip f l1 l2 : count2 f l1 l2 = count2 (fun x y => f y x) l2 l1.
Proof. revert l2; induction l1 as [|x xs IH]; intros [|y ys]; simpl; auto. Qed.

Lemma dep_lt_asym a b : dep_lt a b = true -> dep_lt b a = false.
Proof.
  unfold dep_lt. intros H.
  assert (Hc : length (any_flags a) = length (any_flags b) /\
               count2 (fun x y => y && negb x) (any_flags a) (any_flags b) <> 0 /\
               count2 (fun x y => x && negb y) (any_flags a) (any_flags b) = 0).
  { destruct a; try discriminate;
      (destruct (Nat.eqb (length _) (length _)) eqn:E; [|discriminate];
       apply andb_true_iff in H; destruct H as [H1 H2];
       apply Nat.eqb_eq in E; apply Nat.eqb_eq in H2; apply negb_true_iff in H1; apply Nat.eqb_neq in H1; auto). }
  destruct Hc as (Hl & Hp2 & Hp1).
  destruct b; auto;
    (rewrite <- Hl, Nat.eqb_refl;
     rewrite (count2_flip (fun x y => y && negb x) (any_flags _) (any_flags a));
     rewrite Hp1; reflexivity).
Qed.

Lemma msym_all2_eq : forall l1 l2,
  (fix all2 (l1 l2 : list ty) {struct l1} : bool :=
     match l1, l2 with
     | x :: xs, y :: ys => (ty_eqb x y || msym_ne x y) && all2 xs ys
     | _, _ => true
     end) l1 l2 = all2b msym l1 l2.
Proof. induction l1 as [|x xs IH]; intros [|y ys]; simpl; try reflexivity. now rewrite IH. Qed.

Section Hier.
  Variable sub : nat -> nat -> bool.
  Variable hasm : nat -> nat -> bool.
  Variable chk : nat -> nat -> bool.
  Variable sub_fresh : nat -> bool.

  Notation tord := (tord sub hasm chk sub_fresh).
  Notation subck := (subck sub hasm chk sub_fresh).
  Notation tord_body := (tord_body sub hasm chk sub_fresh).
  Notation issub := (issub sub hasm chk sub_fresh).

  Definition cls_order (c d : nat) : order :=
    if Nat.eqb c d then SAME
    else if sub c d && sub d c then SAME else if sub c d then LESS else if sub d c then MORE else NONE.

  Lemma tord_cls n c d : tord (S n) (Cls c) (Cls d) = Some (cls_order c d).
  Proof. simpl. unfold tord_body, cls_order. simpl. destruct (Nat.eqb c d); reflexivity. Qed.

  Lemma tord_S n : tord (S n) = tord_body (tord n) (subck n).
  Proof. reflexivity. Qed.
  Lemma subck_S n : subck (S n) = subck_body sub hasm chk sub_fresh (subck n).
  Proof. reflexivity. Qed.

  (* ---- reflexivity ---- *)
  Lemma tord_refl n t : tord (S n) t t = Some SAME.
  Proof. simpl. unfold tord_body. now rewrite ty_eqb_refl. Qed.

  (* ---- hooks answer exactly on [answers] ---- *)
  Lemma dep_order_answers to s t o : dep_order to s t o <> Some None.
  Proof.
    unfold dep_order. destruct (is_dep o).
    - destruct (to (dep_bound t) (dep_bound o)) as [[]|]; discriminate.
    - destruct (s o (dep_bound t)) as [[|]|]; try discriminate. destruct (s (dep_bound t) o) as [[|]|]; discriminate.
  Qed.

  Lemma hook_answers_some to s t o q : hook_order to s t o = Some (Some q) -> answers t o = true.
  Proof. destruct t; simpl; try discriminate; auto. Qed.

  Lemma hook_answers_none to s t o : hook_order to s t o = Some None -> answers t o = false.
  Proof.
    destruct t; cbn [hook_order answers]; auto; try (intros H; exfalso; exact (dep_order_answers _ _ _ _ H)).
    - destruct (omapM _ ts); discriminate.
    - destruct (omapM _ ts); discriminate.
    - destruct (ty_eqb o (Cls c)); [discriminate|]. destruct (to (Cls c) o); discriminate.
    - destruct o; try (intros H; exfalso; exact (dep_order_answers _ _ _ _ H)).
      destruct (Nat.eqb _ _); [|discriminate]. destruct (omapM2 to ts ts0); discriminate.
  Qed.

  Definition is_dep3 (t : ty) : bool := is_dep t.
  Definition both_prod (t o : ty) : bool := match t, o with Prod _ _, Prod _ _ => true | _, _ => false end.

  Lemma hook_dep3 to s t o :
    is_dep3 t = true -> both_prod t o = false ->
    hook_order to s t o = dep_order to s t o.
  Proof. destruct t; try discriminate; intros _ Hb; cbn [hook_order]; try reflexivity. destruct o; try reflexivity. discriminate. Qed.

  Lemma dep_order_dep to s t o :
    is_dep o = true ->
    dep_order to s t o =
      match to (dep_bound t) (dep_bound o) with
      | None => None
      | Some SAME => Some (Some (if dep_lt t o then LESS else if dep_lt o t then MORE else NONE))
      | Some r => Some (Some r)
      end.
  Proof. intros Ho. unfold dep_order. now rewrite Ho. Qed.

  Lemma is_dep3_dep t : is_dep3 t = true -> is_dep t = true.
  Proof. auto. Qed.

  (* ---- class fragment ---- *)
  Lemma cls_order_opp c d : cls_order d c = opposite (cls_order c d).
  Proof.
    unfold cls_order. rewrite (Nat.eqb_sym d c). destruct (Nat.eqb c d); [reflexivity|].
    destruct (sub c d), (sub d c); reflexivity.
  Qed.

  Definition fixup (o : order) : order := match o with SAME => LESS | r => r end.

  (* a generic alias on the left against a non-alias whose hook does not answer *)
  Lemma tord_gen_l n o a X r :
    is_gen X = false -> answers X (Gen o a) = false ->
    tord n (Gen o a) X = Some r -> exists q, tord n (Cls o) X = Some q /\ r = fixup q.
  Proof.
    intros HX HA H. destruct n as [|m]; [discriminate|].
    simpl in H. unfold tord_body in H.
    assert (Hne : ty_eqb (Gen o a) X = false) by (destruct X; try reflexivity; discriminate).
    rewrite Hne in H. cbn [hook_order] in H.
    destruct (hook_order (tord m) (subck m) X (Gen o a)) as [[q|]|] eqn:E; try discriminate.
    { apply hook_answers_some in E. congruence. }
    destruct X; try discriminate HX;
      (destruct (tord m (Cls o) _) as [q|] eqn:Eq; [|discriminate];
       exists q; split; [apply tord_mono; exact Eq | destruct q; inversion H; reflexivity]).
  Qed.

  (* ---- members of unions / intersections, bounds of dependent types, generic aliases ---- *)
  Lemma omapM_In {X Y} (f : X -> option Y) l rs x y :
    omapM f l = Some rs -> In x l -> f x = Some y -> In y rs.
  Proof.
    revert rs. induction l as [|a l IH]; intros rs H Hin Hf; [destruct Hin|].
    simpl in H. destruct (f a) as [b|] eqn:Ea; [|discriminate].
    destruct (omapM f l) as [bs|] eqn:El; [|discriminate]. injection H as <-.
    destruct Hin as [->|Hin]; [left; congruence | right; eauto].
  Qed.

  Lemma filter_nonnone_In (rs : list order) r :
    In r rs -> r <> NONE -> In r (filter (fun r => negb (order_eqb r NONE)) rs).
  Proof. intros Hin Hn. apply filter_In. split; auto. destruct r; auto; congruence. Qed.

  Theorem tord_union_member n ts t r :
    In t ts -> ty_eqb (Uni ts) t = false -> tord (S (S n)) (Uni ts) t = Some r -> r = MORE.
  Proof.
    intros Hin Hne H. rewrite tord_S in H. unfold tord_body in H. rewrite Hne in H.
    cbn [hook_order] in H.
    destruct (omapM (fun x => tord (S n) x t) ts) as [rs|] eqn:E; [|discriminate].
    assert (Hs : In SAME rs).
    { eapply omapM_In; [exact E|exact Hin|]. apply tord_refl. }
    pose proof (filter_nonnone_In _ _ Hs ltac:(discriminate)) as Hf.
    destruct (filter _ rs) as [|a cmp] eqn:Ef; [destruct Hf|].
    assert (He : existsb ge_same (a :: cmp) = true) by (apply existsb_exists; exists SAME; auto).
    rewrite He in H. now injection H as <-.
  Qed.

  Theorem tord_inter_member n ts t r :
    In t ts -> ty_eqb (Int ts) t = false -> tord (S (S n)) (Int ts) t = Some r -> r = LESS.
  Proof.
    intros Hin Hne H. rewrite tord_S in H. unfold tord_body in H. rewrite Hne in H.
    cbn [hook_order] in H.
    destruct (omapM (fun x => tord (S n) x t) ts) as [rs|] eqn:E; [|discriminate].
    assert (Hs : In SAME rs).
    { eapply omapM_In; [exact E|exact Hin|]. apply tord_refl. }
    pose proof (filter_nonnone_In _ _ Hs ltac:(discriminate)) as Hf.
    destruct (filter _ rs) as [|a cmp] eqn:Ef; [destruct Hf|].
    assert (He : existsb le_same (a :: cmp) = true) by (apply existsb_exists; exists SAME; auto).
    rewrite He in H. now injection H as <-.
  Qed.

  (* every value-dependent type (Literal, Dependent, the element checks, tuple[...] since the repair of KF-24) is strictly
     below its bound, when the bound is not itself dependent *)
  Theorem tord_dep_bound n t r :
    is_dep3 t = true -> is_dep (dep_bound t) = false ->
    tord (S (S n)) t (dep_bound t) = Some r -> r = LESS.
  Proof.
    intros D3 Db H. rewrite tord_S in H. unfold tord_body in H.
    assert (Hne : ty_eqb t (dep_bound t) = false).
    { apply ty_eqb_neq. intros E. rewrite <- E in Db. rewrite (is_dep3_dep _ D3) in Db. discriminate. }
    rewrite Hne in H.
    assert (Hh : hook_order (tord (S n)) (subck (S n)) t (dep_bound t) = Some (Some LESS)).
    { rewrite hook_dep3; [|exact D3|destruct t; try discriminate D3; try reflexivity; simpl in *; destruct t; try reflexivity; discriminate].
      unfold dep_order. rewrite Db. rewrite subck_S. unfold subck_body. rewrite ty_eqb_refl. reflexivity. }
    rewrite Hh in H. now injection H as <-.
  Qed.

  (* ... and more specific than every class comparable with that bound: its subclasses and its superclasses
     ("Dependent is considered more specific than the bound and any of the bound's subclasses", docs/dependent.md) *)
  Lemma subck_cls_raw n c d : subck (S n) (Cls c) (Cls d) = Some (Nat.eqb c d || sub c d).
  Proof.
    rewrite subck_S. unfold subck_body. cbn [ty_eqb supck issub_cls].
    destruct (Nat.eqb c d); reflexivity.
  Qed.

  Theorem tord_dep_over_class n t b c :
    is_dep3 t = true -> dep_bound t = Cls b -> (sub c b = true \/ sub b c = true) ->
    tord (S (S n)) t (Cls c) = Some LESS /\ tord (S (S n)) (Cls c) t = Some MORE.
  Proof.
    intros D3 Hb Hs.
    assert (Hne : ty_eqb t (Cls c) = false) by (destruct t; try discriminate D3; reflexivity).
    assert (Hne' : ty_eqb (Cls c) t = false) by (destruct t; try discriminate D3; reflexivity).
    assert (Hh : hook_order (tord (S n)) (subck (S n)) t (Cls c) = Some (Some LESS)).
    { rewrite hook_dep3; [|exact D3|destruct t; reflexivity].
      unfold dep_order. cbn [is_dep]. rewrite Hb, !subck_cls_raw.
      destruct Hs as [Hs|Hs]; rewrite Hs, orb_true_r; [reflexivity|].
      destruct (Nat.eqb c b || sub c b); reflexivity. }
    split.
    - rewrite tord_S. unfold tord_body. rewrite Hne, Hh. reflexivity.
    - rewrite tord_S. unfold tord_body. rewrite Hne'. cbn [hook_order]. rewrite Hh. reflexivity.
  Qed.

  (* a parametrised generic is strictly below its origin; two aliases of one origin compare argument-wise *)
  Theorem tord_gen_origin n o a : tord (S (S n)) (Gen o a) (Cls o) = Some LESS.
  Proof.
    rewrite tord_S. unfold tord_body. cbn [ty_eqb hook_order]. rewrite tord_refl. reflexivity.
  Qed.

  Theorem tord_gen_args n o a1 a2 :
    a1 <> [] -> length a1 = length a2 -> ty_eqb (Gen o a1) (Gen o a2) = false ->
    tord (S (S n)) (Gen o a1) (Gen o a2) = omap merge (omapM2 (tord (S n)) a1 a2).
  Proof.
    intros Hne Hl He. rewrite tord_S. unfold tord_body. rewrite He. cbn [hook_order]. rewrite tord_refl.
    destruct a1 as [|x xs]; [congruence|]. destruct a2 as [|y ys]; [discriminate|].
    rewrite Hl, Nat.eqb_refl. reflexivity.
  Qed.

  Hypothesis sub_antisym : forall c d, sub c d = true -> sub d c = true -> c = d.

  Lemma cls_order_same c d : cls_order c d = SAME -> c = d.
  Proof.
    unfold cls_order. destruct (Nat.eqb c d) eqn:E; [intros _; now apply Nat.eqb_eq|].
    destruct (sub c d) eqn:E1, (sub d c) eqn:E2; simpl; try discriminate. intros _. auto.
  Qed.

  Lemma cls_order_less c d : cls_order c d = LESS <-> (sub c d = true /\ c <> d).
  Proof.
    unfold cls_order. destruct (Nat.eqb c d) eqn:E.
    - apply Nat.eqb_eq in E. split; [discriminate | intros [_ H]; contradiction].
    - apply Nat.eqb_neq in E. destruct (sub c d) eqn:E1, (sub d c) eqn:E2; simpl; split; try discriminate; auto;
        try (intros [H _]; discriminate).
      intros _. exfalso. apply E. auto.
  Qed.

  Lemma cls_order_trans (sub_trans : forall a b c, sub a b = true -> sub b c = true -> sub a c = true) a b c :
    cls_order a b = LESS -> cls_order b c = LESS -> cls_order a c = LESS.
  Proof.
    rewrite !cls_order_less. intros [H1 N1] [H2 N2]. split; [eauto|].
    intros ->. apply N1. apply sub_antisym; auto.
  Qed.

  Lemma omapM2_mirror n :
    (forall t1 t2 r1 r2, msym t1 t2 = true -> tord n t1 t2 = Some r1 -> tord n t2 t1 = Some r2 -> r2 = opposite r1) ->
    forall a1 a2 rs1 rs2, all2b msym a1 a2 = true ->
      omapM2 (tord n) a1 a2 = Some rs1 -> omapM2 (tord n) a2 a1 = Some rs2 -> rs2 = map opposite rs1.
  Proof.
    intros IH. induction a1 as [|x xs IHl]; intros [|y ys] rs1 rs2 Hm H1 H2; simpl in *;
      try (inversion H1; inversion H2; reflexivity).
    apply andb_true_iff in Hm. destruct Hm as [Hxy Hrest].
    destruct (tord n x y) as [q1|] eqn:E1; try discriminate.
    destruct (tord n y x) as [q2|] eqn:E2; try discriminate.
    destruct (omapM2 (tord n) xs ys) as [l1|] eqn:E3; try discriminate.
    destruct (omapM2 (tord n) ys xs) as [l2|] eqn:E4; try discriminate.
    simpl in *. inversion H1; inversion H2; subst.
    rewrite (IH _ _ _ _ Hxy E1 E2), (IHl _ _ _ Hrest E3 E4). reflexivity.
  Qed.

  Lemma omapM2_length {X Y} (f : X -> X -> option Y) l1 l2 rs :
    omapM2 f l1 l2 = Some rs -> length l1 = length l2 -> length rs = length l1.
  Proof.
    revert l2 rs. induction l1 as [|x xs IH]; intros [|y ys] rs H L; simpl in *; try discriminate; inversion H; auto.
    destruct (f x y); try discriminate. destruct (omapM2 f xs ys) eqn:E; try discriminate.
    simpl in *. inversion H1; subst. simpl. f_equal. eapply IH; eauto.
  Qed.

  Lemma hook_dep_mirror n :
    (forall t1 t2 r1 r2, msym t1 t2 = true -> tord n t1 t2 = Some r1 -> tord n t2 t1 = Some r2 -> r2 = opposite r1) ->
    forall t1 t2 q1 q2, is_dep3 t1 = true -> is_dep3 t2 = true -> both_prod t1 t2 = false ->
      msym (dep_bound t1) (dep_bound t2) = true ->
      hook_order (tord n) (subck n) t1 t2 = Some (Some q1) ->
      hook_order (tord n) (subck n) t2 t1 = Some (Some q2) -> q2 = opposite q1.
  Proof.
    intros IH t1 t2 q1 q2 D1 D2 Hbp Hm E12 E21.
    assert (Hbp' : both_prod t2 t1 = false) by (destruct t1, t2; auto).
    rewrite (hook_dep3 _ _ _ _ D1 Hbp), (dep_order_dep _ _ _ _ D2) in E12.
    rewrite (hook_dep3 _ _ _ _ D2 Hbp'), (dep_order_dep _ _ _ _ D1) in E21.
    destruct (tord n (dep_bound t1) (dep_bound t2)) as [o12|] eqn:Eb12; [|discriminate E12].
    destruct (tord n (dep_bound t2) (dep_bound t1)) as [o21|] eqn:Eb21; [|discriminate E21].
    assert (Ho : o21 = opposite o12) by (eapply IH; eauto). subst o21.
    destruct o12; cbn [opposite] in *; injection E12 as <-; injection E21 as <-; try reflexivity.
    destruct (dep_lt t1 t2) eqn:L1; destruct (dep_lt t2 t1) eqn:L2; try reflexivity.
    rewrite (dep_lt_asym _ _ L1) in L2; discriminate.
  Qed.

  Theorem tord_mirror : forall n t1 t2 r1 r2,
    msym t1 t2 = true -> tord n t1 t2 = Some r1 -> tord n t2 t1 = Some r2 -> r2 = opposite r1.
  Proof.
    induction n as [|n IH]; intros t1 t2 r1 r2 Hm H1 H2; [discriminate|].
    pose proof H1 as H1'. pose proof H2 as H2'.
    simpl in H1, H2. unfold tord_body in H1, H2.
    rewrite (ty_eqb_sym t2 t1) in H2.
    destruct (ty_eqb t1 t2) eqn:Eeq; [inversion H1; inversion H2; reflexivity|].
    unfold msym in Hm. rewrite Eeq in Hm. simpl in Hm.
    destruct (hook_order (tord n) (subck n) t1 t2) as [[q1|]|] eqn:E12; try discriminate;
      destruct (hook_order (tord n) (subck n) t2 t1) as [[q2|]|] eqn:E21; try discriminate.
    - (* both hooks answer *)
      destruct t1; destruct t2; try (simpl in E12; discriminate E12); try (simpl in E21; discriminate E21);
        simpl in Hm; try discriminate Hm;
        try (injection H1 as <-; injection H2 as <-;
             eapply (hook_dep_mirror n IH); [| | | |exact E12|exact E21]; try reflexivity; exact Hm).
      (* Prod, Prod *)
      rewrite msym_all2_eq in Hm. cbn [hook_order] in E12, E21.
      rewrite (Nat.eqb_sym (length ts0) (length ts)) in E21.
      destruct (Nat.eqb (length ts) (length ts0)) eqn:El.
      + apply andb_true_iff in Hm. destruct Hm as [Hnn Hall].
        destruct (omapM2 (tord n) ts ts0) as [rs1|] eqn:M1; [|discriminate E12].
        destruct (omapM2 (tord n) ts0 ts) as [rs2|] eqn:M2; [|discriminate E21].
        cbn [omap] in E12, E21. injection E12 as <-. injection E21 as <-.
        injection H1 as <-. injection H2 as <-.
        rewrite (omapM2_mirror n IH _ _ _ _ Hall M1 M2).
        apply merge_opposite.
        apply Nat.eqb_eq in El. pose proof (omapM2_length _ _ _ _ M1 El) as Hl.
        destruct ts; [discriminate Hnn|]. destruct rs1; [discriminate Hl|discriminate].
      + injection E12 as <-. injection E21 as <-. injection H1 as <-. injection H2 as <-. reflexivity.
    - inversion H1; inversion H2; subst; reflexivity.
    - inversion H1; inversion H2; subst. now rewrite opposite_involutive.
    - (* neither hook answers *)
      pose proof (hook_answers_none _ _ _ _ E12) as A12.
      pose proof (hook_answers_none _ _ _ _ E21) as A21.
      destruct (is_gen t1) eqn:G1; destruct (is_gen t2) eqn:G2.
      + (* Gen, Gen *)
        destruct t1 as [|o1 a1| | | | | | | | | |]; try discriminate G1.
        destruct t2 as [|o2 a2| | | | | | | | | |]; try discriminate G2.
        destruct n as [|m]; [discriminate H1|].
        rewrite tord_cls in H1, H2. rewrite (cls_order_opp o1 o2) in H2.
        destruct (cls_order o1 o2) eqn:Eo; cbn [opposite] in H2;
          try (injection H1 as <-; injection H2 as <-; reflexivity).
        apply cls_order_same in Eo. subst o2.
        cbn [msym_ne] in Hm. rewrite Nat.eqb_refl, msym_all2_eq in Hm.
        rewrite (Nat.eqb_sym (length a2) (length a1)) in H2.
        destruct a1 as [|x xs]; destruct a2 as [|y ys];
          try (injection H1 as <-; injection H2 as <-; reflexivity).
        * (* both empty: the two aliases would be equal *)
          simpl in Eeq. rewrite Nat.eqb_refl in Eeq. discriminate.
        * destruct (Nat.eqb (length (x :: xs)) (length (y :: ys))) eqn:El.
          -- destruct (omapM2 (tord (S m)) (x :: xs) (y :: ys)) as [rs1|] eqn:M1; [|discriminate H1].
             destruct (omapM2 (tord (S m)) (y :: ys) (x :: xs)) as [rs2|] eqn:M2; [|discriminate H2].
             cbn [omap] in H1, H2. injection H1 as <-. injection H2 as <-.
             rewrite (omapM2_mirror (S m) IH _ _ _ _ Hm M1 M2).
             apply merge_opposite.
             apply Nat.eqb_eq in El. pose proof (omapM2_length _ _ _ _ M1 El) as Hl.
             destruct rs1; [discriminate Hl|discriminate].
          -- injection H1 as <-; injection H2 as <-; reflexivity.
      + (* Gen, non-Gen *)
        destruct t1 as [|o1 a1| | | | | | | | | |]; try discriminate G1.
        assert (H2s : omap opposite (tord n (Gen o1 a1) t2) = Some r2)
          by (destruct t2; try discriminate G2; exact H2).
        assert (H1s : match tord n (Cls o1) t2 with Some SAME => Some LESS | r => r end = Some r1)
          by (destruct t2; try discriminate G2; exact H1).
        destruct (tord n (Gen o1 a1) t2) as [r|] eqn:Esw; [|discriminate H2s].
        destruct (tord_gen_l _ _ _ _ _ G2 A21 Esw) as (q & Hq & ->).
        rewrite Hq in H1s. injection H2s as <-.
        destruct q; injection H1s as <-; reflexivity.
      + (* non-Gen, Gen *)
        destruct t2 as [|o2 a2| | | | | | | | | |]; try discriminate G2.
        assert (H1s : omap opposite (tord n (Gen o2 a2) t1) = Some r1)
          by (destruct t1; try discriminate G1; exact H1).
        assert (H2s : match tord n (Cls o2) t1 with Some SAME => Some LESS | r => r end = Some r2)
          by (destruct t1; try discriminate G1; exact H2).
        destruct (tord n (Gen o2 a2) t1) as [r|] eqn:Esw; [|discriminate H1s].
        destruct (tord_gen_l _ _ _ _ _ G1 A12 Esw) as (q & Hq & ->).
        rewrite Hq in H2s. injection H1s as <-.
        destruct q; injection H2s as <-; reflexivity.
      + (* neither is an alias: issubclass both ways *)
        assert (H1s : match issub (subck n) t1 t2, issub (subck n) t2 t1 with
                      | Some sx, Some sy => Some (if sx && sy then SAME else if sx then LESS else if sy then MORE else NONE)
                      | _, _ => None end = Some r1)
          by (destruct t1; try discriminate G1; destruct t2; try discriminate G2; exact H1).
        assert (H2s : match issub (subck n) t2 t1, issub (subck n) t1 t2 with
                      | Some sx, Some sy => Some (if sx && sy then SAME else if sx then LESS else if sy then MORE else NONE)
                      | _, _ => None end = Some r2)
          by (destruct t1; try discriminate G1; destruct t2; try discriminate G2; exact H2).
        destruct (issub (subck n) t1 t2) as [sx|]; [|discriminate H1s].
        destruct (issub (subck n) t2 t1) as [sy|]; [|discriminate H1s].
        injection H1s as <-. injection H2s as <-. destruct sx, sy; reflexivity.
  Qed.
End Hier.
