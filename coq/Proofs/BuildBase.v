(* BuildBase.v -- basic facts about the Build machine: association lists, tables, the write list of resolve. *)
From Coq Require Import List Bool Arith Lia.
Import ListNotations.
From OvldV Require Import Model.BuildM.

Lemma ckey_eqb_eq : forall a b, ckey_eqb a b = true <-> a = b.
Proof.
  intros [a1 a2] [b1 b2]; unfold ckey_eqb; cbn. rewrite andb_true_iff, !Nat.eqb_eq.
  split; [intros [-> ->]; reflexivity | intros H; injection H as -> ->; auto].
Qed.
Lemma ckey_eqb_refl : forall a, ckey_eqb a a = true.
Proof. intros; apply ckey_eqb_eq; reflexivity. Qed.
Lemma ckey_eqb_neq : forall a b, a <> b -> ckey_eqb a b = false.
Proof. intros a b H; destruct (ckey_eqb a b) eqn:E; auto. apply ckey_eqb_eq in E; contradiction. Qed.

Section AssocFacts.
  Context {K V : Type} (eqb : K -> K -> bool).
  Hypothesis eqb_eq : forall a b, eqb a b = true <-> a = b.

  Lemma eqb_rfl : forall a, eqb a a = true. Proof. intros; apply eqb_eq; reflexivity. Qed.
  Lemma eqb_nq : forall a b, a <> b -> eqb a b = false.
  Proof. intros a b H; destruct (eqb a b) eqn:E; auto. apply eqb_eq in E; contradiction. Qed.

  Lemma alookup_aupd_eq : forall k (v : V) l, alookup eqb k (aupd eqb k v l) = Some v.
  Proof.
    intros k v l; induction l as [|[k' v'] r IH]; cbn.
    - rewrite eqb_rfl; reflexivity.
    - destruct (eqb k k') eqn:E; cbn; rewrite E; auto.
  Qed.

  Lemma alookup_aupd_neq : forall k k' (v : V) l, k' <> k -> alookup eqb k' (aupd eqb k v l) = alookup eqb k' l.
  Proof.
    intros k k' v l H; induction l as [|[k2 v2] r IH]; cbn.
    - rewrite eqb_nq; auto.
    - destruct (eqb k k2) eqn:E; cbn.
      + apply eqb_eq in E; subst k2. rewrite eqb_nq; auto.
      + destruct (eqb k' k2); auto.
  Qed.

  Lemma aupd_same : forall k (v : V) l, alookup eqb k l = Some v -> aupd eqb k v l = l.
  Proof.
    intros k v l; induction l as [|[k2 v2] r IH]; cbn; intros H; [discriminate|].
    destruct (eqb k k2) eqn:E.
    - injection H as ->; reflexivity.
    - rewrite IH; auto.
  Qed.
End AssocFacts.

Definition dget (T : table) (c : ckey) := alookup ckey_eqb c (t_dict T).
Definition eget (T : table) (c : ckey) := alookup ckey_eqb c (t_errs T).
Definition aget (T : table) (k : key) := alookup Nat.eqb k (t_all T).

Lemma nth_set_nth_eq : forall {X} (l : list X) n x d, n < length l -> nth n (set_nth n x l) d = x.
Proof. induction l; intros [|n] x d H; cbn in *; try lia; auto. apply IHl; lia. Qed.
Lemma nth_set_nth_neq : forall {X} (l : list X) n m x d, n <> m -> nth m (set_nth n x l) d = nth m l d.
Proof. induction l; intros [|n] [|m] x d H; cbn in *; try lia; auto. Qed.
Lemma length_set_nth : forall {X} (l : list X) n x, length (set_nth n x l) = length l.
Proof. induction l; intros [|n] x; cbn; auto. Qed.
Lemma set_nth_same : forall {X} (l : list X) n d, set_nth n (nth n l d) l = l.
Proof. induction l; intros [|n] d; cbn; auto. f_equal; apply IHl. Qed.
Lemma nth_error_set_nth_eq : forall {X} (l : list X) n x y, nth_error l n = Some y -> nth_error (set_nth n x l) n = Some x.
Proof. induction l; intros [|n] x y H; cbn in *; try discriminate; eauto. Qed.
Lemma nth_error_set_nth_neq : forall {X} (l : list X) n m x, n <> m -> nth_error (set_nth n x l) m = nth_error l m.
Proof. induction l; intros [|n] [|m] x H; cbn in *; try lia; auto. Qed.

Lemma tbl_set_eq : forall s t T, t < length (s_tables s) -> tbl (set_tbl s t T) t = T.
Proof. intros; unfold tbl, set_tbl; cbn. apply nth_set_nth_eq; auto. Qed.
Lemma tbl_set_neq : forall s t t' T, t <> t' -> tbl (set_tbl s t T) t' = tbl s t'.
Proof. intros; unfold tbl, set_tbl; cbn. apply nth_set_nth_neq; auto. Qed.
Lemma set_tbl_same : forall s t, set_tbl s t (tbl s t) = s.
Proof. intros [e c m cn ts d] t; unfold set_tbl, tbl; cbn. f_equal. apply set_nth_same. Qed.

(* ---- the write list ---- *)
Definition wkey (w : wr) : ckey := match w with WDict c _ => c | WErr c _ => c end.
Definition present (T : table) (w : wr) : Prop :=
  match w with WDict c h => dget T c = Some h | WErr c e => eget T c = Some e end.

Lemma wkeys_in : forall k rs c w, In w (writes_from k c rs) ->
  wkey w = (c, k) \/ exists y, In y (handlers rs) /\ wkey w = (S y, k).
Proof.
  intros k rs; induction rs as [|[h|hs] rest IH]; intros c w H; cbn in H; [contradiction| |].
  - destruct H as [<-|H]; [left; reflexivity|].
    right. apply IH in H as [H|[y [Hy H]]].
    + exists h; split; [left; reflexivity|exact H].
    + exists y; split; [right; exact Hy|exact H].
  - destruct H as [<-|[]]; left; reflexivity.
Qed.

Lemma writes_keys_nodup : forall k rs c, NoDup (handlers rs) ->
  (forall y, In y (handlers rs) -> c <> S y) -> NoDup (map wkey (writes_from k c rs)).
Proof.
  intros k rs; induction rs as [|[h|hs] rest IH]; intros c ND Hc; cbn; [constructor| |].
  - cbn in ND. inversion ND as [|? ? Hn ND']; subst.
    constructor.
    + intros Hin. apply in_map_iff in Hin as [w [Hk Hw]].
      apply wkeys_in in Hw as [Hw|[y [Hy Hw]]]; rewrite Hw in Hk.
      * injection Hk as Hk. apply (Hc h); [left; reflexivity|auto].
      * injection Hk as Hk. apply (Hc y); [right; exact Hy|auto].
    + apply IH; auto. intros y Hy E; injection E as ->; contradiction.
  - constructor; [intros []|constructor].
Qed.

Lemma writes_snd : forall k rs c w, In w (writes_from k c rs) -> snd (wkey w) = k.
Proof. intros k rs c w H; apply wkeys_in in H as [H|[y [_ H]]]; rewrite H; reflexivity. Qed.

Lemma handlers_app : forall a b, handlers (a ++ b) = handlers a ++ handlers b.
Proof. induction a as [|[h|hs] a IH]; intros b; cbn; auto. - rewrite IH; auto. - rewrite IH, app_assoc; auto. Qed.

(* all ranks of [pre] are single handlers whose body delegates *)
Definition all_next (meth : label -> minfo) (pre : list rank) : Prop :=
  forall r, In r pre -> exists h, r = ROne h /\ m_body (meth h) = BNext.

(* the write whose key is (S h, k) where h sits right before [post] *)
Lemma writes_next : forall k post pre c h w,
  NoDup (handlers (pre ++ ROne h :: post)) -> (forall r, In r pre -> exists h', r = ROne h') -> c <> S h ->
  In w (writes_from k c (pre ++ ROne h :: post)) -> wkey w = (S h, k) ->
  match post with
  | [] => False
  | ROne h2 :: _ => w = WDict (S h, k) h2
  | RAmb _ :: _ => w = WErr (S h, k) EAmbig
  end.
Proof.
  intros k post pre; induction pre as [|r pre IH]; intros c h w ND Hp Hc Hin Hk.
  - cbn in Hin, ND. inversion ND as [|? ? Hn ND']; subst.
    destruct Hin as [<-|Hin]; [cbn in Hk; injection Hk as Hk; contradiction|].
    destruct post as [|[h2|hs] p2]; cbn in Hin; [contradiction| |].
    + destruct Hin as [<-|Hin]; [reflexivity|].
      exfalso. apply wkeys_in in Hin as [Hw|[y [Hy Hw]]]; rewrite Hw in Hk; injection Hk as Hk.
      * subst h2. apply Hn; left; reflexivity.
      * subst y. apply Hn; right; exact Hy.
    + destruct Hin as [<-|[]]; reflexivity.
  - destruct (Hp r (or_introl eq_refl)) as [h0 ->]. cbn in Hin, ND.
    inversion ND as [|? ? Hn ND']; subst.
    destruct Hin as [<-|Hin]; [cbn in Hk; injection Hk as Hk; contradiction|].
    apply (IH (S h0) h w); auto.
    + intros r Hr; apply Hp; right; exact Hr.
    + intros E; injection E as ->. apply Hn. rewrite handlers_app. apply in_or_app; right; left; reflexivity.
Qed.

Lemma writes_suffix_incl : forall k post pre c h,
  (forall r, In r pre -> exists h', r = ROne h') ->
  incl (writes_from k (S h) post) (writes_from k c (pre ++ ROne h :: post)).
Proof.
  intros k post pre; induction pre as [|r pre IH]; intros c h Hp w Hw.
  - cbn. right; exact Hw.
  - destruct (Hp r (or_introl eq_refl)) as [h0 ->]. cbn. right. apply IH; auto.
    intros r Hr; apply Hp; right; exact Hr.
Qed.

Lemma nodup_map_inj : forall {X Y} (f : X -> Y) l a b, NoDup (map f l) -> In a l -> In b l -> f a = f b -> a = b.
Proof.
  intros X Y f l; induction l as [|x l IH]; intros a b ND Ha Hb E; [contradiction|].
  cbn in ND; inversion ND as [|? ? Hn ND']; subst.
  destruct Ha as [->|Ha], Hb as [->|Hb]; auto.
  - exfalso; apply Hn; rewrite E; apply in_map; exact Hb.
  - exfalso; apply Hn; rewrite <- E; apply in_map; exact Ha.
Qed.

Lemma nodup_keys_split : forall (done : list wr) w ws, NoDup (map wkey (done ++ w :: ws)) ->
  forall w0, In w0 done -> wkey w0 <> wkey w.
Proof.
  intros done w ws ND w0 H0 E. rewrite map_app in ND; cbn in ND.
  apply NoDup_remove_2 in ND. apply ND. apply in_or_app; left. rewrite <- E; apply in_map; exact H0.
Qed.
