"""Run the extracted model (OCaml driver) and, for cross-checking, the same cases inside Coq (vm_compute)."""
import os, subprocess, tempfile, shutil, json
from . import VERIF, sexp

DRIVER = os.path.join(VERIF, "build", "ocaml", "driver")


def canon_ty(e):
    """canonical form of a type encoding: members of unions / intersections and the values of a Literal sorted and
    deduplicated (the library identifies them up to order since the repair of the reorder defect); applied to every
    type encoding sent to the model, so that equal library types are Leibniz-equal model terms"""
    if not isinstance(e, list) or not e or not isinstance(e[0], int):
        return e
    t = e[0]
    if t in (2, 3):
        ms = sorted({json.dumps(canon_ty(x)) for x in e[1:]})
        return [t] + [json.loads(m) for m in ms]
    if t == 8:
        vs = sorted({json.dumps(v) for v in e[2:]})
        return [8, canon_ty(e[1])] + [json.loads(v) for v in vs]
    if t == 1:
        return [1, e[1]] + [canon_ty(x) for x in e[2:]]
    if t == 9:
        return [9, e[1], canon_ty(e[2])] + e[3:]
    if t == 10:
        return [10, e[1], canon_ty(e[2])] + [canon_ty(x) for x in e[3:]]
    if t == 11:
        return [11, canon_ty(e[1])] + [canon_ty(x) for x in e[2:]]
    return e


def run_cases(cases, chunk=None, jobs=8):
    """cases: list of nested lists -> list of nested lists (same order)."""
    if not cases:
        return []
    lines = [sexp.dumps(c) for c in cases]
    if chunk is None or len(lines) <= chunk:
        out = subprocess.run([DRIVER], input="\n".join(lines) + "\n", capture_output=True, text=True)
        if out.returncode != 0:
            raise RuntimeError("model driver failed: " + out.stderr[-2000:])
        res = [sexp.loads(l) for l in out.stdout.splitlines() if l.strip()]
        if len(res) != len(cases):
            raise RuntimeError(f"model driver returned {len(res)} results for {len(cases)} cases: {out.stderr[-500:]}")
        return res
    from concurrent.futures import ThreadPoolExecutor
    parts = [cases[i:i + chunk] for i in range(0, len(cases), chunk)]
    with ThreadPoolExecutor(jobs) as ex:
        rs = list(ex.map(run_cases, parts))
    return [r for part in rs for r in part]


def run_in_coq(cases, timeout=600):
    """Evaluate [run] on the cases inside Coq with vm_compute; returns list of results (nested lists)."""
    d = tempfile.mkdtemp(prefix="coqcases_", dir=os.path.join(VERIF, "build"))
    try:
        out = []
        for i in range(0, len(cases), 200):
            part = cases[i:i + 200]
            src = ["From Coq Require Import ZArith List. Import ListNotations.",
                   "From OvldV Require Import Model.Sx Gen.RunAll.",
                   "Definition cases : list sx := ["]
            src.append(";\n".join(sexp.to_coq(c) for c in part))
            src.append("].")
            src.append("Fixpoint show (s : sx) : list Z := match s with A z => [z] | L l => ((-1000000)%Z :: flat_map show l) ++ [(-1000001)%Z] end.")
            src.append("Eval vm_compute in (map (fun c => show (run c)) cases).")
            f = os.path.join(d, f"cases{i}.v")
            open(f, "w").write("\n".join(src))
            r = subprocess.run(["coqc", "-Q", os.path.join(VERIF, "coq"), "OvldV", f], capture_output=True, text=True, timeout=timeout)
            if r.returncode != 0:
                raise RuntimeError("coqc on cases failed: " + r.stderr[-2000:])
            txt = r.stdout
            txt = txt[txt.index("=") + 1: txt.rindex(":")]
            txt = txt.replace("%Z", "").replace("\n", " ")
            # list of lists of ints
            import re
            rows = re.findall(r"\[([^\[\]]*)\]", txt)
            for row in rows:
                toks = [int(t.strip().strip("()")) for t in row.split(";") if t.strip()]
                out.append(_unshow(toks))
        return out
    finally:
        shutil.rmtree(d, ignore_errors=True)


def _unshow(toks):
    pos = 0

    def item():
        nonlocal pos
        t = toks[pos]
        if t == -1000000:
            pos += 1
            acc = []
            while toks[pos] != -1000001:
                acc.append(item())
            pos += 1
            return acc
        pos += 1
        return t

    return item()
