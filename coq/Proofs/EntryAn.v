(* EntryAn.v — invariants of the ArgumentAnalyzer model (C03): what the tables mean in terms of the signatures,
   required positions form a prefix, the four positional lists enumerate the positions in order. *)
From Coq Require Import ZArith List Bool Arith Lia.
Import ListNotations.
From OvldV Require Import Model.Entry Spec.EntrySpec Proofs.EntryLists.

(* ---------- Signature.extract, pointwise ---------- *)
Definition info_of (i : nat) (p : param) : arginfo :=
  match p_kind p with
  | PosOnly => mkArg (Some i) None (p_req p) (p_cx p)
  | PosKw => mkArg (Some i) (Some (p_name p)) (p_req p) (p_cx p)
  | KwOnly => mkArg None (Some (p_name p)) (p_req p) (p_cx p)
  end.

Lemma extract_mapi : forall ps i, extract_from i ps = mapi_from i info_of ps.
Proof.
  induction ps as [|p ps IH]; intro i; simpl; auto.
  rewrite IH. unfold info_of. destruct (p_kind p); reflexivity.
Qed.

Lemma in_extract : forall ps i a,
  In a (extract_from i ps) <-> exists j q, nth_error ps j = Some q /\ a = info_of (i + j) q.
Proof.
  induction ps as [|p ps IH]; intros i a; simpl.
  - split; [tauto|]. intros [j [q [H _]]]. destruct j; discriminate.
  - rewrite IH. split.
    + intros [H | [j [q [Hj Hq]]]].
      * exists 0, p. rewrite Nat.add_0_r. split; [reflexivity|]. subst a. unfold info_of. destruct (p_kind p); reflexivity.
      * exists (S j), q. simpl. split; auto. rewrite Hq. f_equal. lia.
    + intros [[|j] [q [Hj Hq]]]; simpl in Hj.
      * left. injection Hj as <-. rewrite Nat.add_0_r in Hq. subst a. unfold info_of. destruct (p_kind p); reflexivity.
      * right. exists j, q. split; auto. rewrite Hq. f_equal. lia.
Qed.

Lemma in_all_infos : forall sigs a,
  In a (all_infos sigs) <-> exists s j q, In s sigs /\ nth_error (m_params s) j = Some q /\ a = info_of j q.
Proof.
  intros sigs a. unfold all_infos. rewrite in_flat_map. unfold sig_arginfo. split.
  - intros [s [Hs Ha]]. apply in_extract in Ha. destruct Ha as [j [q [Hj Hq]]]. exists s, j, q. auto.
  - intros [s [j [q [Hs [Hj Hq]]]]]. exists s. split; auto. apply in_extract. exists j, q. auto.
Qed.

Lemma canonical_info : forall i q,
  canonical (info_of i q) = if is_positional q then CPos i else CName (p_name q).
Proof. intros i q. unfold info_of, is_positional. destruct (p_kind q); reflexivity. Qed.

Lemma a_req_info : forall i q, a_req (info_of i q) = p_req q.
Proof. intros i q. unfold info_of. destruct (p_kind q); reflexivity. Qed.

(* ---------- kinds_sorted: positionals first ---------- *)
Lemma kinds_sorted_kw_tail : forall ps, kinds_sorted 2 ps = true -> forallb (fun p => negb (is_positional p)) ps = true.
Proof.
  induction ps as [|p ps IH]; simpl; auto. intro H. apply andb_true_iff in H. destruct H as [H1 H2].
  unfold is_positional. destruct (p_kind p); simpl in *; try discriminate. auto.
Qed.

Lemma kinds_sorted_weaken : forall ps a b, a <= b -> kinds_sorted b ps = true -> kinds_sorted a ps = true.
Proof.
  destruct ps as [|p ps]; simpl; auto. intros a b Hab H. apply andb_true_iff in H. destruct H as [H1 H2].
  apply andb_true_iff. split; auto. apply Nat.leb_le. apply Nat.leb_le in H1. lia.
Qed.

(* in a sorted parameter list, whatever precedes a positional parameter is positional *)
Lemma sorted_pos_before : forall ps st j q, kinds_sorted st ps = true ->
  nth_error ps (S j) = Some q -> is_positional q = true ->
  exists q', nth_error ps j = Some q' /\ is_positional q' = true.
Proof.
  induction ps as [|p ps IH]; intros st j q Hs Hj Hq.
  - discriminate.
  - simpl in Hs. apply andb_true_iff in Hs. destruct Hs as [_ Hs].
    destruct j as [|j].
    + exists p. split; auto. simpl in Hj. destruct ps as [|p2 ps2]; [discriminate|]. injection Hj as ->.
      simpl in Hs. apply andb_true_iff in Hs. destruct Hs as [Hle _]. apply Nat.leb_le in Hle.
      unfold is_positional in *. destruct (p_kind p), (p_kind q); simpl in *; auto; lia.
    + simpl in Hj. simpl. eapply IH; eauto.
Qed.

Lemma sorted_split : forall ps st, kinds_sorted st ps = true ->
  ps = filter is_positional ps ++ filter (fun p => negb (is_positional p)) ps.
Proof.
  induction ps as [|p ps IH]; intros st H; simpl; auto.
  simpl in H. apply andb_true_iff in H. destruct H as [H1 H2].
  destruct (is_positional p) eqn:E; simpl.
  - f_equal. eapply IH; eauto.
  - assert (Hk : p_kind p = KwOnly) by (unfold is_positional in E; destruct (p_kind p); simpl in E; congruence).
    rewrite Hk in H2. pose proof (kinds_sorted_kw_tail ps H2) as Hall.
    rewrite (filter_none is_positional ps), (filter_all (fun q => negb (is_positional q)) ps); auto.
    + intros x Hx. rewrite forallb_forall in Hall. apply Hall; auto.
    + intros x Hx. rewrite forallb_forall in Hall. specialize (Hall x Hx). apply negb_true_iff in Hall. exact Hall.
Qed.

(* positional parameter number j of a well-formed signature is parameter number j *)
Lemma sorted_pos_nth : forall ps st j, kinds_sorted st ps = true -> j < length (filter is_positional ps) ->
  nth_error ps j = nth_error (filter is_positional ps) j.
Proof.
  intros ps st j H Hj. rewrite (sorted_split ps st H) at 1. apply nth_error_app1. exact Hj.
Qed.

Lemma sorted_nonpos_nth : forall ps st j q, kinds_sorted st ps = true -> length (filter is_positional ps) <= j ->
  nth_error ps j = Some q -> is_positional q = false.
Proof.
  intros ps st j q H Hj Hq. rewrite (sorted_split ps st H) in Hq.
  rewrite nth_error_app2 in Hq by exact Hj. apply nth_error_In in Hq. apply filter_In in Hq.
  destruct Hq as [_ Hq]. apply negb_true_iff in Hq. exact Hq.
Qed.

Definition sig_pos_at (s : msig) (p : nat) : bool :=
  match nth_error (m_params s) p with Some q => is_positional q | None => false end.
Definition sig_req_at (s : msig) (p : nat) : bool :=
  match nth_error (m_params s) p with Some q => is_positional q && p_req q | None => false end.

Lemma wf_parts : forall s, sig_wf s = true ->
  kinds_sorted 0 (m_params s) = true /\ req_prefix false (sig_pos_params s) = true
  /\ NoDup (map p_name (m_params s)).
Proof.
  intros s H. unfold sig_wf in H. apply andb_true_iff in H. destruct H as [H H3].
  apply andb_true_iff in H. destruct H as [H1 H2]. repeat split; auto.
  apply (nodupb_NoDup Nat.eqb Nat.eqb_eq). exact H3.
Qed.

Lemma sig_pos_at_lt : forall s p, sig_wf s = true -> (sig_pos_at s p = true <-> p < sig_max_pos s).
Proof.
  intros s p H. destruct (wf_parts s H) as [Hk _]. unfold sig_pos_at, sig_max_pos, sig_pos_params. split.
  - intro Hp. destruct (nth_error (m_params s) p) as [q|] eqn:E; [|discriminate].
    destruct (Nat.lt_ge_cases p (length (filter is_positional (m_params s)))) as [Hlt|Hge]; auto.
    rewrite (sorted_nonpos_nth _ _ _ _ Hk Hge E) in Hp. discriminate.
  - intro Hp. rewrite (sorted_pos_nth _ _ _ Hk Hp).
    destruct (nth_error (filter is_positional (m_params s)) p) as [q|] eqn:E.
    + apply nth_error_In in E. apply filter_In in E. tauto.
    + apply nth_error_None in E. lia.
Qed.

(* req_prefix: a required positional is preceded by required positionals only *)
Lemma req_prefix_true_all : forall ps, req_prefix true ps = true -> forallb (fun p => negb (p_req p)) ps = true.
Proof.
  induction ps as [|p ps IH]; simpl; auto. destruct (p_req p); simpl; auto; discriminate.
Qed.

Lemma req_prefix_before : forall ps j q, req_prefix false ps = true ->
  nth_error ps (S j) = Some q -> p_req q = true ->
  exists q', nth_error ps j = Some q' /\ p_req q' = true.
Proof.
  induction ps as [|p ps IH]; intros j q H Hj Hq.
  - discriminate.
  - simpl in H. destruct (p_req p) eqn:E.
    + simpl in H. destruct j as [|j].
      * exists p. auto.
      * simpl in Hj. simpl. eapply IH; eauto.
    + apply req_prefix_true_all in H. rewrite forallb_forall in H.
      simpl in Hj. apply nth_error_In in Hj. specialize (H q Hj). rewrite Hq in H. discriminate.
Qed.

Lemma sig_req_at_down : forall s p, sig_wf s = true -> sig_req_at s (S p) = true -> sig_req_at s p = true.
Proof.
  intros s p H Hp. destruct (wf_parts s H) as [Hk [Hr _]]. unfold sig_req_at in *.
  destruct (nth_error (m_params s) (S p)) as [q|] eqn:E; [|discriminate].
  apply andb_true_iff in Hp. destruct Hp as [Hq1 Hq2].
  assert (Hlt : S p < sig_max_pos s).
  { apply (sig_pos_at_lt s (S p) H). unfold sig_pos_at. rewrite E. exact Hq1. }
  unfold sig_max_pos, sig_pos_params in Hlt.
  rewrite (sorted_pos_nth _ _ _ Hk Hlt) in E.
  destruct (req_prefix_before _ _ _ Hr E Hq2) as [q' [E' Hq']].
  unfold sig_pos_params in E'. rewrite (sorted_pos_nth _ _ p Hk) by lia. rewrite E'.
  apply nth_error_In in E'. apply filter_In in E'. destruct E' as [_ E']. rewrite E', Hq'. reflexivity.
Qed.

(* ---------- counts ---------- *)
Lemma length_if_cons : forall {X} (b : bool) (x : X) l, length (if b then x :: l else l) = (if b then 1 else 0) + length l.
Proof. intros X [] x l; reflexivity. Qed.

Lemma extract_count_pos : forall ps i p,
  length (filter (fun a => canon_eqb (canonical a) (CPos p) && a_req a) (extract_from i ps))
  = if i <=? p then match nth_error ps (p - i) with
                    | Some q => if is_positional q && p_req q then 1 else 0
                    | None => 0 end
    else 0.
Proof.
  induction ps as [|q ps IH]; intros i p.
  - simpl. destruct (i <=? p); auto. destruct (p - i); reflexivity.
  - rewrite extract_mapi. cbn [mapi_from]. rewrite <- extract_mapi.
    cbn [filter]. rewrite canonical_info, a_req_info.
    rewrite length_if_cons, IH.
    destruct (Nat.lt_trichotomy i p) as [Hlt|[Heq|Hgt]].
    + replace (i <=? p) with true by (symmetry; apply Nat.leb_le; lia).
      replace (S i <=? p) with true by (symmetry; apply Nat.leb_le; lia).
      replace (p - i) with (S (p - S i)) by lia. cbn [nth_error].
      destruct (is_positional q); cbn [canon_eqb].
      * replace (i =? p) with false by (symmetry; apply Nat.eqb_neq; lia). reflexivity.
      * reflexivity.
    + subst p. rewrite Nat.leb_refl, Nat.sub_diag. cbn [nth_error].
      replace (S i <=? i) with false by (symmetry; apply Nat.leb_gt; lia).
      destruct (is_positional q); cbn [canon_eqb].
      * rewrite Nat.eqb_refl. simpl. destruct (p_req q); reflexivity.
      * reflexivity.
    + replace (i <=? p) with false by (symmetry; apply Nat.leb_gt; lia).
      replace (S i <=? p) with false by (symmetry; apply Nat.leb_gt; lia).
      destruct (is_positional q); cbn [canon_eqb].
      * replace (i =? p) with false by (symmetry; apply Nat.eqb_neq; lia). reflexivity.
      * reflexivity.
Qed.

Lemma cnt_req_pos : forall sigs p,
  cnt_req sigs (CPos p) = list_sum (map (fun s => if sig_req_at s p then 1 else 0) sigs).
Proof.
  intros sigs p. unfold cnt_req, all_infos. rewrite flat_map_filter_length.
  f_equal. apply map_ext. intro s. unfold sig_arginfo. rewrite extract_count_pos.
  simpl. rewrite Nat.sub_0_r. unfold sig_req_at. destruct (nth_error (m_params s) p); reflexivity.
Qed.

Lemma req_all_pos : forall sigs p,
  req_all sigs (CPos p) = true <-> forall s, In s sigs -> sig_req_at s p = true.
Proof.
  intros sigs p. unfold req_all, total. rewrite Nat.eqb_eq, cnt_req_pos.
  apply (sum01_eq_length (fun s => if sig_req_at s p then 1 else 0) (fun s => sig_req_at s p)).
  intros; reflexivity.
Qed.

Definition all_wf (sigs : list msig) : Prop := forallb sig_wf sigs = true.

Lemma all_wf_in : forall sigs s, all_wf sigs -> In s sigs -> sig_wf s = true.
Proof. intros sigs s H Hs. unfold all_wf in H. rewrite forallb_forall in H. auto. Qed.

Lemma req_all_down : forall sigs p, all_wf sigs -> req_all sigs (CPos (S p)) = true -> req_all sigs (CPos p) = true.
Proof.
  intros sigs p Hwf H. rewrite req_all_pos in *. intros s Hs.
  apply sig_req_at_down; auto. eapply all_wf_in; eauto.
Qed.

Lemma npos_lt : forall sigs p, p < npos sigs <-> exists s, In s sigs /\ p < sig_max_pos s.
Proof.
  intros sigs p. unfold npos. split.
  - intro H. destruct sigs as [|s0 sigs']; [simpl in H; lia|].
    assert (Hin : In (list_max (map sig_max_pos (s0 :: sigs'))) (map sig_max_pos (s0 :: sigs'))).
    { apply list_max_in. discriminate. }
    apply in_map_iff in Hin. destruct Hin as [s [E Hs]]. exists s. split; auto. lia.
  - intros [s [Hs Hp]]. pose proof (list_max_ge (map sig_max_pos sigs) (sig_max_pos s) (in_map _ _ _ Hs)). lia.
Qed.

Lemma sig_req_pos_at : forall s p, sig_req_at s p = true -> sig_pos_at s p = true.
Proof.
  intros s p. unfold sig_req_at, sig_pos_at. destruct (nth_error (m_params s) p); auto.
  intro H. apply andb_true_iff in H. tauto.
Qed.

Lemma req_all_lt_npos : forall sigs p, all_wf sigs -> sigs <> [] -> req_all sigs (CPos p) = true -> p < npos sigs.
Proof.
  intros sigs p Hwf Hne H. destruct sigs as [|s sigs']; [contradiction|].
  rewrite req_all_pos in H. specialize (H s (or_introl eq_refl)).
  apply npos_lt. exists s. split; [left; reflexivity|].
  apply sig_pos_at_lt; [eapply all_wf_in; eauto; left; reflexivity|]. apply sig_req_pos_at. exact H.
Qed.

Lemma down_closed_threshold : forall (f : nat -> bool) n,
  (forall p, S p < n -> f (S p) = true -> f p = true) ->
  exists r, r <= n /\ forall p, p < n -> f p = (p <? r).
Proof.
  intros f n. induction n as [|n IH]; intro H.
  - exists 0. split; auto. intros p Hp. lia.
  - destruct IH as [r [Hr Hf]].
    { intros p Hp. apply H. lia. }
    destruct (f n) eqn:En.
    + exists (S n). split; auto. intros p Hp.
      replace (p <? S n) with true by (symmetry; apply Nat.ltb_lt; lia).
      assert (G : forall d q, q + d = n -> f q = true).
      { induction d as [|d IHd]; intros q Hq.
        - replace q with n by lia. exact En.
        - apply H; [lia|]. apply IHd. lia. }
      apply (G (n - p) p). lia.
    + exists r. split; [lia|]. intros p Hp. destruct (Nat.eq_dec p n) as [->|Hne].
      * rewrite En. symmetry. apply Nat.ltb_ge. exact Hr.
      * apply Hf. lia.
Qed.

(* the number of leading positions that every method requires *)
Lemma req_threshold : forall sigs, all_wf sigs ->
  exists r, r <= npos sigs /\ forall p, p < npos sigs -> req_all sigs (CPos p) = (p <? r).
Proof.
  intros sigs Hwf. apply down_closed_threshold. intros p _ H. apply req_all_down; auto.
Qed.

Lemma strict_len_le : forall sigs, strict_len sigs <= npos sigs.
Proof. intro sigs. unfold strict_len. lia. Qed.

(* the four positional lists of the analysis, given the threshold r *)
Lemma analysis_lists : forall sigs r, r <= npos sigs ->
  (forall p, p < npos sigs -> req_all sigs (CPos p) = (p <? r)) ->
  let sl := strict_len sigs in let n := npos sigs in
  let strict := seq 0 sl in let posl := seq sl (n - sl) in
  filter (fun p => req_all sigs (CPos p)) strict = seq 0 (Nat.min r sl) /\
  filter (fun p => negb (req_all sigs (CPos p))) strict = seq (Nat.min r sl) (sl - Nat.min r sl) /\
  filter (fun p => req_all sigs (CPos p)) posl = seq sl (Nat.max r sl - sl) /\
  filter (fun p => negb (req_all sigs (CPos p))) posl = seq (Nat.max r sl) (n - Nat.max r sl).
Proof.
  intros sigs r Hr Hf sl n strict posl. pose proof (strict_len_le sigs) as Hsl. fold sl n in Hsl.
  destruct (Nat.le_ge_cases r sl) as [Hle|Hge].
  - rewrite Nat.min_l, Nat.max_r by lia.
    destruct (filter_seq_thr (fun p => req_all sigs (CPos p)) r 0 sl) as [E1 E2]; try lia.
    { intros p Hp. apply Hf. fold n. lia. }
    destruct (filter_seq_thr (fun p => req_all sigs (CPos p)) sl sl (n - sl)) as [E3 E4]; try lia.
    { intros p Hp. rewrite Hf by (fold n; lia).
      replace (p <? r) with false by (symmetry; apply Nat.ltb_ge; lia).
      symmetry; apply Nat.ltb_ge; lia. }
    unfold strict, posl. rewrite E1, E2, E3, E4. repeat split; f_equal; lia.
  - rewrite Nat.min_r, Nat.max_l by lia.
    destruct (filter_seq_thr (fun p => req_all sigs (CPos p)) sl 0 sl) as [E1 E2]; try lia.
    { intros p Hp. rewrite Hf by (fold n; lia).
      replace (p <? r) with true by (symmetry; apply Nat.ltb_lt; lia).
      symmetry; apply Nat.ltb_lt; lia. }
    destruct (filter_seq_thr (fun p => req_all sigs (CPos p)) r sl (n - sl)) as [E3 E4]; try lia.
    { intros p Hp. apply Hf. fold n. lia. }
    unfold strict, posl. rewrite E1, E2, E3, E4. repeat split; f_equal; lia.
Qed.

(* ---------- the name tables ---------- *)
Definition pname (q : param) : option nat :=
  match p_kind q with PosOnly => None | _ => Some (p_name q) end.

Lemma a_name_info : forall j q, a_name (info_of j q) = pname q.
Proof. intros j q. unfold info_of, pname. destruct (p_kind q); reflexivity. Qed.

Lemma a_pos_info : forall j q, a_pos (info_of j q) = if is_positional q then Some j else None.
Proof. intros j q. unfold info_of, is_positional. destruct (p_kind q); reflexivity. Qed.

Lemma in_names_at : forall sigs p o,
  In o (names_at sigs p) <->
  exists s q, In s sigs /\ nth_error (m_params s) p = Some q /\ is_positional q = true /\ o = pname q.
Proof.
  intros sigs p o. unfold names_at. rewrite (dedup_In onat_eqb onat_eqb_eq), in_map_iff. split.
  - intros [a [Ea Ha]]. apply filter_In in Ha. destruct Ha as [Ha Hp].
    apply in_all_infos in Ha. destruct Ha as [s [j [q [Hs [Hj ->]]]]].
    rewrite a_pos_info in Hp. apply onat_eqb_eq in Hp. rewrite a_name_info in Ea.
    destruct (is_positional q) eqn:Eq; [|discriminate]. injection Hp as ->.
    exists s, q. auto.
  - intros [s [q [Hs [Hj [Hq ->]]]]]. exists (info_of p q). split; [apply a_name_info|].
    apply filter_In. split.
    + apply in_all_infos. exists s, p, q. auto.
    + rewrite a_pos_info, Hq. apply onat_eqb_eq. reflexivity.
Qed.

Lemma in_canons_of : forall sigs n c,
  In c (canons_of sigs n) <->
  exists s j q, In s sigs /\ nth_error (m_params s) j = Some q /\ pname q = Some n
                /\ c = (if is_positional q then CPos j else CName n).
Proof.
  intros sigs n c. unfold canons_of. rewrite (dedup_In canon_eqb canon_eqb_eq), in_map_iff. split.
  - intros [a [Ea Ha]]. apply filter_In in Ha. destruct Ha as [Ha Hn].
    apply in_all_infos in Ha. destruct Ha as [s [j [q [Hs [Hj ->]]]]].
    rewrite a_name_info in Hn. apply onat_eqb_eq in Hn. rewrite canonical_info in Ea.
    exists s, j, q. repeat split; auto. rewrite <- Ea.
    destruct (is_positional q); auto. unfold pname in Hn. destruct (p_kind q); congruence.
  - intros [s [j [q [Hs [Hj [Hn ->]]]]]]. exists (info_of j q). split.
    + rewrite canonical_info. destruct (is_positional q); auto.
      unfold pname in Hn. destruct (p_kind q); congruence.
    + apply filter_In. split.
      * apply in_all_infos. exists s, j, q. auto.
      * rewrite a_name_info. apply onat_eqb_eq. exact Hn.
Qed.

Lemma in_names_order : forall sigs n,
  In n (names_order sigs) <->
  exists s j q, In s sigs /\ nth_error (m_params s) j = Some q /\ pname q = Some n.
Proof.
  intros sigs n. unfold names_order. rewrite (dedup_In Nat.eqb Nat.eqb_eq), in_flat_map. split.
  - intros [a [Ha Hn]]. apply in_all_infos in Ha. destruct Ha as [s [j [q [Hs [Hj ->]]]]].
    rewrite a_name_info in Hn. exists s, j, q. repeat split; auto.
    destruct (pname q); simpl in Hn; [destruct Hn as [->|[]]; reflexivity|contradiction].
  - intros [s [j [q [Hs [Hj Hn]]]]]. exists (info_of j q). split.
    + apply in_all_infos. exists s, j, q. auto.
    + rewrite a_name_info, Hn. left. reflexivity.
Qed.

Lemma first_error_none : forall sigs ns, first_error sigs ns = None ->
  forall n, In n ns -> length (canons_of sigs n) = 1.
Proof.
  intros sigs. induction ns as [|m ns IH]; simpl; intros H n Hn.
  - contradiction.
  - destruct (name_error sigs m) eqn:E; [discriminate|]. destruct Hn as [<-|Hn]; auto.
    unfold name_error in E. destruct (length (canons_of sigs m) =? 1) eqn:E1.
    + apply Nat.eqb_eq. exact E1.
    + destruct (forallb is_cpos (canons_of sigs m)); discriminate.
Qed.

Definition no_error (sigs : list msig) : Prop := first_error sigs (names_order sigs) = None.

(* every name has exactly one canonical key *)
Lemma canon_unique : forall sigs n c1 c2, no_error sigs ->
  In c1 (canons_of sigs n) -> In c2 (canons_of sigs n) -> c1 = c2.
Proof.
  intros sigs n c1 c2 Hne H1 H2.
  assert (Hn : In n (names_order sigs)).
  { apply in_canons_of in H1. destruct H1 as [s [j [q [Hs [Hj [Hq _]]]]]]. apply in_names_order. exists s, j, q. auto. }
  eapply length1_all_eq; eauto. eapply first_error_none; eauto.
Qed.

(* positions at or beyond strict_len carry exactly one name *)
Lemma names_at_single : forall sigs p, strict_len sigs <= p -> p < npos sigs ->
  names_at sigs p = [Some (name_at sigs p)].
Proof.
  intros sigs p H1 H2.
  assert (Hs : single_named (nth p (p_to_n sigs) []) = true).
  { apply takewhile_rev_nth.
    - unfold p_to_n at 1. rewrite map_length, seq_length. exact H1.
    - unfold p_to_n. rewrite map_length, seq_length. exact H2. }
  unfold p_to_n in Hs.
  rewrite (nth_indep _ [] (names_at sigs 0)) in Hs by (rewrite map_length, seq_length; exact H2).
  rewrite (map_nth (names_at sigs) (seq 0 (npos sigs)) 0 p), seq_nth in Hs by exact H2. simpl in Hs.
  unfold name_at. destruct (names_at sigs p) as [|[nm|] [|o l]]; simpl in Hs; try discriminate. reflexivity.
Qed.

(* ... and the position just before strict_len does not *)
Lemma names_at_strict_last : forall sigs, 0 < strict_len sigs ->
  single_named (names_at sigs (strict_len sigs - 1)) = false.
Proof.
  intros sigs H.
  pose proof (takewhile_rev_stop single_named (p_to_n sigs) []) as G.
  assert (Hlen : length (p_to_n sigs) = npos sigs) by (unfold p_to_n; rewrite map_length, seq_length; reflexivity).
  rewrite Hlen in G. unfold strict_len in *. specialize (G ltac:(lia)).
  set (j := npos sigs - length (takewhile single_named (rev (p_to_n sigs))) - 1) in *.
  assert (Hj : j < npos sigs) by (unfold j; lia).
  unfold p_to_n in G.
  rewrite (nth_indep _ [] (names_at sigs 0)) in G by (rewrite map_length, seq_length; exact Hj).
  rewrite (map_nth (names_at sigs) (seq 0 (npos sigs)) 0 j), seq_nth in G by exact Hj. simpl in G.
  exact G.
Qed.

(* a named positional parameter: the position is the unique canonical key of the name *)
Lemma poskw_canon : forall sigs s j q n, In s sigs -> nth_error (m_params s) j = Some q ->
  p_kind q = PosKw -> p_name q = n -> In (CPos j) (canons_of sigs n).
Proof.
  intros sigs s j q n Hs Hj Hk Hn. apply in_canons_of. exists s, j, q. repeat split; auto.
  - unfold pname. rewrite Hk, Hn. reflexivity.
  - unfold is_positional. rewrite Hk. reflexivity.
Qed.

Lemma kwonly_canon : forall sigs s j q n, In s sigs -> nth_error (m_params s) j = Some q ->
  p_kind q = KwOnly -> p_name q = n -> In (CName n) (canons_of sigs n).
Proof.
  intros sigs s j q n Hs Hj Hk Hn. apply in_canons_of. exists s, j, q. repeat split; auto.
  - unfold pname. rewrite Hk, Hn. reflexivity.
  - unfold is_positional. rewrite Hk. reflexivity.
Qed.

(* the single name at a non-strict position is declared there, positional-or-keyword, by some method *)
Lemma name_at_declared : forall sigs p, strict_len sigs <= p -> p < npos sigs ->
  exists s q, In s sigs /\ nth_error (m_params s) p = Some q /\ p_kind q = PosKw /\ p_name q = name_at sigs p.
Proof.
  intros sigs p H1 H2. pose proof (names_at_single sigs p H1 H2) as E.
  assert (Hin : In (Some (name_at sigs p)) (names_at sigs p)) by (rewrite E; left; reflexivity).
  apply in_names_at in Hin. destruct Hin as [s [q [Hs [Hj [Hq Hn]]]]].
  exists s, q. repeat split; auto; unfold pname, is_positional in *; destruct (p_kind q); simpl in *; congruence.
Qed.

(* ... and every method that has that position names it so, positional-or-keyword *)
Lemma name_at_uniform : forall sigs p s q, strict_len sigs <= p -> p < npos sigs ->
  In s sigs -> nth_error (m_params s) p = Some q -> is_positional q = true ->
  p_kind q = PosKw /\ p_name q = name_at sigs p.
Proof.
  intros sigs p s q H1 H2 Hs Hj Hq. pose proof (names_at_single sigs p H1 H2) as E.
  assert (Hin : In (pname q) (names_at sigs p)).
  { apply in_names_at. exists s, q. auto. }
  rewrite E in Hin. destruct Hin as [Hin|[]].
  unfold pname, is_positional in *. destruct (p_kind q); simpl in *; try discriminate; split; congruence.
Qed.

Lemma name_at_inj : forall sigs p1 p2, no_error sigs ->
  strict_len sigs <= p1 -> p1 < npos sigs -> strict_len sigs <= p2 -> p2 < npos sigs ->
  name_at sigs p1 = name_at sigs p2 -> p1 = p2.
Proof.
  intros sigs p1 p2 Hne A1 A2 B1 B2 E.
  destruct (name_at_declared sigs p1 A1 A2) as [s1 [q1 [Hs1 [Hj1 [Hk1 Hn1]]]]].
  destruct (name_at_declared sigs p2 B1 B2) as [s2 [q2 [Hs2 [Hj2 [Hk2 Hn2]]]]].
  pose proof (poskw_canon sigs s1 p1 q1 _ Hs1 Hj1 Hk1 Hn1) as C1.
  pose proof (poskw_canon sigs s2 p2 q2 _ Hs2 Hj2 Hk2 Hn2) as C2.
  rewrite <- E in C2. pose proof (canon_unique sigs _ _ _ Hne C1 C2) as Heq. congruence.
Qed.

(* keywords: the names whose key is their own name *)
Lemma in_keywords : forall sigs n, no_error sigs ->
  (In n (keywords sigs) <-> exists s q, In s sigs /\ In q (m_params s) /\ p_kind q = KwOnly /\ p_name q = n).
Proof.
  intros sigs n Hne. unfold keywords. rewrite filter_In. split.
  - intros [Hn Hk]. unfold is_kw_name in Hk.
    destruct (canons_of sigs n) as [|[p|m] [|c l]] eqn:E; try discriminate.
    assert (Hin : In (CName m) (canons_of sigs n)) by (rewrite E; left; reflexivity).
    apply in_canons_of in Hin. destruct Hin as [s [j [q [Hs [Hj [Hq Hc]]]]]].
    exists s, q. split; auto. split; [eapply nth_error_In; eauto|].
    unfold pname, is_positional in *. destruct (p_kind q); simpl in *; try discriminate. split; congruence.
  - intros [s [q [Hs [Hq [Hk Hn]]]]]. apply In_nth_error in Hq. destruct Hq as [j Hj].
    pose proof (kwonly_canon sigs s j q n Hs Hj Hk Hn) as Hc.
    assert (Hno : In n (names_order sigs)).
    { apply in_names_order. exists s, j, q. repeat split; auto. unfold pname. rewrite Hk, Hn. reflexivity. }
    split; auto. unfold is_kw_name.
    pose proof (first_error_none sigs _ Hne n Hno) as Hlen.
    destruct (canons_of sigs n) as [|c [|c' l]] eqn:E; simpl in Hlen; try discriminate.
    destruct Hc as [Hc|[]]. subst c. reflexivity.
Qed.

Lemma keywords_NoDup : forall sigs, NoDup (keywords sigs).
Proof. intro sigs. unfold keywords. apply NoDup_filter. apply (dedup_NoDup Nat.eqb Nat.eqb_eq). Qed.

Lemma is_pos_name_iff : forall sigs n,
  is_pos_name sigs n = true <-> exists s j q, In s sigs /\ nth_error (m_params s) j = Some q /\ p_kind q = PosKw /\ p_name q = n.
Proof.
  intros sigs n. unfold is_pos_name. rewrite existsb_exists. split.
  - intros [s [Hs H]]. apply existsb_exists in H. destruct H as [q [Hq H]].
    unfold is_poskw_named in H. apply andb_true_iff in H. destruct H as [Hk Hn].
    apply In_nth_error in Hq. destruct Hq as [j Hj]. exists s, j, q. repeat split; auto.
    + destruct (p_kind q); simpl in Hk; congruence.
    + apply Nat.eqb_eq. exact Hn.
  - intros [s [j [q [Hs [Hj [Hk Hn]]]]]]. exists s. split; auto. apply existsb_exists. exists q.
    split; [eapply nth_error_In; eauto|]. unfold is_poskw_named. rewrite Hk, Hn. simpl. apply Nat.eqb_refl.
Qed.

(* a keyword-only name is not a positional name (no analyzer error) *)
Lemma keyword_not_pos : forall sigs n, no_error sigs -> In n (keywords sigs) -> is_pos_name sigs n = false.
Proof.
  intros sigs n Hne Hk. destruct (is_pos_name sigs n) eqn:E; auto.
  apply is_pos_name_iff in E. destruct E as [s [j [q [Hs [Hj [Hkd Hn]]]]]].
  apply (in_keywords sigs n Hne) in Hk. destruct Hk as [s' [q' [Hs' [Hq' [Hk' Hn']]]]].
  apply In_nth_error in Hq'. destruct Hq' as [j' Hj'].
  pose proof (poskw_canon sigs s j q n Hs Hj Hkd Hn) as C1.
  pose proof (kwonly_canon sigs s' j' q' n Hs' Hj' Hk' Hn') as C2.
  pose proof (canon_unique sigs _ _ _ Hne C1 C2). discriminate.
Qed.

(* ---------- counts of keyword-only names ---------- *)
Definition kwreq_named (n : nat) (q : param) : bool := negb (is_positional q) && Nat.eqb (p_name q) n && p_req q.

Lemma extract_count_name : forall ps i n,
  length (filter (fun a => canon_eqb (canonical a) (CName n) && a_req a) (extract_from i ps))
  = length (filter (kwreq_named n) ps).
Proof.
  induction ps as [|q ps IH]; intros i n; auto.
  rewrite extract_mapi. cbn [mapi_from]. rewrite <- extract_mapi. cbn [filter].
  rewrite canonical_info, a_req_info, !length_if_cons, IH. f_equal.
  unfold kwreq_named. destruct (is_positional q); cbn [canon_eqb negb andb]; auto.
Qed.

Lemma count_name_le1 : forall ps n, NoDup (map p_name ps) -> length (filter (kwreq_named n) ps) <= 1.
Proof.
  induction ps as [|q ps IH]; intros n H; simpl; auto.
  inversion H; subst. specialize (IH n H3).
  destruct (kwreq_named n q) eqn:E; simpl; auto.
  assert (Hz : filter (kwreq_named n) ps = []).
  { apply filter_none. intros x Hx. destruct (kwreq_named n x) eqn:Ex; auto.
    unfold kwreq_named in E, Ex. apply andb_true_iff in E as [E _]. apply andb_true_iff in E as [_ En].
    apply andb_true_iff in Ex as [Ex _]. apply andb_true_iff in Ex as [_ Exn].
    apply Nat.eqb_eq in En, Exn. exfalso. apply H2. rewrite En, <- Exn. apply in_map. exact Hx. }
  rewrite Hz. simpl. lia.
Qed.

Lemma req_all_name : forall sigs n, all_wf sigs -> req_all sigs (CName n) = true ->
  forall s, In s sigs -> exists q, In q (m_params s) /\ p_kind q = KwOnly /\ p_name q = n /\ p_req q = true.
Proof.
  intros sigs n Hwf H s Hs. unfold req_all, total, cnt_req, all_infos in H. apply Nat.eqb_eq in H.
  rewrite flat_map_filter_length in H.
  set (c := fun s => length (filter (fun a => canon_eqb (canonical a) (CName n) && a_req a) (sig_arginfo s))) in H.
  assert (Hc : forall x, In x sigs -> c x = if Nat.eqb (c x) 1 then 1 else 0).
  { intros x Hx. unfold c, sig_arginfo. rewrite extract_count_name.
    destruct (wf_parts x (all_wf_in _ _ Hwf Hx)) as [_ [_ Hnd]].
    pose proof (count_name_le1 (m_params x) n Hnd) as Hle.
    destruct (length (filter (kwreq_named n) (m_params x))) as [|[|k]]; simpl; auto. lia. }
  pose proof (proj1 (sum01_eq_length c (fun x => Nat.eqb (c x) 1) sigs Hc) H) as H'.
  clear H. rename H' into H. specialize (H s Hs). apply Nat.eqb_eq in H. unfold c, sig_arginfo in H. rewrite extract_count_name in H.
  destruct (filter (kwreq_named n) (m_params s)) as [|q l] eqn:E; [discriminate|].
  assert (Hq : In q (filter (kwreq_named n) (m_params s))) by (rewrite E; left; reflexivity).
  apply filter_In in Hq. destruct Hq as [Hq Hk]. exists q. split; auto.
  unfold kwreq_named in Hk. apply andb_true_iff in Hk as [Hk Hr]. apply andb_true_iff in Hk as [Hk Hn].
  apply Nat.eqb_eq in Hn. apply negb_true_iff in Hk. unfold is_positional in Hk.
  destruct (p_kind q); simpl in Hk; try discriminate. auto.
Qed.

(* ---------- what analyze returns ---------- *)
Lemma analyze_inv : forall sigs a, analyze sigs = inr a ->
  self_mixed sigs = false /\ no_error sigs /\
  a = {| an_self := match sigs with s :: _ => m_self s | [] => false end;
         an_spr := map (pid sigs) (filter (fun p => req_all sigs (CPos p)) (seq 0 (strict_len sigs)));
         an_spo := map (pid sigs) (filter (fun p => negb (req_all sigs (CPos p))) (seq 0 (strict_len sigs)));
         an_pr := map (pid sigs) (filter (fun p => req_all sigs (CPos p)) (seq (strict_len sigs) (npos sigs - strict_len sigs)));
         an_po := map (pid sigs) (filter (fun p => negb (req_all sigs (CPos p))) (seq (strict_len sigs) (npos sigs - strict_len sigs)));
         an_kr := filter (fun n => req_all sigs (CName n)) (keywords sigs);
         an_ko := filter (fun n => negb (req_all sigs (CName n))) (keywords sigs);
         an_cx := map canonical (filter a_cx (all_infos sigs)) |}.
Proof.
  intros sigs a H. unfold analyze in H. destruct (self_mixed sigs); [discriminate|].
  destruct (first_error sigs (names_order sigs)) eqn:E; [discriminate|].
  injection H as <-. repeat split; auto.
Qed.

(* ---------- normal form of an accepted analysis ---------- *)
Record nform : Type := mkNf {
  nf_self : bool; nf_n : nat; nf_r : nat; nf_sl : nat; nf_nm : nat -> nat;
  nf_kr : list nat; nf_ko : list nat; nf_cx : list canon }.

Definition nf_pid (f : nform) (p : nat) : ident := if p <? nf_sl f then IArg (S p) else IUser (nf_nm f p).

Definition nf_analysis (f : nform) : analysis :=
  let a := Nat.min (nf_r f) (nf_sl f) in let b := Nat.max (nf_r f) (nf_sl f) in
  {| an_self := nf_self f;
     an_spr := map (nf_pid f) (seq 0 a);
     an_spo := map (nf_pid f) (seq a (nf_sl f - a));
     an_pr := map (nf_pid f) (seq (nf_sl f) (b - nf_sl f));
     an_po := map (nf_pid f) (seq b (nf_n f - b));
     an_kr := nf_kr f; an_ko := nf_ko f; an_cx := nf_cx f |}.

Record nf_ok (f : nform) : Prop := mkNfOk {
  ok_r : nf_r f <= nf_n f;
  ok_sl : nf_sl f <= nf_n f;
  ok_inj : forall p1 p2, nf_sl f <= p1 < nf_n f -> nf_sl f <= p2 < nf_n f -> nf_nm f p1 = nf_nm f p2 -> p1 = p2;
  ok_kw : NoDup (nf_kr f ++ nf_ko f);
  ok_disj : forall p, nf_sl f <= p < nf_n f -> ~ In (nf_nm f p) (nf_kr f ++ nf_ko f) }.

Definition nf_of (sigs : list msig) (a : analysis) (r : nat) : nform :=
  mkNf (an_self a) (npos sigs) r (strict_len sigs) (name_at sigs) (an_kr a) (an_ko a) (an_cx a).

Lemma pid_nf : forall sigs a r p, nf_pid (nf_of sigs a r) p = pid sigs p.
Proof. intros. reflexivity. Qed.


Lemma NoDup_app_iff : forall {X} (l1 l2 : list X),
  NoDup (l1 ++ l2) <-> NoDup l1 /\ NoDup l2 /\ (forall x, In x l1 -> ~ In x l2).
Proof.
  intros X. induction l1 as [|x l1 IH]; intro l2; simpl.
  - split; [intro H; repeat split; auto; constructor | tauto].
  - split.
    + intro H. inversion H; subst. apply IH in H3. destruct H3 as [A [B C]].
      rewrite in_app_iff in H2. repeat split; auto.
      * constructor; auto.
      * intros y [<-|Hy]; auto.
    + intros [A [B C]]. inversion A; subst. constructor.
      * rewrite in_app_iff. intros [H|H]; auto. apply (C x); auto.
      * apply IH. repeat split; auto.
Qed.

Lemma NoDup_filter_split : forall {X} (f : X -> bool) l, NoDup l -> NoDup (filter f l ++ filter (fun x => negb (f x)) l).
Proof.
  intros X f l H. apply NoDup_app_iff. repeat split; try (apply NoDup_filter; exact H).
  intros x H1 H2. apply filter_In in H1, H2. destruct H1 as [_ H1], H2 as [_ H2]. rewrite H1 in H2. discriminate.
Qed.

Lemma analyze_nf : forall sigs a, all_wf sigs -> analyze sigs = inr a ->
  exists r, (forall p, p < npos sigs -> req_all sigs (CPos p) = (p <? r)) /\
            nf_ok (nf_of sigs a r) /\ a = nf_analysis (nf_of sigs a r).
Proof.
  intros sigs a Hwf Ha. destruct (analyze_inv sigs a Ha) as [_ [Hne Ea]].
  destruct (req_threshold sigs Hwf) as [r [Hr Hf]]. exists r. split; auto.
  destruct (analysis_lists sigs r Hr Hf) as [E1 [E2 [E3 E4]]].
  assert (Hkr : an_kr a = filter (fun n => req_all sigs (CName n)) (keywords sigs)) by (rewrite Ea; reflexivity).
  assert (Hko : an_ko a = filter (fun n => negb (req_all sigs (CName n))) (keywords sigs)) by (rewrite Ea; reflexivity).
  split.
  - constructor; simpl.
    + exact Hr.
    + apply strict_len_le.
    + intros p1 p2 [A1 A2] [B1 B2] E. eapply name_at_inj; eauto.
    + rewrite Hkr, Hko. apply NoDup_filter_split. apply keywords_NoDup.
    + intros p [A1 A2] Hin. rewrite Hkr, Hko in Hin.
      assert (Hk : In (name_at sigs p) (keywords sigs)).
      { apply in_app_iff in Hin. destruct Hin as [Hin|Hin]; apply filter_In in Hin; tauto. }
      pose proof (keyword_not_pos sigs _ Hne Hk) as Hnp.
      destruct (name_at_declared sigs p A1 A2) as [s [q [Hs [Hj [Hkd Hn]]]]].
      assert (is_pos_name sigs (name_at sigs p) = true).
      { apply is_pos_name_iff. exists s, p, q. auto. }
      congruence.
  - rewrite Ea at 1. unfold nf_analysis, nf_of. cbn [nf_self nf_n nf_r nf_sl nf_nm nf_kr nf_ko nf_cx].
    rewrite E1, E2, E3, E4. rewrite Ea. reflexivity.
Qed.
