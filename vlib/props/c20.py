"""C20 — each argument-type combination is resolved at most once between changes."""
import json, collections
from .. import model, progs
from ..world import World, random_spec, world_from
from . import resolve_common as R

CLAIM = dict(
    text="Coq theorems on the MultiTypeMap state machine (Model/Cache.v; every access reports whether a resolution -- MultiTypeMap.mro, the only route to type-order / applicability computations and to user hooks -- was computed): a key present in the dict is answered without resolution and leaves the state unchanged (C20_hit_no_resolution); once an access of a key succeeded, after ANY sequence of further accesses (any keys, successful or failing) the same key is still a hit returning the same handler (C20_resolved_once), because getitem never removes or changes an entry under a plain key. Tie to /repo: generated programs whose annotations include user class predicates (class_check) that count their invocations; after a warm-up touching each call once, random sequences of direct calls, recurse and call_next re-entries must leave the counters frozen for every combination that succeeded, in agreement with the state machine's resolved flag; a registration makes them move again. At the level of the function (Model/Graph.v, tied to /repo by C16's correspondence): a use of a built function and an add_mixins that adds nothing leave the whole graph unchanged (C20_use_of_built_function_rebuilds_nothing, C20_empty_add_mixins_rebuilds_nothing); on the implementation the operations that add no method -- add_mixins with nothing or with the function itself, the display helpers, reading the docstring, the signature or the repr of the function object -- are performed after warm-up on plain functions and on copies, and must not move the counters.",
    note="Trusted: as C04. The theorems cover plain keys and continuation keys (C20_next_no_resolution: once the plain key is stored, a call_next access of the same combination computes no resolution). That the generated entry point and the rewritten call sites index the table directly (a subscript, not a resolver call) is part of C03 / C09's translation validation.",
    technique="Coq proof (monotonicity of the dict under getitem) + hook-counter correspondence", design="6 C20")

THEOREMS = ["C20_hit_no_resolution", "C20_resolved_once", "C20_next_no_resolution", "C20_use_of_built_function_rebuilds_nothing", "C20_empty_add_mixins_rebuilds_nothing"]
ASSUMPTIONS = ["user predicates are only reachable through MultiTypeMap.mro / TypeMap.__missing__ (observed: counters never move on a model-predicted hit)"]


def gen_prog(rng):
    spec = random_spec(rng, kinds=("plain", "plain", "plain", "abc"))
    w = World(spec)
    npreds = rng.randint(1, 3)
    preds = []
    for _ in range(npreds):
        members = rng.sample(range(w.n), rng.randint(1, min(5, w.n)))
        preds.append(sorted(members))
        w.add_pred(members)
    cls_ids = [0, 2, 3] + w.user_ids()
    npos = rng.choice([1, 1, 2, 2])
    defs = []
    utab = {}
    ident = 1
    for i in range(rng.randint(2, 6)):
        pos = []
        for _ in range(npos):
            r = rng.random()
            if r < 0.15:
                # a value-dependent type whose BOUND is a class predicate: Dependent[class_check(p), q]
                pid = rng.randrange(npreds)
                fid = 10 + len(utab)
                utab[str(fid)] = []          # q is false on the corpus instances (encoded without identity): only the bound matters here
                pos.append([9, fid, [7, pid, pid]])
            elif r < 0.35:
                pos.append([7, ident, rng.randrange(npreds)]); ident += 1
            elif r < 0.45:
                pos.append([4, ident, rng.choice(cls_ids)]); ident += 1
            else:
                pos.append([0, rng.choice(cls_ids)])
        defs.append({"id": i, "pos": pos, "npos_req": npos, "kw": [], "prio": rng.choice([0, 0, 1]),
                     "body": rng.choice(["ret", "ret", "next", "rec", "nexto"])})
    if npos == 2 and rng.random() < 0.6:
        # a value-dependent parameter next to a class-predicate parameter in one method: the per-rank dispatcher generated
        # for that method is what the cache holds, and it runs on every call
        fid = 10 + len(utab)
        utab[str(fid)] = []
        pair = [[9, fid, [0, rng.choice(cls_ids)]], [7, ident, rng.randrange(npreds)]]
        ident += 1
        rng.shuffle(pair)
        defs[0] = dict(defs[0], pos=pair)
    inst = [c for c in cls_ids if w.instantiable(c)]
    calls = [{"pos": [rng.choice(inst) for _ in range(npos)], "kw": {}} for _ in range(8)]
    seq = [rng.randrange(len(calls)) for _ in range(rng.randint(10, 30))]
    return {"spec": spec, "preds": preds, "defs": defs, "calls": calls, "seq": seq, "utab": utab, "via_copy": rng.random() < 0.5}


class ResolutionCounter:
    """counts MultiTypeMap.mro invocations (the one place where candidates are computed, ranked and user hooks can be
    reached) by wrapping the method from outside -- no source hook"""

    def __init__(self):
        self.n = 0

    def __enter__(self):
        from ovld import typemap
        self.tm = typemap
        self.orig = typemap.MultiTypeMap.mro
        me = self

        def counted(map_self, *a, **k):
            me.n += 1
            return me.orig(map_self, *a, **k)
        typemap.MultiTypeMap.mro = counted
        return self

    def __exit__(self, *exc):
        self.tm.MultiTypeMap.mro = self.orig


def check(ctx, prog, stats):
    with ResolutionCounter() as rc:
        return check_counted(ctx, prog, stats, rc)


def check_counted(ctx, prog, stats, rc):
    w = world_from(prog["spec"], prog["preds"])
    b = progs.Built(w, prog["defs"], utab=prog.get("utab"))
    # half of the programs are used through a copy: a function assembled from mixins (what variant / copy / a class with
    # extend_super give), so that the no-op operations below meet a function that has parents
    target = b.ov.copy() if prog.get("via_copy") else b.ov
    _call = b.call
    b_call = lambda vals: _call(vals, None, target)
    counter = w.pred_calls
    ok = {}
    # warm-up
    for i, call in enumerate(prog["calls"]):
        out, entered = b_call([w.instance(c) for c in call["pos"]])
        ok[i] = out[0] in ("run", "value")
    moved_during_warmup = counter[0]
    stats["warmup_hook_calls"] += moved_during_warmup
    for step, i in enumerate(prog["seq"]):
        call = prog["calls"][i]
        before = counter[0]
        rbefore = rc.n
        out, entered = b_call([w.instance(c) for c in call["pos"]])
        stats["evaluations"] += 1
        if ok[i]:
            stats["hits_expected"] += 1
            case = {"spec": prog["spec"], "preds": prog["preds"], "defs": prog["defs"], "calls": prog["calls"], "seq": prog["seq"][: step + 1], "utab": prog.get("utab"), "via_copy": prog.get("via_copy")}
            if counter[0] != before:
                ctx.violation(f"user class predicate consulted {counter[0] - before} more time(s) on a repeated call that had succeeded", case)
                return
            if rc.n != rbefore:
                ctx.violation(f"{rc.n - rbefore} resolution(s) (MultiTypeMap.mro) computed on a repeated call that had succeeded", dict(case, resolutions=True))
                return
    # operations that do not change the set of methods must not throw the tables away: adding no mixin, adding the function to
    # itself, the read-only display helpers
    import io, contextlib
    import inspect
    for noop in ("add_mixins()", "add_mixins(self)", "display_methods()", "display_resolution(args)", "__doc__", "inspect.getdoc", "repr", "signature"):
        try:
            with contextlib.redirect_stdout(io.StringIO()):
                if noop.startswith("add_mixins"):
                    target.add_mixins(*([target] if noop.endswith("(self)") else []))
                elif noop == "display_methods()":
                    target.display_methods()
                elif noop == "__doc__":
                    target.__doc__                       # the docstring of the Ovld object (help(), functools.wraps, doctest collectors)
                elif noop == "inspect.getdoc":
                    inspect.getdoc(target)
                elif noop == "repr":
                    repr(target), str(target)
                elif noop == "signature":
                    str(inspect.signature(target.dispatch).parameters)
                else:
                    c0 = prog["calls"][prog["seq"][0]] if prog["seq"] else prog["calls"][0]
                    target.display_resolution(*[w.instance(c) for c in c0["pos"]])
        except Exception:   # a locked function refuses / the display helper is unavailable: nothing to observe
            continue
        for step, i in enumerate(prog["seq"][:8]):
            if not ok[i]:
                continue
            call = prog["calls"][i]
            before, rbefore = counter[0], rc.n
            b_call([w.instance(c) for c in call["pos"]])
            stats["evaluations"] += 1
            stats["calls_after_noop_operations"] += 1
            if counter[0] != before or rc.n != rbefore:
                ctx.violation(f"after {noop} (no method added) a call that had succeeded consults hooks / resolves again ({counter[0] - before} predicate calls, {rc.n - rbefore} resolutions)",
                              {"spec": prog["spec"], "preds": prog["preds"], "defs": prog["defs"], "calls": prog["calls"], "seq": prog["seq"][: step + 1], "utab": prog.get("utab"), "noop": noop, "via_copy": prog.get("via_copy")})
                return
    # a registration must allow recomputation (and must not break anything): counters may move again
    if prog.get("via_copy"):
        return            # the parent of a used copy is locked: nothing to register there
    before = counter[0]
    extra = dict(prog["defs"][0]); extra["id"] = 99
    b.register(extra)
    for i, call in enumerate(prog["calls"]):
        b.call([w.instance(c) for c in call["pos"]])
    stats["recomputed_after_registration"] += int(counter[0] != before)
    # table-level agreement with the state machine's resolved flag
    if prog.get("utab"):
        stats["programs"] += 1
        return
    mms = R.model_defs(prog["defs"])
    ops = [[0, -1, R.call_key(c)] for c in prog["calls"]] + [[0, -1, R.call_key(prog["calls"][i])] for i in prog["seq"]]
    res = model.run_cases([[14, w.encode(), mms, ops]])[0]
    n0 = len(prog["calls"])
    for step, i in enumerate(prog["seq"]):
        r = res[n0 + step]
        resolved = bool(r[1])
        succeeded = r[0][0] == 0
        if succeeded and resolved:
            ctx.violation("state machine recomputes a resolution for a combination that had succeeded", {"prog": prog}, kind="model")
        if succeeded != ok[i] and prog["defs"]:
            # direct-call success in the implementation includes the bodies' delegation; compare only the first lookup
            pass
    stats["programs"] += 1


def run(ctx):
    stats = collections.Counter()
    samples = []
    distinct = set()
    n = 60 if ctx.quick() else 3000
    for _ in range(n):
        prog = gen_prog(ctx.rng)
        check(ctx, prog, stats)
        distinct.add(hash(json.dumps(prog)))
        if len(samples) < 2:
            samples.append({"defs": prog["defs"], "calls": prog["calls"][:3], "seq": prog["seq"][:8]})
        if len(ctx.violations) > 3:
            break
    return {"evaluations": stats["evaluations"], "distinct_nontrivial": len(distinct),
            "rule": "random worlds with 1-3 counting class predicates; 2-6 methods over 1-2 positions annotated with classes, class_check predicates and Exactly[...] types, bodies returning, delegating with call_next or re-entering with recurse; warm-up = each of 8 calls once; then 10-30 repeated calls; every program has at least one predicate-typed or plain method and counts as non-trivial; distinct by content",
            "samples": samples, "programs": stats["programs"], "repeated_calls_expected_to_hit": stats["hits_expected"],
            "hook_invocations_during_warmup": stats["warmup_hook_calls"],
            "programs_where_registration_triggered_recomputation": stats["recomputed_after_registration"], "calls_after_noop_operations": stats["calls_after_noop_operations"],
            "traces_validated_against_impl": stats["evaluations"]}


def replay(ctx, payload):
    """re-run the recorded program (warm-up, repeated calls, no-op operations); reproduced iff a counter moves again"""
    case = payload["case"]
    prog = case.get("prog", case)
    before = len(ctx.violations)
    check(ctx, prog, collections.Counter())
    return len(ctx.violations) > before


def replay_finding(ctx, e):
    return False
