(* C01 — a method only ever runs on arguments its declared signature accepts.
   Type-level part, for ALL declared types of the modelled closure (static, generic, union, intersection, dependent):
   whatever lookup returns is a registered method whose arity and keywords fit the call and whose declared type at
   every supplied slot passes subclasscheck for the argument's run-time type.
   The value-level part (conditions of dependent types hold) is Props/C10.v / C11.v. *)
From Coq Require Import ZArith List Bool Arith.
Import ListNotations.
From OvldV Require Import Model.Order Model.Ty Model.Resolve Proofs.ResolveCands.

Theorem C01_run_is_applicable : forall sub hasm chk fresh ms k i,
  lookup sub hasm chk fresh ms k = ORun i ->
  exists m, In m ms /\ m_id m = i /\ applicable_ty sub hasm chk fresh m k = true.
Proof. exact lookup_run_applicable. Qed.
Print Assumptions C01_run_is_applicable.

Theorem C01_no_applicable_no_run : forall sub hasm chk fresh ms k cs,
  candidates sub hasm chk fresh ms k = Ok cs ->
  (lookup sub hasm chk fresh ms k = ONoMethod <-> forall m, In m ms -> applicable_ty sub hasm chk fresh m k = false).
Proof. exact lookup_nomethod_iff. Qed.
Print Assumptions C01_no_applicable_no_run.
