(* DepFacts.v — C10 / C11: the checks emitted for each type against isinstance; the rank dispatchers. *)
From Coq Require Import ZArith List Bool Arith Lia.
Import ListNotations.
From OvldV Require Import Model.Order Model.Ty Model.Resolve Model.Dep Proofs.TyEq.

Section Values.
  Variable sub : nat -> nat -> bool.
  Variable hasm : nat -> nat -> bool.
  Variable chk : nat -> nat -> bool.
  Variable utab : nat -> val -> bool.
  Hypothesis sub_obj : forall c, sub c C_OBJECT = true.

  Notation instance := (instance sub hasm chk utab).
  Notation emit := (emit sub hasm chk utab).

  (* user instances are not tuples: only VTup values have a class under tuple *)
  Definition plain_val (v : val) : bool :=
    match v with VObj c _ => negb (sub c C_TUPLE) | VTup _ => true | _ => negb (sub (class_of v) C_TUPLE) end.

  (* every tuple[...] node carries the bound the normaliser gives it: the class tuple *)
  Fixpoint prod_tuple (t : ty) : bool :=
    match t with
    | Prod a b => (match b with Cls c => Nat.eqb c C_TUPLE | _ => false end) && forallb prod_tuple a
    | Gen _ a | Uni a | Int a => forallb prod_tuple a
    | Lit _ b | Fn _ _ b => prod_tuple b
    | TFn _ a b => forallb prod_tuple a && prod_tuple b
    | _ => true
    end.

  Definition and_bound (b : ty) (v : val) (k : option bool) : option bool :=
    match instance b v with None => None | Some false => Some false | Some true => k end.

  Lemma instance_dep_unfold t v :
    is_dep t = true -> exists k, instance t v = and_bound (dep_bound t) v k /\
      (instance (dep_bound t) v = Some true -> instance t v = k).
  Proof.
    destruct t; try discriminate; intros _; cbn [Dep.instance dep_bound]; unfold and_bound;
      eexists; (split; [reflexivity|]); intros ->; reflexivity.
  Qed.

  (* the arm wrapper of unions / intersections reproduces isinstance whenever the raw emitted check does under the bound *)
  Definition arm (x : ty) (v : val) : option bool :=
    if is_dep x
    then match instance (dep_bound x) v with None => None | Some false => Some false | Some true => emit x v end
    else emit x v.

  Definition emit_ok (t : ty) (v : val) : Prop :=
    if is_dep t then instance (dep_bound t) v = Some true -> emit t v = instance t v
    else emit t v = instance t v.

  Lemma arm_instance x v : emit_ok x v -> arm x v = instance x v.
  Proof.
    unfold emit_ok, arm. destruct (is_dep x) eqn:D; [|auto].
    intros H. destruct (instance_dep_unfold x v D) as (k & Hk & Hk2).
    destruct (instance (dep_bound x) v) as [[|]|] eqn:Eb.
    - rewrite (H eq_refl). reflexivity.
    - rewrite Hk. unfold and_bound. now rewrite Eb.
    - rewrite Hk. unfold and_bound. now rewrite Eb.
  Qed.

  Lemma any_arm_instance l v : Forall (fun x => emit_ok x v) l ->
    (fix any_e (l : list ty) : option bool :=
       match l with
       | [] => Some false
       | x :: r => match arm x v with None => None | Some true => Some true | Some false => any_e r end
       end) l =
    (fix any_inst (l : list ty) : option bool :=
       match l with
       | [] => Some false
       | x :: r => match instance x v with None => None | Some true => Some true | Some false => any_inst r end
       end) l.
  Proof. induction 1 as [|x r Hx _ IH]; [reflexivity|]. rewrite (arm_instance _ _ Hx), IH. reflexivity. Qed.

  Lemma all_arm_instance l v : Forall (fun x => emit_ok x v) l ->
    (fix all_e (l : list ty) : option bool :=
       match l with
       | [] => Some true
       | x :: r => match arm x v with None => None | Some false => Some false | Some true => all_e r end
       end) l =
    (fix all_inst (l : list ty) : option bool :=
       match l with
       | [] => Some true
       | x :: r => match instance x v with None => None | Some false => Some false | Some true => all_inst r end
       end) l.
  Proof. induction 1 as [|x r Hx _ IH]; [reflexivity|]. rewrite (arm_instance _ _ Hx), IH. reflexivity. Qed.

  (* C11: whatever checking code is generated for a type, it computes isinstance -- for a value-dependent type, on the
     values that are instances of its bound (which is what the type-level filter guarantees at the top level and what
     the arm wrapper tests under | and &) *)
  Theorem emit_is_instance : forall t v, prod_tuple t = true -> plain_val v = true -> emit_ok t v.
  Proof.
    induction t as [c|o a IH|a IH|a IH|i c|i c|i m|i p|vs b IHb|f ps b IHb|f a b IH IHb|a b IH IHb] using ty_ind';
      intros v Hp Hv; unfold emit_ok; cbn [is_dep dep_bound].
    - reflexivity.
    - reflexivity.
    - cbn [Dep.emit Dep.instance]. apply any_arm_instance. cbn [prod_tuple] in Hp. rewrite forallb_forall in Hp.
      rewrite Forall_forall in *. intros x Hx. apply IH; auto.
    - cbn [Dep.emit Dep.instance]. apply all_arm_instance. cbn [prod_tuple] in Hp. rewrite forallb_forall in Hp.
      rewrite Forall_forall in *. intros x Hx. apply IH; auto.
    - reflexivity.
    - reflexivity.
    - reflexivity.
    - reflexivity.
    - intros Hb. cbn [Dep.emit Dep.instance]. now rewrite Hb.
    - intros Hb. cbn [Dep.emit Dep.instance]. now rewrite Hb.
    - intros Hb. cbn [Dep.emit]. cbn [Dep.instance]. rewrite Hb.
      unfold is_inst_cls. rewrite sub_obj. reflexivity.
    - intros Hb. cbn [prod_tuple] in Hp. apply andb_true_iff in Hp. destruct Hp as [Hbt _].
      destruct b as [c| | | | | | | | | | |]; try discriminate Hbt. apply Nat.eqb_eq in Hbt. subst c.
      cbn [Dep.instance] in Hb. injection Hb as Hb. unfold is_inst_cls in Hb.
      destruct v as [z|s|bb| |l|l|l|c i]; cbn [plain_val class_of] in Hv, Hb; try (rewrite Hb in Hv; discriminate Hv).
      cbn [Dep.emit Dep.instance]. unfold is_inst_cls. cbn [class_of]. rewrite Hb.
      destruct (Nat.eqb (length l) (length a)); reflexivity.
  Qed.

  (* instances: what a Literal accepts *)
  Theorem literal_exact vs b v :
    instance (Lit vs b) v = Some true <-> (instance b v = Some true /\ val_in v vs = true).
  Proof.
    cbn [Dep.instance]. destruct (instance b v) as [[|]|].
    - split; [intros H; split; [reflexivity|congruence] | intros [_ H]; congruence].
    - split; [discriminate | intros [H _]; discriminate].
    - split; [discriminate | intros [H _]; discriminate].
  Qed.
End Values.

Section Disp.
  Variable sub : nat -> nat -> bool.
  Variable hasm : nat -> nat -> bool.
  Variable chk : nat -> nat -> bool.
  Variable utab : nat -> val -> bool.

  Notation conj := (conj sub hasm chk utab).
  Notation chain_go := (chain_go sub hasm chk utab).
  Notation count_go := (count_go sub hasm chk utab).

  Definition holds (slots : list slot) (args : list (slot * val)) (h : meth) : bool :=
    match conj h slots args with Some true => true | _ => false end.

  Definition no_exc (slots : list slot) (args : list (slot * val)) (l : list meth) : Prop :=
    forall h, In h l -> conj h slots args <> None.

  (* counting: exactly one match -> that handler; none -> fall through; several -> the ambiguity error *)
  Lemma count_go_spec ids slots args : forall l acc,
    no_exc slots args l ->
    count_go ids slots args l acc =
      match acc ++ map m_id (filter (holds slots args) l) with
      | [h] => RHandler h
      | [] => RFall
      | _ => RAmbig ids
      end.
  Proof.
    induction l as [|h r IH]; intros acc Hne; simpl.
    - rewrite app_nil_r. reflexivity.
    - assert (Hr : no_exc slots args r) by (intros x Hx; apply Hne; now right).
      unfold holds at 1. destruct (conj h slots args) as [[|]|] eqn:E.
      + rewrite IH by exact Hr. simpl. rewrite <- app_assoc. reflexivity.
      + rewrite IH by exact Hr. reflexivity.
      + exfalso. apply (Hne h); [now left|exact E].
  Qed.

  Theorem count_exact hs slots args :
    no_exc slots args hs ->
    count_go (map m_id hs) slots args hs [] =
      match map m_id (filter (holds slots args) hs) with
      | [h] => RHandler h
      | [] => RFall
      | _ => RAmbig (map m_id hs)
      end.
  Proof. intros H. now rewrite count_go_spec. Qed.

  (* if-chain: the first handler whose conjunction holds *)
  Theorem chain_first slots args : forall hs,
    no_exc slots args hs ->
    chain_go slots args hs =
      match filter (holds slots args) hs with
      | h :: _ => RHandler (m_id h)
      | [] => RFall
      end.
  Proof.
    induction hs as [|h r IH]; intros Hne; simpl; [reflexivity|].
    assert (Hr : no_exc slots args r) by (intros x Hx; apply Hne; now right).
    unfold holds at 1. destruct (conj h slots args) as [[|]|] eqn:E; [reflexivity|now apply IH|].
    exfalso. apply (Hne h); [now left|exact E].
  Qed.

  (* ... which is the counting answer whenever at most one handler can hold *)
  Corollary chain_is_count_when_exclusive hs slots args :
    no_exc slots args hs -> length (filter (holds slots args) hs) <= 1 ->
    chain_go slots args hs = count_go (map m_id hs) slots args hs [].
  Proof.
    intros Hne Hle. rewrite chain_first, count_exact by exact Hne.
    destruct (filter (holds slots args) hs) as [|h [|h2 t]]; simpl in *; try reflexivity. lia.
  Qed.

  (* soundness of the two computed strategies: a returned handler is one of the group and all its emitted checks hold *)
  Theorem chain_sound slots args : forall hs i,
    chain_go slots args hs = RHandler i -> exists h, In h hs /\ m_id h = i /\ conj h slots args = Some true.
  Proof.
    induction hs as [|h r IH]; intros i H; simpl in H; [discriminate|].
    destruct (conj h slots args) as [[|]|] eqn:E; try discriminate.
    - injection H as <-. exists h. auto using in_eq.
    - destruct (IH _ H) as (x & Hx & Hi & Hc). exists x. auto using in_cons.
  Qed.

  Lemma count_go_sound ids slots args : forall l acc i,
    count_go ids slots args l acc = RHandler i ->
    In i acc \/ exists h, In h l /\ m_id h = i /\ conj h slots args = Some true.
  Proof.
    induction l as [|h r IH]; intros acc i H; simpl in H.
    - destruct acc as [|a [|b t]]; try discriminate. injection H as <-. left. now left.
    - destruct (conj h slots args) as [[|]|] eqn:E; try discriminate.
      + destruct (IH _ _ H) as [Hin|(x & Hx & Hi & Hc)].
        * apply in_app_iff in Hin. destruct Hin as [Hin|[<-|[]]]; [now left|]. right. exists h. auto using in_eq.
        * right. exists x. auto using in_cons.
      + destruct (IH _ _ H) as [Hin|(x & Hx & Hi & Hc)]; [now left|]. right. exists x. auto using in_cons.
  Qed.

  Theorem count_sound hs slots args i :
    count_go (map m_id hs) slots args hs [] = RHandler i ->
    exists h, In h hs /\ m_id h = i /\ conj h slots args = Some true.
  Proof. intros H. destruct (count_go_sound _ _ _ _ _ _ H) as [[]|H']; exact H'. Qed.
End Disp.
