(* ResolveTotal.v — on the static fragment (class annotations over any partial-order hierarchy) the level computation
   never fails: no fuel exhaustion (typeorder / subclasscheck are total) and no graphlib cycle (Kahn's loop always finds
   a ready node, because every dependency edge goes strictly up the subclass order).  Hence the "candidates = Ok"
   hypothesis of the C02 / C06 / C07 theorems is automatic there. *)
From Coq Require Import ZArith List Bool Arith Lia Permutation.
Import ListNotations.
From OvldV Require Import Model.Order Model.Ty Model.Resolve Spec.Dispatch
  Proofs.TyEq Proofs.TyOrder Proofs.TyTotal Proofs.ResolveKahn Proofs.ResolveLevels Proofs.ResolveCands Proofs.ResolveStatic.

(* ---- Kahn makes progress on any graph whose edges go strictly up a strict order ---- *)
Section Progress.
  Variable lt : nat -> nat -> bool.
  Hypothesis lt_irrefl : forall x, lt x x = false.
  Hypothesis lt_trans : forall x y z, lt x y = true -> lt y z = true -> lt x z = true.

  Lemma minimal_exists (l : list nat) : l <> [] -> exists m, In m l /\ forall x, In x l -> lt x m = false.
  Proof.
    induction l as [|a r IH]; [congruence|]. intros _.
    destruct r as [|b r'].
    - exists a. split; [now left|]. intros x [<-|[]]. apply lt_irrefl.
    - destruct (IH ltac:(discriminate)) as (m & Hm & Hmin).
      destruct (lt a m) eqn:E.
      + exists a. split; [now left|]. intros x [<-|Hx]; [apply lt_irrefl|].
        destruct (lt x a) eqn:E2; [|reflexivity]. pose proof (lt_trans _ _ _ E2 E) as E3. rewrite (Hmin x Hx) in E3. discriminate.
      + exists m. split; [now right|]. intros x [<-|Hx]; [exact E|auto].
  Qed.

  Lemma filter_len_le {X} (f : X -> bool) l : length (filter f l) <= length l.
  Proof. induction l as [|a r IH]; simpl; [lia|]. destruct (f a); simpl; lia. Qed.

  Lemma filter_length_lt {X} (f : X -> bool) l x : In x l -> f x = false -> length (filter f l) < length l.
  Proof.
    induction l as [|a r IH]; [intros []|]. intros [<-|Hin] Hf; simpl.
    - rewrite Hf. pose proof (filter_len_le f r). lia.
    - destruct (f a); simpl; specialize (IH Hin Hf); lia.
  Qed.

  Lemma kahn_progress es : (forall p n, In (p, n) es -> lt p n = true) ->
    forall fuel rem done, length rem <= fuel ->
      (forall p n, In (p, n) es -> In n rem -> In p rem \/ In p done) ->
      kahn fuel es rem done <> None.
  Proof.
    intros Hes. induction fuel as [|f IH]; intros rem done Hlen Hcl.
    - destruct rem; [simpl; discriminate|simpl in Hlen; lia].
    - destruct rem as [|a r]; [rewrite kahn_nil; discriminate|].
      rewrite kahn_S. cbv zeta.
      destruct (minimal_exists (a :: r) ltac:(discriminate)) as (m & Hm & Hmin).
      assert (Hready : In m (ready_of es (a :: r) done)).
      { apply filter_In. split; [exact Hm|]. apply forallb_forall. intros p Hp. apply preds_In in Hp.
        apply memb_In. destruct (Hcl _ _ Hp Hm) as [Hin|Hin]; [|exact Hin].
        pose proof (Hes _ _ Hp) as E1. rewrite (Hmin p Hin) in E1. discriminate. }
      destruct (ready_of es (a :: r) done) as [|x rd] eqn:Er; [destruct Hready|].
      assert (Hrec : kahn f es (filter (fun n => negb (memb n (x :: rd))) (a :: r)) (done ++ x :: rd) <> None).
      { apply IH.
        - assert (length (filter (fun n => negb (memb n (x :: rd))) (a :: r)) < length (a :: r)).
          { apply (filter_length_lt _ _ m Hm). apply negb_false_iff. now apply memb_In. }
          lia.
        - intros p n Hp Hn. apply filter_In in Hn. destruct Hn as [Hn _].
          destruct (Hcl _ _ Hp Hn) as [Hin|Hin].
          + destruct (memb p (x :: rd)) eqn:E.
            * right. apply in_app_iff. right. now apply memb_In.
            * left. apply filter_In. split; [exact Hin|]. now rewrite E.
          + right. apply in_app_iff. now left. }
      destruct (kahn f es _ (done ++ x :: rd)); [discriminate|contradiction].
  Qed.
End Progress.

Section General.
  Variable sub : nat -> nat -> bool.
  Variable hasm : nat -> nat -> bool.
  Variable chk : nat -> nat -> bool.
  Variable sub_fresh : nat -> bool.

  Notation typeorder := (typeorder sub hasm chk sub_fresh).
  Notation subclasscheck := (subclasscheck sub hasm chk sub_fresh).
  Notation avail := (avail sub hasm chk sub_fresh).
  Notation edges := (edges sub hasm chk sub_fresh).
  Notation edges_from := (edges_from sub hasm chk sub_fresh).

  Lemma rmapM_ok {X Y} (f : X -> res Y) l : (forall x, In x l -> exists y, f x = Ok y) -> exists ys, rmapM f l = Ok ys.
  Proof.
    induction l as [|a r IH]; intros H; simpl; [eauto|].
    destruct (H a (or_introl eq_refl)) as [y Hy]. rewrite Hy. simpl.
    destruct IH as [ys Hys]; [intros x Hx; apply H; now right|]. rewrite Hys. simpl. eauto.
  Qed.

  (* for every list of registered types and every key type the applicable ones are computed (no fuel exhaustion) *)
  Lemma avail_ok tys k : exists av, avail tys k = Ok av.
  Proof.
    unfold Resolve.avail.
    destruct (rmapM_ok (fun t => match subclasscheck k t with Some b => Ok (t, b) | None => Err EFuel end) tys) as [l Hl].
    - intros t _. pose proof (subclasscheck_total sub hasm chk sub_fresh k t) as Ht.
      destruct (subclasscheck k t); [eauto|contradiction].
    - rewrite Hl. simpl. eauto.
  Qed.

  Lemma edges_from_ok i ti : forall rest j, exists es, edges_from i ti j rest = Ok es.
  Proof.
    induction rest as [|t r IH]; intros j; simpl; [eauto|].
    pose proof (typeorder_total sub hasm chk sub_fresh ti t) as Ht.
    destruct (typeorder ti t) as [o|]; [|contradiction].
    destruct (IH (S j)) as [es Hes]. rewrite Hes. simpl. eauto.
  Qed.

  Lemma edges_ok : forall l i, exists es, edges i l = Ok es.
  Proof.
    induction l as [|t r IH]; intros i; simpl; [eauto|].
    destruct (edges_from_ok i t r (S i)) as [e1 H1]. rewrite H1. simpl.
    destruct (IH (S i)) as [e2 H2]. rewrite H2. simpl. eauto.
  Qed.

  (* every recorded edge comes from a comparison of two listed types *)
  Lemma edges_from_sound i ti : forall rest j es a b,
    edges_from i ti j rest = Ok es -> In (a, b) es ->
    exists q tq, nth_error rest q = Some tq /\
      ((a = i /\ b = j + q /\ typeorder ti tq = Some LESS) \/ (a = j + q /\ b = i /\ typeorder ti tq = Some MORE)).
  Proof.
    induction rest as [|t r IH]; intros j es a b H Hin; simpl in H.
    - injection H as <-. destruct Hin.
    - destruct (typeorder ti t) as [o|] eqn:Eo; [|discriminate].
      destruct (edges_from i ti (S j) r) as [es'|] eqn:Ee; simpl in H; [|discriminate]. injection H as <-.
      assert (Hrest : In (a, b) es' -> exists q tq, nth_error (t :: r) q = Some tq /\
                ((a = i /\ b = j + q /\ typeorder ti tq = Some LESS) \/ (a = j + q /\ b = i /\ typeorder ti tq = Some MORE))).
      { intros Hin'. destruct (IH _ _ _ _ Ee Hin') as (q & tq & Hq & Hc). exists (S q), tq. split; [exact Hq|].
        replace (j + S q) with (S j + q) by lia. exact Hc. }
      destruct o; try (apply Hrest; exact Hin); destruct Hin as [E|Hin]; try (apply Hrest; exact Hin);
        injection E as <- <-; exists 0, t; rewrite Nat.add_0_r; (split; [reflexivity|]); auto.
  Qed.

  Lemma edges_sound : forall l i es a b,
    edges i l = Ok es -> In (a, b) es ->
    exists p q tp tq, p < q /\ nth_error l p = Some tp /\ nth_error l q = Some tq /\
      ((a = i + p /\ b = i + q /\ typeorder tp tq = Some LESS) \/ (a = i + q /\ b = i + p /\ typeorder tp tq = Some MORE)).
  Proof.
    induction l as [|t r IH]; intros i es a b H Hin; simpl in H.
    - injection H as <-. destruct Hin.
    - destruct (edges_from i t (S i) r) as [e1|] eqn:E1; simpl in H; [|discriminate].
      destruct (edges (S i) r) as [e2|] eqn:E2; simpl in H; [|discriminate]. injection H as <-.
      apply in_app_iff in Hin. destruct Hin as [Hin|Hin].
      + destruct (edges_from_sound _ _ _ _ _ _ _ E1 Hin) as (q & tq & Hq & Hc).
        exists 0, (S q), t, tq. split; [lia|]. split; [reflexivity|]. split; [exact Hq|].
        rewrite Nat.add_0_r. replace (i + S q) with (S i + q) by lia. exact Hc.
      + destruct (IH _ _ _ _ E2 Hin) as (p & q & tp & tq & Hlt & Hp & Hq & Hc).
        exists (S p), (S q), tp, tq. split; [lia|]. split; [exact Hp|]. split; [exact Hq|].
        replace (i + S p) with (S i + p) by lia. replace (i + S q) with (S i + q) by lia. exact Hc.
  Qed.
End General.

Section StaticTotal.
  Variable sub : nat -> nat -> bool.
  Variable hasm : nat -> nat -> bool.
  Variable chk : nat -> nat -> bool.
  Variable sub_fresh : nat -> bool.
  Hypothesis sub_refl : forall c, sub c c = true.
  Hypothesis sub_antisym : forall c d, sub c d = true -> sub d c = true -> c = d.
  Hypothesis sub_trans : forall a b c, sub a b = true -> sub b c = true -> sub a c = true.

  Notation levels := (levels sub hasm chk sub_fresh).
  Notation candidates := (candidates sub hasm chk sub_fresh).

  Definition all_cls (l : list ty) : Prop := forall t, In t l -> exists c, t = Cls c.

  (* strict subclass order on the positions of a list of class types *)
  Definition pos_lt (av : list ty) (p n : nat) : bool :=
    match nth_error av p, nth_error av n with
    | Some (Cls x), Some (Cls y) => sub x y && negb (Nat.eqb x y)
    | _, _ => false
    end.

  Lemma pos_lt_irrefl av x : pos_lt av x x = false.
  Proof. unfold pos_lt. destruct (nth_error av x) as [[c| | | | | | | | | | |]|]; auto. now rewrite Nat.eqb_refl, andb_false_r. Qed.

  Lemma pos_lt_trans av x y z : pos_lt av x y = true -> pos_lt av y z = true -> pos_lt av x z = true.
  Proof.
    unfold pos_lt.
    destruct (nth_error av x) as [[a| | | | | | | | | | |]|]; try discriminate.
    destruct (nth_error av y) as [[b| | | | | | | | | | |]|]; try discriminate.
    destruct (nth_error av z) as [[c| | | | | | | | | | |]|]; try discriminate.
    rewrite !andb_true_iff, !negb_true_iff, !Nat.eqb_neq. intros [H1 N1] [H2 N2]. split; [eauto|].
    intros ->. apply N1. apply sub_antisym; auto.
  Qed.

  Theorem levels_static_ok tys c : all_cls tys -> exists tab, levels tys (Cls c) = Ok tab.
  Proof.
    intros Hall. unfold Resolve.levels.
    destruct (avail_ok sub hasm chk sub_fresh tys (Cls c)) as [av Hav]. rewrite Hav. cbn [rbind].
    destruct (edges_ok sub hasm chk sub_fresh av 0) as [es Hes]. rewrite Hes. cbn [rbind].
    assert (Hav_cls : all_cls av).
    { intros t Ht. apply Hall. apply (avail_spec _ _ _ _ _ _ _ Hav) in Ht. tauto. }
    assert (Hedge : forall p n, In (p, n) es -> pos_lt av p n = true /\ p < length av).
    { intros p n Hin. destruct (edges_sound _ _ _ _ _ _ _ _ _ Hes Hin) as (i & j & ti & tj & Hlt & Hi & Hj & Hc).
      destruct (Hav_cls ti (nth_error_In _ _ Hi)) as [x ->]. destruct (Hav_cls tj (nth_error_In _ _ Hj)) as [y ->].
      rewrite (typeorder_cls sub hasm chk sub_fresh) in Hc. simpl in Hc.
      assert (Hi' : i < length av) by (apply nth_error_Some; congruence).
      assert (Hj' : j < length av) by (apply nth_error_Some; congruence).
      unfold pos_lt. destruct Hc as [(-> & -> & Ho)|(-> & -> & Ho)]; rewrite ?Hi, ?Hj; injection Ho as Ho.
      - apply (cls_order_less sub sub_antisym) in Ho. destruct Ho as [Hs Hne]. split; [|exact Hi'].
        rewrite Hs. simpl. apply negb_true_iff. now apply Nat.eqb_neq.
      - assert (Ho' : cls_order sub y x = LESS) by (rewrite (cls_order_opp sub x y), Ho; reflexivity).
        apply (cls_order_less sub sub_antisym) in Ho'. destruct Ho' as [Hs Hne]. split; [|exact Hj'].
        rewrite Hs. simpl. apply negb_true_iff. now apply Nat.eqb_neq. }
    assert (Hk : kahn (length av) es (seq 0 (length av)) [] <> None).
    { apply (kahn_progress (pos_lt av) (pos_lt_irrefl av) (pos_lt_trans av)).
      - intros p n Hin. apply Hedge. exact Hin.
      - rewrite seq_length. lia.
      - intros p n Hin _. left. apply in_seq. destruct (Hedge _ _ Hin). lia. }
    destruct (kahn (length av) es (seq 0 (length av)) []); [eauto|contradiction].
  Qed.

  Lemma slot_types_static ms s : static_ms ms = true -> all_cls (slot_types ms s).
  Proof.
    intros Hst t Ht. apply slot_types_In in Ht. destruct Ht as (m & Hm & Hs).
    exact (static_ms_meth _ _ Hst Hm _ _ Hs).
  Qed.

  (* C02's side condition holds on the whole static fragment *)
  Theorem candidates_static_ok ms k :
    static_ms ms = true -> static_key k = true -> exists cs, candidates ms k = Ok cs.
  Proof.
    intros Hst Hk. unfold Resolve.candidates.
    destruct (rmapM_ok (fun st : slot * ty => let (s, t) := st in
                          rbind (levels (slot_types ms s) t) (fun tab => Ok (s, tab))) (key_slots k)) as [lv Hlv].
    - intros [s t] Hin. unfold static_key in Hk. rewrite forallb_forall in Hk. specialize (Hk _ Hin). simpl in Hk.
      destruct t; try discriminate.
      destruct (levels_static_ok (slot_types ms s) c (slot_types_static ms s Hst)) as [tab Htab].
      rewrite Htab. simpl. eauto.
    - rewrite Hlv. simpl. eauto.
  Qed.
End StaticTotal.

(* ---- the C02 theorems without the side condition ---- *)
Section Unconditional.
  Variable sub : nat -> nat -> bool.
  Variable hasm : nat -> nat -> bool.
  Variable chk : nat -> nat -> bool.
  Variable sub_fresh : nat -> bool.
  Hypothesis sub_refl : forall c, sub c c = true.
  Hypothesis sub_antisym : forall c d, sub c d = true -> sub d c = true -> c = d.
  Hypothesis sub_trans : forall a b c, sub a b = true -> sub b c = true -> sub a c = true.

  Notation lookup := (lookup sub hasm chk sub_fresh).
  Notation candidates := (candidates sub hasm chk sub_fresh).

  Theorem static_winner_complete ms k i :
    NoDup (map m_id ms) -> static_ms ms = true -> static_key k = true ->
    spec_outcome sub ms k = VRun i -> lookup ms k = ORun i.
  Proof.
    intros Hnd Hst Hk Hs.
    edestruct (candidates_static_ok sub hasm chk sub_fresh) as [cs Hc]; [eassumption..|].
    eapply spec_run_complete; eauto.
  Qed.

  Theorem static_winner_maximal ms k i :
    NoDup (map m_id ms) -> static_ms ms = true -> static_key k = true -> lookup ms k = ORun i ->
    exists m, In m ms /\ m_id m = i /\ applicable sub m k = true /\
      forall m', In m' ms -> applicable sub m' k = true -> m_id m' <> i -> beats sub m' m k = false.
  Proof.
    intros Hnd Hst Hk Hr.
    edestruct (candidates_static_ok sub hasm chk sub_fresh) as [cs Hc]; [eassumption..|].
    eapply run_is_unbeaten; eauto.
  Qed.

  Theorem static_nomethod_iff ms k :
    static_ms ms = true -> static_key k = true ->
    (lookup ms k = ONoMethod <-> spec_outcome sub ms k = VNoMethod).
  Proof.
    intros Hst Hk.
    edestruct (candidates_static_ok sub hasm chk sub_fresh) as [cs Hc]; [eassumption..|].
    eapply spec_nomethod_iff; eauto.
  Qed.

  (* on the static fragment a lookup never ends in a CycleError nor runs out of fuel *)
  Theorem static_no_internal_error ms k :
    static_ms ms = true -> static_key k = true -> lookup ms k <> OCycle /\ lookup ms k <> OFuel.
  Proof.
    intros Hst Hk.
    edestruct (candidates_static_ok sub hasm chk sub_fresh) as [cs Hc]; [eassumption..|].
    rewrite (lookup_unfold _ _ _ _ _ _ _ Hc).
    destruct (sort_desc cs) as [|c1 rest]; [split; discriminate|].
    unfold rank_outcome. destruct (grp _ rest); split; discriminate.
  Qed.
End Unconditional.
