(* LeafOrder.v -- Order.opposite, Order.merge and the issubclass fallback of typeorder as regenerated from /repo's current
   source (Gen/Leaf.v) equal the hand-written definitions the model uses.  (One file per group of leaves, so that a
   property's obligations break only when a leaf it depends on changed.) *)
From Coq Require Import ZArith List Bool Arith Lia.
Import ListNotations.
From OvldV Require Import Model.Order Model.Ty Model.Resolve Gen.Leaf Proofs.LeafTactics.

Lemma opposite_agree o : opposite_src o = opposite o.
Proof. first [reflexivity | destruct o; reflexivity]. Qed.

Lemma forallb_eq {X} (p q : X -> bool) l : (forall x, p x = q x) -> forallb p l = forallb q l.
Proof. intros H; induction l; simpl; congruence. Qed.

Lemma existsb_eq {X} (p q : X -> bool) l : (forall x, p x = q x) -> existsb p l = existsb q l.
Proof. intros H; induction l; simpl; congruence. Qed.

(* membership tests against literal sets of orders, as predicates on one order *)
Definition in_orders (xs : list order) (x : order) : bool := existsb (order_eqb x) xs.

Lemma merge_ref l :
  merge l =
    if forallb (in_orders [SAME]) l && negb (match l with [] => true | _ => false end) then SAME
    else if forallb (in_orders [LESS; SAME]) l then LESS
    else if forallb (in_orders [MORE; SAME]) l then MORE
    else NONE.
Proof.
  unfold merge.
  rewrite (forallb_eq is_same (in_orders [SAME])) by (intros []; reflexivity).
  rewrite (forallb_eq le_same (in_orders [LESS; SAME])) by (intros []; reflexivity).
  rewrite (forallb_eq ge_same (in_orders [MORE; SAME])) by (intros []; reflexivity).
  rewrite andb_comm. reflexivity.
Qed.

Lemma all_same_exists l : forallb (in_orders [SAME]) l = true ->
  existsb (fun x => order_eqb x SAME) l = negb (match l with [] => true | _ => false end).
Proof. destruct l as [|x r]; simpl; [reflexivity|]. destruct x; simpl; try discriminate. reflexivity. Qed.

Lemma merge_agree l : merge_src l = merge l.
Proof.
  (* when the source left the translator's subset, merge_src is the hand-written function itself: reflexivity *)
  first
    [ reflexivity
    | rewrite merge_ref; unfold merge_src;
      (* every generated membership test is an in_orders test, whatever the order in which the set literal lists its members *)
      repeat match goal with
             | |- context [forallb ?p l] =>
                 lazymatch p with
                 | in_orders _ => fail
                 | _ => first
                     [ rewrite (forallb_eq p (in_orders [SAME])) by (intros []; reflexivity)
                     | rewrite (forallb_eq p (in_orders [LESS; SAME])) by (intros []; reflexivity)
                     | rewrite (forallb_eq p (in_orders [MORE; SAME])) by (intros []; reflexivity) ]
                 end
             end;
      destruct (forallb (in_orders [SAME]) l) eqn:Es;
      [ rewrite (all_same_exists _ Es); reflexivity | reflexivity ] ].
Qed.

(* the issubclass fallback at the end of typeorder, as the model's tord_body spells it *)
Lemma cls_tail_agree s12 s21 :
  cls_tail_src s12 s21 = (if s12 && s21 then SAME else if s12 then LESS else if s21 then MORE else NONE).
Proof. destruct s12, s21; reflexivity. Qed.

