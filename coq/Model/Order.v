(* Order.v — mro.py: class Order (LESS/MORE/SAME/NONE), Order.opposite, Order.merge.
   Hand-written reference; Gen/Leaf.v holds the versions regenerated from /repo on every run and
   Proofs/LeafAgree.v proves the two extensionally equal. *)
From Coq Require Import List Bool.
Import ListNotations.

Inductive order : Type := LESS | MORE | SAME | NONE.

Definition order_eqb (a b : order) : bool :=
  match a, b with LESS, LESS | MORE, MORE | SAME, SAME | NONE, NONE => true | _, _ => false end.

Definition opposite (o : order) : order :=
  match o with LESS => MORE | MORE => LESS | o => o end.

(* Order.merge(orders): set semantics.  NB: merge [] = LESS (the empty set passes the second test). *)
Definition is_same o := match o with SAME => true | _ => false end.
Definition le_same o := match o with LESS | SAME => true | _ => false end.
Definition ge_same o := match o with MORE | SAME => true | _ => false end.

Definition merge (l : list order) : order :=
  if (negb (match l with [] => true | _ => false end)) && forallb is_same l then SAME
  else if forallb le_same l then LESS
  else if forallb ge_same l then MORE
  else NONE.
