(* EntryOut.v — C03: outside the domain an argument is dropped (the class of KF-02 is exact); inside it the lookup key
   passes the arity / keyword filter of every method that accepts the shape. *)
From Coq Require Import ZArith List Bool Arith Lia.
Import ListNotations.
From OvldV Require Import Model.Entry Spec.EntrySpec Proofs.EntryLists Proofs.EntryAn Proofs.EntryNf Proofs.EntryBind
  Proofs.EntryRun Proofs.EntryFwd Proofs.EntryAcc.

Theorem forward_outside : forall sigs self k K o, all_wf sigs -> sigs <> [] -> all_self sigs self ->
  dom_fwd sigs k K = false -> run_entry sigs self k K = ROut o ->
  exists key fpos fkw, o = OCall key fpos fkw /\
    exists n, In n K /\ ~ In (SKw n) fpos /\ (forall s, ~ In (n, s) fkw) /\ (forall e, In e key -> ke_src e <> SKw n).
Proof.
  intros sigs self k K o Hwf Hne Hs Hd H.
  destruct (run_entry_out sigs self k K o Hwf Hne Hs H) as [a [r [Ea [Hself [Hok [Hb [Ho [Hpos Hkw]]]]]]]].
  set (f := nf_of sigs a r) in *.
  assert (Hc : kf31_class sigs k K = true) by (unfold dom_fwd in Hd; apply negb_false_iff in Hd; exact Hd).
  destruct (drop_outside sigs f k K Hok Hb eq_refl Hpos Hkw Hc) as [m0 [Efm [x [HxK [Hxk Hx]]]]].
  rewrite Efm in Ho. unfold out_exit, out_M in Ho. eexists _, _, _. split; [exact Ho|].
  exists x. split; auto. split; [|split].
  - intro Hin. apply in_app_iff in Hin. destruct Hin as [Hin|Hin].
    + unfold selfs in Hin. destruct (nf_self f); simpl in Hin; [destruct Hin as [E|[]]; discriminate|contradiction].
    + apply in_map_iff in Hin. destruct Hin as [p [E Hp]]. apply in_seq in Hp. apply (Hx p); [lia|exact E].
  - intros s Hin. apply in_map_iff in Hin. destruct Hin as [m [E Hm]]. injection E as -> _. contradiction.
  - intros e Hin. apply in_app_iff in Hin. destruct Hin as [Hin|Hin]; apply in_map_iff in Hin.
    + destruct Hin as [p [<- Hp]]. apply in_seq in Hp. simpl. apply Hx. lia.
    + destruct Hin as [m [<- Hm]]. simpl. intro E. injection E as ->. contradiction.
Qed.

(* ---------- the arity / keyword filter ---------- *)
Lemma req_prefix_count : forall ps j, req_prefix false ps = true -> j < length (filter p_req ps) ->
  exists q, nth_error ps j = Some q /\ p_req q = true.
Proof.
  induction ps as [|p ps IH]; intros j H Hj; simpl in *.
  - lia.
  - destruct (p_req p) eqn:E.
    + simpl in H, Hj. destruct j as [|j].
      * exists p. auto.
      * simpl. apply IH; auto. lia.
    + apply req_prefix_true_all in H.
      assert (filter p_req ps = []).
      { apply filter_none. intros x Hx. rewrite forallb_forall in H. specialize (H x Hx). apply negb_true_iff in H. exact H. }
      rewrite H0 in Hj. simpl in Hj. lia.
Qed.

Lemma sig_req_at_lt : forall s j, sig_wf s = true -> j < sig_req_pos s -> sig_req_at s j = true.
Proof.
  intros s j Hwf Hj. destruct (wf_parts s Hwf) as [Hk [Hr _]]. unfold sig_req_pos in Hj.
  destruct (req_prefix_count _ j Hr Hj) as [q [Hq Hrq]].
  assert (Hlen : j < length (sig_pos_params s)) by (apply nth_error_Some; congruence).
  unfold sig_req_at. unfold sig_pos_params in *. rewrite (sorted_pos_nth _ _ _ Hk Hlen), Hq.
  apply nth_error_In in Hq. apply filter_In in Hq. destruct Hq as [_ Hq]. rewrite Hq, Hrq. reflexivity.
Qed.

Lemma sig_req_le_max : forall s, sig_req_pos s <= sig_max_pos s.
Proof. intro s. unfold sig_req_pos, sig_max_pos. apply filter_length_le. Qed.

Lemma kwpos_canon : forall sigs a r s m p j q, no_error sigs -> In s sigs ->
  nf_kwpos (nf_of sigs a r) m p -> nth_error (m_params s) j = Some q -> p_kind q <> PosOnly -> p_name q = m ->
  p_kind q = PosKw /\ j = p.
Proof.
  intros sigs a r s m p j q Hne Hin [[A B] [_ E]] Hj Hk Hn. simpl in A, B, E.
  destruct (name_at_declared sigs p A B) as [s' [q' [Hs' [Hj' [Hk' Hn']]]]].
  pose proof (poskw_canon sigs s' p q' _ Hs' Hj' Hk' Hn') as C1. rewrite E in C1.
  destruct (p_kind q) eqn:Ekq; [contradiction| |].
  - pose proof (poskw_canon sigs s j q m Hin Hj Ekq Hn) as C2.
    pose proof (canon_unique sigs _ _ _ Hne C1 C2) as Eq. injection Eq as ->. auto.
  - pose proof (kwonly_canon sigs s j q m Hin Hj Ekq Hn) as C2.
    pose proof (canon_unique sigs _ _ _ Hne C1 C2). discriminate.
Qed.

Lemma key_nargs_out : forall f k M L,
  key_nargs (map (fun p => mkKE None (nf_lf f (CPos p)) (nf_psrc f k p)) (seq 0 M)
             ++ map (fun m => mkKE (Some m) (nf_lf f (CName m)) (SKw m)) L) = M.
Proof.
  intros f k M L. unfold key_nargs. rewrite filter_app, app_length.
  rewrite filter_all by (intros x Hx; apply in_map_iff in Hx; destruct Hx as [p [<- _]]; reflexivity).
  rewrite filter_none by (intros x Hx; apply in_map_iff in Hx; destruct Hx as [p [<- _]]; reflexivity).
  rewrite map_length, seq_length. simpl. lia.
Qed.

Lemma key_names_out : forall f k M L,
  key_names (map (fun p => mkKE None (nf_lf f (CPos p)) (nf_psrc f k p)) (seq 0 M)
             ++ map (fun m => mkKE (Some m) (nf_lf f (CName m)) (SKw m)) L) = L.
Proof.
  intros f k M L. unfold key_names. rewrite flat_map_app, !flat_map_map. simpl.
  rewrite flat_map_nil, flat_map_single, map_id. reflexivity.
Qed.

Theorem admit_partial : forall sigs self k K s key fpos fkw, all_wf sigs -> all_self sigs self -> In s sigs ->
  accepts s k K = true ->
  run_entry sigs self k K = ROut (OCall key fpos fkw) ->
  arity_ok s key = true /\ (forall n, In n (key_names key) -> In n (sig_kw_names s)).
Proof.
  intros sigs self k K s key fpos fkw Hwf Hs Hin Hacc H.
  assert (Hsne : sigs <> []) by (intro E; rewrite E in Hin; contradiction).
  destruct (run_entry_out sigs self k K _ Hwf Hsne Hs H) as [a [r [Ea [Hself [Hok [Hb [Ho [Hpos Hkw]]]]]]]].
  set (f := nf_of sigs a r) in *.
  destruct (analyze_inv sigs a Ea) as [_ [Hne _]].
  assert (Hswf : sig_wf s = true) by (eapply all_wf_in; eauto).
  (* a supplied position is a positional parameter of s *)
  assert (Hsup : forall p, p < nf_n f -> supplied f k K p = true -> p < sig_max_pos s).
  { intros p Hp Hsp. apply supplied_iff in Hsp; auto. destruct Hsp as [Hlt|[Hkp HK]].
    - pose proof (acc_k s k K Hacc). lia.
    - destruct (acc_kw s k K Hacc _ HK) as [j [q [Hj [Hk Hn]]]].
      destruct (kwpos_canon sigs a r s _ p j q Hne Hin Hkp Hj Hk Hn) as [Hk' ->].
      apply (sig_pos_at_lt s p Hswf). unfold sig_pos_at. rewrite Hj. unfold is_positional. rewrite Hk'. reflexivity. }
  (* a position that s requires is supplied *)
  assert (Hreq : forall p, p < sig_req_pos s -> p < nf_n f /\ supplied f k K p = true).
  { intros p Hp. pose proof (sig_req_at_lt s p Hswf Hp) as Hra. unfold sig_req_at in Hra.
    destruct (nth_error (m_params s) p) as [q|] eqn:Ej; [|discriminate].
    apply andb_true_iff in Hra. destruct Hra as [Hq Hrq].
    assert (Hpn : p < nf_n f).
    { simpl. apply npos_lt. exists s. split; auto. pose proof (sig_req_le_max s). lia. }
    split; auto. apply supplied_iff; auto.
    destruct (acc_req s k K Hswf Hacc p q Ej Hrq) as [[_ [Hlt|[Hk HK]]]|[Hq' _]]; [left; exact Hlt| |congruence].
    right. destruct (b_kw f k K Hb _ HK) as [[p' Hkp]|Hkwn].
    - assert (Hk' : p_kind q <> PosOnly) by (rewrite Hk; discriminate).
      destruct (kwpos_canon sigs a r s _ p' p q Hne Hin Hkp Ej Hk' eq_refl) as [_ <-].
      destruct Hkp as [A [B C]]. rewrite C. split; auto. repeat split; auto; tauto.
    - exfalso. pose proof (Hkw _ Hkwn).
      assert (is_pos_name sigs (p_name q) = true) by (apply is_pos_name_iff; exists s, p, q; auto). congruence. }
  (* required keyword-only names of s are supplied keywords that are not positional names *)
  assert (Hrn : forall m, In m (sig_req_names s) -> In m K /\ is_pos_name sigs m = false).
  { intros m Hm. unfold sig_req_names in Hm. apply in_map_iff in Hm. destruct Hm as [q [Hn Hq]].
    apply filter_In in Hq. destruct Hq as [Hq Hrq]. unfold sig_kw_params in Hq. apply filter_In in Hq. destruct Hq as [Hq Hnp].
    apply negb_true_iff in Hnp. destruct (In_nth_error _ _ Hq) as [j Hj].
    destruct (acc_req s k K Hswf Hacc j q Hj Hrq) as [[Hp _]|[_ HK]]; [congruence|].
    rewrite Hn in HK. split; auto.
    apply keyword_not_pos; auto. apply in_keywords; auto. exists s, q. repeat split; auto.
    unfold is_positional in Hnp. destruct (p_kind q); simpl in Hnp; try discriminate. reflexivity. }
  (* a supplied keyword that is not a positional name is a keyword-only parameter of s *)
  assert (Hkn : forall m, In m K -> is_pos_name sigs m = false -> In m (sig_kw_names s)).
  { intros m HK Hnp. destruct (acc_kw s k K Hacc m HK) as [j [q [Hj [Hk Hn]]]].
    unfold sig_kw_names, sig_kw_params. apply in_map_iff. exists q. split; auto. apply filter_In. split; [eapply nth_error_In; eauto|].
    unfold is_positional. destruct (p_kind q) eqn:Ekq; simpl; auto; exfalso; try (apply Hk; reflexivity).
    assert (is_pos_name sigs m = true) by (apply is_pos_name_iff; exists s, j, q; auto). congruence. }
  (* both kinds of call have the same shape: the first M positions, all supplied, and every supplied keyword *)
  assert (HM : exists M, M <= nf_n f /\ (forall p, p < M -> supplied f k K p = true)
                        /\ (M < nf_n f -> supplied f k K M = false) /\ OCall key fpos fkw = out_M f k K M).
  { destruct (first_missing f k K) as [m0|] eqn:Efm.
    - destruct (first_missing_some f k K m0 Hok Hb Efm) as [[Hr Hm] [Hun Hlt]].
      exists m0. repeat split; auto; lia.
    - exists (nf_n f). repeat split; auto; try lia. apply (first_missing_none f k K Hok Hb Efm). }
  destruct HM as [M [HMn [Hlt [Hun HoM]]]]. unfold out_M in HoM. injection HoM as -> _ _.
  unfold arity_ok. rewrite key_nargs_out, key_names_out. split.
  - apply andb_true_iff. split; [apply andb_true_iff; split|].
    + apply Nat.leb_le. destruct (Nat.le_gt_cases (sig_req_pos s) M); auto. exfalso.
      destruct (Hreq M H0) as [HMlt E]. rewrite (Hun HMlt) in E. discriminate.
    + apply Nat.leb_le. destruct M as [|M']; [lia|]. assert (M' < sig_max_pos s) by (apply Hsup; [lia|apply Hlt; lia]). lia.
    + apply forallb_forall. intros m Hm. destruct (Hrn m Hm) as [HK Hnp].
      apply (memb_In Nat.eqb Nat.eqb_eq).
      apply (kw_supplied_set sigs f k K Hb Hpos Hkw). apply filter_In. split; auto. rewrite Hnp. reflexivity.
  - intros m Hm. apply (kw_supplied_set sigs f k K Hb Hpos Hkw) in Hm. apply filter_In in Hm. destruct Hm as [HK Hnp].
    apply negb_true_iff in Hnp. apply Hkn; auto.
Qed.
