(* GraphLock.v — the lock of direct parents, propagation along linkback derivations, and freshness of used nodes *)
From Coq Require Import ZArith List Bool Arith Lia.
Import ListNotations.
From OvldV Require Import Model.Graph Spec.Overlay Proofs.GraphTab Proofs.GraphBase Proofs.GraphUpd Proofs.GraphInv Proofs.GraphProps.

(* ================= lock of the direct non-linkback parents ================= *)
Definition LockInv (g : graph) : Prop :=
  forall c y m z, g_get g c = Some y -> n_compiled y = true -> n_linkback y = false ->
                  In m (n_mixins y) -> g_get g m = Some z -> n_locked z = true.

(* node-wise relation under which LockInv is inherited: same mixins / linkback, no newly used node, locks only grow *)
Definition lk_rel (x y : node) : Prop :=
  n_mixins y = n_mixins x /\ n_linkback y = n_linkback x /\ (n_compiled y = true -> n_compiled x = true) /\
  (n_locked x = true -> n_locked y = true).

Lemma LockInv_rel : forall g g',
  (forall k y, g_get g' k = Some y -> exists x, g_get g k = Some x /\ lk_rel x y) -> LockInv g -> LockInv g'.
Proof.
  intros g g' R Lg c y m z Ec Cy Ly Im Em.
  destruct (R _ _ Ec) as [x [Ex (R1 & R2 & R3 & _)]]. destruct (R _ _ Em) as [w [Ew (_ & _ & _ & R4)]].
  apply R4. eapply (Lg c x m w); eauto; congruence.
Qed.

Lemma gkeep_back : forall g g' k y, gkeep g g' -> g_get g' k = Some y -> exists x, g_get g k = Some x /\ keep x y.
Proof.
  intros g g' k y [L K] E. assert (k < length g) as Lk by (rewrite L; eapply g_get_lt; eauto).
  destruct (g_get_some _ _ Lk) as [x Ex]. destruct (K _ _ Ex) as [y' [Ey' Ky]]. rewrite E in Ey'. injection Ey' as <-. eauto.
Qed.

Lemma LockInv_upd : forall f g n g', upd f g n = Some g' -> LockInv g -> LockInv g'.
Proof.
  intros f g n g' U. destruct (upd_spec _ _ _ _ U) as [(K & C & _) _].
  apply LockInv_rel. intros k y Ey. destruct (gkeep_back _ _ _ _ K Ey) as [x [Ex Kx]]. exists x. split; auto.
  destruct Kx as (_ & K2 & _ & K4 & K5 & _). repeat split; auto.
  intros Cy. pose proof (C k) as Ck. rewrite (compiled_b_get _ _ _ Ey), (compiled_b_get _ _ _ Ex) in Ck. congruence.
Qed.

Lemma LockInv_set_own : forall g n t, LockInv g -> LockInv (g_mod g n (set_own t)).
Proof.
  intros g n t. apply LockInv_rel. intros k y Ey. rewrite g_get_mod in Ey. destruct (Nat.eqb k n) eqn:Ek.
  - apply Nat.eqb_eq in Ek. subst. destruct (g_get g n); [|discriminate]. cbn in Ey. injection Ey as <-.
    eexists. split; eauto. unfold lk_rel. cbn. auto.
  - exists y. split; auto. unfold lk_rel. auto.
Qed.

Lemma inv_mixin_lt : forall g c y m, Inv g -> g_get g c = Some y -> In m (n_mixins y) -> m < length g.
Proof.
  intros g c y m I E Im. pose proof (inv_mterm g c I (g_get_lt _ _ _ E)) as T.
  destruct (length g) as [|f] eqn:L; [discriminate|]. rewrite mterm_S, E in T. rewrite forallb_forall in T.
  specialize (T _ Im). apply mterm_lt in T. lia.
Qed.

Lemma LockInv_create : forall g ms lb, Inv g -> LockInv g -> LockInv (created g ms lb).
Proof.
  intros g ms lb I Lg c y m z Ec Cy Ly Im Em.
  destruct (created_old g ms lb) as (L & Enew & Old).
  destruct (Nat.lt_ge_cases c (length g)) as [Lc|Lc].
  - destruct (g_get_some _ _ Lc) as [x Ex]. destruct (Old _ _ Ex) as [y' [Ey' R]]. rewrite Ec in Ey'. injection Ey' as <-.
    destruct R as (_ & R2 & R3 & _ & R5 & _). rewrite R2 in Im.
    pose proof (inv_mixin_lt _ _ _ _ I Ex Im) as Lm. destruct (g_get_some _ _ Lm) as [w Ew].
    destruct (Old _ _ Ew) as [z' [Ez' Rz]]. rewrite Em in Ez'. injection Ez' as <-.
    destruct Rz as (_ & _ & _ & R4 & _). rewrite R4. eapply (Lg c x m w); eauto; congruence.
  - assert (c = length g) as -> by (apply g_get_lt in Ec; lia). rewrite Enew in Ec. injection Ec as <-. discriminate.
Qed.

Lemma LockInv_mixed : forall g n x ms, g_get g n = Some x -> n_compiled x = false -> LockInv g -> LockInv (mixed g n x ms).
Proof.
  intros g n x ms E C Lg c y m z Ec Cy Ly Im Em.
  destruct (mixed_rel g n x ms E) as [L Old]. cbn zeta in Old.
  assert (c < length g) as Lc by (rewrite <- L; eapply g_get_lt; eauto).
  destruct (g_get_some _ _ Lc) as [x0 Ex0]. destruct (Old _ _ Ex0) as [y' [Ey' R]]. rewrite Ec in Ey'. injection Ey' as <-.
  destruct R as (_ & R2 & _ & R4 & _ & R6 & _).
  assert (m < length g) as Lm by (rewrite <- L; eapply g_get_lt; eauto).
  destruct (g_get_some _ _ Lm) as [w Ew]. destruct (Old _ _ Ew) as [z' [Ez' Rz]]. rewrite Em in Ez'. injection Ez' as <-.
  destruct Rz as (_ & _ & Rz3 & _). rewrite Rz3.
  destruct (Nat.eqb c n) eqn:Ecn.
  - apply Nat.eqb_eq in Ecn. subst c. rewrite E in Ex0. injection Ex0 as <-. congruence.
  - rewrite R6 in Im. eapply (Lg c x0 m w); eauto; congruence.
Qed.

Lemma LockInv_compile : forall g n g', Inv g -> compile g n = Some g' -> LockInv g -> LockInv g'.
Proof.
  intros g n g' I C Lg c y m z Ec Cy Ly Im Em.
  pose proof (compile_gkeep _ _ _ C) as K.
  destruct (gkeep_back _ _ _ _ K Ec) as [x [Ex Kx]]. destruct (gkeep_back _ _ _ _ K Em) as [w [Ew Kw]].
  destruct Kx as (_ & Kx2 & _ & Kx4 & _). destruct Kw as (_ & _ & _ & _ & Kw5 & _).
  destruct (Nat.eq_dec c n) as [->|Ne].
  - rewrite <- Kx2 in Im. rewrite <- Kx4 in Ly.
    destruct (compile_locks _ _ _ _ _ _ C Ex Im Ew) as (z' & Ez' & Lz').
    + destruct (mem n (n_children w)) eqn:M; auto. unfold mem in M. apply existsb_exists in M.
      destruct M as [n' [In' En']]. apply Nat.eqb_eq in En'. subst n'.
      destruct (inv_child _ I _ _ _ Ew In') as (x' & Ex' & _ & Lx'). congruence.
    + congruence.
  - destruct (compile_other _ _ _ _ _ C Ne Ex) as (y' & Ey' & Cy' & _). rewrite Ec in Ey'. injection Ey' as <-.
    apply Kw5. eapply (Lg c x m w); eauto; congruence.
Qed.

Lemma LockInv_step : forall g o, Inv g -> LockInv g -> late_mixin g o = false -> LockInv (step_g g o).
Proof.
  intros g o I Lg Late. unfold step_g. destruct o; cbn [step].
  - destruct (valid_ids g mixins) eqn:V; [rewrite do_create_eq by auto; apply LockInv_create; auto | rewrite do_create_invalid by auto; auto].
  - destruct (valid_ids g (n :: mixins)) eqn:V; [rewrite do_create_eq by auto; apply LockInv_create; auto | rewrite do_create_invalid by auto; auto].
  - destruct (valid_ids g (n :: mixins)) eqn:V; [|rewrite do_create_invalid by auto; auto].
    rewrite do_create_eq by auto. rewrite do_register_unfold.
    destruct (do_modify_cases (created g (n :: mixins) lb) (length g) (t_register sig l))
      as [(x & t & g' & E & Lk & F & U & ->)|[Nd Eq]].
    + cbn. eapply LockInv_upd; eauto. apply LockInv_set_own. apply LockInv_create; auto.
    + destruct (do_modify (created g (n :: mixins) lb) (length g) (t_register sig l)) as [g2 o2].
      cbn in *. destruct o2; cbn; auto. congruence.
  - destruct (do_add_mixins_cases g n ms) as [(x & E & V & Lk & W & ->)|(_ & _ & ->)]; auto.
    cbn. apply LockInv_mixed; auto. cbn in Late. unfold compiled_b in Late. rewrite E in Late. auto.
  - rewrite do_register_unfold.
    destruct (do_modify_cases g n (t_register sig l)) as [(x & t & g' & E & Lk & F & U & ->)|[_ ->]]; auto.
    cbn. eapply LockInv_upd; eauto. apply LockInv_set_own. auto.
  - unfold do_unregister.
    destruct (do_modify_cases g n (fun t => Some (t_remove l t))) as [(x & t & g' & E & Lk & F & U & ->)|[_ ->]]; auto.
    cbn. eapply LockInv_upd; eauto. apply LockInv_set_own. auto.
  - unfold do_use. destruct (g_get g n) eqn:E; auto. destruct (n_compiled n0); auto.
    destruct (compile g n) eqn:C; auto. cbn. eapply LockInv_compile; eauto.
Qed.

Lemma lock_partial_from : forall ops g, Inv g -> LockInv g -> no_late_mixin_from g ops = true -> LockInv (run_from g ops).
Proof.
  induction ops as [|o r IH]; cbn; intros g I Lg H; auto.
  apply andb_true_iff in H. destruct H as [H1 H2]. apply negb_true_iff in H1.
  apply IH; auto. - apply Inv_step; auto. - apply LockInv_step; auto.
Qed.

Lemma lock_partial : forall ops, no_late_mixin ops = true ->
  forall c y m z, g_get (run ops) c = Some y -> n_compiled y = true -> n_linkback y = false ->
                  In m (n_mixins y) -> g_get (run ops) m = Some z -> n_locked z = true.
Proof.
  intros ops H. apply (lock_partial_from ops [] Inv_nil); auto.
  intros c y m z E. destruct c; discriminate.
Qed.

(* ================= linkback: every later change of an ancestor is visible ================= *)
Lemma defns_none : forall f g k, g_get g k = None -> defns f g k = None.
Proof. intros. destruct f; auto. rewrite defns_S, H. reflexivity. Qed.

Lemma linkback_modify : forall g n x t g' k, Inv g -> g_get g n = Some x -> NoDup (keys t) ->
  upd (length g) (g_mod g n (set_own t)) n = Some g' -> Lb g n k -> obs g' k = defns (length g') g' k.
Proof.
  intros g n x t g' k I E N U Hk.
  set (g1 := g_mod g n (set_own t)) in *.
  pose proof (Inv_set_own g n t I N) as I1. fold g1 in I1.
  assert (length g1 = length g) as L1 by apply length_g_mod.
  destruct (upd_spec _ _ _ _ U) as [(K & C & S) F].
  assert (length g' = length g) as L' by (destruct K; congruence).
  assert (Lb g1 n k) as Hk1 by (eapply Lb_same; [apply same_set_own | exact Hk]).
  assert (visited (length g) g1 n k) as V.
  { unfold visited. apply lb_b_complete; auto. rewrite <- L1. apply inv_cterm; auto. rewrite L1. eapply g_get_lt; eauto. }
  unfold obs. destruct (g_get g' k) eqn:Ek.
  - destruct (n_compiled n0) eqn:Ck; auto.
    rewrite (F k n0 V Ek Ck). rewrite L1, L'. apply gkeep_defns. auto.
  - symmetry. apply defns_none. auto.
Qed.

Lemma linkback : forall ops o k, let g := run ops in
  (match o with ORegister _ _ _ | OUnregister _ _ => True | _ => False end) ->
  snd (step g o) = Done -> Lb g (target g o) k ->
  obs (step_g g o) k = defns (length (step_g g o)) (step_g g o) k.
Proof.
  intros ops o k g Ho D Hk. pose proof (Inv_run ops) as I. fold g in I.
  unfold step_g in *. destruct o; try contradiction; cbn [step target] in *.
  - rewrite do_register_unfold in *.
    destruct (do_modify_cases g n (t_register sig l)) as [(x & t & g' & E & Lk & F & U & Q)|[Nd _]]; [|congruence].
    rewrite Q. cbn. eapply linkback_modify; eauto. eapply register_nodup; eauto. eapply inv_nodup; eauto.
  - unfold do_unregister in *.
    destruct (do_modify_cases g n (fun t => Some (t_remove l t))) as [(x & t & g' & E & Lk & F & U & Q)|[Nd _]]; [|congruence].
    rewrite Q. cbn. eapply linkback_modify; eauto. injection F as <-. apply nodup_t_remove. eapply inv_nodup; eauto.
Qed.

(* ================= used nodes stay equal to the overlay in histories without the two finding classes ================= *)
Definition Fresh (g : graph) : Prop :=
  forall n x, g_get g n = Some x -> n_compiled x = true -> Some (n_snap x) = defns (length g) g n.

Lemma filter_nil : forall A (f : A -> bool) l, filter f l = [] -> forall x, In x l -> f x = false.
Proof.
  induction l; cbn; intros; [contradiction|]. destruct (f a) eqn:E; [discriminate|].
  destruct H0 as [<-|H0]; auto.
Qed.

Lemma anc_b_new : forall g ms lb f c, Inv g -> c < length g -> anc_b f (created g ms lb) (length g) c = false.
Proof.
  intros g ms lb f c I. revert c. destruct (created_old g ms lb) as (L & Enew & Old).
  induction f; intros c Lc; cbn [anc_b].
  - rewrite orb_false_r. apply Nat.eqb_neq. lia.
  - apply orb_false_iff. split; [apply Nat.eqb_neq; lia|].
    destruct (g_get_some _ _ Lc) as [x Ex]. destruct (Old _ _ Ex) as [y [Ey R]]. rewrite Ey.
    destruct R as (_ & R2 & _). rewrite R2.
    destruct (existsb (anc_b f (created g ms lb) (length g)) (n_mixins x)) eqn:X; auto.
    apply existsb_exists in X. destruct X as [m [Im Am]]. rewrite IHf in Am; [discriminate|].
    eapply inv_mixin_lt; eauto.
Qed.

Lemma Anc_lt : forall g a n, Inv g -> Anc g a n -> n < length g -> a < length g.
Proof.
  intros g a n I H. induction H; auto. intros Ln. apply IHAnc. eapply inv_mixin_lt; eauto.
Qed.

Lemma Fresh_create : forall g ms lb, Inv g -> Fresh g -> Fresh (created g ms lb).
Proof.
  intros g ms lb I Fg n y Ey Cy. destruct (created_old g ms lb) as (L & Enew & Old).
  destruct (Nat.lt_ge_cases n (length g)) as [Ln|Ln].
  - destruct (g_get_some _ _ Ln) as [x Ex]. destruct (Old _ _ Ex) as [y' [Ey' R]]. rewrite Ey in Ey'. injection Ey' as <-.
    destruct R as (_ & _ & _ & _ & R5 & R6 & _). rewrite R6, (Fg n x Ex) by congruence.
    symmetry. apply iso_defns with (N := length g); auto; [apply iso_create|].
    destruct (anc_b (length g) g (length g) n) eqn:B; auto. apply anc_b_sound in B.
    pose proof (Anc_lt _ _ _ I B Ln). lia.
  - assert (n = length g) as -> by (apply g_get_lt in Ey; lia). rewrite Enew in Ey. injection Ey as <-. discriminate.
Qed.

Lemma Fresh_compile : forall g n g', Inv g -> compile g n = Some g' -> Fresh g -> Fresh g'.
Proof.
  intros g n g' I C Fg k y Ey Cy. pose proof (compile_gkeep _ _ _ C) as K.
  assert (length g' = length g) as L by (destruct K; auto). rewrite L, <- (gkeep_defns _ _ K).
  destruct (Nat.eq_dec k n) as [->|Ne].
  - destruct (compile_self _ _ _ C) as (y' & Ey' & _ & Sy). congruence.
  - destruct (gkeep_back _ _ _ _ K Ey) as [x [Ex _]].
    destruct (compile_other _ _ _ _ _ C Ne Ex) as (y' & Ey' & Cy' & Sy'). rewrite Ey in Ey'. injection Ey' as <-.
    rewrite Sy'. apply Fg; auto. congruence.
Qed.

(* register / unregister on n: fresh again provided every used node deriving from n is reached by the propagation *)
Lemma Fresh_modify : forall g n x t g', Inv g -> Fresh g -> g_get g n = Some x -> NoDup (keys t) ->
  upd (length g) (g_mod g n (set_own t)) n = Some g' ->
  (forall c, c < length g -> compiled_b g c = true -> anc_b (length g) g n c = true -> lb_b (length g) g n c = true) ->
  Fresh g'.
Proof.
  intros g n x t g' I Fg E N U Hexp k y Ey Cy.
  set (g1 := g_mod g n (set_own t)) in *.
  pose proof (same_set_own g n t) as Ssk. fold g1 in Ssk.
  assert (length g1 = length g) as L1 by apply length_g_mod.
  destruct (upd_spec _ _ _ _ U) as [(K & C & S) F].
  assert (length g' = length g) as L' by (destruct K; congruence).
  destruct (gkeep_back _ _ _ _ K Ey) as [x1 [Ex1 _]].
  assert (k < length g) as Lk by (rewrite <- L1; eapply g_get_lt; eauto).
  assert (n_compiled x1 = true) as Cx1.
  { pose proof (C k) as Ck. rewrite (compiled_b_get _ _ _ Ey), (compiled_b_get _ _ _ Ex1) in Ck. congruence. }
  assert (exists x0, g_get g k = Some x0 /\ n_compiled x0 = true /\ n_snap x0 = n_snap x1) as (x0 & Ex0 & Cx0 & Sx0).
  { unfold g1 in Ex1. rewrite g_get_mod in Ex1. destruct (Nat.eqb k n) eqn:Ekn.
    - apply Nat.eqb_eq in Ekn. subst. rewrite E in Ex1. cbn in Ex1. injection Ex1 as <-. eauto.
    - eauto. }
  rewrite L', <- L1. rewrite <- (gkeep_defns _ _ K).
  destruct (lb_b (length g) g1 n k) eqn:V.
  - rewrite (F k y V Ey Cy). rewrite L1. reflexivity.
  - destruct (S _ _ _ Ex1 Ey) as [Q|(_ & V' & _)]; [|unfold visited in V'; congruence].
    rewrite Q, <- Sx0, (Fg k x0 Ex0 Cx0). rewrite L1.
    assert (anc_b (length g) g n k = false) as A.
    { destruct (anc_b (length g) g n k) eqn:A; auto.
      assert (lb_b (length g) g n k = true) as B by (apply Hexp; auto; unfold compiled_b; rewrite Ex0; auto).
      rewrite (lb_b_same g g1 Ssk) in B. congruence. }
    apply defns_local with (a := n); auto.
    intros m Ne. unfold g1. rewrite g_get_mod_other; auto.
Qed.

Lemma Fresh_mixed : forall g n x ms, Inv g -> Fresh g -> g_get g n = Some x ->
  (forall c, c < length g -> compiled_b g c = true -> anc_b (length g) g n c = false) ->
  Fresh (mixed g n x ms).
Proof.
  intros g n x ms I Fg E Hexp k y Ey Cy.
  destruct (mixed_rel g n x ms E) as [L Old]. cbn zeta in Old.
  assert (k < length g) as Lk by (rewrite <- L; eapply g_get_lt; eauto).
  destruct (g_get_some _ _ Lk) as [x0 Ex0]. destruct (Old _ _ Ex0) as [y' [Ey' R]]. rewrite Ey in Ey'. injection Ey' as <-.
  destruct R as (_ & _ & _ & R4 & R5 & _). rewrite R5, (Fg k x0 Ex0) by congruence.
  symmetry. apply iso_defns with (N := n); auto; [apply iso_mixed; auto|].
  apply Hexp; auto. unfold compiled_b. rewrite Ex0. congruence.
Qed.

Lemma exposed_mod_nil : forall g n, exposed_mod g n = [] ->
  forall c, c < length g -> compiled_b g c = true -> anc_b (length g) g n c = true -> lb_b (length g) g n c = true.
Proof.
  intros g n H c Lc Cc Ac. pose proof (filter_nil _ _ _ H c) as Q. cbv beta in Q.
  rewrite Cc, Ac in Q. cbn in Q. destruct (lb_b (length g) g n c); auto. discriminate Q. apply in_seq. lia.
Qed.

Lemma exposed_mix_nil : forall g n, exposed_mix g n = [] ->
  forall c, c < length g -> compiled_b g c = true -> anc_b (length g) g n c = false.
Proof.
  intros g n H c Lc Cc. pose proof (filter_nil _ _ _ H c) as Q. cbv beta in Q.
  rewrite Cc in Q. cbn in Q. apply Q. apply in_seq. lia.
Qed.

Lemma Fresh_step : forall g o, Inv g -> Fresh g -> (is_done (snd (step g o)) = false \/ exposed g o = []) -> Fresh (step_g g o).
Proof.
  intros g o I Fg H.
  destruct (is_done (snd (step g o))) eqn:D.
  2:{ rewrite refused_unchanged; auto. intros Q. rewrite Q in D. discriminate. }
  destruct H as [H|H]; [discriminate|].
  unfold step_g. destruct o; cbn [step exposed] in *.
  - destruct (valid_ids g mixins) eqn:V; [rewrite do_create_eq by auto; apply Fresh_create; auto | rewrite do_create_invalid by auto; auto].
  - destruct (valid_ids g (n :: mixins)) eqn:V; [rewrite do_create_eq by auto; apply Fresh_create; auto | rewrite do_create_invalid by auto; auto].
  - destruct (valid_ids g (n :: mixins)) eqn:V; [|rewrite do_create_invalid by auto; auto].
    rewrite do_create_eq by auto. rewrite do_register_unfold.
    pose proof (Inv_create g (n :: mixins) lb I V) as I1.
    destruct (created_old g (n :: mixins) lb) as (L1 & Enew & Old).
    destruct (do_modify_cases (created g (n :: mixins) lb) (length g) (t_register sig l))
      as [(x & t & g' & E & Lk & F & U & ->)|[Nd Eq]].
    + cbn. eapply Fresh_modify; eauto.
      * apply Fresh_create; auto.
      * eapply register_nodup; eauto. eapply inv_nodup; eauto.
      * intros c Lc Cc Ac. rewrite L1 in *.
        destruct (Nat.eq_dec c (length g)) as [->|Ne].
        -- unfold compiled_b in Cc. rewrite Enew in Cc. discriminate.
        -- rewrite anc_b_new in Ac; [discriminate | auto | lia].
    + destruct (do_modify (created g (n :: mixins) lb) (length g) (t_register sig l)) as [g2 o2].
      cbn in *. destruct o2; cbn; auto. congruence.
  - destruct (do_add_mixins_cases g n ms) as [(x & E & V & Lk & W & ->)|(_ & _ & ->)]; auto.
    cbn. apply Fresh_mixed; auto. apply exposed_mix_nil. auto.
  - rewrite do_register_unfold.
    destruct (do_modify_cases g n (t_register sig l)) as [(x & t & g' & E & Lk & F & U & ->)|[_ ->]]; auto.
    cbn. eapply Fresh_modify; eauto.
    + eapply register_nodup; eauto. eapply inv_nodup; eauto.
    + apply exposed_mod_nil. auto.
  - unfold do_unregister.
    destruct (do_modify_cases g n (fun t => Some (t_remove l t))) as [(x & t & g' & E & Lk & F & U & ->)|[_ ->]]; auto.
    cbn. eapply Fresh_modify; eauto.
    + injection F as <-. apply nodup_t_remove. eapply inv_nodup; eauto.
    + apply exposed_mod_nil. auto.
  - unfold do_use. destruct (g_get g n) eqn:E; auto. destruct (n_compiled n0); auto.
    destruct (compile g n) eqn:C; auto. cbn. eapply Fresh_compile; eauto.
Qed.

Lemma fresh_from : forall ops g, Inv g -> Fresh g -> stale_free_from g ops = true -> Fresh (run_from g ops).
Proof.
  induction ops as [|o r IH]; cbn; intros g I Fg H; auto.
  apply andb_true_iff in H. destruct H as [H1 H2]. apply IH; auto.
  - apply Inv_step; auto.
  - apply Fresh_step; auto. apply orb_true_iff in H1. destruct H1 as [H1|H1].
    + left. apply negb_true_iff. auto.
    + right. destruct (exposed g o); auto. discriminate.
Qed.

Lemma fresh_obs : forall g n, Fresh g -> n < length g -> obs g n = defns (length g) g n.
Proof.
  intros g n F Ln. unfold obs. destruct (g_get_some _ _ Ln) as [x E]. rewrite E.
  destruct (n_compiled x) eqn:C; auto.
Qed.

Lemma overlay_used : forall ops n x t, stale_free ops = true -> let g := run ops in
  g_get g n = Some x -> obs g n = Some t ->
  exists pts, Forall2 (fun m pt => obs g m = Some pt) (n_mixins x) pts /\
              forall k, t_get k t = overlay_get k pts (n_own x).
Proof.
  intros ops n x t SF g E O. pose proof (Inv_run ops) as I. fold g in I.
  assert (Fresh g) as Fg.
  { apply (fresh_from ops [] Inv_nil); auto. intros k y Ek. destruct k; discriminate. }
  rewrite fresh_obs in O; auto; [|eapply g_get_lt; eauto].
  destruct (overlay_defns g n x t I E O) as [pts [F2 Hk]]. exists pts. split; auto.
  assert (forall m, In m (n_mixins x) -> m < length g) as Lm by (intros; eapply inv_mixin_lt; eauto).
  clear -F2 Fg Lm. induction F2; constructor; auto.
  - rewrite fresh_obs; auto. apply Lm. left. auto.
  - apply IHF2. intros. apply Lm. right. auto.
Qed.
