(* C05 — after register/unregister, behaviour equals a freshly built function.
   Theorems only.  Models: Model/Cache.v (public multi-type table: register empties the dict but neither the
   remembered errors nor the candidate sets) and Model/Resolve.v (defs_register / defs_unregister: the function's
   definition dictionary with its tiebreak push-down). *)
From Coq Require Import ZArith List Bool Arith.
Import ListNotations.
From OvldV Require Import Model.Order Model.Ty Model.Codec Model.Resolve Model.Cache Proofs.CacheFacts Proofs.CacheFull Proofs.RegIds.

(* Table: after any sequence of registrations and plain accesses, whatever the table holds under a plain key is what a
   table freshly built from the resulting registrations answers, and so is every later plain access.
   (Full since the repair of KF-04 -- register() now also forgets remembered errors and candidate sets; before it the
   statement was refuted by: ambiguous lookup, disambiguating registration, stale ambiguity.)
   Plain keys, without a distinctness hypothesis; C05_table_full below covers continuation keys too. *)
Theorem C05_table : forall sub hasm chk fresh ms ops,
  forallb plain_or_reg ops = true ->
  PInv sub hasm chk fresh (final_ms ms ops) (fst (crun sub hasm chk fresh (cinit ms) ops)).
Proof. intros; apply mixed_history_inv; [apply PInv_init|assumption]. Qed.
Print Assumptions C05_table.

Theorem C05_table_after_register : forall sub hasm chk fresh st m ops,
  forallb plain_op ops = true ->
  Forall2 (op_fresh sub hasm chk fresh (cs_ms st ++ [m])) ops (snd (crun sub hasm chk fresh (cregister st m) ops)).
Proof. exact register_fresh. Qed.
Print Assumptions C05_table_after_register.

(* Table, full: every access of any history of registrations and accesses -- plain keys and continuation keys
   (caller code, *types) -- returns what a brand-new table over the handlers registered so far returns
   (handlers with distinct code objects). *)
Theorem C05_table_full : forall sub hasm chk fresh ms ops st' outs,
  NoDup (map m_id (ms ++ regs ops)) ->
  crun sub hasm chk fresh (cinit ms) ops = (st', outs) -> outs_of outs = expected sub hasm chk fresh ms ops.
Proof. exact history_free. Qed.
Print Assumptions C05_table_full.

(* Function, registrations: whatever the sequence of registrations (re-registrations of a signature included), the
   definitions dictionary keeps unique (signature, tiebreak) keys and holds exactly the registered methods -- the
   push-down never loses or duplicates one, and the recursion bound of the model always suffices.
   (With unregistration the dictionary still holds the right methods but their tiebreaks are history: KF-05.) *)
Theorem C05_registrations_keep_all : forall ds,
  uniq (fold_left defs_register ds []) /\
  Permutation.Permutation (map m_id (fold_left defs_register ds [])) (map m_id ds).
Proof. intros ds. destruct (registered_complete ds [] uniq_nil) as [U P]. split; [exact U|exact P]. Qed.
Print Assumptions C05_registrations_keep_all.

Definition wh : hier :=   (* 0 object, 1 A, 2 B, 3 C(A,B) *)
  {| h_supers := [[0]; [0; 1]; [0; 2]; [0; 1; 2; 3]]; h_meths := []; h_preds := []; h_fresh := [0] |}.
Definition a := mkMeth 0 [Cls 1] [] 1 [] 0 0.
Definition b := mkMeth 1 [Cls 2] [] 1 [] 0 0.
Definition c := mkMeth 2 [Cls 3] [] 1 [] 0 0.
Definition kC := mkQ None (mkKey [Cls 3] []).

(* the witness of the repaired KF-04 now behaves: ambiguous, registration, then the new handler *)
Example C05_kf04_witness_fixed :
  snd (crun (hsub wh) (hhasm wh) (hchk wh) (hfresh wh) (cinit [a; b]) [CGet kC; CReg c; CGet kC])
    = [Some (OAmbig [0; 1], true); None; Some (ORun 2, true)].
Proof. vm_compute. reflexivity. Qed.

(* FULL STATEMENT (function): after any sequence of register / re-register / unregister the function behaves like one
   built from the resulting method set.  Each change after first use builds a brand-new table (no stale cache), but the
   tiebreaks are history: C05_function_refuted (KF-05): register a1(A), a2(A) [same signature], unregister a2,
   register b(B): a1 keeps tiebreak -1, so for C(A,B) b wins, while a fresh function over {a1, b} is ambiguous. *)
Definition a1 := mkMeth 0 [Cls 1] [] 1 [] 0 0.
Definition a2 := mkMeth 1 [Cls 1] [] 1 [] 0 0.
Definition b1 := mkMeth 2 [Cls 2] [] 1 [] 0 0.
Theorem C05_function_refuted :
  let hist := defs_register (defs_unregister (defs_register (defs_register [] a1) a2) 1) b1 in
  let fresh_defs := defs_register (defs_register [] a1) b1 in
  lookup (hsub wh) (hhasm wh) (hchk wh) (hfresh wh) hist (mkKey [Cls 3] []) = ORun 2 /\
  lookup (hsub wh) (hhasm wh) (hchk wh) (hfresh wh) fresh_defs (mkKey [Cls 3] []) = OAmbig [0; 2].
Proof. vm_compute. split; reflexivity. Qed.
Print Assumptions C05_function_refuted.
