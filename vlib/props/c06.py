"""C06 — resolution is deterministic and ignores irrelevant context."""
import json, collections, subprocess, os, sys
from .. import model, progs, VERIF, PY, REPO_SRC
from ..world import World, random_spec, world_from
from . import resolve_common as R

CLAIM = dict(
    text="Coq theorems (static fragment, any class DAG, any method list): for every call the documented rule decides -- it names a winner, or no method is applicable -- every permutation of the method list (which in the model is every registration order and every iteration order of the internal sets) returns that same outcome (C06_order_free_when_decided, C06_nomethod_order_free), and adding methods that are not applicable to the call does not change it (C06_irrelevant_when_decided); for every call whose classes fall under pairwise comparable registered types at each position (every call under single inheritance), decided or ambiguous, the verdict is the same under every permutation and unchanged by non-applicable methods (C06_order_free_on_chains, C06_irrelevant_on_chains); corollaries of C02's theorems. The full statement is false of the faithful model: C06_irrelevant_refuted (KF-01: a 2-argument method changes a 1-argument call), C06_order_refuted_union (KF-06: f(x: A|B) / f(x: B|A) -- whichever type is visited first wins), C06_order_refuted_cycle (KF-23: CycleError in one order, a method in another). Tie to /repo: with the guarded hook each program is run under several imposed registration/iteration orders and the model is run with the same orders (exact agreement required, also where the outcome is order-dependent); with the hook off the same program runs in fresh interpreters under different PYTHONHASHSEEDs and address layouts; each program is also extended with non-applicable methods. Outcomes that differ between orders / seeds / extensions must fall in the known classes (a hook-vs-hook pair among the registered types of a slot; a call outside chain_applicable).",
    note="Trusted: as C02, plus the guarded reordering hook in mro.sort_types / MultiTypeMap.mro (OVLD_VERIF). Partial: calls the rule leaves ambiguous are covered by the correspondence only (the model is order-free there on static types, but that is not proved).",
    technique="Coq proof (corollaries of the C02 theorems under Permutation) + differential correspondence under imposed iteration orders, hash seeds and irrelevant methods", design="6 C06")

THEOREMS = ["C06_leaf_tied", "C06_order_free_when_decided", "C06_nomethod_order_free", "C06_irrelevant_when_decided", "C06_order_free_on_chains", "C06_irrelevant_on_chains",
            "C06_order_refuted_union", "C06_order_refuted_cycle", "C06_irrelevant_refuted"]
ASSUMPTIONS = ["hash-seed runs use fresh subprocesses with PYTHONHASHSEED in a small set and a varying number of junk classes allocated first"]


def gen_prog(rng, union_rate=0.35):
    spec = random_spec(rng, kinds=("plain", "plain", "plain", "abc", "proto"))
    w = World(spec)
    defs = R.gen_static_defs(rng, w, allow_kw=False, allow_dup=False, allow_arity=False)
    cls_ids = [0, 2, 3] + w.user_ids()
    if rng.random() < union_rate:
        # overlapping unions / intersections over a small pool of classes, in both member orders
        pool = rng.sample(cls_ids, min(3, len(cls_ids)))
        kind = rng.choice([2, 2, 3])
        for d in defs:
            for i in range(len(d["pos"])):
                if rng.random() < 0.6:
                    ab = rng.sample(pool, 2) if len(pool) >= 2 else pool * 2
                    d["pos"][i] = [kind, [0, ab[0]], [0, ab[1]]]
    # distinct signatures only (registration order of distinct signatures is what the property quantifies over)
    seen, out = set(), []
    for d in defs:
        # distinct up to the order of union members (reordered unions are one signature)
        k = json.dumps([[model.canon_ty(t) for t in d["pos"]], d["prio"]])
        if k not in seen:
            seen.add(k)
            out.append(d)
    defs = out
    calls = R.gen_calls(rng, w, [dict(d, pos=[[0, t[1] if t[0] == 0 else t[1][1]] for t in d["pos"]]) for d in defs], n_calls=8)
    return {"spec": spec, "defs": defs, "calls": calls}


def run_order(prog, order):
    """register in the given order (the hook then imposes exactly that order on types and candidates); impl + model"""
    w = world_from(prog["spec"])
    defs = [prog["defs"][i] for i in order]
    b = progs.Built(w, defs)
    mms = R.model_defs(defs)
    keys = [R.call_key(c) for c in prog["calls"]]
    mres = model.run_cases([[10, w.encode(), mms, [[0, k] for k in keys]]])[0]
    impl = []
    for call in prog["calls"]:
        o, _ = b.call([w.instance(c) for c in call["pos"]], {f"k{k}": w.instance(c) for k, c in call.get("kw", {}).items()})
        impl.append(R.normalise(o, defs, call))
    return impl, [progs.dec_outcome(m) for m in mres]


def hookvshook(prog):
    """does some slot hold two registered types whose comparison is hook-vs-hook (msym false)?"""
    w = world_from(prog["spec"])
    npos = max(len(d["pos"]) for d in prog["defs"])
    for p in range(npos):
        ts = []
        for d in prog["defs"]:
            if p < len(d["pos"]) and d["pos"][p] not in ts:
                ts.append(d["pos"][p])
        if len(ts) < 2:
            continue
        res = model.run_cases([[2, w.encode(), [model.canon_ty(t) for t in ts], w.n]])[0]
        ms = res[2]
        if any(not ms[i][j] for i in range(len(ts)) for j in range(len(ts))):
            return True
    return False


def subprocess_outcomes(prog, seed, junk):
    env = dict(os.environ)
    env["PYTHONHASHSEED"] = str(seed)
    env["VERIF_JUNK"] = str(junk)
    env.pop("OVLD_VERIF", None)
    env["PYTHONPATH"] = VERIF + os.pathsep + REPO_SRC
    p = subprocess.run([PY, "-m", "vlib.subrun"], input=json.dumps(dict(prog, hook=False)), capture_output=True, text=True, env=env, cwd=VERIF, timeout=120)
    if p.returncode != 0:
        return ["crash", p.stderr[-300:]]
    return json.loads(p.stdout.strip().splitlines()[-1])


def irrelevant_extension(rng, prog):
    """methods that cannot apply to any of the calls: two more required positionals, or a required keyword"""
    npos = max(len(d["pos"]) for d in prog["defs"])
    w = world_from(prog["spec"])
    cls_ids = [0, 2, 3] + w.user_ids()
    extra = []
    nid = 500
    for _ in range(rng.randint(1, 3)):
        if rng.random() < 0.6:
            pos = [[0, rng.choice(cls_ids)] for _ in range(npos + 1)]
            extra.append({"id": nid, "pos": pos, "npos_req": npos + 1, "kw": [], "prio": rng.choice([0, 1])})
        else:
            pos = [[0, rng.choice(cls_ids)] for _ in range(npos)]
            extra.append({"id": nid, "pos": pos, "npos_req": npos, "kw": [[7, [0, 0], True]], "prio": rng.choice([0, 1])})
        nid += 1
    return extra


def check(ctx, prog, stats, do_sub):
    rng = ctx.rng
    n = len(prog["defs"])
    base_order = list(range(n))
    impl0, mod0 = run_order(prog, base_order)
    stats["evaluations"] += len(impl0)
    case = dict(prog)
    if impl0 != mod0:
        ctx.violation(f"registration order {base_order}: implementation {impl0} != model {mod0}", case, kind="correspondence")
        # the tie with the model is broken for this program: ask the property of the implementation alone, with the model
        # of the unchanged code deciding what is a known order-dependence (it is one only where the model's own outcomes
        # differ between the two runs)
        for _ in range(3):
            o = base_order[:]
            rng.shuffle(o)
            impl, mod = run_order(prog, o)
            stats["evaluations"] += len(impl)
            bad = [i for i in range(len(impl)) if impl[i] != impl0[i] and mod[i] == mod0[i]]
            if bad:
                ctx.violation(f"outcome depends on the registration / iteration order: {impl0[bad[0]]} vs {impl[bad[0]]} under {o} (the unchanged code's model gives {mod0[bad[0]]} under both)",
                              dict(case, order=o, calls=[prog["calls"][bad[0]]]))
                return
        extra = irrelevant_extension(rng, prog)
        ext = dict(prog, defs=prog["defs"] + extra)
        impl_e, mod_e = run_order(ext, list(range(len(ext["defs"]))))
        stats["evaluations"] += len(impl_e)
        bad = [i for i in range(len(impl0)) if impl_e[i] != impl0[i] and mod_e[i] == mod0[i]]
        if bad:
            ctx.violation(f"a method not applicable to the call changes its outcome: {impl0[bad[0]]} -> {impl_e[bad[0]]} (the unchanged code's model gives {mod0[bad[0]]} with and without it)",
                          dict(ext, calls=[ext["calls"][bad[0]]]))
        return
    known_class = None
    orders = []
    for _ in range(3 if ctx.quick() else 6):
        o = base_order[:]
        rng.shuffle(o)
        orders.append(o)
    for o in orders:
        impl, mod = run_order(prog, o)
        stats["evaluations"] += len(impl)
        stats["orders"] += 1
        if impl != mod:
            ctx.violation(f"imposed order {o}: implementation {impl} != model {mod}", dict(case, order=o), kind="correspondence")
            return
        if impl != impl0:
            if known_class is None:
                known_class = hookvshook(prog)
            diff = [i for i in range(len(impl)) if impl[i] != impl0[i]]
            if known_class:
                kf = "KF-23" if any(impl[i] == ["exc", "CycleError"] or impl0[i] == ["exc", "CycleError"] for i in diff) else "KF-06"
                ctx.known_hit(kf, dict(case, order=o))
                stats["order_dependent"] += 1
            else:
                ctx.violation(f"outcome depends on the registration / iteration order: {impl0} vs {impl} under {o}", dict(case, order=o))
                return
    # irrelevant methods
    extra = irrelevant_extension(rng, prog)
    ext = dict(prog, defs=prog["defs"] + extra)
    impl_e, mod_e = run_order(ext, list(range(len(ext["defs"]))))
    stats["evaluations"] += len(impl_e)
    if impl_e != mod_e:
        ctx.violation(f"with non-applicable methods: implementation {impl_e} != model {mod_e}", ext, kind="correspondence")
        return
    if impl_e != impl0:
        w = world_from(ext["spec"])
        keys = [R.call_key(c) for c in ext["calls"]]
        sres = model.run_cases([[13, w.encode(), [progs.enc_method(d, 0) for d in ext["defs"]], keys]])[0]
        for i in range(len(impl0)):
            if impl_e[i] != impl0[i]:
                static_chain = bool(sres[i][1]) and bool(sres[i][2])
                if not static_chain:
                    ctx.known_hit("KF-01" if bool(sres[i][2]) else "KF-06", dict(ext, calls=[ext["calls"][i]]))
                    stats["irrelevant_dependent"] += 1
                else:
                    ctx.violation(f"a method not applicable to the call changes its outcome: {impl0[i]} -> {impl_e[i]}", dict(ext, calls=[ext["calls"][i]]))
                    return
    # the same with keywords in play: every method also takes an optional keyword k8 which every call passes; the added
    # methods require a keyword (k7) no call passes and declare k8 too -- their required names are then neither a subset
    # nor a superset of the names passed
    if all(len(d["pos"]) == d["npos_req"] and t[0] == 0 for d in prog["defs"] for t in d["pos"]) and rng.random() < 0.5:
        inst0 = prog["calls"][0]["pos"][0] if prog["calls"] and prog["calls"][0]["pos"] else 0
        kdefs = [dict(d, kw=[[8, [0, 0], False]]) for d in prog["defs"]]
        kcalls = [dict(c, kw={"8": inst0}) for c in prog["calls"] if len(c["pos"]) == max(len(d["pos"]) for d in prog["defs"])]
        if kcalls:
            kprog = dict(prog, defs=kdefs, calls=kcalls)
            kextra = [dict(e, kw=[[7, [0, 0], True], [8, [0, 0], False]], pos=e["pos"][:len(kdefs[0]["pos"])], npos_req=len(kdefs[0]["pos"])) for e in extra]
            kext = dict(kprog, defs=kdefs + kextra)
            i0, m0 = run_order(kprog, list(range(len(kdefs))))
            i1, m1 = run_order(kext, list(range(len(kext["defs"]))))
            stats["evaluations"] += len(i0) + len(i1)
            stats["keyword_irrelevance_calls"] += len(i1)
            if i0 != m0 or i1 != m1:
                ctx.violation(f"keyword programs: implementation {i0} / {i1} != model {m0} / {m1}", kext, kind="correspondence")
                return
            if i0 != i1:
                wk = world_from(kext["spec"])
                ksres = model.run_cases([[13, wk.encode(), [progs.enc_method(d, 0) for d in kext["defs"]], [R.call_key(c) for c in kcalls]]])[0]
                for j in range(len(i0)):
                    if i0[j] != i1[j]:
                        if not (bool(ksres[j][1]) and bool(ksres[j][2])):
                            ctx.known_hit("KF-01", dict(kext, calls=[kcalls[j]]))      # the added methods' types shift the layer indices
                            stats["irrelevant_dependent"] += 1
                        else:
                            ctx.violation(f"a method whose required keyword is not passed changes the outcome of the call: {i0[j]} -> {i1[j]}", dict(kext, calls=[kcalls[j]]))
                            return
    # hash seeds / fresh processes, hook off
    if do_sub:
        outs = []
        for seed, junk in ((0, 0), (1, 3), (12345, 17)):
            outs.append(subprocess_outcomes(prog, seed, junk))
            stats["subprocess_runs"] += 1
        for o in outs:
            if o and o[0] == "crash":
                ctx.violation("subprocess crashed: " + str(o[1]), case, kind="harness")
                return
        if any(o != outs[0] for o in outs):
            if known_class is None:
                known_class = hookvshook(prog)
            if known_class:
                ctx.known_hit("KF-06", case)
                stats["seed_dependent"] += 1
            else:
                ctx.violation(f"outcomes differ between interpreter runs / hash seeds: {outs}", case)
                return
        elif outs[0] != impl0 and not known_class and not hookvshook(prog):
            ctx.violation(f"outcomes with the hook off {outs[0]} differ from those under the imposed registration order {impl0}", case)
            return
    stats["programs"] += 1


def check_metaclass_irrelevance(ctx, stats):
    """a class passed as the argument, a method declared on its METACLASS, and added methods that can never accept a class
    (value-dependent annotations): the added methods must not change the outcome.  Classes with custom metaclasses are
    outside the modelled worlds, so this is the property oracle alone."""
    import abc, enum, typing
    import ovld as _ov
    from ovld.dependent import StartsWith

    class Meta(type):
        pass

    class K(metaclass=Meta):
        pass

    class E(enum.Enum):
        A = 1

    class Ab(abc.ABC):
        pass
    for meta, arg in ((Meta, K), (enum.EnumMeta, E), (abc.ABCMeta, Ab)):
        outs = []
        for extras in ([], [typing.Literal[1]], [tuple[int, int], list[int]], [StartsWith["a"], typing.Literal["x", "y"]]):
            f = _ov.Ovld(name="f")

            def m_meta(x: meta):
                return "metaclass"

            def m_obj(x: object):
                return "object"
            f.register(m_meta)
            f.register(m_obj)
            for k, t in enumerate(extras):
                def extra(x):
                    return "extra"
                extra.__annotations__ = {"x": t}
                f.register(extra)
            try:
                outs.append(f(arg))
            except TypeError as e:
                outs.append("TypeError:" + str(e)[:50])
            stats["evaluations"] += 1
            stats["metaclass_irrelevance_calls"] += 1
        if any(o != outs[0] for o in outs):
            ctx.violation(f"methods that cannot accept a class change the outcome of f({arg.__name__}) with a method on its metaclass {meta.__name__}: {outs}",
                          {"metaclass": meta.__name__})
            return


def gen_value_prog(rng):
    """value-typed programs whose outcome could depend on iteration order: families of tuple[...] types with one
    ordered and one unrelated component, and families of overlapping multi-valued Literals"""
    from . import dep_common as D
    from ..world import enc_val
    if rng.random() < 0.5:
        spec = [{"kind": "plain", "bases": [], "meths": []}, {"kind": "plain", "bases": [0], "meths": []},
                {"kind": "plain", "bases": [], "meths": []}, {"kind": "plain", "bases": [], "meths": []},
                {"kind": "plain", "bases": [2, 3], "meths": []}]
        w = World(spec)
        A, B, X, Y, XY = w.user_ids()
        comps1, comps2 = [A, B], [X, Y, XY]
        defs = []
        seen = set()
        for i in range(rng.randint(2, 4)):
            t = [11, [0, D.TUPLE], [0, rng.choice(comps1)], [0, rng.choice(comps2)]]
            if rng.random() < 0.5:
                t = [11, [0, D.TUPLE], t[3], t[2]]
            if json.dumps(t) in seen:
                continue
            seen.add(json.dumps(t))
            defs.append({"id": i, "pos": [t], "npos_req": 1, "kw": [], "prio": 0})
        vals = [(w.instance(a), w.instance(b)) for a in (A, B) for b in (X, Y, XY)] + [(w.instance(b), w.instance(a)) for a in (A, B) for b in (X, Y, XY)]
        calls = [{"vals": [enc_val(v, w)]} for v in vals]
        return {"spec": spec, "defs": defs, "utab": {}, "calls": calls}
    w = World([])
    pool = [1, 2, 3, 4]
    defs = []
    seen = set()
    for i in range(rng.randint(2, 5)):
        vals = sorted(rng.sample(pool, rng.randint(1, 3)))
        if tuple(vals) in seen:
            continue
        seen.add(tuple(vals))
        defs.append({"id": i, "pos": [[8, [0, D.INT]] + [enc_val(v) for v in vals]], "npos_req": 1, "kw": [], "prio": 0})
    return {"spec": [], "defs": defs, "utab": {}, "calls": [{"vals": [enc_val(v)]} for v in pool + [9]]}


def check_value_orders(ctx, stats):
    from . import dep_common as D
    prog = gen_value_prog(ctx.rng)
    if len(prog["defs"]) < 2:
        return
    base = None
    broken = False
    for k in range(3 if not broken else 5):
        order = list(range(len(prog["defs"])))
        if k:
            ctx.rng.shuffle(order)
        p = dict(prog, defs=[prog["defs"][i] for i in order])
        res, w, b = D.eval_dep_program(p)
        impl = [r["impl"] for r in res]
        mod = [r["model"] for r in res]
        stats["evaluations"] += len(impl)
        stats["value_orders"] += 1
        if impl != mod and not broken:
            ctx.violation(f"value-typed program under order {order}: implementation {impl} != model {mod}", dict(p, order=order), kind="correspondence")
            broken = True           # the tie is broken: the orders are still compared with one another on the implementation
        if base is None:
            base = impl
        elif impl != base:
            ctx.violation(f"outcome of a value-typed program depends on the registration / iteration order: {base} vs {impl} under {order}", dict(prog, order=order))
            return


def exhaustive_irrelevance_small(ctx, stats):
    """complete enumeration over three small multiple-inheritance hierarchies (C02's): every pair of one-argument methods,
    every instantiable argument class, and for every class X the function extended with a two-argument method on X
    (never applicable to a one-argument call).  An outcome that changes is KF-01 where the model of the unchanged code
    predicts the same change, a violation otherwise."""
    import itertools
    from .c02 import SMALL_WORLDS
    from ..world import World
    for spec in SMALL_WORLDS:
        w = World(spec)
        classes = [0] + w.user_ids()
        inst = [c for c in classes if w.instantiable(c)]
        calls = [{"pos": [c], "kw": {}} for c in inst]
        for combo in itertools.combinations(classes, 2):
            defs = [{"id": i, "pos": [[0, c]], "npos_req": 1, "kw": [], "prio": 0} for i, c in enumerate(combo)]
            res0, _, _ = R.eval_program({"spec": spec, "defs": defs, "calls": calls})
            for x in classes:
                ext = defs + [{"id": 9, "pos": [[0, x], [0, 2]], "npos_req": 2, "kw": [], "prio": 0}]
                res1, _, _ = R.eval_program({"spec": spec, "defs": ext, "calls": calls})
                stats["evaluations"] += len(calls)
                stats["small_scope_irrelevance_programs"] += 1
                for call, r0, r1 in zip(calls, res0, res1):
                    case = {"spec": spec, "defs": ext, "calls": [call], "without": 9}
                    if r0["impl"] != r0["model"] or r1["impl"] != r1["model"]:
                        ctx.violation(f"small scope: implementation {r0['impl']} / {r1['impl']} != model {r0['model']} / {r1['model']}", case, kind="correspondence")
                    if r0["impl"] != r1["impl"]:
                        if r0["model"] != r1["model"] and r1["impl"] == r1["model"] and r0["impl"] == r0["model"]:
                            ctx.known_hit("KF-01", case)
                            stats["irrelevant_dependent"] += 1
                        else:
                            ctx.violation(f"a two-argument method on class {x}, not applicable to the one-argument call, changes its outcome: {r0['impl']} -> {r1['impl']}"
                                          f" (the unchanged code's model: {r0['model']} -> {r1['model']})", case)
                            return


def run(ctx):
    stats = collections.Counter()
    samples = []
    distinct = set()
    check_metaclass_irrelevance(ctx, stats)
    exhaustive_irrelevance_small(ctx, stats)
    n = 40 if ctx.quick() else 1500
    for i in range(n):
        prog = gen_prog(ctx.rng)
        if not prog["calls"] or len(prog["defs"]) < 2:
            continue
        check(ctx, prog, stats, do_sub=(i % (4 if ctx.quick() else 10) == 0))
        check_value_orders(ctx, stats)
        distinct.add(hash(json.dumps(prog)))
        if len(samples) < 2:
            samples.append({"defs": prog["defs"], "calls": prog["calls"][:2]})
        if len(ctx.violations) > 3:
            break
    return {"evaluations": stats["evaluations"], "distinct_nontrivial": len(distinct),
            "rule": "random programs with >= 2 methods of distinct signatures over 1-3 positions (35% with Union / Intersection annotations in either member order); each run under 3-6 imposed registration/iteration orders (guarded hook; model run with the same order), extended with 1-3 non-applicable methods, and (every 4th / 10th program) in 3 fresh interpreters with different PYTHONHASHSEED and address layout, hook off; distinct by content",
            "samples": samples, "programs": stats["programs"], "imposed_orders": stats["orders"], "value_typed_program_orders": stats["value_orders"],
            "subprocess_runs": stats["subprocess_runs"], "small_scope_irrelevance_programs_enumerated_completely": stats["small_scope_irrelevance_programs"], "order_dependent_known": stats["order_dependent"],
            "irrelevant_method_dependent_known": stats["irrelevant_dependent"], "seed_dependent_known": stats["seed_dependent"],
            "traces_validated_against_impl": stats["evaluations"]}


def replay(ctx, payload):
    prog = payload["case"]
    if "without" in prog:      # irrelevance: the recorded function with and without the method named there
        small = dict(prog, defs=[d for d in prog["defs"] if d["id"] != prog["without"]])
        r1, _, _ = R.eval_program(prog)
        r0, _, _ = R.eval_program(small)
        print(json.dumps({"with": r1[0]["impl"], "without": r0[0]["impl"], "model_with": r1[0]["model"], "model_without": r0[0]["model"]}))
        return r0[0]["impl"] != r1[0]["impl"] or r0[0]["impl"] != r0[0]["model"] or r1[0]["impl"] != r1[0]["model"]
    if "utab" in prog:         # value-typed program under two orders
        from . import dep_common as D
        order = prog.get("order", list(range(len(prog["defs"]))))
        ra, _, _ = D.eval_dep_program(prog)
        rb, _, _ = D.eval_dep_program(dict(prog, defs=[prog["defs"][i] for i in order]))
        a, b = [r["impl"] for r in ra], [r["impl"] for r in rb]
        print(json.dumps({"base": a, "other": b}))
        return a != b or a != [r["model"] for r in ra] or b != [r["model"] for r in rb]
    order = prog.get("order", list(range(len(prog["defs"]))))
    a, ma = run_order(prog, list(range(len(prog["defs"]))))
    b, mb = run_order(prog, order)
    print(json.dumps({"base": a, "other": b, "model_base": ma, "model_other": mb}))
    return a != b or a != ma or b != mb


def replay_finding(ctx, e):
    wit = e.get("witness_C06", e["witness"])
    if e["id"] == "KF-01":
        from . import c02
        return c02.replay_finding(ctx, e)
    a, _ = run_order(wit, wit["order_a"])
    b, _ = run_order(wit, wit["order_b"])
    return a == wit["expect_a"] and b == wit["expect_b"]
