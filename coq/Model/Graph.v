(* Graph.v — the derivation graph of overloaded functions (core.py, class Ovld): definitions only.

   A node is one [Ovld] object.  What is modelled, line by line:
     __init__ / add_mixins / lock / _attempt_modify / defns / compile / _register (with the _set push-down) /
     unregister / _update / copy / variant / first call (= compile).
   What is NOT modelled: type resolution.  A node's behaviour is represented by its *effective table*
   (signature key -> method label); two nodes behave the same iff their effective tables are equal
   (that resolution depends on the table only is the business of the Resolve component).

   signature key = (opaque signature number, tiebreak): [Signature.__eq__] compares every field including
   [tiebreak]; types / priority / arity are folded into the opaque number.  Method labels are numbers
   (function identity: [unregister] filters with [is not]).

   Tables are Python dicts: insertion-ordered association lists; assigning to a present key replaces the value in
   place, assigning to an absent key appends.

   Fuel: [defns] and [lock] recurse through the mixins, [_update] through the children, [_set] down the tiebreaks; each
   has explicit fuel and answers [None] when it runs out (in Python: RecursionError, which happens exactly when
   add_mixins closed a cycle).  [step] refuses (outcome [Invalid]) the operations that refer to non-existent nodes
   or would close a cycle -- the check [wf_b] is the computation "every traversal of the new graph terminates
   within fuel = number of nodes". *)
From Coq Require Import ZArith List Bool Arith.
Import ListNotations.

(* ---------- tables (Python dict with insertion order) ---------- *)
Definition skey := (nat * Z)%type.
Definition skey_eqb (a b : skey) : bool := Nat.eqb (fst a) (fst b) && Z.eqb (snd a) (snd b).
Definition table := list (skey * nat).

Fixpoint t_get (k : skey) (t : table) : option nat :=
  match t with
  | [] => None
  | (k', v) :: r => if skey_eqb k k' then Some v else t_get k r
  end.

(* d[k] = v *)
Fixpoint t_set (k : skey) (v : nat) (t : table) : table :=
  match t with
  | [] => [(k, v)]
  | (k', v') :: r => if skey_eqb k k' then (k', v) :: r else (k', v') :: t_set k v r
  end.

(* a.update(b) *)
Definition t_update (a b : table) : table := fold_left (fun acc kv => t_set (fst kv) (snd kv) acc) b a.

(* {sig: f for sig, f in d.items() if f is not fn} *)
Definition t_remove (l : nat) (t : table) : table := filter (fun kv => negb (Nat.eqb (snd kv) l)) t.

(* _register's inner [_set]: an existing entry for the same signature is pushed down to tiebreak - 1, recursively *)
Fixpoint t_push (fuel : nat) (sig : nat) (tb : Z) (l : nat) (t : table) : option table :=
  match fuel with
  | 0 => None
  | S f =>
      match t_get (sig, tb) t with
      | Some old =>
          match t_push f sig (tb - 1)%Z old t with
          | Some t' => Some (t_set (sig, tb) l t')
          | None => None
          end
      | None => Some (t_set (sig, tb) l t)
      end
  end.

Definition t_register (sig l : nat) (t : table) : option table := t_push (S (length t)) sig 0%Z l t.

(* ---------- nodes and graphs ---------- *)
Record node : Type := mkNode {
  n_own : table;            (* _defns *)
  n_mixins : list nat;      (* mixins, in order *)
  n_children : list nat;    (* children (filled only by linkback derivations) *)
  n_linkback : bool;
  n_locked : bool;          (* _locked *)
  n_compiled : bool;        (* _compiled *)
  n_snap : table }.         (* what the dispatch table [map] was filled from at the last compile *)

Definition graph := list node.

Definition new_node (lb : bool) : node := mkNode [] [] [] lb false false [].
Definition set_own (t : table) (x : node) : node :=
  mkNode t (n_mixins x) (n_children x) (n_linkback x) (n_locked x) (n_compiled x) (n_snap x).
Definition add_mix (ms : list nat) (x : node) : node :=
  mkNode (n_own x) (n_mixins x ++ ms) (n_children x) (n_linkback x) (n_locked x) (n_compiled x) (n_snap x).
Definition add_child (c : nat) (x : node) : node :=
  mkNode (n_own x) (n_mixins x) (n_children x ++ [c]) (n_linkback x) (n_locked x) (n_compiled x) (n_snap x).
Definition set_locked (x : node) : node :=
  mkNode (n_own x) (n_mixins x) (n_children x) (n_linkback x) true (n_compiled x) (n_snap x).
Definition set_snap (t : table) (x : node) : node :=
  mkNode (n_own x) (n_mixins x) (n_children x) (n_linkback x) (n_locked x) true t.

Definition g_get (g : graph) (n : nat) : option node := nth_error g n.

Fixpoint g_mod (g : graph) (n : nat) (f : node -> node) : graph :=
  match g, n with
  | [], _ => []
  | x :: r, 0 => f x :: r
  | x :: r, S n' => x :: g_mod r n' f
  end.

Definition mem (x : nat) (l : list nat) : bool := existsb (Nat.eqb x) l.

(* ---------- defns: mixins' effective tables in order, then own; later overrides earlier ---------- *)
Definition defns_body (rec : nat -> option table) (x : node) : option table :=
  match fold_left (fun acc m => match acc, rec m with
                                | Some a, Some t => Some (t_update a t)
                                | _, _ => None
                                end) (n_mixins x) (Some []) with
  | Some a => Some (t_update a (n_own x))
  | None => None
  end.

Fixpoint defns (fuel : nat) (g : graph) (n : nat) : option table :=
  match fuel with
  | 0 => None
  | S f => match g_get g n with
           | None => None
           | Some x => defns_body (defns f g) x
           end
  end.

(* ---------- lock: the node, then every mixin that is not locked yet, recursively (regardless of linkback) ---------- *)
Fixpoint lock_rec (fuel : nat) (g : graph) (m : nat) : option graph :=
  match fuel with
  | 0 => None
  | S f =>
      match g_get g m with
      | None => None
      | Some x =>
          fold_left (fun acc q => match acc with
                                  | Some a => match g_get a q with
                                              | Some y => if n_locked y then Some a else lock_rec f a q
                                              | None => None
                                              end
                                  | None => None
                                  end)
                    (n_mixins x) (Some (g_mod g m set_locked))
      end
  end.

(* ---------- _lock_parents: a parent that lists this node among its children (linkback: its changes propagate) stays
   open, but its own parents are treated the same way, recursively; every other parent is locked ---------- *)
Fixpoint lock_parents (fuel : nat) (g : graph) (n : nat) : option graph :=
  match fuel with
  | 0 => None
  | S f =>
      match g_get g n with
      | None => None
      | Some x =>
          fold_left (fun acc m => match acc with
                                  | Some a => match g_get a m with
                                              | Some y => if mem n (n_children y) then lock_parents f a m
                                                          else lock_rec (length g) a m
                                              | None => None
                                              end
                                  | None => None
                                  end) (n_mixins x) (Some g)
      end
  end.

(* ---------- compile: _lock_parents, then snapshot defns ---------- *)
Definition compile (g : graph) (n : nat) : option graph :=
  match g_get g n with
  | None => None
  | Some x =>
      match lock_parents (length g) g n, defns (length g) g n with
      | Some g1, Some t => Some (g_mod g1 n (set_snap t))
      | _, _ => None
      end
  end.

(* ---------- _update: recompile if compiled, then the children, recursively ---------- *)
Fixpoint upd (fuel : nat) (g : graph) (n : nat) : option graph :=
  match fuel with
  | 0 => None
  | S f =>
      match g_get g n with
      | None => None
      | Some x =>
          fold_left (fun acc c => match acc with Some a => upd f a c | None => None end)
                    (n_children x)
                    (if n_compiled x then compile g n else Some g)
      end
  end.

(* ---------- termination checks on the skeleton (mixin edges upwards, children edges downwards) ---------- *)
Fixpoint mterm (fuel : nat) (g : graph) (n : nat) : bool :=
  match fuel with
  | 0 => false
  | S f => match g_get g n with None => false | Some x => forallb (mterm f g) (n_mixins x) end
  end.

Fixpoint cterm (fuel : nat) (g : graph) (n : nat) : bool :=
  match fuel with
  | 0 => false
  | S f => match g_get g n with None => false | Some x => forallb (cterm f g) (n_children x) end
  end.

Definition wf_b (g : graph) : bool :=
  forallb (fun n => mterm (length g) g n && cterm (length g) g n) (seq 0 (length g)).

(* ---------- reachability, as fuelled boolean functions ---------- *)
(* anc_b f g a n: [a] is [n] or one of the functions [n] derives from (following mixin edges upwards) *)
Fixpoint anc_b (fuel : nat) (g : graph) (a n : nat) : bool :=
  Nat.eqb a n ||
  match fuel with
  | 0 => false
  | S f => match g_get g n with None => false | Some x => existsb (anc_b f g a) (n_mixins x) end
  end.

(* lb_b f g a n: [n] is [a] or derives from [a] through linkback derivations only (following children edges) *)
Fixpoint lb_b (fuel : nat) (g : graph) (a n : nat) : bool :=
  Nat.eqb a n ||
  match fuel with
  | 0 => false
  | S f => match g_get g a with None => false | Some x => existsb (fun c => lb_b f g c n) (n_children x) end
  end.

(* ---------- operations ---------- *)
Inductive op : Type :=
| OCreate (mixins : list nat) (lb : bool)                          (* Ovld(mixins=[...], linkback=lb) *)
| OCopy (n : nat) (mixins : list nat) (lb : bool)                  (* n.copy(mixins=[...], linkback=lb) *)
| OVariant (n : nat) (mixins : list nat) (lb : bool) (sig l : nat) (* n.variant(fn, mixins=[...], linkback=lb) *)
| OAddMixins (n : nat) (ms : list nat)                             (* n.add_mixins(m1, m2, ...) *)
| ORegister (n : nat) (sig l : nat)                                (* n.register(fn) *)
| OUnregister (n : nat) (l : nat)                                  (* n.unregister(fn) *)
| OUse (n : nat).                                                  (* first call / resolve / attribute access: compile *)

(* Done: performed.  Locked: refused with "locked for modifications", nothing changed.
   Invalid: outside the domain (unknown node, or add_mixins closing a cycle), nothing changed.
   Stuck: a traversal ran out of fuel (proved impossible from every reachable graph: Proofs/GraphInv.v). *)
Inductive outcome : Type := Done | Locked | Invalid | Stuck.

Definition valid_ids (g : graph) (ms : list nat) : bool := forallb (fun m => Nat.ltb m (length g)) ms.

(* Ovld.__init__: fresh unlocked node, then add_mixins of the given mixins on it *)
Definition do_create (g : graph) (ms : list nat) (lb : bool) : graph * outcome :=
  if valid_ids g ms then
    let id := length g in
    let g1 := if lb then fold_left (fun acc m => g_mod acc m (add_child id)) ms g else g in
    (g1 ++ [add_mix ms (new_node lb)], Done)
  else (g, Invalid).

(* add_mixins: guard, "is not self" filter, children of the new parents when this node is a linkback derivation,
   mixins += ..., and -- when something was added -- _update() like any other change *)
Definition do_add_mixins (g : graph) (n : nat) (ms : list nat) : graph * outcome :=
  match g_get g n with
  | None => (g, Invalid)
  | Some x =>
      if negb (valid_ids g ms) then (g, Invalid)
      else if n_locked x then (g, Locked)
      else
        match filter (fun m => negb (Nat.eqb m n)) ms with
        | [] => (g, Done)
        | ms' =>
            let g1 := if n_linkback x then fold_left (fun acc m => g_mod acc m (add_child n)) ms' g else g in
            let g2 := g_mod g1 n (add_mix ms') in
            if wf_b g2 then
              match upd (length g) g2 n with
              | Some g' => (g', Done)
              | None => (g, Stuck)
              end
            else (g, Invalid)
        end
  end.

Definition do_modify (g : graph) (n : nat) (f : table -> option table) : graph * outcome :=
  match g_get g n with
  | None => (g, Invalid)
  | Some x =>
      if n_locked x then (g, Locked)
      else match f (n_own x) with
           | None => (g, Stuck)
           | Some t => match upd (length g) (g_mod g n (set_own t)) n with
                       | Some g' => (g', Done)
                       | None => (g, Stuck)
                       end
           end
  end.

Definition do_register (g : graph) (n sig l : nat) := do_modify g n (t_register sig l).
Definition do_unregister (g : graph) (n l : nat) := do_modify g n (fun t => Some (t_remove l t)).

Definition do_use (g : graph) (n : nat) : graph * outcome :=
  match g_get g n with
  | None => (g, Invalid)
  | Some x => if n_compiled x then (g, Done)
              else match compile g n with Some g' => (g', Done) | None => (g, Stuck) end
  end.

Definition step (g : graph) (o : op) : graph * outcome :=
  match o with
  | OCreate ms lb => do_create g ms lb
  | OCopy n ms lb => do_create g (n :: ms) lb
  | OVariant n ms lb sig l =>
      match do_create g (n :: ms) lb with
      | (g1, Done) => match do_register g1 (length g) sig l with
                      | (g2, Done) => (g2, Done)
                      | (_, out) => (g, out)
                      end
      | r => r
      end
  | OAddMixins n ms => do_add_mixins g n ms
  | ORegister n sig l => do_register g n sig l
  | OUnregister n l => do_unregister g n l
  | OUse n => do_use g n
  end.

Definition step_g (g : graph) (o : op) : graph := fst (step g o).
Definition run_from (g : graph) (ops : list op) : graph := fold_left step_g ops g.
Definition run (ops : list op) : graph := run_from [] ops.

(* the node an operation acts on (for the constructors: the node it creates) *)
Definition target (g : graph) (o : op) : nat :=
  match o with
  | OCreate _ _ | OCopy _ _ _ | OVariant _ _ _ _ _ => length g
  | OAddMixins n _ | ORegister n _ _ | OUnregister n _ | OUse n => n
  end.

(* ---------- observable: the snapshot if compiled, else what a first use would snapshot ---------- *)
Definition obs (g : graph) (n : nat) : option table :=
  match g_get g n with
  | None => None
  | Some x => if n_compiled x then Some (n_snap x) else defns (length g) g n
  end.

Definition otable_eqb (a b : option table) : bool :=
  match a, b with
  | Some x, Some y =>
      Nat.eqb (length x) (length y) &&
      forallb (fun p => skey_eqb (fst (fst p)) (fst (snd p)) && Nat.eqb (snd (fst p)) (snd (snd p))) (combine x y)
  | None, None => true
  | _, _ => false
  end.

(* is the node's observable what a rebuild would produce now? *)
Definition fresh_b (g : graph) (n : nat) : bool := otable_eqb (obs g n) (defns (length g) g n).

Definition compiled_b (g : graph) (n : nat) : bool :=
  match g_get g n with Some x => n_compiled x | None => false end.

Definition is_nil {A} (l : list A) : bool := match l with [] => true | _ => false end.
Definition is_done (o : outcome) : bool := match o with Done => true | _ => false end.
