(* Run_Norm.v — executable entry point of the annotation normaliser model (C15). *)
(* OPCODE 23 run_norm *)
From Coq Require Import ZArith List Bool Arith.
Import ListNotations.
From OvldV Require Import Model.Sx Model.Order Model.Ty Model.Codec Model.Norm.

(* ann: (0 ty) | (1) any | (2) missing | (3) baretype | (4 a...) union | (5 a...) tuple | (6 a) optional | (7 a) annotated
        | (8 a) str | (9 ty) typeof | (10 a typing?) list | (11 v...) literal | (12 a...) tupleof *)
Fixpoint ann_of (s : sx) : ann :=
  match s with
  | A _ => AMissing
  | L l =>
      match l with
      | A 0%Z :: t :: _ => ATy (ty_of t)
      | A 1%Z :: _ => AAny
      | A 2%Z :: _ => AMissing
      | A 3%Z :: _ => ABareType
      | A 4%Z :: r => AUnion (map ann_of r)
      | A 5%Z :: r => ATuple (map ann_of r)
      | A 6%Z :: x :: _ => AOptional (ann_of x)
      | A 7%Z :: x :: _ => AAnnotated (ann_of x)
      | A 8%Z :: x :: _ => AStr (ann_of x)
      | A 9%Z :: t :: _ => ATypeOf (ty_of t)
      | A 10%Z :: x :: b :: _ => AList (ann_of x) (sx_bool b)
      | A 11%Z :: r => ALiteral (map val_of r)
      | A 12%Z :: r => ATupleOf (map ann_of r)
      | _ => AMissing
      end
  end.

(* encoding of a model type back into the harness format *)
Fixpoint sx_of_val (v : val) : sx :=
  match v with
  | VInt z => L [A 0%Z; A z]
  | VStr s => L (A 1%Z :: map A s)
  | VBool b => L [A 2%Z; of_bool b]
  | VNone => L [A 3%Z]
  | VTup l => L (A 4%Z :: map sx_of_val l)
  | VLst l => L (A 5%Z :: map sx_of_val l)
  | VDict l => L (A 6%Z :: map (fun p => L [sx_of_val (fst p); sx_of_val (snd p)]) l)
  | VObj c i => L [A 7%Z; of_nat c; A i]
  end.

Fixpoint sx_of_ty (t : ty) : sx :=
  match t with
  | Cls c => L [A 0%Z; of_nat c]
  | Gen o a => L (A 1%Z :: of_nat o :: map sx_of_ty a)
  | Uni a => L (A 2%Z :: map sx_of_ty a)
  | Int a => L (A 3%Z :: map sx_of_ty a)
  | Exa i c => L [A 4%Z; of_nat i; of_nat c]
  | Strict i c => L [A 5%Z; of_nat i; of_nat c]
  | HasM i m => L [A 6%Z; of_nat i; of_nat m]
  | Chk i p => L [A 7%Z; of_nat i; of_nat p]
  | Lit vs b => L (A 8%Z :: sx_of_ty b :: map sx_of_val vs)
  | Fn f ps b => L (A 9%Z :: of_nat f :: sx_of_ty b ::
                    map (fun p => match p with None => L [A 0%Z] | Some v => L [A 1%Z; sx_of_val v] end) ps)
  | TFn f a b => L (A 10%Z :: of_nat f :: sx_of_ty b :: map sx_of_ty a)
  | Prod a b => L (A 11%Z :: sx_of_ty b :: map sx_of_ty a)
  end.

(* (23 (ann...)) -> the normalised type of each *)
Definition run_norm (s : sx) : sx := L (map (fun a => sx_of_ty (norm (ann_of a))) (sx_list (sx_arg 0 s))).
