(* EntryFwd.v — C03: the generated entry point against the specification (Spec/EntrySpec.v). *)
From Coq Require Import ZArith List Bool Arith Lia.
Import ListNotations.
From OvldV Require Import Model.Entry Spec.EntrySpec Proofs.EntryLists Proofs.EntryAn Proofs.EntryNf Proofs.EntryBind Proofs.EntryRun.

(* ---------- name_pos: the specification's reading of "the position of a named positional" ---------- *)
Lemma index_where_some : forall {X} (g : X -> bool) l i j, index_where g i l = Some j ->
  exists x, nth_error l (j - i) = Some x /\ g x = true /\ i <= j.
Proof.
  intros X g. induction l as [|x l IH]; intros i j H; simpl in H.
  - discriminate.
  - destruct (g x) eqn:E.
    + injection H as <-. exists x. rewrite Nat.sub_diag. auto.
    + apply IH in H. destruct H as [y [Hy [Hg Hle]]]. exists y. replace (j - i) with (S (j - S i)) by lia. simpl. split; auto. split; auto. lia.
Qed.

Lemma index_where_none : forall {X} (g : X -> bool) l i, index_where g i l = None -> forall x, In x l -> g x = false.
Proof.
  intros X g. induction l as [|x l IH]; intros i H y Hy; simpl in H.
  - contradiction.
  - destruct (g x) eqn:E; [discriminate|]. destruct Hy as [<-|Hy]; auto. eapply IH; eauto.
Qed.

Lemma name_pos_some : forall sigs m j, name_pos sigs m = Some j ->
  exists s q, In s sigs /\ nth_error (m_params s) j = Some q /\ p_kind q = PosKw /\ p_name q = m.
Proof.
  induction sigs as [|s sigs IH]; intros m j H; simpl in H.
  - discriminate.
  - destruct (index_where (is_poskw_named m) 0 (m_params s)) as [i|] eqn:E.
    + injection H as <-. apply index_where_some in E. destruct E as [q [Hq [Hg _]]]. rewrite Nat.sub_0_r in Hq.
      exists s, q. split; [left; reflexivity|]. split; auto.
      unfold is_poskw_named in Hg. apply andb_true_iff in Hg. destruct Hg as [Hk Hn]. apply Nat.eqb_eq in Hn.
      destruct (p_kind q); simpl in Hk; try discriminate. auto.
    + apply IH in H. destruct H as [s' [q [Hs H]]]. exists s', q. split; [right; exact Hs|exact H].
Qed.

Lemma name_pos_complete : forall sigs m, is_pos_name sigs m = true -> exists j, name_pos sigs m = Some j.
Proof.
  induction sigs as [|s sigs IH]; intros m H; simpl in H.
  - discriminate.
  - simpl. destruct (index_where (is_poskw_named m) 0 (m_params s)) as [i|] eqn:E.
    + exists i. reflexivity.
    + apply orb_true_iff in H. destruct H as [H|H].
      * apply existsb_exists in H. destruct H as [q [Hq Hg]].
        rewrite (index_where_none _ _ _ E q Hq) in Hg. discriminate.
      * apply IH. exact H.
Qed.

(* ---------- linking the signatures with the normal form ---------- *)
Section Link.
  Variable sigs : list msig.
  Variable a : analysis.
  Variable r : nat.
  Hypothesis Hwf : all_wf sigs.
  Hypothesis Hne : no_error sigs.
  Hypothesis Hkr : an_kr a = filter (fun n => req_all sigs (CName n)) (keywords sigs).
  Hypothesis Hko : an_ko a = filter (fun n => negb (req_all sigs (CName n))) (keywords sigs).
  Let f := nf_of sigs a r.

  Lemma link_kw_in : forall m, In m (nf_kr f ++ nf_ko f) -> In m (keywords sigs).
  Proof.
    intros m H. unfold f in H. simpl in H. rewrite Hkr, Hko in H. apply in_app_iff in H.
    destruct H as [H|H]; apply filter_In in H; tauto.
  Qed.

  Lemma link_kw_notpos : forall m, In m (nf_kr f ++ nf_ko f) -> is_pos_name sigs m = false.
  Proof. intros m H. apply keyword_not_pos; auto. apply link_kw_in. exact H. Qed.

  Lemma link_pos : forall p, nf_sl f <= p < nf_n f ->
    is_pos_name sigs (nf_nm f p) = true /\ name_pos sigs (nf_nm f p) = Some p.
  Proof.
    intros p [A B]. unfold f in *. simpl in *.
    destruct (name_at_declared sigs p A B) as [s [q [Hs [Hj [Hk Hn]]]]].
    assert (Hp : is_pos_name sigs (name_at sigs p) = true).
    { apply is_pos_name_iff. exists s, p, q. auto. }
    split; auto. destruct (name_pos_complete sigs _ Hp) as [j Ej]. rewrite Ej. f_equal.
    apply name_pos_some in Ej. destruct Ej as [s' [q' [Hs' [Hj' [Hk' Hn']]]]].
    pose proof (poskw_canon sigs s p q _ Hs Hj Hk Hn) as C1.
    pose proof (poskw_canon sigs s' j q' _ Hs' Hj' Hk' Hn') as C2.
    pose proof (canon_unique sigs _ _ _ Hne C1 C2) as E. injection E. auto.
  Qed.

  Lemma link_kwpos_unique : forall m p, nf_kwpos f m p -> is_pos_name sigs m = true /\ name_pos sigs m = Some p.
  Proof. intros m p [Hp [_ <-]]. apply link_pos. exact Hp. Qed.
End Link.

Lemma forallb_false_exists : forall {X} (g : X -> bool) l, forallb g l = false -> exists x, In x l /\ g x = false.
Proof.
  intros X g. induction l as [|x l IH]; simpl; intro H; [discriminate|].
  destruct (g x) eqn:E.
  - destruct (IH H) as [y [Hy Hg]]. exists y. auto.
  - exists x. auto.
Qed.

(* ---------- the specification on a bound shape ---------- *)
Lemma list_eqb_refl : forall {X} (e : X -> X -> bool), (forall x, e x x = true) -> forall l, list_eqb e l l = true.
Proof. intros X e H. induction l as [|x l IH]; simpl; auto. rewrite H, IH. reflexivity. Qed.

Lemma src_eqb_refl : forall s, src_eqb s s = true.
Proof. intro s. apply src_eqb_eq. reflexivity. Qed.

Section SpecOnBound.
  Variable sigs : list msig.
  Variable f : nform.
  Variables (k : nat) (K : list nat).
  Hypothesis Hok : nf_ok f.
  Hypothesis Hb : bound f k K.
  Hypothesis Hn : nf_n f = npos sigs.
  Hypothesis Hpos : forall p, nf_sl f <= p < nf_n f -> is_pos_name sigs (nf_nm f p) = true /\ name_pos sigs (nf_nm f p) = Some p.
  Hypothesis Hkw : forall m, In m (nf_kr f ++ nf_ko f) -> is_pos_name sigs m = false.

  Let posK := filter (is_pos_name sigs) K.
  Let kwK := filter (fun m => negb (is_pos_name sigs m)) K.
  Let Q := filter (fun p => (k <=? p) && supplied f k K p) (seq 0 (nf_n f)).
  Let F := fun j => find (fun m => onat_eqb (name_pos sigs m) (Some j)) posK.

  Lemma in_Q : forall p, In p Q <-> k <= p < nf_n f /\ supplied f k K p = true.
  Proof.
    intro p. unfold Q. rewrite filter_In, in_seq, andb_true_iff, Nat.leb_le. split.
    - intros [[_ A] [B C]]. repeat split; auto.
    - intros [[A B] C]. repeat split; auto; lia.
  Qed.

  Lemma Q_kwpos : forall p, In p Q -> nf_kwpos f (nf_nm f p) p /\ In (nf_nm f p) K.
  Proof.
    intros p Hp. apply in_Q in Hp. destruct Hp as [[A B] C]. apply supplied_iff in C; auto.
    destruct C as [C|C]; [lia|exact C].
  Qed.

  Lemma in_posK : forall m, In m posK <-> exists p, In p Q /\ m = nf_nm f p.
  Proof.
    intro m. unfold posK. rewrite filter_In. split.
    - intros [HK Hp]. destruct (b_kw f k K Hb m HK) as [[p Hkp]|Hin].
      + exists p. split.
        * apply in_Q. destruct Hkp as [[A B] [C D]]. repeat split; auto.
          -- apply (b_ge f k K Hb m p); auto. repeat split; auto.
          -- apply supplied_iff; auto. right. subst m. split; auto. repeat split; auto.
        * destruct Hkp as [_ [_ D]]. auto.
      + rewrite (Hkw m Hin) in Hp. discriminate.
    - intros [p [Hp ->]]. destruct (Q_kwpos p Hp) as [[A _] B]. split; auto. apply Hpos. exact A.
  Qed.

  Lemma Q_NoDup : NoDup Q.
  Proof. unfold Q. apply NoDup_filter. apply seq_NoDup. Qed.

  Lemma posK_length : length posK = length Q.
  Proof.
    assert (N1 : NoDup posK) by (unfold posK; apply NoDup_filter; apply (b_nd f k K Hb)).
    assert (N2 : NoDup (map (nf_nm f) Q)).
    { apply NoDup_map_inj_in; [|apply Q_NoDup]. intros x y Hx Hy E.
      destruct (Q_kwpos x Hx) as [[A _] _], (Q_kwpos y Hy) as [[B _] _]. apply (ok_inj f Hok); auto. }
    rewrite <- (map_length (nf_nm f) Q). apply Nat.le_antisymm; apply NoDup_incl_length; auto.
    - intros m Hm. apply in_posK in Hm. destruct Hm as [p [Hp ->]]. apply in_map. exact Hp.
    - intros m Hm. apply in_map_iff in Hm. destruct Hm as [p [<- Hp]]. apply in_posK. exists p. auto.
  Qed.

  Lemma F_in : forall p, In p Q -> F p = Some (nf_nm f p).
  Proof.
    intros p Hp. unfold F. destruct (find _ posK) as [x|] eqn:E.
    - apply find_some in E. destruct E as [Hx Ex]. apply onat_eqb_eq in Ex.
      apply in_posK in Hx. destruct Hx as [p' [Hp' ->]].
      destruct (Q_kwpos p' Hp') as [[A _] _]. destruct (Hpos p' A) as [_ E']. rewrite E' in Ex. injection Ex as ->. reflexivity.
    - exfalso. assert (Hm : In (nf_nm f p) posK) by (apply in_posK; exists p; auto).
      pose proof (find_none _ _ E _ Hm) as Hf. simpl in Hf.
      destruct (Q_kwpos p Hp) as [[A _] _]. destruct (Hpos p A) as [_ E']. rewrite E' in Hf.
      assert (onat_eqb (Some p) (Some p) = true) by (apply onat_eqb_eq; reflexivity). congruence.
  Qed.

  Lemma F_out : forall p, ~ In p Q -> F p = None.
  Proof.
    intros p Hp. unfold F. destruct (find _ posK) as [x|] eqn:E; auto. exfalso.
    apply find_some in E. destruct E as [Hx Ex]. apply onat_eqb_eq in Ex.
    apply in_posK in Hx. destruct Hx as [p' [Hp' ->]].
    destruct (Q_kwpos p' Hp') as [[A _] _]. destruct (Hpos p' A) as [_ E']. rewrite E' in Ex. injection Ex as ->. contradiction.
  Qed.

  Lemma spec_forward_unfold : forall self,
    spec_forward sigs self k K =
    if forallb (fun o : option nat => match o with Some _ => true | None => false end) (map F (seq k (length posK)))
    then Some (caller_pos self k ++ flat_map (fun o : option nat => match o with Some n => [SKw n] | None => [] end) (map F (seq k (length posK))), kwK)
    else None.
  Proof. intro self. reflexivity. Qed.

  (* if the keyword-supplied positions are exactly k .. M-1, S is defined and prescribes them in order *)
  Lemma spec_prefix : forall self M, k <= M -> (forall p, k <= p < M -> In p Q) -> length posK = M - k ->
    spec_forward sigs self k K = Some (caller_pos self k ++ map (fun j => SKw (nf_nm f j)) (seq k (M - k)), kwK).
  Proof.
    intros self M HM HQ HL. rewrite spec_forward_unfold, HL.
    assert (E : map F (seq k (M - k)) = map (fun j => Some (nf_nm f j)) (seq k (M - k))).
    { apply map_ext_in. intros j Hj. apply in_seq in Hj. apply F_in. apply HQ. lia. }
    rewrite E.
    assert (Ef : forallb (fun o : option nat => match o with Some _ => true | None => false end)
                   (map (fun j => Some (nf_nm f j)) (seq k (M - k))) = true).
    { apply forallb_forall. intros o Ho. apply in_map_iff in Ho. destruct Ho as [j [<- _]]. reflexivity. }
    rewrite Ef, flat_map_map, flat_map_single. reflexivity.
  Qed.

  (* S is defined only if the keyword-supplied positions continue the k positional ones without a gap *)
  Lemma spec_some_prefix : forall self x, spec_forward sigs self k K = Some x -> forall p, In p Q <-> k <= p < k + length Q.
  Proof.
    intros self x H. rewrite spec_forward_unfold in H.
    destruct (forallb _ (map F (seq k (length posK)))) eqn:E; [|discriminate]. clear H.
    rewrite forallb_forall in E.
    assert (Hincl : incl (seq k (length Q)) Q).
    { intros j Hj. rewrite <- posK_length in Hj. destruct (in_dec Nat.eq_dec j Q) as [|Hn']; auto. exfalso.
      specialize (E (F j) (in_map F _ _ Hj)). rewrite (F_out j Hn') in E. discriminate. }
    assert (Hincl' : incl Q (seq k (length Q))).
    { apply NoDup_length_incl; auto.
      - apply seq_NoDup.
      - rewrite seq_length. lia. }
    intros p. split.
    - intro Hp. apply Hincl' in Hp. apply in_seq in Hp. lia.
    - intro Hp. apply Hincl. apply in_seq. lia.
  Qed.

  Lemma fpos_split : forall M, k <= M ->
    selfs f ++ map (nf_psrc f k) (seq 0 M) = caller_pos (nf_self f) k ++ map (fun j => SKw (nf_nm f j)) (seq k (M - k)).
  Proof.
    intros M HM. unfold caller_pos, selfs. rewrite <- app_assoc. f_equal.
    replace M with (k + (M - k)) at 1 by lia. rewrite seq_app, map_app. f_equal.
    - apply map_ext_in. intros p Hp. apply in_seq in Hp. unfold nf_psrc. replace (p <? k) with true by (symmetry; apply Nat.ltb_lt; lia). reflexivity.
    - apply map_ext_in. intros p Hp. apply in_seq in Hp. unfold nf_psrc. replace (p <? k) with false by (symmetry; apply Nat.ltb_ge; lia). reflexivity.
  Qed.

  Lemma kw_supplied_NoDup : NoDup (kw_supplied f K).
  Proof.
    unfold kw_supplied. pose proof (ok_kw f Hok) as H. apply NoDup_app_iff in H. destruct H as [A [B C]].
    apply NoDup_app_iff. repeat split; auto.
    - apply NoDup_filter. exact B.
    - intros x Hx Hx'. apply filter_In in Hx'. apply (C x Hx). tauto.
  Qed.

  Lemma kw_supplied_set : forall m, In m (kw_supplied f K) <-> In m kwK.
  Proof.
    intro m. unfold kw_supplied, kwK. rewrite in_app_iff, !filter_In. split.
    - intros [H|[H1 H2]].
      + split; [apply (b_kr f k K Hb); exact H|]. rewrite Hkw; auto. apply in_app_iff. auto.
      + split; [apply (memb_In Nat.eqb Nat.eqb_eq); exact H2|]. rewrite Hkw; auto. apply in_app_iff. auto.
    - intros [H1 H2]. apply negb_true_iff in H2.
      destruct (b_kw f k K Hb m H1) as [[p Hkp]|Hin].
      + destruct Hkp as [A [_ <-]]. destruct (Hpos p A) as [E _]. congruence.
      + apply in_app_iff in Hin. destruct Hin as [Hin|Hin]; auto. right. split; auto.
        apply (memb_In Nat.eqb Nat.eqb_eq). exact H1.
  Qed.

  Lemma kw_exact_supplied : kw_exact (map (fun m => (m, SKw m)) (kw_supplied f K)) kwK = true.
  Proof.
    unfold kw_exact. rewrite map_map. simpl. rewrite map_id.
    rewrite (proj2 (nodupb_NoDup Nat.eqb Nat.eqb_eq _) kw_supplied_NoDup). simpl.
    apply andb_true_iff. split.
    - unfold same_set. apply andb_true_iff. split; apply forallb_forall; intros x Hx;
        apply (memb_In Nat.eqb Nat.eqb_eq); apply kw_supplied_set; auto.
    - apply forallb_forall. intros [m s] Hx. apply in_map_iff in Hx. destruct Hx as [m' [E _]]. injection E as <- <-.
      simpl. apply Nat.eqb_refl.
  Qed.

  Lemma key_pos_full : forall M L,
    key_pos (map (fun p => mkKE None (nf_lf f (CPos p)) (nf_psrc f k p)) (seq 0 M)
             ++ map (fun m => mkKE (Some m) (nf_lf f (CName m)) (SKw m)) L) = map (nf_psrc f k) (seq 0 M).
  Proof.
    intros M L. unfold key_pos. rewrite filter_app, map_app.
    rewrite filter_all by (intros x Hx; apply in_map_iff in Hx; destruct Hx as [p [<- _]]; reflexivity).
    rewrite filter_none by (intros x Hx; apply in_map_iff in Hx; destruct Hx as [p [<- _]]; reflexivity).
    rewrite map_map, app_nil_r. reflexivity.
  Qed.

  Lemma key_named_full : forall M L,
    key_named (map (fun p => mkKE None (nf_lf f (CPos p)) (nf_psrc f k p)) (seq 0 M)
               ++ map (fun m => mkKE (Some m) (nf_lf f (CName m)) (SKw m)) L) = map (fun m => (m, SKw m)) L.
  Proof.
    intros M L. unfold key_named. rewrite flat_map_app, !flat_map_map. simpl.
    rewrite flat_map_nil, flat_map_single. reflexivity.
  Qed.

  Lemma skip_self : forall M, k <= M ->
    skipn (if nf_self f then 1 else 0) (caller_pos (nf_self f) k ++ map (fun j => SKw (nf_nm f j)) (seq k (M - k)))
    = map (nf_psrc f k) (seq 0 M).
  Proof.
    intros M HM. rewrite <- fpos_split by auto. unfold selfs. destruct (nf_self f); reflexivity.
  Qed.

  (* all positions supplied: the final call, and it is what S prescribes *)
  (* the call on the first M positionals and all supplied keywords is what S prescribes when the keyword-supplied
     positions are exactly k .. M-1 *)
  Lemma fwd_M : forall M, k <= M -> (forall p, k <= p < M -> In p Q) -> length posK = M - k ->
    match out_M f k K M with OCall key fpos fkw => fwd_ok sigs (nf_self f) k K key fpos fkw = true | _ => False end.
  Proof.
    intros M HM HQ HL. unfold out_M, fwd_ok. rewrite (spec_prefix (nf_self f) M HM HQ HL).
    rewrite fpos_split by auto. rewrite (list_eqb_refl src_eqb src_eqb_refl).
    rewrite key_pos_full, key_named_full, skip_self by auto.
    rewrite (list_eqb_refl src_eqb src_eqb_refl), kw_exact_supplied. reflexivity.
  Qed.

  (* all positions supplied: the final call *)
  Lemma fwd_full : first_missing f k K = None ->
    match out_full f k K with OCall key fpos fkw => fwd_ok sigs (nf_self f) k K key fpos fkw = true | _ => False end.
  Proof.
    intro Hfm. pose proof (first_missing_none f k K Hok Hb Hfm) as Hall.
    assert (Hk : k <= nf_n f) by apply (b_k f k K Hb).
    assert (HQ : forall p, k <= p < nf_n f -> In p Q).
    { intros p Hp. apply in_Q. split; auto. apply Hall. lia. }
    assert (HL : length posK = nf_n f - k).
    { rewrite posK_length. unfold Q.
      replace (nf_n f) with (k + (nf_n f - k)) at 1 by lia. rewrite seq_app, filter_app, app_length.
      rewrite filter_none, filter_all.
      - simpl. rewrite seq_length. reflexivity.
      - intros p Hp. apply in_seq in Hp. rewrite Hall by lia. replace (k <=? p) with true by (symmetry; apply Nat.leb_le; lia). reflexivity.
      - intros p Hp. apply in_seq in Hp. replace (k <=? p) with false by (symmetry; apply Nat.leb_gt; lia). reflexivity. }
    unfold out_full. apply fwd_M; auto.
  Qed.

  Lemma key_pos_exit : forall M,
    key_pos (map (fun p => mkKE None (nf_lf f (CPos p)) (nf_psrc f k p)) (seq 0 M)) = map (nf_psrc f k) (seq 0 M).
  Proof. intro M. pose proof (key_pos_full M []) as H. simpl in H. rewrite app_nil_r in H. exact H. Qed.

  Lemma key_named_exit : forall M,
    key_named (map (fun p => mkKE None (nf_lf f (CPos p)) (nf_psrc f k p)) (seq 0 M)) = [].
  Proof. intro M. pose proof (key_named_full M []) as H. simpl in H. rewrite app_nil_r in H. exact H. Qed.

  Lemma supplied_positions_eq : supplied_positions sigs k K = k + length posK.
  Proof. reflexivity. Qed.

  (* an optional positional omitted: the early exit; inside D it is what S prescribes *)
  Lemma fwd_exit : forall m0, first_missing f k K = Some m0 -> dom_fwd sigs k K = true ->
    match out_exit f k K m0 with OCall key fpos fkw => fwd_ok sigs (nf_self f) k K key fpos fkw = true | _ => False end.
  Proof.
    intros m0 Hfm Hd. destruct (first_missing_some f k K m0 Hok Hb Hfm) as [[Hr Hm] [Hun Hlt]].
    assert (Hkm : k <= m0).
    { destruct (Nat.le_gt_cases k m0); auto. exfalso.
      assert (supplied f k K m0 = true) by (apply supplied_iff; auto). congruence. }
    assert (HQ : forall p, k <= p < m0 -> In p Q).
    { intros p Hp. apply in_Q. split; [lia|]. apply Hlt. lia. }
    assert (Hm0 : ~ In m0 Q).
    { intro H. apply in_Q in H. destruct H as [_ H]. congruence. }
    assert (Hlen : k + length Q < nf_n f).
    { assert (Hi : incl Q (seq k (m0 - k) ++ seq (S m0) (nf_n f - S m0))).
      { intros p Hp. assert (p <> m0) by (intro; subst; contradiction). apply in_Q in Hp. destruct Hp as [Hp _].
        apply in_app_iff. rewrite !in_seq. lia. }
      pose proof (NoDup_incl_length Q_NoDup Hi) as Hle. rewrite app_length, !seq_length in Hle. lia. }
    unfold dom_fwd, kf31_class in Hd. apply negb_true_iff in Hd.
    rewrite supplied_positions_eq, posK_length, <- Hn in Hd.
    replace (k + length Q <? nf_n f) with true in Hd by (symmetry; apply Nat.ltb_lt; exact Hlen).
    cbn [andb] in Hd.
    destruct (spec_forward sigs false k K) as [x|] eqn:Esp; [|discriminate].
    pose proof (spec_some_prefix false x Esp) as HQiff.
    assert (Em : m0 = k + length Q).
    { destruct (Nat.lt_trichotomy m0 (k + length Q)) as [A|[A|A]]; auto; exfalso.
      - apply Hm0. apply HQiff. lia.
      - assert (In (k + length Q) Q) by (apply HQ; lia). apply HQiff in H. lia. }
    assert (HL : length posK = m0 - k) by (rewrite posK_length; lia).
    unfold out_exit. apply fwd_M; auto.
  Qed.

  Lemma exit_lt : forall m0, first_missing f k K = Some m0 -> supplied_positions sigs k K < npos sigs.
  Proof.
    intros m0 Hfm. destruct (first_missing_some f k K m0 Hok Hb Hfm) as [[Hr Hm] [Hun Hlt]].
    assert (Hm0 : ~ In m0 Q).
    { intro H. apply in_Q in H. destruct H as [_ H]. congruence. }
    assert (Hkm : k <= m0).
    { destruct (Nat.le_gt_cases k m0); auto. exfalso.
      assert (supplied f k K m0 = true) by (apply supplied_iff; auto). congruence. }
    assert (Hi : incl Q (seq k (m0 - k) ++ seq (S m0) (nf_n f - S m0))).
    { intros p Hp. assert (p <> m0) by (intro; subst; contradiction). apply in_Q in Hp. destruct Hp as [Hp _].
      apply in_app_iff. rewrite !in_seq. lia. }
    pose proof (NoDup_incl_length Q_NoDup Hi) as Hle. rewrite app_length, !seq_length in Hle.
    rewrite supplied_positions_eq, posK_length, <- Hn. lia.
  Qed.

  (* ---------- outside the domain: an argument is dropped ---------- *)
  Lemma Q_full_length : (forall p, p < nf_n f -> supplied f k K p = true) -> length Q = nf_n f - k.
  Proof.
    intro Hall. assert (Hk : k <= nf_n f) by apply (b_k f k K Hb). unfold Q.
    replace (nf_n f) with (k + (nf_n f - k)) at 1 by lia. rewrite seq_app, filter_app, app_length.
    rewrite filter_none, filter_all.
    - simpl. rewrite seq_length. reflexivity.
    - intros p Hp. apply in_seq in Hp. rewrite Hall by lia. replace (k <=? p) with true by (symmetry; apply Nat.leb_le; lia). reflexivity.
    - intros p Hp. apply in_seq in Hp. replace (k <=? p) with false by (symmetry; apply Nat.leb_gt; lia). reflexivity.
  Qed.

  Lemma psrc_kw_inv : forall p x, nf_psrc f k p = SKw x -> k <= p /\ x = nf_nm f p.
  Proof.
    intros p x H. unfold nf_psrc in H. destruct (p <? k) eqn:E; [discriminate|]. apply Nat.ltb_ge in E.
    injection H as <-. auto.
  Qed.

  (* a name of a non-strict position is not among the forwarded keywords *)
  Lemma posname_not_kw : forall p, nf_sl f <= p < nf_n f -> ~ In (nf_nm f p) (kw_supplied f K).
  Proof.
    intros p Hp Hin. apply (ok_disj f Hok p Hp). unfold kw_supplied in Hin. apply in_app_iff in Hin. apply in_app_iff.
    destruct Hin as [Hin|Hin]; auto. right. apply filter_In in Hin. tauto.
  Qed.

  Lemma drop_outside : kf31_class sigs k K = true ->
    exists m0, first_missing f k K = Some m0 /\
      exists x, In x K /\ ~ In x (kw_supplied f K) /\ forall p, p < m0 -> nf_psrc f k p <> SKw x.
  Proof.
    intro Hc. unfold kf31_class in Hc. apply andb_true_iff in Hc. destruct Hc as [Hc1 Hhole].
    rewrite supplied_positions_eq, posK_length, <- Hn in Hc1. apply Nat.ltb_lt in Hc1.
    assert (Hk : k <= nf_n f) by apply (b_k f k K Hb).
    destruct (first_missing f k K) as [m0|] eqn:Efm.
    2:{ exfalso. pose proof (Q_full_length (first_missing_none f k K Hok Hb Efm)). lia. }
    exists m0. split; auto.
    destruct (first_missing_some f k K m0 Hok Hb Efm) as [[Hr Hm] [Hun Hlt]].
    assert (Hkm : k <= m0).
    { destruct (Nat.le_gt_cases k m0); auto. exfalso.
      assert (supplied f k K m0 = true) by (apply supplied_iff; auto). congruence. }
    assert (HQ : forall p, k <= p < m0 -> In p Q).
    { intros p Hp. apply in_Q. split; [lia|]. apply Hlt. lia. }
    assert (Hm0 : ~ In m0 Q).
    { intro H. apply in_Q in H. destruct H as [_ H]. congruence. }
    (* a hole: some keyword names a positional beyond the first omitted one *)
    assert (Hnone : spec_forward sigs false k K = None) by (destruct (spec_forward sigs false k K); [discriminate|reflexivity]).
    rewrite spec_forward_unfold in Hnone.
    destruct (forallb (fun o : option nat => match o with Some _ => true | None => false end) (map F (seq k (length posK)))) eqn:Ef; [discriminate|].
    assert (Hj : exists j, k <= j < k + length Q /\ ~ In j Q).
    { destruct (forallb_false_exists _ _ Ef) as [o [Ho Hof]]. apply in_map_iff in Ho. destruct Ho as [j [<- Hj]].
      apply in_seq in Hj. rewrite posK_length in Hj. exists j. split; auto. intro Hin. rewrite (F_in j Hin) in Hof. discriminate. }
    destruct Hj as [j [Hjr HjQ]].
    destruct (existsb (fun p => m0 <=? p) Q) eqn:Eex.
    + apply existsb_exists in Eex. destruct Eex as [p [HpQ Hple]]. apply Nat.leb_le in Hple.
      assert (Hpm : m0 < p) by (destruct (Nat.eq_dec p m0); [subst; contradiction|lia]).
      destruct (Q_kwpos p HpQ) as [[A _] HK]. exists (nf_nm f p). split; auto. split; [apply posname_not_kw; exact A|].
      intros p' Hp' E. apply psrc_kw_inv in E. destruct E as [Hkp' E].
      destruct (Q_kwpos p' (HQ p' (conj Hkp' Hp'))) as [[A' _] _].
      assert (p = p') by (apply (ok_inj f Hok); auto). lia.
    + exfalso. assert (Hall : forall p, In p Q -> p < m0).
      { intros p Hp. destruct (Nat.lt_ge_cases p m0); auto. exfalso.
        assert (existsb (fun p => m0 <=? p) Q = true).
        { apply existsb_exists. exists p. split; auto. apply Nat.leb_le. lia. }
        congruence. }
      assert (Hi1 : incl Q (seq k (m0 - k))).
      { intros p Hp. apply in_seq. specialize (Hall p Hp). apply in_Q in Hp. lia. }
      pose proof (NoDup_incl_length Q_NoDup Hi1) as L1. rewrite seq_length in L1.
      assert (Hi2 : incl (seq k (m0 - k)) Q).
      { intros p Hp. apply in_seq in Hp. apply HQ. lia. }
      pose proof (NoDup_incl_length (seq_NoDup (m0 - k) k) Hi2) as L2. rewrite seq_length in L2.
      apply HjQ. apply HQ. lia.
  Qed.

End SpecOnBound.

(* ---------- from the signatures to the normal form ---------- *)
Lemma entry_setup : forall sigs a, all_wf sigs -> analyze sigs = inr a ->
  exists r, let f := nf_of sigs a r in
    nf_ok f /\ a = nf_analysis f /\ entry_params a = Some (nf_eparams f) /\ e_body (gen_entry a) = nf_body f
    /\ (forall p, nf_sl f <= p < nf_n f -> is_pos_name sigs (nf_nm f p) = true /\ name_pos sigs (nf_nm f p) = Some p)
    /\ (forall m, In m (nf_kr f ++ nf_ko f) -> is_pos_name sigs m = false)
    /\ (forall p, p < npos sigs -> req_all sigs (CPos p) = (p <? r)).
Proof.
  intros sigs a Hwf Ha. destruct (analyze_nf sigs a Hwf Ha) as [r [Hf [Hok Ea]]]. exists r. intro f.
  destruct (analyze_inv sigs a Ha) as [_ [Hne Ea']].
  assert (Hkr : an_kr a = filter (fun n => req_all sigs (CName n)) (keywords sigs)) by (rewrite Ea'; reflexivity).
  assert (Hko : an_ko a = filter (fun n => negb (req_all sigs (CName n))) (keywords sigs)) by (rewrite Ea'; reflexivity).
  split; [exact Hok|]. split; [exact Ea|].
  assert (Eg : gen_entry a = mkEntry (nf_params f) (nf_body f)).
  { rewrite Ea at 1. apply gen_nf. exact Hok. }
  split.
  - unfold entry_params. rewrite Eg. simpl. apply resolve_nf. exact Hok.
  - split; [rewrite Eg; reflexivity|]. split; [|split; auto].
    + intros p Hp. apply (link_pos sigs a r Hne). exact Hp.
    + intros m Hm. apply (link_kw_notpos sigs a r Hne Hkr Hko). exact Hm.
Qed.

Theorem required_prefix : forall sigs a, all_wf sigs -> analyze sigs = inr a ->
  exists r, r <= npos sigs /\
    (forall p, p < npos sigs -> req_all sigs (CPos p) = (p <? r)) /\
    an_spr a ++ an_pr a = map (pid sigs) (seq 0 r) /\
    an_spr a ++ an_spo a ++ an_pr a ++ an_po a = map (pid sigs) (seq 0 (npos sigs)) /\
    (an_spo a <> [] -> an_pr a = []).
Proof.
  intros sigs a Hwf Ha. destruct (analyze_nf sigs a Hwf Ha) as [r [Hf [Hok Ea]]]. exists r.
  pose proof (ok_r _ Hok) as Hr. pose proof (ok_sl _ Hok) as Hsl. simpl in Hr, Hsl.
  split; auto. split; auto. rewrite Ea. unfold nf_analysis. cbn [an_spr an_spo an_pr an_po nf_of nf_r nf_sl nf_n].
  change (nf_pid (nf_of sigs a r)) with (pid sigs).
  set (sl := strict_len sigs) in *. set (n := npos sigs) in *.
  assert (G : forall x y, x <= y -> seq x (y - x) ++ seq y (n - y) = seq x (n - x) \/ n < y).
  { intros x y Hxy. destruct (Nat.le_gt_cases y n); [left|right; auto].
    replace (n - x) with ((y - x) + (n - y)) by lia. rewrite seq_app. replace (x + (y - x)) with y by lia. reflexivity. }
  assert (G2 : forall x y, x <= y -> seq 0 x ++ seq x (y - x) = seq 0 y).
  { intros x y Hxy. replace y with (x + (y - x)) at 2 by lia. rewrite seq_app. reflexivity. }
  rewrite <- !map_app. repeat split.
  - f_equal. destruct (Nat.le_ge_cases r sl).
    + rewrite Nat.min_l, Nat.max_r by lia. rewrite Nat.sub_diag. simpl. apply app_nil_r.
    + rewrite Nat.min_r, Nat.max_l by lia. apply G2. lia.
  - f_equal. destruct (Nat.le_ge_cases r sl).
    + rewrite Nat.min_l, Nat.max_r by lia. rewrite Nat.sub_diag. simpl.
      rewrite app_assoc, (G2 r sl) by lia.
      destruct (G 0 sl) as [E|E]; [lia| |lia]. rewrite !Nat.sub_0_r in E. exact E.
    + rewrite Nat.min_r, Nat.max_l by lia. rewrite Nat.sub_diag. simpl.
      destruct (G sl r) as [E|E]; [lia| |lia]. rewrite E.
      destruct (G 0 sl) as [E'|E']; [lia| |lia]. rewrite !Nat.sub_0_r in E'. exact E'.
  - intro H. destruct (Nat.le_ge_cases r sl).
    + rewrite Nat.max_r by lia. rewrite Nat.sub_diag. reflexivity.
    + exfalso. apply H. rewrite Nat.min_r by lia. rewrite Nat.sub_diag. reflexivity.
Qed.

Theorem entry_compiles : forall sigs a, all_wf sigs -> analyze sigs = inr a -> entry_params a <> None.
Proof.
  intros sigs a Hwf Ha. destruct (entry_setup sigs a Hwf Ha) as [r [_ [_ [E _]]]]. rewrite E. discriminate.
Qed.

Definition all_self (sigs : list msig) (self : bool) : Prop := forall s, In s sigs -> m_self s = self.

Lemma an_self_eq : forall sigs a self, sigs <> [] -> all_self sigs self -> analyze sigs = inr a -> an_self a = self.
Proof.
  intros sigs a self Hne Hs Ha. destruct (analyze_inv sigs a Ha) as [_ [_ Ea]]. rewrite Ea. simpl.
  destruct sigs as [|s sigs']; [contradiction|]. apply Hs. left. reflexivity.
Qed.

(* the outcome of run_entry on a shape the generated def binds *)
Lemma run_entry_out : forall sigs self k K o, all_wf sigs -> sigs <> [] -> all_self sigs self ->
  run_entry sigs self k K = ROut o ->
  exists a r, analyze sigs = inr a /\ let f := nf_of sigs a r in
    nf_self f = self /\ nf_ok f /\ bound f k K
    /\ o = match first_missing f k K with Some m => out_exit f k K m | None => out_full f k K end
    /\ (forall p, nf_sl f <= p < nf_n f -> is_pos_name sigs (nf_nm f p) = true /\ name_pos sigs (nf_nm f p) = Some p)
    /\ (forall m, In m (nf_kr f ++ nf_ko f) -> is_pos_name sigs m = false).
Proof.
  intros sigs self k K o Hwf Hne Hs H. unfold run_entry in H.
  destruct (analyze sigs) as [e|a] eqn:Ea; [discriminate|].
  destruct (entry_setup sigs a Hwf Ea) as [r [Hok [Ean [Ep [Eb [Hpos Hkw]]]]]].
  exists a, r. split; auto. intro f.
  assert (Hself : nf_self f = self) by (apply (an_self_eq sigs a self); auto).
  rewrite Ep, Eb in H. fold f in H. rewrite <- Hself in H.
  destruct (bind (nf_eparams f) (caller_pos (nf_self f) k) (caller_kws K)) as [vals|] eqn:Eb'; [|discriminate].
  apply (bind_nf_iff f k K vals Hok) in Eb'. destruct Eb' as [Hb ->].
  injection H as <-. split; [exact Hself|]. split; [exact Hok|]. split; [exact Hb|]. split.
  - change (combine (map ep_id (nf_eparams f)) (nf_vals f k K)) with (nf_env f k K). apply run_nf; auto.
  - split; [exact Hpos|]. destruct Hkw as [Hkw _]. exact Hkw.
Qed.

Theorem forward_partial : forall sigs self k K o, all_wf sigs -> sigs <> [] -> all_self sigs self ->
  dom_fwd sigs k K = true -> run_entry sigs self k K = ROut o ->
  exists key fpos fkw, o = OCall key fpos fkw /\ fwd_ok sigs self k K key fpos fkw = true.
Proof.
  intros sigs self k K o Hwf Hne Hs Hd H.
  destruct (run_entry_out sigs self k K o Hwf Hne Hs H) as [a [r [Ea [Hself [Hok [Hb [Ho [Hpos Hkw]]]]]]]].
  set (f := nf_of sigs a r) in *. rewrite <- Hself.
  destruct (first_missing f k K) as [m0|] eqn:Efm.
  - pose proof (fwd_exit sigs f k K Hok Hb eq_refl Hpos Hkw m0 Efm Hd) as G. rewrite Ho. unfold out_exit, out_M in *.
    eexists _, _, _. split; [reflexivity|exact G].
  - pose proof (fwd_full sigs f k K Hok Hb eq_refl Hpos Hkw Efm) as G. rewrite Ho. unfold out_full, out_M in *.
    eexists _, _, _. split; [reflexivity|exact G].
Qed.
