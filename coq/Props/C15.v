(* C15 — equivalent spellings of an annotation dispatch identically.
   Theorems only.  Model: Model/Norm.v (TypeNormalizer and the generic handlers of abc.py).  Dispatch depends on an
   annotation only through its normalised type (methods carry [ty]s in Model/Resolve.v), so equal normal forms give
   identical dispatch for all arguments and all surrounding method sets.  These equalities hold by computation: the
   theorem content is thin and most of the assurance for C15 is the correspondence run (normalize_type of the real
   annotation objects against [norm], and behavioural comparison of respelt programs).  Member order of unions and Literal
   values: identified by the library (equality up to order, fix: commit 1379476) and by the harness's canonical encoding. *)
From Coq Require Import ZArith List Bool Arith.
Import ListNotations.
From OvldV Require Import Model.Order Model.Ty Model.Dep Model.Norm.

Theorem C15_union_spellings : forall l, norm (AUnion l) = norm (ATuple l).
Proof. reflexivity. Qed.
Print Assumptions C15_union_spellings.

Theorem C15_optional : forall a, norm (AOptional a) = norm (AUnion [a; ATy (Cls C_NONE)]).
Proof. reflexivity. Qed.
Print Assumptions C15_optional.

Theorem C15_any_missing_object : norm AAny = norm AMissing /\ norm AMissing = norm (ATy (Cls C_OBJECT)).
Proof. split; reflexivity. Qed.
Print Assumptions C15_any_missing_object.

Theorem C15_annotated : forall a, norm (AAnnotated a) = norm a.
Proof. reflexivity. Qed.
Print Assumptions C15_annotated.

Theorem C15_string : forall a, norm (AStr a) = norm a.
Proof. reflexivity. Qed.
Print Assumptions C15_string.

Theorem C15_list_spellings : forall a, norm (AList a true) = norm (AList a false).
Proof. reflexivity. Qed.
Print Assumptions C15_list_spellings.

(* respelling inside a compound annotation: normalisation is compositional *)
Theorem C15_congruence_union : forall l l', map norm l = map norm l' -> norm (AUnion l) = norm (AUnion l').
Proof. intros l l' H. simpl. now rewrite H. Qed.
Print Assumptions C15_congruence_union.

Theorem C15_bare_type : norm ABareType = norm (ATypeOf (Cls C_OBJECT)).
Proof. reflexivity. Qed.
Print Assumptions C15_bare_type.
