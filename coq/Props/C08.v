(* C08 — recurse always re-enters the overloaded function that was actually called (the rewriting half).
   Theorems only; Print Assumptions under each.
   What this component's model can carry: every function (Ovld) re-adapts every method it uses -- inherited ones
   included -- for itself (core.py register_signature -> adapt_function(orig_fn, self, ...)); recode names the
   injected globals after the id of the function it adapts FOR (___OVLD<id>, ___MAP<id>) and a fresh ___CODE<k>.
   In the model the rewriting parameters carry that id ([p_id]) and the semantics has one table per id ([tbl j]), all
   living in the same globals.  Proved here: the rewritten recurse(args) evaluates to calling table [p_id p] -- the
   function the method was adapted for -- on the evaluated arguments (self prepended in methods), for positional and
   keyword-only arguments, whatever other functions' tables are around; and the rewritten tree names no other
   function's table.  Which id a variant / mixin child gets and that every node re-adapts (the graph semantics) is the
   Graph component's part of C08; here it is covered by the behaviour run over variant / mixin graphs only. *)
From Coq Require Import ZArith List Bool Arith.
Import ListNotations.
From OvldV Require Import Model.Sx Model.Rewrite Model.Run_Rewrite Spec.RewriteRel
  Proofs.RewriteSyn Proofs.RewriteFoot Proofs.RewriteSimA Proofs.RewriteSim Proofs.RewriteTop.

(* FULL STATEMENT (false of the faithful model: C08_refuted_poskw):
     within a method adapted for function N, recurse(args) evaluates to N(args).
   PROVED for every call in [dom] -- positional arguments and keyword arguments that are keyword-only parameters,
   argument expressions of unbounded nesting (themselves containing recurse / call_next calls): evaluating the
   rewritten call equals (up to the relations of C09) evaluating the arguments left to right, keyword values after the
   positionals, and then dispatching in table [p_id p] with self prepended for methods. *)
Theorem C08_recurse_is_call_partial :
  forall (W : Type) (p : rwp) typeof tbl callv binop getattr getitem truthy fmt ugl mself r ar kw,
    p_rs p = Some r -> is_sym (p_cs p) r = false -> dom p (ECall (EName (NUser r)) ar kw) = true ->
    forall n k rho s s', srel W p s s' -> tgt_fixed W s' rho ->
      rsim W p (vrel p)
        (obind W (ev_args W p typeof tbl callv binop getattr getitem truthy fmt ugl mself false
                          (below W p typeof tbl callv binop getattr getitem truthy fmt ugl mself false n) rho ar s) (fun vs s2 =>
         obind W (ev_kws W p typeof tbl callv binop getattr getitem truthy fmt ugl mself false
                         (below W p typeof tbl callv binop getattr getitem truthy fmt ugl mself false n) rho kw s2) (fun ks s3 =>
           Some (dispatch W p typeof tbl callv (p_id p) [] (self_list p mself) vs ks s3))))
        (eval W p typeof tbl callv binop getattr getitem truthy fmt ugl mself true n rho
              (fst (rw p k (ECall (EName (NUser r)) ar kw))) s').
Proof. exact recurse_is_call. Qed.
Print Assumptions C08_recurse_is_call_partial.

(* the rewriting for function N mentions ___OVLD<j> / ___MAP<j> / ___CODE<c> of another function or method only
   where the source already did *)
Theorem C08_own_table : forall p x e k, foreign p x = true -> mentions x (fst (rw p k e)) = true -> mentions x e = true.
Proof. exact own_id. Qed.
Print Assumptions C08_own_table.

(* the bare name recurse (and the function's own name, which adapt_function treats the same way) becomes the
   function the method was adapted for *)
Theorem C08_bare_name : forall p r k, p_rs p = Some r -> rw p k (EName (NUser r)) = (EName (NOvld (p_id p)), k).
Proof. exact bare_name_top. Qed.
Print Assumptions C08_bare_name.

(* KF-09: f(v10, *, v31) -- recurse(v10=v11) names the positional-or-keyword parameter v10.  The function itself
   accepts f(v10=5) (its entry point keys v10 by position); the rewritten call looks up ("v10", int): No method *)
Definition an0 := {| a_method := false; a_complex := []; a_posnames := [Some 10] |}.
Definition p0 := {| p_anal := an0; p_rs := Some 1; p_cs := Some 2; p_alias := []; p_id := 7; p_code := 3 |}.
Definition st0 : state nat :=
  {| s_frames := [ {| f_comp := false; f_vars := [] |} ]; s_gvars := []; s_trace := []; s_world := 0 |}.
Definition run (p : rwp) (table glob : list sx) (reg : bool) (e : expr) :=
  eval nat p typeof_std (tbl_std table) callv_std binop_std getattr_std getitem_std truthy_std fmt_std (glob_of glob) (SData 4)
       reg 3 [0] e st0.
Definition table0 : list sx := [L [A 7; L [L [A 1; A 1]]; A 0]]%Z.
Definition glob0 : list sx := [L [A 11; L [A 0; A 5]]]%Z.

Theorem C08_refuted_poskw :
  exists p table glob e e' v s1 s1',
    valid e = true /\ rewrite p e = Some e' /\
    (* calling the function itself with the same arguments works ... *)
    run p table glob false (ECall (EName (NOvld (p_id p))) ANil (KCons (Some 10) (EName (NUser 11)) KNil)) = Some (Val v, s1) /\
    (* ... and so does the documented recurse ... *)
    run p table glob false e = Some (Val v, s1) /\
    (* ... but not the rewritten call *)
    run p table glob true e' = Some (Raise XNoMethod, s1').
Proof.
  exists p0, table0, glob0, (ECall (EName (NUser 1)) ANil (KCons (Some 10) (EName (NUser 11)) KNil)).
  do 4 eexists. vm_compute. repeat split; reflexivity.
Qed.
Print Assumptions C08_refuted_poskw.

(* KF-27 (methods): the bare name / the starred call lose self -- see C09_method_star_refuted *)

(* non-vacuity: a call in the domain of C08_recurse_is_call_partial with two functions' tables around; the rewritten
   code for function 7 reaches table 7 (method m0), not table 8 (method m5) *)
Example C08_domain_inhabited :
  dom p0 (ECall (EName (NUser 1)) (ACons false (EName (NUser 11)) ANil) KNil) = true /\
  exists s1, run p0 [L [A 8; L [L [A 1; A 1]]; A 5]; L [A 7; L [L [A 1; A 1]]; A 0]]%Z glob0 true
                 (fst (rw p0 0 (ECall (EName (NUser 1)) (ACons false (EName (NUser 11)) ANil) KNil)))
             = Some (Val (VSeq 1 [VInt 0; VSeq 1 [VInt 5]; VSeq 1 []]), s1).
Proof. vm_compute. split; [reflexivity | eexists; reflexivity]. Qed.
