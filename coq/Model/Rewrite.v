(* Rewrite.v — model of ovld's source rewriting (recode.py NameConverter) and of the evaluation of the
   expressions it rewrites.  Definitions only.

   Part 1  syntax: names (user names, the temporaries __TMP<n>_<key>, and the names the rewriter injects),
           expressions (mutual lists so that every function below is plainly structural), straight-line statements.
   Part 2  [rw]: what NameConverter does to a tree; counter threading in the order the Python visitor consumes
           next(self.count) (generic_visit = field order of the ast classes; ListComp: elt before generators).
           [usage_err]: the trees on which NameConverter raises UsageError.  [rewrite] combines them.
   Part 3  [valid]: Python's static rules that matter here (assignment expression in a comprehension iterable,
           rebinding an iteration variable, repeated keyword, duplicate lambda parameter).
   Part 4  domain predicates (boolean): hygiene, the classifiers of the known findings.
   Part 5  big-step semantics [eval]: Python's evaluation order, scoping of := / lambda / comprehension frames,
           the effect trace; user code and the dispatch table are Section oracles over first-order views ([sval]).
           Fuel is consumed by closure calls only, so a term and its rewriting use the same fuel. *)
From Coq Require Import ZArith List Bool Arith.
Import ListNotations.

(* ------------------------------------------------------------------ Part 1: syntax *)

(* key of a temporary: positional index, or keyword name; [KKw None] is what the code produces for **d (kw.arg is None) *)
Inductive tkey := KPos (i : nat) | KKw (k : option nat).

Inductive name :=
| NUser (i : nat)                (* an identifier of the source *)
| NTmp (n : nat) (k : tkey)      (* __TMP<n>_<k> *)
| NSelf                          (* self *)
| NType                          (* type *)
| NSubtler                       (* __SUBTLER_TYPE *)
| NOvld (i : nat)                (* ___OVLD<id>: the function with that id itself (ovld.dispatch) *)
| NMap (i : nat)                 (* ___MAP<id>:  its table (ovld.map) *)
| NCode (c : nat).               (* ___CODE<c>:  a rewritten method's code object *)

Inductive const := CInt (z : Z) | CStr (s : nat) | CNone.

Inductive expr :=
| EConst (c : const)
| EName (x : name)
| EAttr (e : expr) (a : nat)
| EBin (op : nat) (a b : expr)
| EBool (isor : bool) (es : exprs)                 (* a and b and ... / a or b or ... *)
| EIf (c a b : expr)                               (* a if c else b *)
| ECall (f : expr) (ar : args) (kw : kws)
| ENamed (x : name) (e : expr)                     (* (x := e) *)
| ELam (ps : list name) (b : expr)
| EComp (elt : expr) (x : name) (it : expr) (conds : exprs)   (* [elt for x in it if c1 if c2 ...] *)
| EFstr (parts : exprs)                            (* f"{p1}{p2}..." = format(p1, p2, ...) *)
| EEffect (tag : nat) (e : expr)                   (* eff(tag, e): logs (tag, value) and returns the value *)
| ETuple (es : exprs)
| ESub (e i : expr)
with exprs := ENil | ECons (e : expr) (r : exprs)
with args := ANil | ACons (star : bool) (e : expr) (r : args)       (* e / *e *)
with kws := KNil | KCons (k : option nat) (e : expr) (r : kws).      (* k=e / **e  (k = None) *)

Inductive stmt := SExpr (e : expr) | SAssign (x : name) (e : expr) | SReturn (e : expr).

Definition okey_eqb (a b : option nat) : bool :=
  match a, b with Some x, Some y => Nat.eqb x y | None, None => true | _, _ => false end.
Definition tkey_eqb (a b : tkey) : bool :=
  match a, b with KPos i, KPos j => Nat.eqb i j | KKw x, KKw y => okey_eqb x y | _, _ => false end.
Definition name_eqb (a b : name) : bool :=
  match a, b with
  | NUser i, NUser j => Nat.eqb i j
  | NTmp n k, NTmp m l => Nat.eqb n m && tkey_eqb k l
  | NSelf, NSelf | NType, NType | NSubtler, NSubtler => true
  | NOvld i, NOvld j | NMap i, NMap j | NCode i, NCode j => Nat.eqb i j
  | _, _ => false
  end.
Definition is_tmp (x : name) : bool := match x with NTmp _ _ => true | _ => false end.

Fixpoint eapp (a b : exprs) : exprs := match a with ENil => b | ECons e r => ECons e (eapp r b) end.
Fixpoint aapp (a b : args) : args := match a with ANil => b | ACons s e r => ACons s e (aapp r b) end.
Fixpoint has_star (a : args) : bool := match a with ANil => false | ACons s _ r => s || has_star r end.
Fixpoint kw_keys (k : kws) : list (option nat) := match k with KNil => [] | KCons o _ r => o :: kw_keys r end.
Fixpoint args_len (a : args) : nat := match a with ANil => 0 | ACons _ _ r => S (args_len r) end.

(* ------------------------------------------------------------------ Part 2: the rewriter *)

(* ArgumentAnalyzer as far as the rewriter and the entry point use it: is_method, the keys whose lookup is
   subtler_type (complex_transforms), and the names of the positional parameters (None = strictly positional). *)
Record anal := { a_method : bool; a_complex : list tkey; a_posnames : list (option nat) }.
Definition subtle (an : anal) (k : tkey) : bool := existsb (tkey_eqb k) (a_complex an).

(* parameters of one NameConverter run: the analysis and the two symbols found by _search_names
   (None = the method does not mention it; recode passes a falsy value then).  adapt_function hands recode only the
   FIRST name found that denotes the function (rec_syms[0]); [p_alias] lists the other names of the source that
   denote it too, each with a flag: false = another name for ovld.recurse (registered, it stays bound to ovld's Unusable
   placeholder), true = the function's own global name (stays bound to that global function): the rewriter leaves them alone (KF-29).
   [p_id] is the id of the function the method is being adapted FOR (ovld.id: register_signature adapts every method,
   inherited ones included, for the function being built); [p_code] the number drawn from recode's _current counter. *)
Record rwp := { p_anal : anal; p_rs : option nat; p_cs : option nat; p_alias : list (nat * bool); p_id : nat; p_code : nat }.

Definition is_sym (o : option nat) (i : nat) : bool := match o with Some j => Nat.eqb i j | None => false end.
Definition is_alias (p : rwp) (x : name) : bool :=
  match x with NUser i => existsb (fun a => Nat.eqb i (fst a)) (p_alias p) | _ => false end.
Definition alias_own (p : rwp) (i : nat) : bool :=
  match find (fun a => Nat.eqb i (fst a)) (p_alias p) with Some a => snd a | None => false end.

(* visit_Call's test: Some cn when func is the Name recurse_sym / call_next_sym *)
Definition site (p : rwp) (f : expr) : option bool :=
  match f with
  | EName (NUser i) => if is_sym (p_cs p) i then Some true else if is_sym (p_rs p) i then Some false else None
  | _ => None
  end.

(* visit_Name (applies to every ast.Name: loads, := targets, comprehension targets) *)
Definition rw_name (p : rwp) (x : name) : name :=
  match x with NUser i => if is_sym (p_rs p) i then NOvld (p_id p) else x | _ => x end.

Definition type_name (p : rwp) (k : tkey) : name := if subtle (p_anal p) k then NSubtler else NType.
Definition kw_const (k : option nat) : const := match k with Some s => CStr s | None => CNone end.

(* _make_lookup_call(key, arg) with arg already visited:  type(__TMP<n>_<key> := arg') *)
Definition lookup_call (p : rwp) (n : nat) (k : tkey) (e' : expr) : expr :=
  ECall (EName (type_name p k)) (ACons false (ENamed (NTmp n k) e') ANil) KNil.

Fixpoint tmp_args (n i : nat) (a : args) : args :=
  match a with ANil => ANil | ACons _ _ r => ACons false (EName (NTmp n (KPos i))) (tmp_args n (S i) r) end.
Fixpoint tmp_kws (n : nat) (k : kws) : kws :=
  match k with KNil => KNil | KCons o _ r => KCons o (EName (NTmp n (KKw o))) (tmp_kws n r) end.

Definition self_arg (p : rwp) (a : args) : args :=
  if a_method (p_anal p) then ACons false (EName NSelf) a else a.
Definition code_part (p : rwp) (cn : bool) (ps : exprs) : exprs := if cn then ECons (EName (NCode (p_code p))) ps else ps.

Fixpoint rw (p : rwp) (k : nat) (e : expr) {struct e} : expr * nat :=
  match e with
  | EConst _ => (e, k)
  | EName x => (EName (rw_name p x), k)
  | EAttr e1 a => let '(e1', k1) := rw p k e1 in (EAttr e1' a, k1)
  | EBin op a b => let '(a', k1) := rw p k a in let '(b', k2) := rw p k1 b in (EBin op a' b', k2)
  | EBool o es => let '(es', k1) := rw_list p k es in (EBool o es', k1)
  | EIf c a b =>
      let '(c', k1) := rw p k c in let '(a', k2) := rw p k1 a in let '(b', k3) := rw p k2 b in (EIf c' a' b', k3)
  | ECall f ar kw =>
      match site p f, has_star ar with
      | Some cn, false =>
          (* tmp = f"__TMP{next(self.count)}_" is taken before the arguments are visited *)
          let '(pparts, k1) := rw_pos p k 0 (S k) ar in
          let '(kparts, k2) := rw_kwparts p k k1 kw in
          (ECall (ESub (EName (NMap (p_id p))) (ETuple (code_part p cn (eapp pparts kparts))))
                 (self_arg p (tmp_args k 0 ar)) (tmp_kws k kw), k2)
      | _, _ =>
          let '(f', k1) := rw p k f in
          let '(ar', k2) := rw_args p k1 ar in
          let '(kw', k3) := rw_kws p k2 kw in
          (ECall f' ar' kw', k3)
      end
  | ENamed x e1 => let '(e1', k1) := rw p k e1 in (ENamed (rw_name p x) e1', k1)
  | ELam ps b => let '(b', k1) := rw p k b in (ELam ps b', k1)
  | EComp elt x it conds =>
      (* ast.ListComp._fields = (elt, generators); comprehension._fields = (target, iter, ifs) *)
      let '(elt', k1) := rw p k elt in
      let '(it', k2) := rw p k1 it in
      let '(conds', k3) := rw_list p k2 conds in
      (EComp elt' (rw_name p x) it' conds', k3)
  | EFstr parts => let '(parts', k1) := rw_list p k parts in (EFstr parts', k1)
  | EEffect tag e1 => let '(e1', k1) := rw p k e1 in (EEffect tag e1', k1)
  | ETuple es => let '(es', k1) := rw_list p k es in (ETuple es', k1)
  | ESub a i => let '(a', k1) := rw p k a in let '(i', k2) := rw p k1 i in (ESub a' i', k2)
  end
with rw_list (p : rwp) (k : nat) (es : exprs) {struct es} : exprs * nat :=
  match es with
  | ENil => (ENil, k)
  | ECons e r => let '(e', k1) := rw p k e in let '(r', k2) := rw_list p k1 r in (ECons e' r', k2)
  end
with rw_args (p : rwp) (k : nat) (a : args) {struct a} : args * nat :=
  match a with
  | ANil => (ANil, k)
  | ACons s e r => let '(e', k1) := rw p k e in let '(r', k2) := rw_args p k1 r in (ACons s e' r', k2)
  end
with rw_kws (p : rwp) (k : nat) (a : kws) {struct a} : kws * nat :=
  match a with
  | KNil => (KNil, k)
  | KCons o e r => let '(e', k1) := rw p k e in let '(r', k2) := rw_kws p k1 r in (KCons o e' r', k2)
  end
(* type index for positional arguments: [_make_lookup_call(i, arg) for i, arg in enumerate(node.args)] *)
with rw_pos (p : rwp) (n i k : nat) (a : args) {struct a} : exprs * nat :=
  match a with
  | ANil => (ENil, k)
  | ACons _ e r =>
      let '(e', k1) := rw p k e in
      let '(r', k2) := rw_pos p n (S i) k1 r in
      (ECons (lookup_call p n (KPos i) e') r', k2)
  end
(* type index for keyword arguments: (Constant(kw.arg), _make_lookup_call(kw.arg, kw.value)) *)
with rw_kwparts (p : rwp) (n k : nat) (a : kws) {struct a} : exprs * nat :=
  match a with
  | KNil => (ENil, k)
  | KCons o e r =>
      let '(e', k1) := rw p k e in
      let '(r', k2) := rw_kwparts p n k1 r in
      (ECons (ETuple (ECons (EConst (kw_const o)) (ECons (lookup_call p n (KKw o) e') ENil))) r', k2)
  end.

(* NameConverter raises UsageError("call_next should be called right away") whenever visit_Name meets the
   call_next symbol, i.e. at every Name node except the func of a call it handles. *)
Definition cs_name (p : rwp) (x : name) : bool := match x with NUser i => is_sym (p_cs p) i | _ => false end.

Fixpoint usage_err (p : rwp) (e : expr) {struct e} : bool :=
  match e with
  | EConst _ => false
  | EName x => cs_name p x
  | EAttr e1 _ => usage_err p e1
  | EBin _ a b => usage_err p a || usage_err p b
  | EBool _ es => usage_err_list p es
  | EIf c a b => usage_err p c || usage_err p a || usage_err p b
  | ECall f ar kw =>
      match site p f, has_star ar with
      | Some _, false => usage_err_args p ar || usage_err_kws p kw
      | _, _ => usage_err p f || usage_err_args p ar || usage_err_kws p kw
      end
  | ENamed x e1 => cs_name p x || usage_err p e1
  | ELam _ b => usage_err p b
  | EComp elt x it conds => cs_name p x || usage_err p elt || usage_err p it || usage_err_list p conds
  | EFstr parts => usage_err_list p parts
  | EEffect _ e1 => usage_err p e1
  | ETuple es => usage_err_list p es
  | ESub a i => usage_err p a || usage_err p i
  end
with usage_err_list (p : rwp) (es : exprs) {struct es} : bool :=
  match es with ENil => false | ECons e r => usage_err p e || usage_err_list p r end
with usage_err_args (p : rwp) (a : args) {struct a} : bool :=
  match a with ANil => false | ACons _ e r => usage_err p e || usage_err_args p r end
with usage_err_kws (p : rwp) (a : kws) {struct a} : bool :=
  match a with KNil => false | KCons _ e r => usage_err p e || usage_err_kws p r end.

(* NameConverter(...).visit(tree) on one expression: None = UsageError *)
Definition rewrite (p : rwp) (e : expr) : option expr :=
  if usage_err p e then None else Some (fst (rw p 0 e)).

(* a straight-line body: the counter runs through the statements in order *)
Definition rw_stmt (p : rwp) (k : nat) (s : stmt) : stmt * nat :=
  match s with
  | SExpr e => let '(e', k1) := rw p k e in (SExpr e', k1)
  | SAssign x e => let '(e', k1) := rw p k e in (SAssign (rw_name p x) e', k1)   (* Assign._fields = (targets, value) *)
  | SReturn e => let '(e', k1) := rw p k e in (SReturn e', k1)
  end.
Fixpoint rw_body (p : rwp) (k : nat) (b : list stmt) : list stmt * nat :=
  match b with
  | [] => ([], k)
  | s :: r => let '(s', k1) := rw_stmt p k s in let '(r', k2) := rw_body p k1 r in (s' :: r', k2)
  end.
Definition usage_err_stmt (p : rwp) (s : stmt) : bool :=
  match s with SExpr e | SReturn e => usage_err p e | SAssign x e => cs_name p x || usage_err p e end.
Definition rewrite_body (p : rwp) (b : list stmt) : option (list stmt) :=
  if existsb (usage_err_stmt p) b then None else Some (fst (rw_body p 0 b)).

(* ------------------------------------------------------------------ Part 3: Python's static rules *)

Fixpoint mem_name (x : name) (l : list name) : bool :=
  match l with [] => false | y :: r => name_eqb x y || mem_name x r end.
Fixpoint nodup_names (l : list name) : bool :=
  match l with [] => true | x :: r => negb (mem_name x r) && nodup_names r end.
Fixpoint mem_okey (x : option nat) (l : list (option nat)) : bool :=
  match l with [] => false | y :: r => okey_eqb x y || mem_okey x r end.
(* "keyword argument repeated": only named keywords count, ** may be repeated *)
Fixpoint nodup_kwnames (l : list (option nat)) : bool :=
  match l with
  | [] => true
  | None :: r => nodup_kwnames r
  | Some k :: r => negb (mem_okey (Some k) r) && nodup_kwnames r
  end.

(* [iter] = we are inside a comprehension iterable expression (inherited by nested lambdas and comprehensions,
   as CPython's symtable does); [cv] = iteration variables of the enclosing comprehensions of this scope. *)
Fixpoint valid_e (iter : bool) (cv : list name) (e : expr) {struct e} : bool :=
  match e with
  | EConst _ | EName _ => true
  | EAttr e1 _ => valid_e iter cv e1
  | EBin _ a b => valid_e iter cv a && valid_e iter cv b
  | EBool _ es => valid_list iter cv es
  | EIf c a b => valid_e iter cv c && valid_e iter cv a && valid_e iter cv b
  | ECall f ar kw => valid_e iter cv f && valid_args iter cv ar && valid_kws iter cv kw && nodup_kwnames (kw_keys kw)
  | ENamed x e1 => negb iter && negb (mem_name x cv) && valid_e iter cv e1
  | ELam ps b => nodup_names ps && valid_e iter [] b
  | EComp elt x it conds => valid_e iter (x :: cv) elt && valid_e true cv it && valid_list iter (x :: cv) conds
  | EFstr parts => valid_list iter cv parts
  | EEffect _ e1 => valid_e iter cv e1
  | ETuple es => valid_list iter cv es
  | ESub a i => valid_e iter cv a && valid_e iter cv i
  end
with valid_list (iter : bool) (cv : list name) (es : exprs) {struct es} : bool :=
  match es with ENil => true | ECons e r => valid_e iter cv e && valid_list iter cv r end
with valid_args (iter : bool) (cv : list name) (a : args) {struct a} : bool :=
  match a with ANil => true | ACons _ e r => valid_e iter cv e && valid_args iter cv r end
with valid_kws (iter : bool) (cv : list name) (a : kws) {struct a} : bool :=
  match a with KNil => true | KCons _ e r => valid_e iter cv e && valid_kws iter cv r end.

Definition valid (e : expr) : bool := valid_e false [] e.
Definition valid_stmt (s : stmt) : bool := match s with SExpr e | SAssign _ e | SReturn e => valid e end.

(* ------------------------------------------------------------------ Part 4: domain predicates *)

(* binders the rewriting is hygienic for: source identifiers other than the recurse / call_next symbols *)
Definition binder_ok (p : rwp) (x : name) : bool :=
  match x with NUser i => negb (is_sym (p_rs p) i) && negb (is_sym (p_cs p) i) && negb (is_alias p x) | _ => false end.
Definition mention_ok (p : rwp) (x : name) : bool := negb (is_tmp x) && negb (is_alias p x).

Definition kw_named_ok (p : rwp) (o : option nat) : bool :=
  match o with
  | None => false                                                          (* KF-10 *)
  | Some k => negb (mem_okey (Some k) (a_posnames (p_anal p)))             (* KF-09 *)
  end.

(* [dom]: hygiene (no __TMP name, binders are plain identifiers: KF-26), and at every handled call site: no **
   (KF-10), keyword names are keyword-only parameters (KF-09), keyword names pairwise distinct; in a method no
   bare recurse name and no starred recurse call (KF-27); no call_next symbol outside a handled call (UsageError:
   bare name, documented; starred call, KF-28); no second name for the function (KF-29). *)
Fixpoint dom (p : rwp) (e : expr) {struct e} : bool :=
  match e with
  | EConst _ => true
  | EName x => mention_ok p x && negb (cs_name p x) && negb (a_method (p_anal p) && name_eqb (rw_name p x) (NOvld (p_id p)) && negb (name_eqb x (NOvld (p_id p))))
  | EAttr e1 _ => dom p e1
  | EBin _ a b => dom p a && dom p b
  | EBool _ es => dom_list p es
  | EIf c a b => dom p c && dom p a && dom p b
  | ECall f ar kw =>
      match site p f, has_star ar with
      | Some _, false => dom_args p ar && dom_kws p kw && forallb (kw_named_ok p) (kw_keys kw) && nodup_kwnames (kw_keys kw)
      | _, _ => dom p f && dom_args p ar && dom_kws p kw
      end
  | ENamed x e1 => binder_ok p x && dom p e1
  | ELam ps b => forallb (binder_ok p) ps && dom p b
  | EComp elt x it conds => binder_ok p x && dom p elt && dom p it && dom_list p conds
  | EFstr parts => dom_list p parts
  | EEffect _ e1 => dom p e1
  | ETuple es => dom_list p es
  | ESub a i => dom p a && dom p i
  end
with dom_list (p : rwp) (es : exprs) {struct es} : bool :=
  match es with ENil => true | ECons e r => dom p e && dom_list p r end
with dom_args (p : rwp) (a : args) {struct a} : bool :=
  match a with ANil => true | ACons _ e r => dom p e && dom_args p r end
with dom_kws (p : rwp) (a : kws) {struct a} : bool :=
  match a with KNil => true | KCons _ e r => dom p e && dom_kws p r end.

(* KF-11 classifier: a handled call site somewhere inside a comprehension iterable *)
Fixpoint has_site (p : rwp) (e : expr) {struct e} : bool :=
  match e with
  | EConst _ | EName _ => false
  | EAttr e1 _ => has_site p e1
  | EBin _ a b => has_site p a || has_site p b
  | EBool _ es => has_site_list p es
  | EIf c a b => has_site p c || has_site p a || has_site p b
  | ECall f ar kw =>
      match site p f, has_star ar with
      | Some _, false => true
      | _, _ => has_site p f || has_site_args p ar || has_site_kws p kw
      end
  | ENamed _ e1 => has_site p e1
  | ELam _ b => has_site p b
  | EComp elt _ it conds => has_site p elt || has_site p it || has_site_list p conds
  | EFstr parts => has_site_list p parts
  | EEffect _ e1 => has_site p e1
  | ETuple es => has_site_list p es
  | ESub a i => has_site p a || has_site p i
  end
with has_site_list (p : rwp) (es : exprs) {struct es} : bool :=
  match es with ENil => false | ECons e r => has_site p e || has_site_list p r end
with has_site_args (p : rwp) (a : args) {struct a} : bool :=
  match a with ANil => false | ACons _ e r => has_site p e || has_site_args p r end
with has_site_kws (p : rwp) (a : kws) {struct a} : bool :=
  match a with KNil => false | KCons _ e r => has_site p e || has_site_kws p r end.

Fixpoint site_in_iter (p : rwp) (e : expr) {struct e} : bool :=
  match e with
  | EConst _ | EName _ => false
  | EAttr e1 _ => site_in_iter p e1
  | EBin _ a b => site_in_iter p a || site_in_iter p b
  | EBool _ es => site_in_iter_list p es
  | EIf c a b => site_in_iter p c || site_in_iter p a || site_in_iter p b
  | ECall f ar kw => site_in_iter p f || site_in_iter_args p ar || site_in_iter_kws p kw
  | ENamed _ e1 => site_in_iter p e1
  | ELam _ b => site_in_iter p b
  | EComp elt _ it conds => site_in_iter p elt || has_site p it || site_in_iter p it || site_in_iter_list p conds
  | EFstr parts => site_in_iter_list p parts
  | EEffect _ e1 => site_in_iter p e1
  | ETuple es => site_in_iter_list p es
  | ESub a i => site_in_iter p a || site_in_iter p i
  end
with site_in_iter_list (p : rwp) (es : exprs) {struct es} : bool :=
  match es with ENil => false | ECons e r => site_in_iter p e || site_in_iter_list p r end
with site_in_iter_args (p : rwp) (a : args) {struct a} : bool :=
  match a with ANil => false | ACons _ e r => site_in_iter p e || site_in_iter_args p r end
with site_in_iter_kws (p : rwp) (a : kws) {struct a} : bool :=
  match a with KNil => false | KCons _ e r => site_in_iter p e || site_in_iter_kws p r end.

(* the domain of C09_preserve_partial *)
Definition in_domain (p : rwp) (e : expr) : bool := valid e && dom p e && negb (site_in_iter p e).
Definition dom_stmt (p : rwp) (s : stmt) : bool :=
  match s with SExpr e | SReturn e => in_domain p e | SAssign x e => binder_ok p x && in_domain p e end.

(* ------------------------------------------------------------------ Part 5: semantics *)

(* first-order view of a value: what user code (oracles) may depend on *)
Inductive sval := SInt (z : Z) | SStr (s : nat) | SNone | SBool (b : bool) | STy (t : nat) | SData (d : nat)
                | SSeq (k : nat) (l : list sval).        (* k: 0 list, 1 tuple, 2 dict (items = 2-tuples) *)

Inductive prim := PType | PSubtler | PRecurse | PCallNext | POvld (i : nat) | PMap (i : nat) | PCode (c : nat) | PUnusable.

Inductive val :=
| VInt (z : Z) | VStr (s : nat) | VNone | VBool (b : bool) | VTy (t : nat) | VData (d : nat)
| VSeq (k : nat) (l : list val)
| VClos (ps : list name) (b : expr) (fr : list nat)      (* lambda: parameters, body, defining frame chain *)
| VPrim (p : prim).

Inductive exn := XNoMethod | XType | XName (x : name) | XUsage | XUser (s : sval).
Inductive outcome (A : Type) := Val (a : A) | Raise (x : exn).
Arguments Val {A} a. Arguments Raise {A} x.
Definition res := outcome val.

(* one component of a dispatch-table key *)
Inductive kpart := KC (c : nat) | KP (t : nat) | KK (k : option nat) (t : nat).      (* KC: the caller's code object (call_next) *)

Fixpoint shape (v : val) : sval :=
  match v with
  | VInt z => SInt z | VStr s => SStr s | VNone => SNone | VBool b => SBool b | VTy t => STy t | VData d => SData d
  | VSeq k l => SSeq k (map shape l)
  | VClos _ _ _ => SData 0 | VPrim _ => SData 0
  end.
Fixpoint inj (s : sval) : val :=
  match s with
  | SInt z => VInt z | SStr s => VStr s | SNone => VNone | SBool b => VBool b | STy t => VTy t | SData d => VData d
  | SSeq k l => VSeq k (map inj l)
  end.
Definition vconst (c : const) : val := match c with CInt z => VInt z | CStr s => VStr s | CNone => VNone end.

Definition event := (nat * sval)%type.

Fixpoint lookup (x : name) (l : list (name * val)) : option val :=
  match l with [] => None | (y, v) :: r => if name_eqb x y then Some v else lookup x r end.

Section Sem.
  Variable W : Type.                                   (* whatever else user code can read and change *)
  Record frame := { f_comp : bool; f_vars : list (name * val) }.
  Record state := { s_frames : list frame; s_gvars : list (name * val); s_trace : list event; s_world : W }.

  Variable p : rwp.
  Variable typeof : bool -> sval -> nat.               (* subtle? -> value -> type id:  subtler_type / type *)
  Variable tbl : nat -> list kpart -> option sval.     (* the dispatch table of each function (by id): key -> callable (None = no method / ambiguous) *)
  Variable callv : sval -> list sval -> list (nat * sval) -> W -> outcome sval * W * list event.   (* calling user code *)
  Variable binop : nat -> sval -> sval -> outcome sval.
  Variable getattr : sval -> nat -> outcome sval.
  Variable getitem : sval -> sval -> outcome sval.
  Variable truthy : sval -> bool.
  Variable fmt : list sval -> sval.
  Variable ugl : nat -> option sval.                   (* the method's other global / parameter names *)
  Variable mself : sval.                               (* the method's self (used when a_method) *)
  Variable reg : bool.   (* true: the method as registered (names the rewriter did not touch keep their module-level
                            binding: ovld.recurse is an Unusable object); false: the original source with every name
                            for the function bound to the documented callable *)

  Definition an := p_anal p.

  (* names the body can see without having bound them: parameters, module globals, builtins, and -- with the
     documented meaning -- recurse, call_next and what recode injects into the globals *)
  Definition genv (x : name) : option val :=
    match x with
    | NType => Some (VPrim PType) | NSubtler => Some (VPrim PSubtler)
    | NOvld i => Some (VPrim (POvld i)) | NMap i => Some (VPrim (PMap i)) | NCode c => Some (VPrim (PCode c))
    | NSelf => if a_method an then Some (inj mself) else None
    | NUser i => if is_sym (p_cs p) i then Some (VPrim PCallNext)
                 else if is_sym (p_rs p) i then Some (VPrim PRecurse)
                 else if is_alias p x
                 then Some (VPrim (if reg then (if alias_own p i then POvld (p_id p) else PUnusable) else PRecurse))
                 else option_map inj (ugl i)
    | NTmp _ _ => None
    end.

  Definition frame_lookup (s : state) (f : nat) (x : name) : option val :=
    match nth_error (s_frames s) f with Some fr => lookup x (f_vars fr) | None => None end.
  Fixpoint lookup_chain (s : state) (rho : list nat) (x : name) : option val :=
    match rho with
    | [] => match lookup x (s_gvars s) with Some v => Some v | None => genv x end
    | f :: r => match frame_lookup s f x with Some v => Some v | None => lookup_chain s r x end
    end.
  (* := binds in the nearest enclosing function frame (comprehension frames are skipped); at module level, a global *)
  Fixpoint target (s : state) (rho : list nat) : option nat :=
    match rho with
    | [] => None
    | f :: r => match nth_error (s_frames s) f with
                | Some fr => if f_comp fr then target s r else Some f
                | None => target s r
                end
    end.
  Fixpoint set_nth {A} (i : nat) (a : A) (l : list A) : list A :=
    match l, i with [], _ => [] | _ :: r, 0 => a :: r | x :: r, S j => x :: set_nth j a r end.
  Definition bind_in (s : state) (f : nat) (x : name) (v : val) : state :=
    match nth_error (s_frames s) f with
    | Some fr => {| s_frames := set_nth f {| f_comp := f_comp fr; f_vars := (x, v) :: f_vars fr |} (s_frames s);
                    s_gvars := s_gvars s; s_trace := s_trace s; s_world := s_world s |}
    | None => s
    end.
  Definition assign (s : state) (rho : list nat) (x : name) (v : val) : state :=
    match target s rho with
    | Some f => bind_in s f x v
    | None => {| s_frames := s_frames s; s_gvars := (x, v) :: s_gvars s; s_trace := s_trace s; s_world := s_world s |}
    end.
  Definition push (s : state) (fr : frame) : state :=
    {| s_frames := s_frames s ++ [fr]; s_gvars := s_gvars s; s_trace := s_trace s; s_world := s_world s |}.
  Definition log (s : state) (evs : list event) (w : W) : state :=
    {| s_frames := s_frames s; s_gvars := s_gvars s; s_trace := s_trace s ++ evs; s_world := w |}.

  Definition lift (o : outcome sval) : res := match o with Val a => Val (inj a) | Raise x => Raise x end.
  Definition items (v : val) : option (list val) :=
    match v with VSeq 0 l | VSeq 1 l => Some l | _ => None end.
  (* **d: a dict whose keys are strings *)
  Definition dict_item (x : val) : option (nat * val) :=
    match x with
    | VSeq 1 [a; v] => match shape a with SStr k => Some (k, v) | _ => None end
    | _ => None
    end.
  Fixpoint dict_items (l : list val) : option (list (nat * val)) :=
    match l with
    | [] => Some []
    | x :: r => match dict_item x, dict_items r with Some kv, Some r' => Some (kv :: r') | _, _ => None end
    end.
  Definition unpack_dict (v : val) : option (list (nat * val)) :=
    match v with VSeq 2 l => dict_items l | _ => None end.

  (* ---- the entry point, as far as a call from inside a method needs it: a keyword naming the next positional
          parameter is bound to that position (generate_dispatch: positional-or-keyword parameters are keyed by
          position); any other keyword naming a positional parameter cannot be bound here *)
  Fixpoint take_kw (k : nat) (l : list (nat * val)) : option (val * list (nat * val)) :=
    match l with
    | [] => None
    | (j, v) :: r => if Nat.eqb j k then Some (v, r)
                     else match take_kw k r with Some (w, r') => Some (w, (j, v) :: r') | None => None end
    end.
  Fixpoint bind_more (names : list (option nat)) (ar : list val) (kw : list (nat * val)) : list val * list (nat * val) :=
    match names with
    | Some k :: r => match take_kw k kw with
                     | Some (v, kw') => bind_more r (ar ++ [v]) kw'
                     | None => (ar, kw)
                     end
    | _ => (ar, kw)
    end.
  Definition entry_bind (ar : list val) (kw : list (nat * val)) : option (list val * list (nat * val)) :=
    let '(ar', kw') := bind_more (skipn (length ar) (a_posnames an)) ar kw in
    if existsb (fun kv => mem_okey (Some (fst kv)) (a_posnames an)) kw' then None else Some (ar', kw').

  Fixpoint pos_key (i : nat) (l : list val) : list kpart :=
    match l with [] => [] | v :: r => KP (typeof (subtle an (KPos i)) (shape v)) :: pos_key (S i) r end.
  Definition kw_key (l : list (nat * val)) : list kpart :=
    map (fun kv => KK (Some (fst kv)) (typeof (subtle an (KKw (Some (fst kv)))) (shape (snd kv)))) l.
  Definition shape_kw (l : list (nat * val)) : list (nat * sval) := map (fun kv => (fst kv, shape (snd kv))) l.

  Definition call_user (c : sval) (ar : list val) (kw : list (nat * val)) (s : state) : res * state :=
    let '(o, w, evs) := callv c (map shape ar) (shape_kw kw) (s_world s) in (lift o, log s evs w).

  (* the documented meaning of recurse(ar..., kw...) / call_next(ar..., kw...): call the function (resp. the next method)
     for these arguments -- bind as the entry point does, key by the types of the arguments, look the table up,
     call the entry with [slf] prepended *)
  Definition dispatch (nid : nat) (pre : list kpart) (slf : list val) (ar : list val) (kw : list (nat * val)) (s : state) : res * state :=
    match entry_bind ar kw with
    | None => (Raise XType, s)
    | Some (ar', kw') =>
        match tbl nid (pre ++ pos_key 0 ar' ++ kw_key kw') with
        | None => (Raise XNoMethod, s)
        | Some c => call_user c (slf ++ ar') kw' s
        end
    end.
  Definition self_list : list val := if a_method an then [inj mself] else [].

  (* ___MAP[(...)]: the key tuple as the rewritten code builds it *)
  Definition key_part (v : val) : option kpart :=
    match v with
    | VPrim (PCode c) => Some (KC c)
    | VPrim _ | VClos _ _ _ => None
    | _ => match shape v with
           | STy t => Some (KP t)
           | SSeq 1 [SStr k; STy t] => Some (KK (Some k) t)
           | SSeq 1 [SNone; STy t] => Some (KK None t)
           | _ => None
           end
    end.
  Fixpoint key_of (l : list val) : option (list kpart) :=
    match l with
    | [] => Some []
    | v :: r => match key_part v, key_of r with Some a, Some b => Some (a :: b) | _, _ => None end
    end.
  Definition subscript (v i : val) : res :=
    match v with
    | VPrim (PMap nid) => match i with
                    | VSeq 1 l => match key_of l with
                                  | Some key => match tbl nid key with Some c => Val (inj c) | None => Raise XNoMethod end
                                  | None => Raise XType
                                  end
                    | _ => Raise XType
                    end
    | _ => lift (getitem (shape v) (shape i))
    end.

  Definition call_prim (q : prim) (ar : list val) (kw : list (nat * val)) (s : state) : res * state :=
    match q with
    | PType => match ar, kw with [v], [] => (Val (VTy (typeof false (shape v))), s) | _, _ => (Raise XType, s) end
    | PSubtler => match ar, kw with [v], [] => (Val (VTy (typeof true (shape v))), s) | _, _ => (Raise XType, s) end
    | PRecurse => dispatch (p_id p) [] self_list ar kw s
    | PCallNext => dispatch (p_id p) [KC (p_code p)] self_list ar kw s
    | POvld i => (* the function object itself: in a class it is unbound, its first argument is self *)
        if a_method an then match ar with v :: r => dispatch i [] [v] r kw s | [] => (Raise XType, s) end
        else dispatch i [] [] ar kw s
    | PMap _ | PCode _ => (Raise XType, s)
    | PUnusable => (Raise XUsage, s)
    end.

  Definition evalT := list nat -> expr -> state -> option (res * state).
  Definition obind {A B} (m : option (outcome A * state)) (k : A -> state -> option (outcome B * state))
    : option (outcome B * state) :=
    match m with
    | None => None
    | Some (Raise x, s) => Some (Raise x, s)
    | Some (Val a, s) => k a s
    end.

  Section Ev.
    Variable cb : evalT.              (* evaluation of closure bodies (one unit of fuel lower) *)

    Definition apply_val (f : val) (ar : list val) (kw : list (nat * val)) (s : state) : option (res * state) :=
      match f with
      | VClos ps b fr =>
          match kw with
          | [] => if Nat.eqb (length ps) (length ar)
                  then cb (length (s_frames s) :: fr) b (push s {| f_comp := false; f_vars := combine ps ar |})
                  else Some (Raise XType, s)
          | _ => Some (Raise XType, s)
          end
      | VPrim q => Some (call_prim q ar kw s)
      | _ => Some (call_user (shape f) ar kw s)
      end.

    Fixpoint ev (rho : list nat) (e : expr) (s : state) {struct e} : option (res * state) :=
      match e with
      | EConst c => Some (Val (vconst c), s)
      | EName x => Some (match lookup_chain s rho x with Some v => Val v | None => Raise (XName x) end, s)
      | EAttr e1 a => obind (ev rho e1 s) (fun v s1 => Some (lift (getattr (shape v) a), s1))
      | EBin op a b =>
          obind (ev rho a s) (fun va s1 => obind (ev rho b s1) (fun vb s2 => Some (lift (binop op (shape va) (shape vb)), s2)))
      | EBool isor es => ev_bool isor rho es s
      | EIf c a b => obind (ev rho c s) (fun vc s1 => if truthy (shape vc) then ev rho a s1 else ev rho b s1)
      | ECall f ar kw =>
          obind (ev rho f s) (fun vf s1 =>
          obind (ev_args rho ar s1) (fun vs s2 =>
          obind (ev_kws rho kw s2) (fun ks s3 => apply_val vf vs ks s3)))
      | ENamed x e1 => obind (ev rho e1 s) (fun v s1 => Some (Val v, assign s1 rho x v))
      | ELam ps b => Some (Val (VClos ps b rho), s)
      | EComp elt x it conds =>
          (* the iterable is evaluated in the enclosing scope; element and conditions in the comprehension's frame *)
          obind (ev rho it s) (fun vi s1 =>
            match items vi with
            | None => Some (Raise XType, s1)
            | Some l =>
                let fid := length (s_frames s1) in
                (fix loop (l : list val) (acc : list val) (s : state) {struct l} : option (res * state) :=
                   match l with
                   | [] => Some (Val (VSeq 0 (rev acc)), s)
                   | v :: l' =>
                       obind (ev_conds (fid :: rho) conds (bind_in s fid x v)) (fun ok s' =>
                         if (ok : bool)
                         then obind (ev (fid :: rho) elt s') (fun ve s'' => loop l' (ve :: acc) s'')
                         else loop l' acc s')
                   end) l [] (push s1 {| f_comp := true; f_vars := [] |})
            end)
      | EFstr parts => obind (ev_list rho parts s) (fun vs s1 => Some (Val (inj (fmt (map shape vs))), s1))
      | EEffect tag e1 => obind (ev rho e1 s) (fun v s1 => Some (Val v, log s1 [(tag, shape v)] (s_world s1)))
      | ETuple es => obind (ev_list rho es s) (fun vs s1 => Some (Val (VSeq 1 vs), s1))
      | ESub a i => obind (ev rho a s) (fun va s1 => obind (ev rho i s1) (fun vi s2 => Some (subscript va vi, s2)))
      end
    (* and: the first falsy value, else the last; or: the first truthy value, else the last *)
    with ev_bool (isor : bool) (rho : list nat) (es : exprs) (s : state) {struct es} : option (res * state) :=
      match es with
      | ENil => Some (Val VNone, s)
      | ECons e r =>
          match r with
          | ENil => ev rho e s
          | ECons _ _ => obind (ev rho e s) (fun v s1 =>
                           if Bool.eqb (truthy (shape v)) isor then Some (Val v, s1) else ev_bool isor rho r s1)
          end
      end
    with ev_list (rho : list nat) (es : exprs) (s : state) {struct es} : option (outcome (list val) * state) :=
      match es with
      | ENil => Some (Val [], s)
      | ECons e r => obind (ev rho e s) (fun v s1 => obind (ev_list rho r s1) (fun vs s2 => Some (Val (v :: vs), s2)))
      end
    with ev_conds (rho : list nat) (es : exprs) (s : state) {struct es} : option (outcome bool * state) :=
      match es with
      | ENil => Some (Val true, s)
      | ECons e r => obind (ev rho e s) (fun v s1 => if truthy (shape v) then ev_conds rho r s1 else Some (Val false, s1))
      end
    (* positional arguments left to right, *e unpacked in place *)
    with ev_args (rho : list nat) (a : args) (s : state) {struct a} : option (outcome (list val) * state) :=
      match a with
      | ANil => Some (Val [], s)
      | ACons star e r =>
          obind (ev rho e s) (fun v s1 =>
            if star
            then match items v with
                 | None => Some (Raise XType, s1)
                 | Some l => obind (ev_args rho r s1) (fun vs s2 => Some (Val (l ++ vs), s2))
                 end
            else obind (ev_args rho r s1) (fun vs s2 => Some (Val (v :: vs), s2)))
      end
    (* keyword values after the positionals, left to right, **e unpacked in place *)
    with ev_kws (rho : list nat) (a : kws) (s : state) {struct a} : option (outcome (list (nat * val)) * state) :=
      match a with
      | KNil => Some (Val [], s)
      | KCons o e r =>
          obind (ev rho e s) (fun v s1 =>
            match o with
            | Some k => obind (ev_kws rho r s1) (fun ks s2 => Some (Val ((k, v) :: ks), s2))
            | None => match unpack_dict v with
                      | None => Some (Raise XType, s1)
                      | Some l => obind (ev_kws rho r s1) (fun ks s2 => Some (Val (l ++ ks), s2))
                      end
            end)
      end.
  End Ev.

  (* fuel = depth of nested closure calls *)
  Fixpoint eval (n : nat) : evalT :=
    match n with
    | 0 => ev (fun _ _ _ => None)
    | S m => ev (eval m)
    end.

  (* straight-line bodies: None = fell off the end *)
  Fixpoint exec (n : nat) (rho : list nat) (b : list stmt) (s : state) : option (outcome (option val) * state) :=
    match b with
    | [] => Some (Val None, s)
    | SExpr e :: r => obind (eval n rho e s) (fun _ s1 => exec n rho r s1)
    | SAssign x e :: r => obind (eval n rho e s) (fun v s1 => exec n rho r (assign s1 rho x v))
    | SReturn e :: _ => obind (eval n rho e s) (fun v s1 => Some (Val (Some v), s1))
    end.
End Sem.
